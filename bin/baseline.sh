#!/bin/bash
# Runs the repository's test suite (no build tags: there are no hooks) and
# compares the result with /root/.vp/BASELINE.json's stable_pass list.
# exit 0 iff every stable_pass test passes.
export GOPROXY=off GOSUMDB=off GOTOOLCHAIN=local
unset GOWORK
REPO=${VERIF_REPO:-/repo}
OUT=$(mktemp)
( cd "$REPO/go" && go test -mod=mod -json -vet=off -count=1 -timeout 25m ./... ) > "$OUT" 2>/dev/null
python3 - "$OUT" <<'PY'
import json,sys
passed=set()
for l in open(sys.argv[1]):
    try: e=json.loads(l)
    except Exception: continue
    if e.get('Action')=='pass' and e.get('Test'):
        passed.add(e['Package']+'::'+e['Test'])
base=json.load(open('/root/.vp/BASELINE.json'))['stable_pass']
missing=[t for t in base if t not in passed]
print("baseline: %d stable tests, %d passed now, %d missing" % (len(base), len(base)-len(missing), len(missing)))
for t in missing: print("MISSING", t)
sys.exit(1 if missing else 0)
PY
rc=$?
rm -f "$OUT"
exit $rc
