#!/usr/bin/env python3
"""migrate-guards.py 'fn|site' ...  — rewrites the signature column of tables/guards.tsv for the given
function+site keys from the checker's current description (after a change of the description
language that leaves the decisions alone).  Rows of a key keep props and reason; the number of
rows per key must not change.  Review `git diff tables/guards.tsv` afterwards."""
import subprocess, os, sys
specs = sys.argv[1:]
env = dict(os.environ, FN=";".join(specs))
out = subprocess.run(["bin/nscheck", "-dump", "guardrows"], env=env, capture_output=True, text=True).stdout
new = {}
for l in out.strip().split("\n"):
    f = l.split("\t")
    if len(f) >= 3:
        new.setdefault((f[0], f[1]), []).append(f[2])
rows = open("tables/guards.tsv").read().split("\n")
idx = {}
for i, l in enumerate(rows):
    f = l.split("\t")
    if len(f) >= 5 and (f[0], f[1]) in new:
        idx.setdefault((f[0], f[1]), []).append(i)
for k, ii in idx.items():
    cur = sorted(new[k])
    if len(cur) != len(ii):
        print("count differs, skipped:", k, len(ii), len(cur)); continue
    old = sorted(ii, key=lambda i: rows[i].split("\t")[2])
    for i, sig in zip(old, cur):
        f = rows[i].split("\t"); f[2] = sig; rows[i] = "\t".join(f)
    print("migrated", k, len(ii))
open("tables/guards.tsv", "w").write("\n".join(rows))
