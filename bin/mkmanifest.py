#!/usr/bin/env python3
"""Generates /verif/MANIFEST.json from the table below (kept in one place so that
claims, levels and not_applicable reasons stay consistent with DESIGN.md)."""
import json, os, sys

V = os.path.dirname(os.path.dirname(os.path.abspath(__file__)))

# id -> (level, technique, level text, level note, design ref)
CLAIMS = {
 "C01": ("other",
   "guard-set comparison, mark/flag/side discipline, loop-state, counter and must-call analyses on go/ssa of the Cisco planner, merger and parser (packages cisco, asa), table-driven",
   "Does NOT decide convergence (that needs executing the emitted script on a device model). Decides, on every run, the structural necessary conditions the ASA planner rests on: HasChanges/ShowChanges/ApplyCommands read the change list GetChanges stores; every audited decision of the planner, merger and parser (reuse / edit in place / transfer under a fresh name / delete; where ACL lines are inserted, moved, deleted; object-group equalisation; crypto map pairing by peer) keeps its audited controlling conditions; every store into the marks needed / ready / toDelete, into names and sequence numbers, into the compared text `parsed` and into the configuration-mode variable lies at an audited site; the planner's phases run on every path; flags that choose between incremental change and full replacement are set under their audited conditions; no unaudited state crosses loop iterations; fresh sequence numbers come from a counter advanced after every hand-out; equality predicates are symmetric; the normalisers of device syntax (named ports, host masks, log levels, defaults) work with exactly their audited constants; moves are one joined line; delete/insert lists are filled in one ascending pass.",
   "Trusted: go/ssa, call graph; the audited rows of the tables are the intended decisions (each carries its reason). Not decided: Myers diff results, line-number arithmetic as computed values, equivalence of the final device configuration.",
   "DESIGN.md section 8.8"),
 "C02": ("other",
   "guard-set comparison, mark/flag/side discipline, loop-state, counter and must-call analyses on go/ssa of the Cisco planner, merger and parser (packages cisco, ios), table-driven; constant agreement of the IOS numbering; path rule for the dropped-move returns of moveACL (controlled by equality of the two printed lines)",
   "Does NOT decide convergence (needs a device model). Decides the same structural necessary conditions as C01 for IOS (change-list agreement; audited decisions incl. permit/deny block marking, insideBlock, VRF alignment and interface checks; mark, flag and mode-variable discipline; phases on every path; loop state incl. the sticky all-lines-so-far flags; block numbers from a running counter; symmetric predicates; normaliser constants incl. sequence-number stripping) and additionally that the resequence step, the multipliers of inserted and deleted line numbers and the too-many-lines bound are one integer, and that moves are one joined delete+add line.",
   "Trusted: go/ssa, call graph; the audited rows of the tables. Not decided: the arithmetic before*10000+i+1 on run-time values, the filtering behaviour of the resulting ACLs.",
   "DESIGN.md section 8.8"),
 "C10": ("other",
   "call-graph reachability (VTA) from every T.GetChanges to file/environment/status readers; constant inspection of the PAN-OS configuration request; guard-set comparison and must-call analysis on go/ssa for the name generators, left-over reuse and clean-up phases; command-provenance evaluation of every save / commit text against audited templates",
   "Does NOT decide that a resumed approve converges (needs the device state after every prefix of a script, i.e. execution on a device model). Decides the mechanisms the property names: every planner decision is recomputed from the two configurations only (nothing reachable from GetChanges reads files, environment or earlier status); PAN-OS reads the candidate configuration (action=get), so uncommitted edits of an interrupted run are seen; fresh names/ids are tested against the names on the device, identical left-over groups are taken over only when not already needed, deletion candidates are the not-needed objects with generated names, each under its audited conditions; the clean-up phases (removeUnusedServices/Groups, removeUnneededObjects, deleteUnused) run on every path of the planner.",
   "Trusted: go/ssa, VTA call graph; the audited rows of tables/guards.tsv and tables/phases.tsv.",
   "DESIGN.md section 8.8"),
 "C06": ("other",
   "call-graph reachability with gated call sites removed (VTA), dominance on go/ssa, inter-procedural command-provenance evaluation against a read-only allow-list",
   "Structural clause set of the property decided on every run from /repo's source: every call path to an ApplyCommands implementation passes the GetErrUnmanaged gate; the gate returns what the marker checks recorded; hostname/marker/HA checks dominate every successful load; the configuration the checks consult is the loaded one or a whole copy of it (never a field-by-field copy that drops the banner pattern); the optional banner is nil-safe; every command that can be sent outside the apply region is allow-listed read-only. 'other' rather than 'proof' because one genuine defect (Linux marker finding never reaches the gate) is pinned by the unedited test-suite and recorded as a known finding.",
   "Trusted: go/ssa + VTA call graph soundness for this module (no reflect/unsafe/cgo/linkname, asserted), the ~20 allow-listed commands are read-only, the predicates inside the checks are the right ones.",
   "DESIGN.md section 4 C06"),
 "C11": ("proof",
   "call-graph reachability (VTA) with mode-gated call sites removed, dominance on go/ssa, inter-procedural command-provenance evaluation against a read-only allow-list; audited table of the value-taking command-line options of the front-ends",
   "Proof of the structural statement: no ApplyCommands implementation is reachable on the compare path; every path to one lies on the false edge of the compare flag, which callers bind to --compare / the verb 'compare'; every command pattern that can reach a device primitive outside the apply region is in the frozen read-only allow-list (the ASA terminal-width trio being the property's documented exception); the one thing typed outside that list, the password of the login dialogue, is typed only at the audited sites under the audited conditions (the device has asked for the login / enable password), so it cannot be taken as the answer to another question. All obligations are discharged on every run.",
   "Trusted: call-graph soundness (asserted: no reflect/unsafe/cgo/linkname), read-only-ness of the allow-listed commands themselves; the audited password-prompt conditions of tables/guards.tsv (R11.p).",
   "DESIGN.md section 4 C11"),
 "C12": ("proof",
   "gated call-graph reachability (VTA, one level of constant-argument context), dominance and def-use on go/ssa",
   "Proof of the structural statement, modulo flock semantics: one lock function with LOCK_EX|LOCK_NB on <configured dir>/lock/base(<device argument>); in both front-ends every call path from an entry point to any effect (file create/write/rename/remove, ssh spawn, device send, HTTP request, process start) passes the success edge of the lock call; the lock handle is kept alive by a deferred Close only; a failed flock is returned as error; nothing in the repository (the shell scripts under bin/, os.Remove/RemoveAll/Rename in the Go code) removes or renames entries of the lock directory (one genuine defect found by this rule, the cron job delete-old-policies unlinking held lock files, was repaired: fix e3ca12d). All obligations discharged on every run.",
   "Trusted: flock(2) semantics (exclusive, released by the kernel at process exit/kill), call-graph soundness, effect classification at the module/library boundary (table in c12.go). Not decided: interleavings themselves, NFS, removal of a held lock file by programs outside the repository.",
   "DESIGN.md section 4 C12"),
 "C16": ("proof",
   "effect-kind classification of every map range on go/ssa with inter-procedural write/emit summaries; table-driven kind-restricted exemptions; AST scans for goroutines/select/random/clock/%p",
   "Proof that no output-relevant computation depends on hash-map iteration order or other nondeterminism sources: every `range` over a map (enumerated exhaustively, SSA and AST counts must agree) has only order-insensitive effect kinds or an audited exemption permitting exactly the named kinds; map iterators feed only sorting collectors; no goroutine, select, random source, %p; the clock is confined to mytime.Now and its log/history/status callers; the table invariant behind one exemption (ANCHOR uniform per prefix) is checked on the cmdInfo literals. All obligations discharged on every run (five genuine nondeterminisms found by this rule were repaired by fix: commits).",
   "Trusted: sort/slices/maps.Keys+Sorted deterministic; distinct entries of one map do not alias; library functions not listed as writers do not write through arguments. Error-message text and info lines are outside the property's statement (scripts, warnings, exit status).",
   "DESIGN.md section 4 C16, E3"),
 "C19": ("other",
   "structural rules (ordering, who-may-write, call context, recognised arithmetic idiom) on bash's own parse (`declare -f` dump) of bin/newpolicy.sh and the sibling shell scripts; nothing is executed",
   "Necessary structure of the property decided on every run: the lock descriptor is opened and flock'ed (exclusive, non-blocking) before anything else, `main` is the only top-level command that can touch the database (traps and pure builtins aside), a trap for a real signal ignores it or ends the run, and the lock descriptor is never unlocked, closed or re-opened afterwards; the POLICY number is committed and pushed before the directory is renamed; no script under bin/ can remove the lock file (one genuine defect found by this rule, delete-old-policies unlinking an old but held LOCK, was repaired: fix 7b38b9c); `current` is written only in handle_success, which is called only on the success branch of the compiler invocation; the rename of `next` precedes the link switch and the link targets $POLICY (rm + ln -s, or the atomic ln -sfn tmp + mv -T); the next number is max(POLICY file, link)+1. It does not decide the semantic outcome at each kill point, flock semantics or the arithmetic on strings read at run time.",
   "Trusted: bash's parser/pretty-printer; documented semantics of rm/ln/mv/flock. Non-shell scripts under bin/ are listed as not analysed.",
   "DESIGN.md section 4 C19, E8"),
 "C13": ("other",
   "def-use and dominance analysis on go/ssa of both sides of the status file: constants with the polarity of the writer's bool parameter vs. the reader's switch cases and what each case feeds into the device-policy variable; must-pass (post-dominance) search in do-approve",
   "Decides the structural core: writer and reader agree on every status constant and its meaning (success accepted with its policy, failure not accepted, UPTODATE accepted, DIFF lists, sticky DIFF with the approved-since exception, compare consulted only when later than the accepted approve); the reader cannot abort and lists the zero value; all parts (code, ipv6, raw, bz2) are compared; in do-approve every path after the session updates the status and writes END:, and FAILED/return 1 derive exactly from the session result; the recorded policy is a parameter of the status writer and derives from the same resolution of `current` as the code file handed to the session; both sides of the code comparison are whole file contents; the log-line prefixes do-approve parses are produced and the info channel cannot be switched off from do-approve; every part is compared in every iteration; package status reads and writes only the device's status file (no backup copy that could be older than the latest observation); a failed approve resets an older compare verdict (one genuine defect found by this rule was repaired, fix: 4a58555). Not decided: sufficiency of the two-slot encoding over all histories.",
   "Trusted: go/ssa; shared struct type makes field names agree. Histories, clocks and file removal are runtime matters.",
   "DESIGN.md section 4 C13"),
 "C09": ("other",
   "dominance / def-use (taint) / immediate-control-dependence analysis on go/ssa in the session code; failure-edge exploration; call-chain checks on the VTA call graph; table-driven error discipline",
   "Decides the structural core for every device type on every run: each raw send of a change command is followed by validation of the device's answer (both halves of a joined line; exit status on Linux); every error returned inside the apply region and the console layer ends the phase on its failure edge (no break/continue that goes on sending, no dropped error outside the audited table; a helper used in a deferred closure hands the pending error back on every path); save/commit is a plain call at every level, nothing sends after it, no recover() can swallow an abort, and the device's reply to the save is positively confirmed; the abort machinery, exit status, status file and history derive from the session result; all waits are finite. Not decided: position-k fault behaviour as executed, device timing.",
   "Trusted: go/ssa, call graph, goexpect reports time-out/EOF as error, panic unwinding semantics, the exempt rows of tables/err_exempt.tsv (each with a written reason).",
   "DESIGN.md section 4 C09, E6"),
 "C15": ("other",
   "typestate / ordering rules by dominance and reachability on go/ssa of package ios (who-may-call of the change sender over the call graph, stores to the reloadActive flag, def-use chain banner-strip -> echo check, accumulation of the re-arm flag; call-graph reachability of the echo check from every console call inside the reload window)",
   "Decides the structural core on every run: every IOS change command is sent by the one sender whose call sites are all dominated by arming the reload and a deferred cancel; configuration mode lies inside the guard; write memory is a plain call after the guarded function returned (cancel has run), nothing is sent in between; reloadActive is raised/lowered only where reload in N / reload cancel are sent; banners are stripped before the echo check; after waiting for the asynchronous SHUTDOWN ABORTED text the prompt behind it is consumed before the next command is sent; the commands and patterns of the reload dialogue are among the audited ones (the extra prompt is awaited at the end of the buffer); the one-minute matcher accepts both spellings IOS prints and the one-minute verdict derives from the stripped banner and is accumulated over both halves of a joined command and triggers the re-arm; the device's answer to both halves of every change command decides over the abort on every path (the verdict is not overwritten), so write memory is not reached after a rejected command. One genuine defect found by this rule was repaired (fix: 6536eea). Not decided: all byte offsets of an asynchronous banner.",
   "Trusted: go/ssa, call graph; banner forms are those bannerRe matches.",
   "DESIGN.md section 4 C15"),
 "C03": ("other",
   "field-access sets on go/ssa over call-graph closures (change-state agreement R-HC, object-kind completeness R-FC), inter-procedural string-pattern evaluation of every emitted PAN-OS command (escaping), guard-set tables for decision sites and for every store into a planner mark, accumulator-growth rule, loop-carried-state (header phi) audit",
   "Only the structural part of convergence is decided: the change list stored by GetChanges is what HasChanges/ShowChanges/ApplyCommands read; MergeSpoc merges every object kind of a vsys (rules, addresses, address-groups, services, service-groups) and the transfer/remove phases visit all four object kinds; every non-constant part of an emitted command is URL-escaped; the unique-name decisions and every store into the marks needed / nameOnDevice keep their audited controlling conditions; collected commands are never truncated or dropped; no unaudited state crosses loop iterations; every two-operand equality predicate treats its operands alike (no subset test passing as equality); every part of an emitted command comes from the audited side of the device/target pair (an in-place edit addresses the device object and carries the target's content); every comparator (rules, addresses, services, protocols, ports, groups) reads every exported field of the compared type or the field is exempt with a reason. Convergence of the rule/member diff itself (executing the commands on an XML tree) is NOT decided — that needs a device model. Two genuine defects found by these rules were repaired (fix: e7da768, 904a6b3).",
   "Trusted: go/ssa, call graph. Explicitly not covered: Myers-diff position logic, incremental-vs-replace heuristic, group reuse.",
   "DESIGN.md section 4 C03-C05"),
 "C04": ("other",
   "field-access sets on go/ssa over call-graph closures (R-HC, R-FC) for package nsx; guard-set tables for decision sites and for every store into a planner mark; accumulator-growth rule; loop-carried-state audit",
   "Only the structural part of convergence is decided: change-state agreement between GetChanges, HasChanges, ShowChanges and ApplyCommands; MergeSpoc merges policies, groups and services and the planner reads all three kinds of both configurations; unique-id generation and every store into needed / nameOnDevice keep their audited controlling conditions (a device group is taken over only if not already needed); collected requests are never dropped; the planner's phases (incl. the final removal of unused services and groups) run on every path; no unaudited state crosses loop iterations; the parts of every request URL and body come from the audited side of the device/target pair (the URL of an in-place group edit names the device group and the device's expression id); the group predicate of the rule comparator is symmetric; the rule comparator (or a comparison key built from a rule) takes every exported field into account. Convergence of rule/group equalisation is NOT decided (needs executing the REST calls on a manager model).",
   "Trusted: go/ssa, call graph.",
   "DESIGN.md section 4 C03-C05"),
 "C05": ("other",
   "field-access sets on go/ssa incl. trigger sub-fields of the struct-valued change (R-HC), R-FC for package linux; guard-set table for the route decisions; loop-carried-state (header phi) audit of the parsers",
   "Only the structural part is decided: every sub-field of the change that ApplyCommands acts on (routes, iptables) is read by HasChanges and ShowChanges — necessary for 'no change is reported only for an equivalent device' and invisible to drc FILE1 FILE2 tests; MergeSpoc and diffConfig handle both iptables and routes; the route delete/replace decisions keep their audited conditions; the iptables normaliser equates spellings only under its audited conditions, with its audited operations and constants, and every conditional rewrite of a parsed value to a constant in the Linux parsers is audited; in the iptables/route parsers no unaudited variable keeps its value from one loop iteration to the next (a per-option flag without reset changes what is compared); no Trim cutset is a suffix mistaken for a character set; the option maps of two rules are compared behind a symmetric key-set check; no effectful call is skipped by short-circuit evaluation on a sibling call. Normaliser equivalence and route replacement semantics are NOT decided.",
   "Trusted: go/ssa, call graph.",
   "DESIGN.md section 4 C03-C05"),
 "C07": ("other",
   "guard-set analysis (all controlling conditions of a site, normalised, from go/ssa dominance) compared with an audited table; inter-procedural string-pattern evaluation of PAN-OS commands; guard check of the NSX load filter; language inclusion / overlap of the cmdInfo templates read from the string literal (first-match order, ignore entries)",
   "Decides named necessary conditions of the frame property: NSX objects enter the model only under HasPrefix(id, \"Netspoc\"); every PAN-OS command's xpath is rooted at /config/devices/entry[..]/vsys/entry[..] of the targeted vsys; the Cisco protection sites (markNeeded for unknown interfaces / unmanaged VRFs, deletion-candidate test, the walk protecting everything an unmanaged object references, deletion only when unreferenced, no change for aaa-server / ldap attribute-map / interface, routes deleted only where the target has routes) are controlled by exactly their audited conditions, and every store into the marks needed / ready / toDelete of package cisco lies at an audited site; the Cisco parser's line state (previous command, first-sub-command flag, indentation) is replaced exactly under its audited conditions, so lines of an unmodelled command are not attached to a modelled one; maps from a name to its commands are filled by accumulation (one genuine defect found by this rule was repaired, fix: e648ceb). The whole-device frame condition for arbitrary unmanaged content is NOT decided.",
   "Trusted: go/ssa, call graph, the audited guard sets of tables/guards.tsv (each row with its reason).",
   "DESIGN.md section 4 C07"),
 "C08": ("other",
   "ordered-phase rules by reachability within loop iterations on go/ssa; who-may-call and store enumeration for config-mode bookkeeping; constant agreement; string-pattern evaluation (must-pass-sanitiser); guard-set table",
   "Decides necessary conditions of 'executable when sent': create-before-use and delete-after-last-use phase orders in the PAN-OS, NSX and Cisco planners; every emission goes through the helpers that maintain the configuration mode (two audited exceptions followed by a helper); the IOS numbering constants (resequence step, multipliers, insert bound) are one integer; fresh crypto map sequence numbers come from a counter that is advanced after every hand-out; the configuration-mode variable is changed only by the emitting helpers; the flags that choose between incremental change and full replacement are set exactly under their audited conditions; every non-constant part of a PAN-OS command is URL-escaped; the deletion-dependency conditions are the audited ones; every store into a planner mark (PAN-OS, NSX, Cisco) lies at an audited site with its audited conditions (marks decide which objects are created before the rules that use them); no unaudited loop-carried state in the Cisco parser/planner. Referential validity of a concrete script is NOT decided.",
   "Trusted: go/ssa, call graph, audited guard rows.",
   "DESIGN.md section 4 C08, Appendix B"),
 "C14": ("other",
   "ordered-phase rules by reachability within loop iterations on go/ssa (insert/move before reverse before delete; resequence first/last; routes add before delete; sort before compare); store-vs-use phase rule for the IOS block marking; value-shape rule for joined delete+add lines and path rule (no path from an add inside moveACL to the return avoids the join); single-pass fill rule for the delete/insert lists; loop-carried-state audit",
   "Decides the order skeleton that the safety argument rests on: in both ACL planners every insert/move precedes the reversal of the delete list, which precedes every delete, and the reversed list is the one walked; IOS resequence brackets all numbered commands; the block-id marking is complete before any move decision and block numbers (also of split-off parts) come from a running counter; the flags that send an ACL to full replacement instead of the incremental planner keep their audited conditions; route inserts/replacements precede deletes for Cisco and Linux, routes are sorted more-specific-first before comparison; moves and same-destination route replacements are one joined line; the delete list (and the ASA insert list) is filled in one pass over the ascending diff ranges, so reversing it is bottom-up. Packet-level verdicts of intermediate ACLs are NOT decided.",
   "Trusted: go/ssa, call graph.",
   "DESIGN.md section 4 C14, Appendix B"),
 "C18": ("other",
   "field-access completeness (R-FC) for the merge functions, table-driven error discipline in merge code, nil-edge analysis of template matching (raw strictness), clamp check of the APPEND index, call-order check of loadSpoc",
   "Decides structural parts: every object kind of every device family is merged; no error is dropped in merge code; v4, v6 and raw are loaded and merged in that order with the right operands; an unknown top-level command in a raw file is an error (the sub-command level is a recorded known finding); the backwards search for the last permit line is clamped before it is used as slice bound (the documented boundary case, repaired by fix: 9b28a4b). Positions of prepend/append inside merged lists are NOT decided.",
   "Trusted: go/ssa, call graph, tables/err_exempt.tsv.",
   "DESIGN.md section 4 C18"),
 "C17": ("other",
   "inter-procedural, label-aware taint analysis on go/ssa with label-polymorphic summaries (parameter->result/sink/field), field-based heap, flow-sensitive mutable containers, URL->error model for net/http, masking regexps as sanitisers",
   "Decides on every run that no password, API key or session token flows from its sources to any log/history/status/stdout/stderr sink on any path through the module, including failure paths where a transport error embeds the request URL and a module RoundTripper that sees the whole request; sanitisers are recognised by their pattern and replacement. The libraries that carry the secrets are never switched to tracing (goexpect Verbose/Tee, httputil dumps), and every place that types a password into a console session lies at an audited site whose conditions say that the device asked for one (one genuine leak found this way, the enable dialogue, was repaired: fix 042d3ca). 'other' rather than 'proof' because one genuine leak (API key in the error of httpPrefixGetLog) is pinned by the unedited test-suite and recorded as a known finding; any other (label, origin, sink) triple is reported.",
   "Trusted: go/ssa, call graph; library functions propagate taint from arguments to results and do not log by themselves; *url.Error contains URL and method only. Not decided: a device echoing a secret back.",
   "DESIGN.md section 4 C17, E4"),
 "C20": ("other",
   "enumeration of crash obligations: explicit panics (go/ssa), the bounds checks the Go compiler's prove pass cannot eliminate (-d=ssa/check_bce with a build overlay, both toolchains in the thorough tier) mapped to AST expressions and compared as a multiset with an audit table, nil-guard dominance rule for nillable sources, type-assertion audit, acyclicity of the reference graph read from the cmdInfo literals",
   "Does NOT prove crash-freedom. It decides, on every run, that every potential crash site in the code that handles input files is either proved safe by the compiler, covered by a written invariant in an audit table (with machine checks for the NSX singleton invariant — that the validity check runs on every parse and that it rejects an empty list for each of the four fields —, the compile-time tables, guards on captured slices), or an explicitly listed known finding (31 today, each reproduced with drc; three more were repaired by fix: commits; pointers decoded by address count as nillable; writes into maps that may be nil are residuals of their own) — so that a new unproven index expression, a removed guard, a new panic, a new unguarded nillable dereference or a reference cycle cannot appear unnoticed.",
   "Trusted: soundness of the Go compiler's bounds-check elimination; go/ssa; the invariants I1..I6 written in tables/bounds_audit.tsv. Hangs are covered only for the recursive walkers (R20.5).",
   "DESIGN.md section 4 C20, E5"),
}

NOT_APPLICABLE = {}

def main():
    props = [json.loads(l)["id"] for l in open(os.path.join(V, "properties.jsonl"))]
    checks = []
    for pid in props:
        if pid in CLAIMS:
            level, tech, text, note, ref = CLAIMS[pid]
            checks.append({
                "property_id": pid,
                "quick_cmd": "bin/check %s quick" % pid,
                "thorough_cmd": "bin/check %s thorough" % pid,
                "evidence_file": "/verif/evidence/%s.json" % pid,
                "replay_cmd_template": "bin/check %s quick  # static: re-derives the obligation in {path} from the current source" % pid,
                "engine": "nscheck" if pid != "C19" else "c19.py",
                "level_claimed": {"category": level, "text": text, "design_ref": ref},
                "level_note": note,
                "technique": "static analysis: " + tech,
            })
    na = []
    for pid in props:
        if pid not in CLAIMS:
            reason = NOT_APPLICABLE.get(pid)
            if reason is None:
                reason = "No static check is registered for this property yet in this revision of /verif (see DESIGN.md section 5a, build order)."
            na.append({"property_id": pid, "reason": reason})
    m = {
        "version": 1,
        "setup_cmd": "bin/build",
        "hooks": {
            "guard": "verif",
            "enable": "none: static analysis needs no instrumentation of /repo; no hook commits exist",
            "baseline_off_cmd": "bin/baseline.sh",
            "source_commits": [],
            "add_only": True,
        },
        "engines": [
            {"name": "nscheck", "path": "checker/", "serves_properties": [p for p in props if p in CLAIMS and p != "C19"],
             "kind_free_text": "repository-specific static analyser on go/packages + go/ssa + VTA call graph (golang.org/x/tools v0.29.0); rules in checker/c*.go, frozen instance tables in tables/*.tsv"},
            {"name": "c19.py", "path": "shell/c19.py", "serves_properties": [p for p in props if p == "C19" and p in CLAIMS],
             "kind_free_text": "structural rules on bash's own parse (declare -f) of bin/newpolicy.sh; nothing is executed"},
        ],
        "checks": checks,
        "not_applicable": na,
        "notes": "Technique family: static analysis only. Every check loads /repo's current working tree, reports file:line + rule + construct for violations, prints KNOWN-FINDING lines for entries of known_findings.txt and exits 0 for them.",
    }
    json.dump(m, open(os.path.join(V, "MANIFEST.json"), "w"), indent=1)
    print("MANIFEST.json: %d checks, %d not_applicable" % (len(checks), len(na)))

main()
