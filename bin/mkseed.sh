#!/bin/bash
# usage: mkseed.sh C06-d
n=$1; id=${n%-*}; wt=/tmp/wt/$n; out=/tmp/wt/out-$n
git -C /repo worktree add -q --detach $wt HEAD; mkdir -p $out
python3 - "$id" "$wt" "$out" > /tmp/wt/prompt-$n.txt <<'PY'
import sys, json, glob
id, wt, out = sys.argv[1:4]
prop = None
for l in open('/verif/properties.jsonl'):
    j = json.loads(l)
    if j['id'] == id: prop = j
t = open('/verif/seeded/PROMPT.txt').read()
t = t.replace('@WT@', wt).replace('@OUT@', out).replace('@PROP@', json.dumps(prop, indent=1))
prev = []
for f in sorted(glob.glob('/verif/seeded/%s-*/meta.json' % id)):
    m = json.load(open(f))
    d = m.get('change') or m.get('needs_to_manifest')
    prev.append('- ' + d)
if prev:
    t += "\nFor diversity: earlier evaluators already produced the following changes for this property. Do not repeat them or close variants of them; choose a different mechanism, a different site in the code, and if possible a different device type or component:\n" + "\n".join(prev) + "\n"
print(t)
PY
