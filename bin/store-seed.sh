#!/bin/bash
# usage: store-seed.sh NAME CAUGHT_FIRST(true|false) "EXPECT-KEY[,KEY2]" "CAUGHT_BY(C05[,C03])" "change" "needs to manifest"
# copies /tmp/wt/out-NAME (patch.diff, README.md, demo/) into seeded/NAME and writes meta.json
set -eu
N=$1; OUT=/tmp/wt/out-$N; D=/verif/seeded/$N
rm -rf "$D"; mkdir -p "$D"
cp "$OUT/patch.diff" "$OUT/README.md" "$D/"; cp -r "$OUT/demo" "$D/demo"
python3 - "$@" <<'PY'
import json,sys
n,first,exp,by,change,needs=sys.argv[1:7]
m={"property":n.split('-')[0],"change":change,"needs_to_manifest":needs,"caught_by":by.split(','),"expect":exp.split(','),
   "caught_first_time":first=="true","origin":"independent sub-agent given only the property text and a scratch worktree",
   "ran":"bin/verify-seed.sh: build ok, baseline 676/676 with the change, demonstration fails with the change and passes without"}
json.dump(m,open('/verif/seeded/%s/meta.json'%n,'w'),indent=1)
PY
echo stored $D
