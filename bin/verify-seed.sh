#!/bin/bash
# usage: verify-seed.sh NAME OUTDIR DEMO_SRC DEMO_DST_REL "DEMO_CMD (run in <wt>/go)"
# Confirms a seeded change: compiles, whole existing suite unchanged, demo fails with the
# change and passes without it.  Works in a scratch worktree under /tmp, removed afterwards.
set -u
NAME=$1; OUT=$2; DEMO_SRC=$3; DEMO_DST=$4; DEMO_CMD=$5
export GOFLAGS=-mod=mod GOPROXY=off GOSUMDB=off GOTOOLCHAIN=local; unset GOWORK
WT=/tmp/seedv/$NAME
rm -rf "$WT"; mkdir -p /tmp/seedv
git -C /repo worktree add -q "$WT" HEAD || exit 2
trap 'git -C /repo worktree remove --force "$WT" >/dev/null 2>&1' EXIT
git -C "$WT" apply "$OUT/patch.diff" || { echo "RESULT $NAME: patch does not apply"; exit 1; }
( cd "$WT/go" && go build ./... ) || { echo "RESULT $NAME: does not compile"; exit 1; }
VERIF_REPO="$WT" /verif/bin/baseline.sh > /tmp/seedv/$NAME.baseline 2>&1; B=$?
tail -1 /tmp/seedv/$NAME.baseline
mkdir -p "$(dirname "$WT/$DEMO_DST")"; cp -r "$DEMO_SRC" "$WT/$DEMO_DST"
# further demo files: EXTRA="src1:dst1 src2:dst2" (dst relative to the repo root)
for pair in ${EXTRA:-}; do mkdir -p "$(dirname "$WT/${pair#*:}")"; cp -r "${pair%%:*}" "$WT/${pair#*:}"; done
( cd "$WT/go" && eval "$DEMO_CMD" ) > /tmp/seedv/$NAME.demo-with 2>&1; W=$?
git -C "$WT" apply -R "$OUT/patch.diff"
( cd "$WT/go" && eval "$DEMO_CMD" ) > /tmp/seedv/$NAME.demo-without 2>&1; O=$?
echo "RESULT $NAME: baseline_rc=$B demo_with_change_rc=$W demo_without_change_rc=$O"
[ $B = 0 ] && [ $W != 0 ] && [ $O = 0 ]
