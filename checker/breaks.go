package main

// R-X, second half: early ends of loops.
//
// A `break` (or a jump to the end of an enclosing loop) under a condition skips the
// remaining passes of the loop -- the remaining rules of a chain that is compared, the
// remaining lines of a list that is transferred.  Every such exit is audited with its
// controlling conditions (tables/breaks_audit.tsv), per function, as a multiset.

import (
	"fmt"
	"sort"
	"strings"

	"golang.org/x/tools/go/ssa"
)

type loopInfo struct {
	Header *ssa.BasicBlock
	Body   map[*ssa.BasicBlock]bool
	Done   map[*ssa.BasicBlock]bool // successors of the header outside the loop
}

func naturalLoopsOf(fn *ssa.Function) []*loopInfo {
	byHeader := map[*ssa.BasicBlock]*loopInfo{}
	var out []*loopInfo
	for _, b := range fn.Blocks {
		for _, h := range b.Succs {
			if !h.Dominates(b) {
				continue
			}
			// back edge b -> h
			l := byHeader[h]
			if l == nil {
				l = &loopInfo{Header: h, Body: map[*ssa.BasicBlock]bool{h: true}, Done: map[*ssa.BasicBlock]bool{}}
				byHeader[h] = l
				out = append(out, l)
			}
			var walk func(x *ssa.BasicBlock)
			walk = func(x *ssa.BasicBlock) {
				if l.Body[x] {
					return
				}
				l.Body[x] = true
				for _, p := range x.Preds {
					walk(p)
				}
			}
			walk(b)
		}
	}
	for _, l := range out {
		for _, s := range l.Header.Succs {
			if !l.Body[s] {
				l.Done[s] = true
			}
		}
	}
	return out
}

type breakSite struct {
	Fn  *ssa.Function
	In  ssa.Instruction
	Sig string
}

func breakSitesOf(fn *ssa.Function) []breakSite {
	var out []breakSite
	loops := naturalLoopsOf(fn)
	if len(loops) == 0 {
		return nil
	}
	leaves := func(b, s *ssa.BasicBlock) bool {
		for _, l := range loops {
			// b is in the loop or in a block that leaves it (a break block is not part of the natural loop)
			if l.Header.Dominates(b) && b != l.Header && l.Done[s] && !l.Body[s] && b != s && !l.Done[b] {
				return true
			}
		}
		return false
	}
	for _, b := range fn.Blocks {
		if len(b.Instrs) == 0 {
			continue
		}
		switch t := b.Instrs[len(b.Instrs)-1].(type) {
		case *ssa.If:
			for k := 0; k < 2; k++ {
				if leaves(b, b.Succs[k]) && !leaves(b, b.Succs[1-k]) {
					gs := append(append([]string{}, guardSet(t)...), descCond(t.Cond, k == 0))
					sort.Strings(gs)
					out = append(out, breakSite{fn, t, strings.Join(gs, " && ")})
				}
			}
		case *ssa.Jump:
			if leaves(b, b.Succs[0]) {
				out = append(out, breakSite{fn, t, strings.Join(guardSet(t), " && ")})
			}
		}
	}
	return out
}

func ruleBreaksAudited(p *Prog, r *Report, rule, prop string, pkgs map[string]bool) {
	all := map[string][]string{}
	why := map[string]string{}
	for _, row := range readTable("breaks_audit.tsv", 3) {
		all[row[0]] = append(all[row[0]], row[1])
		why[row[0]] = row[2]
	}
	n := 0
	for _, fn := range allModFuncs(p) {
		if !pkgs[pkgOfFunc(fn)] || fn.Synthetic != "" {
			continue
		}
		sites := breakSitesOf(fn)
		name := fnDisplay(fn)
		if len(sites) == 0 {
			continue
		}
		if all[name] == nil && auditedFnNames != nil && !auditedFnNames[shortName(rootOf(fn))] {
			continue // a function the audited tree does not have
		}
		left := map[string]int{}
		for _, x := range all[name] {
			left[x]++
		}
		extra := ""
		pos := p.pos(fn.Pos())
		for _, s := range sites {
			n++
			if left[s.Sig] > 0 {
				left[s.Sig]--
			} else {
				extra += "\n   unaudited: " + s.Sig
				pos = p.ipos(s.In)
			}
		}
		r.add(rule, "breaks|"+name, pos, fmt.Sprintf("%d early end(s) of a loop in %s are the audited ones (%s)", len(sites), name, why[name]), extra == "",
			"a loop is left early under conditions that were not audited: the remaining passes (rules, lines, objects not yet looked at) are skipped"+extra)
	}
	// the detector itself is alive: counted over the whole module, whatever packages this property looks at
	total := 0
	for _, fn := range allModFuncs(p) {
		if fn.Synthetic == "" {
			total += len(breakSitesOf(fn))
		}
	}
	r.note(rule+": %d early end(s) of loops in the packages of this property, %d in the module", n, total)
	r.floor(rule, "early ends of loops in the module", total, 19)
}

func init() {
	dumpers["breakrows"] = func(p *Prog, m *Model) {
		for _, fn := range allModFuncs(p) {
			if fn.Synthetic != "" {
				continue
			}
			for _, s := range breakSitesOf(fn) {
				fmt.Printf("%s\t%s\tREASON\t# %s %s\n", fnDisplay(fn), s.Sig, pkgOfFunc(fn), p.ipos(s.In))
			}
		}
	}
}
