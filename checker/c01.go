package main

import (
	"fmt"
	"go/token"
	"go/types"
	"strings"

	"golang.org/x/tools/go/ssa"
)

// C01 / C02: structural necessary conditions of "ASA / IOS approve converges".
// The planner is package cisco; asa and ios embed its State.  What is decided is the
// same kind of structure as for PAN-OS, NSX and Linux (C03-C05): agreement on the
// change list, audited decisions, marks, loop state, flags, comparators, normalisers,
// numbering.  Convergence itself needs a device model and is not decided.

func init() {
	register("C01", "other", true, func(p *Prog, r *Report) { checkCiscoConv(p, r, "C01", "asa") })
	register("C02", "other", true, func(p *Prog, r *Report) { checkCiscoConv(p, r, "C02", "ios") })
}

func checkCiscoConv(p *Prog, r *Report, prop, flavour string) {
	m, err := p.model()
	if err != nil {
		r.fail("model", "model", "", err.Error(), "")
		return
	}
	pk := map[string]bool{"cisco": true, flavour: true}
	ruleChangeStateAgreement(p, m, r, flavour)
	r.rule("R-G", "Decision sites of the Cisco planner, merger and parser keep exactly their audited controlling conditions (tables/guards.tsv rows listing this property): which device object is reused, edited in place, transferred under a fresh name or deleted; where ACL lines are inserted, moved and deleted; what the parser equates.")
	ruleGuardTable(p, r, "R-G", prop)
	r.rule("R-M", "Mark discipline (Cisco): every store into needed / ready / toDelete, into the name and sequence number of a command, and into the compared text `parsed` lies at an audited function+site (rows of tables/guards.tsv, compared by R-G).")
	ruleMarkDiscipline(p, r, "R-M", prop, "cisco", []string{"cmd.needed", "cmd.ready", "cmd.toDelete"}, 18)
	ruleMarkDiscipline(p, r, "R-M", prop, "cisco", []string{"cisco.cmd.name", "cisco.cmd.seq"}, 16)
	ruleMarkDiscipline(p, r, "R-M", prop, "cisco", []string{"cisco.cmd.parsed"}, 13)
	ruleMarkDiscipline(p, r, "R-M", prop, "cisco", []string{"cisco.State.subCmdOf"}, 5)
	ruleMustCalls(p, r, "R-PH", prop)
	ruleExitsAudited(p, r, "R-X", prop, pk, 16)
	ruleRegexpConsts(p, r, "R-RX", prop, 1)
	ruleIdentityFirst(p, r, "R-IDF", prop, 16)
	ruleFreshTestedAgainstUsed(p, r, "R08.f2")
	ruleCaseFolding(p, r, "R-FOLD", prop, pk)
	ruleConstantFormats(p, r, "R-FMT")
	ruleMapsCopy(p, r, "R-MC")
	ruleElemStoreDiscipline(p, r, "R-ES", pk)
	ruleNoClockInComputation(p, r, "R-CLK")
	r.rule("R08.c", "Emission discipline (see C08): every call of the emitting helpers in package cisco is an audited site.")
	ruleEmitDiscipline(p, r, "R08.c", prop, "cisco", []string{"(*cisco.State).addChange", "(*cisco.State).addToplevel", "(*cisco.State).addCmd", "(*cisco.State).addCmds", "(*cisco.State).delCmds"}, 33)
	ruleMemo(p, r, "R-MEMO", prop, pk, 6)
	ruleBufferReuse(p, r, "R-REUSE", pk)
	ruleLookupsAudited(p, r, "R-LK", prop, 5)
	ruleRewriteDiscipline(p, r, "R-FLAG", prop, map[string]bool{"cisco": true}, 20)
	ruleStickyState(p, r, prop, pk, 9)
	ruleFreshCounters(p, r, "R08.f", map[string]bool{"cisco": true}, 1)
	ruleComparatorsSymmetric(p, r, map[string]bool{"cisco": true}, 3)
	ruleCutsetMisuse(p, r, pk)
	ruleShortCircuitSkips(p, r, pk, newSummarizer(p))
	r.rule("R01.n", "The normalisers of the Cisco parser (postprocessParsed, postprocessASAACL / postprocessIOSACL, postprocessACLParts) decide which device spellings equal which Netspoc spellings: they work with exactly the audited constants (tables/normaliser_consts.tsv); their stores into the compared text are audited by R-M.")
	ruleNormaliserAudit(p, r, "R01.n", prop, false)
	if flavour == "ios" {
		ruleMoveOnce(p, r, "R-MV", []string{"(*cisco.State).diffIOSACLs"})
	} else {
		ruleMoveOnce(p, r, "R-MV", []string{"(*cisco.State).diffASAACLs"})
	}
	if flavour == "ios" {
		r.rule("R08.k", "IOS numbering constants agree (see C08).")
		ruleIOSNumbering(p, r)
		ruleDroppedMoveIdentical(p, r, "R02.l")
		ruleDroppedMovePosition(p, r, "R02.m")
	}
	r.rule("R08.m", "Configuration-mode bookkeeping (see C08): every emission goes through the helpers that maintain the mode.")
	ruleConfMode(p, r)
	ruleJoinedTransactions(p, r)
	ruleSinglePass(p, r)
	r.Trusted = []string{"go/ssa, call graph", "the audited rows of tables/guards.tsv, sticky_audit.tsv, fresh_audit.tsv, phases.tsv, normaliser_consts.tsv are the intended decisions (each row carries its reason)"}
	r.NotDec = "convergence itself: that executing the emitted commands on a device yields a configuration equivalent to the target and that a second compare is empty (needs a device model and execution); Myers diff and line-number arithmetic as computed values"
}

// ruleDroppedMoveIdentical (R02.l): in the IOS ACL planner a target line that equals a
// device line up to the attribute log / log-input is a move of that line.  The move
// may be dropped (no command) only when the two lines are the same text; otherwise the
// attribute change is lost and the device never reaches the target.
func ruleDroppedMoveIdentical(p *Prog, r *Report, rule string) {
	r.rule(rule, "IOS ACL planner: device and target lines are paired with log / log-input stripped, so a pair may differ in that attribute. Every return of moveACL that is reachable without a call of delACL / addACL (the move is dropped, nothing is sent for the pair) is controlled by an equality test of the printed device line and the printed target line. (Pins the defect repaired by 37a5ca3.)")
	par := p.Fn("(*cisco.State).diffIOSACLs")
	var cl *ssa.Function
	if par != nil {
		cl = closureByName(par, "moveACL")
	}
	if cl == nil {
		r.fail(rule, "anchor|(*cisco.State).diffIOSACLs.moveACL", "", "closure not found", "")
		return
	}
	isEmit := func(in ssa.Instruction) bool {
		ci, ok := in.(ssa.CallInstruction)
		if !ok {
			return false
		}
		if _, isDefer := in.(*ssa.Defer); isDefer {
			return false
		}
		for _, cal := range calleesOfSite(p, &callSite{In: ci}) {
			if cal.Parent() == par {
				switch closureName(cal) {
				case "delACL", "addACL":
					return true
				}
			}
		}
		return false
	}
	n := 0
	for _, b := range cl.Blocks {
		if len(b.Instrs) == 0 {
			continue
		}
		ret, ok := b.Instrs[len(b.Instrs)-1].(*ssa.Return)
		if !ok {
			continue
		}
		// reachable from the entry without an emission?
		if !reachesAvoiding(cl.Blocks[0], b, isEmit) {
			continue
		}
		n++
		okEq := false
		for _, g := range guardSet(ret) {
			// both operands are printed lines (the printer itself or its wrapper for the target side)
			if strings.Contains(g, " == ") && strings.Count(g, "getPrintableCmd(")+strings.Count(g, "printNetspocCmd(") >= 2 {
				okEq = true
			}
		}
		r.add(rule, fmt.Sprintf("dropped-move|%d", n), p.ipos(ret), "moveACL returns without a command only for identical lines", okEq,
			fmt.Sprintf("the move is dropped under %q: a pair that differs in log / log-input is left as it is, no command is sent, the device keeps its old line", guardSet(ret)))
	}
	r.floor(rule, "returns of moveACL that drop the move", n, 1)
}

// reachesAvoiding: block `to` is reachable from block `from` along a path on which no
// instruction satisfies stop (instructions of `to` in front of its terminator included).
func reachesAvoiding(from, to *ssa.BasicBlock, stop func(ssa.Instruction) bool) bool {
	seen := map[*ssa.BasicBlock]bool{}
	var walk func(b *ssa.BasicBlock) bool
	walk = func(b *ssa.BasicBlock) bool {
		if seen[b] {
			return false
		}
		seen[b] = true
		for _, in := range b.Instrs {
			if stop(in) {
				return false
			}
		}
		if b == to {
			return true
		}
		for _, s := range b.Succs {
			if walk(s) {
				return true
			}
		}
		return false
	}
	return walk(from)
}

// valueDeps: the values v is computed from, through phis, operators, conversions and
// calls, and — for a phi — the conditions of the branches that choose its edge.
func valueDeps(v ssa.Value) map[ssa.Value]bool {
	out := map[ssa.Value]bool{}
	var visit func(v ssa.Value, d int)
	visit = func(v ssa.Value, d int) {
		if v == nil || out[v] || d > 12 {
			return
		}
		out[v] = true
		switch x := v.(type) {
		case *ssa.Phi:
			for _, e := range x.Edges {
				visit(e, d+1)
			}
			stop := x.Block().Idom()
			for _, pred := range x.Block().Preds {
				for b := pred; b != nil; b = b.Idom() {
					if i := ifOf(b); i != nil {
						visit(i.Cond, d+1)
					}
					if b == stop {
						break
					}
				}
			}
		case *ssa.BinOp:
			visit(x.X, d+1)
			visit(x.Y, d+1)
		case *ssa.UnOp:
			visit(x.X, d+1)
		case *ssa.Convert:
			visit(x.X, d+1)
		case *ssa.ChangeType:
			visit(x.X, d+1)
		case *ssa.FieldAddr:
			visit(x.X, d+1)
		case *ssa.Field:
			visit(x.X, d+1)
		case *ssa.Call:
			for _, a := range x.Common().Args {
				visit(a, d+1)
			}
		}
	}
	visit(v, 0)
	return out
}

// loadsFieldNamed: v is the value of a struct field whose qualified name ends in suffix.
func loadsFieldNamed(v ssa.Value, suffix string) bool {
	switch x := v.(type) {
	case *ssa.UnOp:
		if fa, ok := x.X.(*ssa.FieldAddr); ok && x.Op == token.MUL {
			return strings.HasSuffix(fieldName(fa), suffix)
		}
	case *ssa.Field:
		if st, ok := x.X.Type().Underlying().(*types.Struct); ok {
			return strings.HasSuffix(typeShort(x.X.Type())+"."+fldName(st.Field(x.Field)), suffix)
		}
	}
	return false
}

// ruleDroppedMovePosition (R02.m): the flag that allows moveACL to drop a move inside a block
// depends on where the device line stands relative to the insert position.
func ruleDroppedMovePosition(p *Prog, r *Report, rule string) {
	r.rule(rule, "IOS ACL planner: lines of an inserted range are inserted at the insert position one behind the other. A line of the range whose move inside its block is dropped stays where it is on the device; when a later line of the range has the other action and the dropped line stands behind the insert position, the device has them in the wrong order. At every call of moveACL in diffIOSACLs the flag that allows dropping is computed from a comparison of the device line's position (cmdAndPos.pos) with the range's insert position (Range.LowA). (Pins the defect repaired by 00b7b35.)")
	fn := p.Fn("(*cisco.State).diffIOSACLs")
	if fn == nil {
		r.fail(rule, "anchor|(*cisco.State).diffIOSACLs", "", "not found", "")
		return
	}
	n := 0
	for _, cs := range callsOf(fn) {
		for _, cal := range calleesOfSite(p, cs) {
			if cal.Parent() != fn || closureName(cal) != "moveACL" {
				continue
			}
			args := cs.In.Common().Args
			// the bool parameter
			var flag ssa.Value
			for _, a := range args {
				if b, ok := a.Type().Underlying().(*types.Basic); ok && b.Kind() == types.Bool {
					flag = a
				}
			}
			n++
			ok := false
			if flag != nil {
				for d := range valueDeps(flag) {
					bo, isB := d.(*ssa.BinOp)
					if !isB {
						continue
					}
					switch bo.Op {
					case token.LSS, token.GTR, token.LEQ, token.GEQ:
						if (loadsFieldNamed(bo.X, ".pos") && loadsFieldNamed(bo.Y, ".LowA")) || (loadsFieldNamed(bo.Y, ".pos") && loadsFieldNamed(bo.X, ".LowA")) {
							ok = true
						}
					}
				}
			}
			r.add(rule, fmt.Sprintf("drop-flag-position|%d", n), p.ipos(cs.In), "the flag passed to moveACL depends on the device line's position relative to the insert position", ok,
				"a line standing behind the insert position keeps its place although lines of the other action from the same range are inserted in front of it: the device ends with <new deny> <permit> where the target has <permit> <new deny>")
		}
	}
	r.floor(rule, "calls of moveACL in diffIOSACLs", n, 1)
}
