package main

// C03 / C04 / C05 (structural part of convergence) and C18 (merge
// completeness): change-state agreement (R-HC) and object-kind completeness
// (R-FC).

import (
	"fmt"
	"go/token"
	"go/types"
	"sort"
	"strings"

	"golang.org/x/tools/go/ssa"
)

func init() {
	register("C03", "other", true, func(p *Prog, r *Report) { checkConv(p, r, "panos", "C03") })
	register("C04", "other", true, func(p *Prog, r *Report) { checkConv(p, r, "nsx", "C04") })
	register("C05", "other", true, func(p *Prog, r *Report) { checkConv(p, r, "linux", "C05") })
	register("C18", "other", true, checkC18)
}

// funcTree: fn, its closures, and the module functions of the same package
// reachable from it in the call graph.
func funcTree(p *Prog, fn *ssa.Function) []*ssa.Function {
	pkg := pkgOfFunc(fn)
	reach := reachFrom(p.CG(), []*ssa.Function{fn}, nil)
	set := map[*ssa.Function]bool{fn: true}
	for f := range reach {
		if isModFunc(f) && (pkgOfFunc(f) == pkg || pkgOfFunc(f) == "cisco") {
			set[f] = true
		}
	}
	var add func(f *ssa.Function)
	add = func(f *ssa.Function) {
		for _, a := range f.AnonFuncs {
			set[a] = true
			add(a)
		}
	}
	for f := range set {
		add(f)
	}
	var out []*ssa.Function
	for f := range set {
		out = append(out, f)
	}
	sort.Slice(out, func(i, j int) bool { return shortName(out[i]) < shortName(out[j]) })
	return out
}

// structFields: direct and embedded fields of the struct behind t.
func structFieldVars(t types.Type) []*types.Var {
	if pt, ok := t.Underlying().(*types.Pointer); ok {
		t = pt.Elem()
	}
	st, ok := t.Underlying().(*types.Struct)
	if !ok {
		return nil
	}
	var out []*types.Var
	for i := 0; i < st.NumFields(); i++ {
		f := st.Field(i)
		out = append(out, f)
		if f.Embedded() {
			out = append(out, structFieldVars(f.Type())...)
		}
	}
	return out
}

func fieldsAccessed(fns []*ssa.Function, owner map[*types.Var]bool) (loaded, stored map[*types.Var]bool) {
	loaded, stored = map[*types.Var]bool{}, map[*types.Var]bool{}
	for _, fn := range fns {
		for _, b := range fn.Blocks {
			for _, in := range b.Instrs {
				switch x := in.(type) {
				case *ssa.FieldAddr:
					fv := fieldVarOf(x)
					if !owner[fv] {
						continue
					}
					for _, ref := range *x.Referrers() {
						switch y := ref.(type) {
						case *ssa.Store:
							if y.Addr == ssa.Value(x) {
								stored[fv] = true
							} else {
								loaded[fv] = true
							}
						case *ssa.UnOp:
							loaded[fv] = true
						case *ssa.FieldAddr, *ssa.IndexAddr:
							loaded[fv] = true // sub-field access
						default:
							loaded[fv] = true
						}
					}
				}
			}
		}
	}
	return
}

// subFieldsRead: for a struct-valued field fv of the state, the names of its
// sub-fields read in fns (through &s.fv.sub or (load s.fv).sub).
func subFieldsRead(fns []*ssa.Function, fv *types.Var) map[string]types.Type {
	out := map[string]types.Type{}
	st, ok := fv.Type().Underlying().(*types.Struct)
	if !ok {
		return out
	}
	for _, fn := range fns {
		for _, b := range fn.Blocks {
			for _, in := range b.Instrs {
				switch x := in.(type) {
				case *ssa.FieldAddr:
					if inner, ok := x.X.(*ssa.FieldAddr); ok && fieldVarOf(inner) == fv {
						f := st.Field(x.Field)
						out[fldName(f)] = f.Type()
					}
					// ch := s.change; ... ch.routes : a local copy of the struct
					if al, ok := x.X.(*ssa.Alloc); ok {
						for _, sto := range cellStores(al) {
							for _, rt := range valueRoots(sto.Val) {
								if u, ok := rt.(*ssa.UnOp); ok && u.Op == token.MUL {
									if fa, ok := u.X.(*ssa.FieldAddr); ok && fieldVarOf(fa) == fv {
										f := st.Field(x.Field)
										out[fldName(f)] = f.Type()
									}
								}
							}
						}
					}
				case *ssa.Field:
					// value extracted from a loaded struct
					for _, rt := range valueRoots(x.X) {
						if u, ok := rt.(*ssa.UnOp); ok && u.Op == token.MUL {
							if fa, ok := u.X.(*ssa.FieldAddr); ok && fieldVarOf(fa) == fv {
								f := st.Field(x.Field)
								out[fldName(f)] = f.Type()
							}
						}
					}
				}
			}
		}
	}
	return out
}

func isTriggerType(t types.Type) bool {
	switch u := t.Underlying().(type) {
	case *types.Slice, *types.Map:
		return true
	case *types.Basic:
		return u.Info()&(types.IsString|types.IsBoolean|types.IsInteger) != 0
	}
	return false
}

// ruleChangeStateAgreement: R-HC for one implementation.
func ruleChangeStateAgreement(p *Prog, m *Model, r *Report, pkg string) {
	r.rule("R-HC", "Change-state agreement: the fields of the device state that GetChanges (and what it calls) stores and ApplyCommands (and what it calls) loads are the change fields; HasChanges and ShowChanges each load every change field; for a struct-valued change field every sub-field of slice/map/string/bool/int type that ApplyCommands reads (its triggers) is read by HasChanges. Necessary for 'no change is reported only for an equivalent device': drc FILE1 FILE2 prints the script regardless of HasChanges, so a HasChanges that forgets a trigger passes the suite while approve silently skips that part.")
	for _, t := range m.Impls {
		if !strings.HasPrefix(typeShort(t), "*"+pkg+".") {
			continue
		}
		tn := typeShort(t)
		owner := map[*types.Var]bool{}
		for _, f := range structFieldVars(t) {
			owner[f] = true
		}
		get := funcTree(p, m.implMethod(t, "GetChanges"))
		app := funcTree(p, m.implMethod(t, "ApplyCommands"))
		has := funcTree(p, m.implMethod(t, "HasChanges"))
		show := funcTree(p, m.implMethod(t, "ShowChanges"))
		_, storedG := fieldsAccessed(get, owner)
		loadedA, _ := fieldsAccessed(app, owner)
		loadedH, _ := fieldsAccessed(has, owner)
		loadedS, _ := fieldsAccessed(show, owner)
		var cf []*types.Var
		for f := range storedG {
			if loadedA[f] {
				cf = append(cf, f)
			}
		}
		sort.Slice(cf, func(i, j int) bool { return cf[i].Name() < cf[j].Name() })
		r.add("R-HC", "change-fields|"+tn, "", fmt.Sprintf("%s: change fields (stored by GetChanges, loaded by ApplyCommands): %v", tn, varNames(cf)), len(cf) >= 1,
			"no state flows from GetChanges to ApplyCommands: anchor lost")
		for _, f := range cf {
			r.add("R-HC", "haschanges-reads|"+tn+"|"+fldName(f), p.pos(m.implMethod(t, "HasChanges").Pos()), "HasChanges reads change field "+fldName(f), loadedH[f],
				"approve skips ApplyCommands although changes of this kind exist")
			r.add("R-HC", "showchanges-reads|"+tn+"|"+fldName(f), p.pos(m.implMethod(t, "ShowChanges").Pos()), "ShowChanges reads change field "+fldName(f), loadedS[f],
				"compare does not show changes of this kind")
			if _, isStruct := f.Type().Underlying().(*types.Struct); isStruct {
				subA := subFieldsRead(app, f)
				subH := subFieldsRead(has, f)
				subS := subFieldsRead(show, f)
				var names []string
				for n := range subA {
					names = append(names, n)
				}
				sort.Strings(names)
				nt := 0
				for _, n := range names {
					if !isTriggerType(subA[n]) {
						continue
					}
					nt++
					_, okH := subH[n]
					r.add("R-HC", "haschanges-reads-trigger|"+tn+"|"+fldName(f)+"."+n, p.pos(m.implMethod(t, "HasChanges").Pos()),
						"HasChanges reads trigger sub-field "+fldName(f)+"."+n+" that ApplyCommands acts on", okH,
						"approve reports 'no changes' and skips this part of the plan although ApplyCommands would act on it")
					_, okS := subS[n]
					r.add("R-HC", "showchanges-reads-trigger|"+tn+"|"+fldName(f)+"."+n, p.pos(m.implMethod(t, "ShowChanges").Pos()),
						"ShowChanges reads trigger sub-field "+fldName(f)+"."+n, okS, "compare does not show this part of the plan")
				}
				r.floor("R-HC", "trigger sub-fields of "+tn+"."+fldName(f), nt, 2)
			}
		}
	}
}

func varNames(l []*types.Var) []string {
	var out []string
	for _, v := range l {
		out = append(out, v.Name())
	}
	return out
}

// collection fields of a config struct: slice or map typed.
func collectionFields(t types.Type) []*types.Var {
	var out []*types.Var
	if pt, ok := t.Underlying().(*types.Pointer); ok {
		t = pt.Elem()
	}
	st, ok := t.Underlying().(*types.Struct)
	if !ok {
		return nil
	}
	for i := 0; i < st.NumFields(); i++ {
		f := st.Field(i)
		switch f.Type().Underlying().(type) {
		case *types.Slice, *types.Map:
			out = append(out, f)
		}
	}
	return out
}

func namedType(p *Prog, pkg, name string) types.Type {
	pk := p.Mod[pkg]
	if pk == nil {
		return nil
	}
	o := pk.Types.Scope().Lookup(name)
	if o == nil {
		return nil
	}
	return o.Type()
}

// loadedFromParam: fields of struct type T loaded in fns from a base that
// derives from parameter index idx of function root (or, for closures, from
// any parameter/free variable — reported separately).
func fieldsOfTypeLoaded(fns []*ssa.Function, owner map[*types.Var]bool) (loaded, stored map[*types.Var]int) {
	loaded, stored = map[*types.Var]int{}, map[*types.Var]int{}
	for _, fn := range fns {
		for _, b := range fn.Blocks {
			for _, in := range b.Instrs {
				fa, ok := in.(*ssa.FieldAddr)
				if !ok || !owner[fieldVarOf(fa)] {
					continue
				}
				fv := fieldVarOf(fa)
				for _, ref := range *fa.Referrers() {
					if st, ok := ref.(*ssa.Store); ok && st.Addr == ssa.Value(fa) {
						stored[fv]++
					} else {
						loaded[fv]++
					}
				}
			}
		}
	}
	return
}

// ruleMergeCompleteness: R-FC / R18.1.
func ruleMergeCompleteness(p *Prog, r *Report, rule string, pkgs map[string]bool) {
	r.rule(rule, "Object-kind completeness (R-FC): for every collection-typed field K of the per-device configuration struct (PAN-OS panVsys: Rules, Addresses, AddressGroups, Services, ServiceGroups; NSX NsxConfig: Policies, Groups, Services; Linux config: iptables, routes) the merge function MergeSpoc reads K of the merged-in part and writes K of the result (a kind that is loaded at least twice — once from each side — and stored, or stored from an append of both), the PAN-OS transfer/remove phases visit all four object kinds, and the NSX planner handles services, groups and policies. A forgotten kind passes every test that does not use it.")
	type spec struct {
		pkg, typ string
		merge    string
		minKinds int
		others   []string // functions that must load every kind (or listed subset)
		exclude  map[string]bool
	}
	specs := []spec{
		{"panos", "panVsys", "(*panos.PanConfig).MergeSpoc", 5, nil, nil},
		{"nsx", "NsxConfig", "(*nsx.NsxConfig).MergeSpoc", 3, []string{"nsx.diffConfig"}, nil},
		{"linux", "config", "(*linux.config).MergeSpoc", 2, []string{"linux.diffConfig"}, nil},
	}
	for _, s := range specs {
		if !pkgs[s.pkg] {
			continue
		}
		t := namedType(p, s.pkg, s.typ)
		fn := p.Fn(s.merge)
		if t == nil || fn == nil {
			r.fail(rule, "anchor|"+s.merge, "", "type or merge function not found", "")
			continue
		}
		kinds := collectionFields(t)
		r.floor(rule, "collection kinds of "+s.pkg+"."+s.typ, len(kinds), s.minKinds)
		owner := map[*types.Var]bool{}
		for _, k := range kinds {
			owner[k] = true
		}
		var tree []*ssa.Function
		tree = append(tree, fn)
		var add func(f *ssa.Function)
		add = func(f *ssa.Function) {
			for _, a := range f.AnonFuncs {
				tree = append(tree, a)
				add(a)
			}
		}
		add(fn)
		loaded, stored := fieldsOfTypeLoaded(tree, owner)
		for _, k := range kinds {
			ok := loaded[k] >= 2 && stored[k] >= 1
			// map-typed kinds are merged entry-wise (linux iptables): loaded from both sides, entries stored
			if _, isMap := k.Type().Underlying().(*types.Map); isMap {
				ok = loaded[k] >= 2
			}
			r.add(rule, "merge-kind|"+s.merge+"|"+k.Name(), p.pos(fn.Pos()),
				fmt.Sprintf("MergeSpoc merges %s (%d loads, %d stores)", k.Name(), loaded[k], stored[k]), ok,
				"objects of kind "+k.Name()+" of the IPv6/raw part are dropped by the merge: rules referring to them are emitted but the objects never created")
		}
		for _, o := range s.others {
			of := p.Fn(o)
			if of == nil {
				r.fail(rule, "anchor|"+o, "", "not found", "")
				continue
			}
			ld, _ := fieldsOfTypeLoaded(funcTree(p, of), owner)
			for _, k := range kinds {
				r.add(rule, "planner-kind|"+o+"|"+k.Name(), p.pos(of.Pos()), o+" reads "+k.Name()+" of both configurations", ld[k] >= 2,
					"the planner ignores objects of kind "+k.Name())
			}
		}
	}
	if pkgs["panos"] {
		t := namedType(p, "panos", "panVsys")
		if t != nil {
			owner := map[*types.Var]bool{}
			for _, k := range collectionFields(t) {
				if k.Name() != "Rules" {
					owner[k] = true
				}
			}
			for _, name := range []string{"(*panos.rulesPair).transferNeededObjects", "(*panos.rulesPair).removeUnneededObjects"} {
				fn := p.Fn(name)
				if fn == nil {
					r.fail(rule, "anchor|"+name, "", "not found", "")
					continue
				}
				var tree []*ssa.Function
				tree = append(tree, fn)
				tree = append(tree, fn.AnonFuncs...)
				ld, _ := fieldsOfTypeLoaded(tree, owner)
				for k := range owner {
					r.add(rule, "object-phase-kind|"+name+"|"+k.Name(), p.pos(fn.Pos()), name+" visits "+k.Name(), ld[k] >= 1,
						"objects of this kind are never transferred / never removed")
				}
			}
		}
	}
}

func checkConv(p *Prog, r *Report, pkg, prop string) {
	m, err := p.model()
	if err != nil {
		r.fail("model", "model", "", err.Error(), "")
		return
	}
	ruleChangeStateAgreement(p, m, r, pkg)
	ruleMergeCompleteness(p, r, "R-FC", map[string]bool{pkg: true})
	r.rule("R-G", "Decision sites of the planner that the property's mechanisms name (unique-name generation; for Linux the route delete/replace decisions) keep exactly their audited controlling conditions (tables/guards.tsv).")
	ruleGuardTable(p, r, "R-G", prop)
	if pkg == "panos" || pkg == "nsx" {
		r.rule("R-M", "Mark discipline: every store into a planner mark (fields needed / nameOnDevice: which device object is kept, which target object is already on the device under which name) in this package lies at a function+site whose controlling conditions are audited rows of tables/guards.tsv (compared by R-G); a mark store at a new place is unaudited planner state.")
		floor := map[string]int{"panos": 14, "nsx": 6}[pkg]
		ruleMarkDiscipline(p, r, "R-M", prop, pkg, []string{".needed", ".nameOnDevice"}, floor)
	}
	if pkg == "linux" {
		r.rule("R05.n", "The iptables normaliser (linux.normalizeIPTables) decides which spellings of a rule are the same rule, so what it equates is reported as no change: its deletions, stores and string operations keep their audited conditions (rows of tables/guards.tsv, compared by R-G) and it works with exactly the audited constants (suffixes it cuts, values it substitutes; tables/normaliser_consts.tsv).")
		ruleNormaliserConsts(p, r, "R05.n", prop)
	}
	if pkg == "nsx" {
		// what approve creates must be read back at the next run: the load filter is the prefix every
		// generated or raw name carries (see C07 R07.1 for the other direction)
		ruleNSXLoadFilter(p, r)
		ruleOrderingAudited(p, r, "R-ORD", prop, map[string]bool{pkg: true}, 2)
	}
	if pkg == "panos" || pkg == "nsx" {
		ruleRewriteDiscipline(p, r, "R-FLAG", prop, map[string]bool{pkg: true}, map[string]int{"panos": 5, "nsx": 2}[pkg])
		ruleComparatorsSymmetric(p, r, map[string]bool{pkg: true}, map[string]int{"panos": 9, "nsx": 1}[pkg])
		ruleSides(p, r, "R-SIDE", prop, map[string]bool{pkg: true}, map[string]int{"panos": 17, "nsx": 8}[pkg])
	}
	if pkg == "panos" {
		r.rule("R-KA", "Reference adaption (PAN-OS): adaptGroups rewrites a member list in place from the target's group names to the names on the device; a list that went through it once must not go through it again (a device name is looked up among the target's names and becomes another group). Every call of adaptGroups and of findGroupOnDevice lies at an audited function+site (rows compared by R-G).")
		ruleEmitDiscipline(p, r, "R-KA", prop, "panos", []string{"(*panos.rulesPair).adaptGroups", "(*panos.rulesPair).findGroupOnDevice"}, 4)
	}
	if pkg == "nsx" {
		r.rule("R-KA", "Reference adaption (NSX): every call of adaptGroup, findGroupOnDevice and addGroup lies at an audited function+site (rows compared by R-G): a group reference is adapted once, right before the rule is written.")
		ruleEmitDiscipline(p, r, "R-KA", prop, "nsx", []string{"(*nsx.rulesPair).adaptGroup", "nsx.findGroupOnDevice", "nsx.addGroup"}, 7)
	}
	ruleAppendDiscipline(p, r, "R-KE", pkg, "diff.go", map[string]int{"panos": 8, "nsx": 10, "linux": 2}[pkg])
	ruleCaseFolding(p, r, "R-FOLD", prop, map[string]bool{pkg: true})
	ruleConstantFormats(p, r, "R-FMT")
	ruleMapsCopy(p, r, "R-MC")
	ruleElemStoreDiscipline(p, r, "R-ES", map[string]bool{pkg: true})
	ruleNoClockInComputation(p, r, "R-CLK")
	ruleRegexpConsts(p, r, "R-RX", prop, 1)
	if pkg == "panos" || pkg == "nsx" {
		ruleLookupsAudited(p, r, "R-LK", prop, map[string]int{"panos": 10, "nsx": 6}[pkg])
	}
	ruleExitsAudited(p, r, "R-X", prop, map[string]bool{pkg: true}, map[string]int{"panos": 1, "nsx": 3, "linux": 2}[pkg])
	ruleBufferReuse(p, r, "R-REUSE", map[string]bool{pkg: true})
	ruleMemo(p, r, "R-MEMO", prop, map[string]bool{pkg: true}, map[string]int{"panos": 4, "nsx": 3}[pkg])
	ruleMustCalls(p, r, "R-PH", prop)
	ruleCommandsOnlyGrow(p, r, pkg)
	ruleStickyState(p, r, prop, map[string]bool{pkg: true}, map[string]int{"panos": 1, "nsx": 1, "linux": 2}[pkg])
	ruleCutsetMisuse(p, r, map[string]bool{pkg: true})
	ruleShortCircuitSkips(p, r, map[string]bool{pkg: true}, newSummarizer(p))
	if pkg == "linux" {
		ruleMapComparisonSymmetric(p, r, map[string]bool{pkg: true}, 0)
	}
	ruleComparatorsPure(p, r, map[string]bool{pkg: true}, newSummarizer(p), map[string][]string{
		"linux": {"linux.diffIPTables", "linux.checkExtra"},
		"panos": {"panos.unknownEq", "panos.stringsEq"},
		"nsx":   {},
	}[pkg])
	if pkg == "panos" || pkg == "nsx" {
		ruleComparatorsComplete(p, r, map[string]bool{pkg: true}, map[string]int{"panos": 6, "nsx": 2}[pkg])
	}
	if pkg == "panos" {
		rulePanosEscaped(p, r)
		r.rule("R08.e", "PAN-OS commands are well-formed URLs (see C08).")
	}
	r.Trusted = []string{"go/ssa, call graph"}
	r.NotDec = "convergence itself: that executing the emitted commands yields the target (needs a device model and execution); id renaming, incremental-vs-replace heuristics, normaliser equivalence"
}

// ---- C18 ----

func checkC18(p *Prog, r *Report) {
	rulePairsBeforeCreation(p, r, "R18.9")
	ruleExitsAudited(p, r, "R-X", "C18", map[string]bool{"cisco": true, "panos": true, "nsx": true, "linux": true}, 16)
	ruleMemo(p, r, "R-MEMO", "C18", map[string]bool{"cisco": true, "panos": true, "nsx": true, "linux": true}, 7)
	ruleRegexpConsts(p, r, "R-RX", "C18", 1)
	ruleMergeCompleteness(p, r, "R18.1", map[string]bool{"panos": true, "nsx": true, "linux": true})
	r.rule("R18.2", "Error discipline (E6) in the merge code (*/config.go of cisco, linux, nsx, panos and device/main.go's load functions): no error result is dropped; in particular a raw part that cannot be merged produces an error or abort instead of being skipped.")
	ruleErrorDiscipline(p, r, "R18.2", map[string]bool{"cisco": true, "linux": true, "nsx": true, "panos": true}, "config.go")
	ruleErrorDiscipline(p, r, "R18.2", map[string]bool{"device": true}, "main.go")
	ruleRawStrictness(p, r)
	ruleAppendBoundary(p, r)
	ruleMergeOrder(p, r)
	ruleEveryLineKept(p, r)
	ruleStaleIndex(p, r, map[string]bool{"cisco": true, "nsx": true, "panos": true, "linux": true})
	ruleBufferReuse(p, r, "R-REUSE", map[string]bool{"cisco": true, "nsx": true, "panos": true, "linux": true, "asa": true, "ios": true})
	// parser state of the raw-file markers ([APPEND] applies from the marker to the end of its table /
	// of the file): replaced exactly under the audited conditions
	ruleStickyState(p, r, "C18", map[string]bool{"cisco": true, "linux": true}, 6)
	r.rule("R18.8", "What cannot be merged ends in an error under exactly the audited conditions: the abort and warning sites of the merge code (command not supported in raw, name clash, object referenced a second time, chain redefined from raw, unused raw objects) and the bookkeeping of referenced objects keep their audited controlling conditions (tables/guards.tsv rows listing C18).")
	ruleGuardTable(p, r, "R18.8", "C18")
	ruleLoadOrder(p, r)
	r.Trusted = []string{"go/ssa, call graph"}
	r.NotDec = "positions of prepend/append in merged lists beyond the boundary guard; relative order inside each part"
}

// ruleLoadOrder: device.loadSpoc merges v4, then v6, then raw.
func ruleLoadOrder(p *Prog, r *Report) {
	r.rule("R18.5", "device.(*state).loadSpoc loads the IPv4 file and the IPv6 file, merges them, then merges the raw file (addRaw); the errors of all three loads are returned; the file names derive from the same base path (GetIPv6Fname(v4), v4+\".raw\").")
	ls := p.Fn("(*device.state).loadSpoc")
	ar := p.Fn("(*device.state).addRaw")
	if ls == nil || ar == nil {
		r.fail("R18.5", "anchor|loadSpoc/addRaw", "", "not found", "")
		return
	}
	loads := callsTo(ls, "(*device.state).loadSpocFile")
	var merges []*callSite
	for _, cs := range callsOf(ls) {
		if cs.Method != nil && cs.Method.Name() == "MergeSpoc" {
			merges = append(merges, cs)
		}
	}
	raws := callsTo(ls, "(*device.state).addRaw")
	ok := len(loads) == 2 && len(merges) == 1 && len(raws) == 1 && before(loads[0].In, merges[0].In) && before(loads[1].In, merges[0].In) && before(merges[0].In, raws[0].In)
	r.add("R18.5", "v4-v6-raw-order|(*device.state).loadSpoc", p.pos(ls.Pos()), fmt.Sprintf("%d loads, %d merge, %d addRaw in order", len(loads), len(merges), len(raws)), ok,
		"the parts are not merged as v4 + v6, then raw")
	// receiver of the merge is the v4 config, argument the v6 one
	if len(merges) == 1 && len(loads) == 2 {
		recvOK, argOK := false, false
		for _, rt := range valueRoots(merges[0].In.Common().Value) {
			if ex, ok := rt.(*ssa.Extract); ok && ex.Tuple == loads[0].In.Value() {
				recvOK = true
			}
		}
		for _, rt := range valueRoots(merges[0].In.Common().Args[0]) {
			if ex, ok := rt.(*ssa.Extract); ok && ex.Tuple == loads[1].In.Value() {
				argOK = true
			}
		}
		r.add("R18.5", "merge-operands|(*device.state).loadSpoc", p.ipos(merges[0].In), "conf4.MergeSpoc(conf6)", recvOK && argOK, "merge operands swapped or one part merged twice")
	}
	// raw: const ".raw" suffix on the parameter
	okRaw := false
	for _, cs := range callsTo(ar, "(*device.state).loadSpocFile") {
		ctx := &provCtx{p: p, cg: p.CG(), seen: map[ssa.Value]bool{}, region: map[*ssa.Function]bool{}}
		for _, pt := range ctx.eval(cs.In.Common().Args[1]) {
			if len(pt) >= 1 && pt[len(pt)-1].Kind == "const" && pt[len(pt)-1].S == ".raw" {
				okRaw = true
			}
		}
		if bo, ok := cs.In.Common().Args[1].(*ssa.BinOp); ok {
			if s, ok := constString(bo.Y); ok && s == ".raw" {
				okRaw = true
			}
		}
	}
	r.add("R18.5", "raw-file-name|(*device.state).addRaw", p.pos(ar.Pos()), "raw part is read from <v4 path>.raw and merged into the result", okRaw && len(callsOf(ar)) >= 2, "")
}

// ruleRawStrictness: R18.3.
func ruleRawStrictness(p *Prog, r *Report) {
	r.rule("R18.3", "Raw strictness is symmetric: in cisco.(*parser).ParseConfig every site where a line matched no template (result of lookupCmd / matchCmd is nil) leads, when the file is a raw file, to an error return — at top level and at sub-command level alike.")
	fn := p.Fn("(*cisco.parser).ParseConfig")
	if fn == nil {
		r.fail("R18.3", "anchor|ParseConfig", "", "not found", "")
		return
	}
	n := 0
	for _, cs := range callsOf(fn) {
		name := cs.calleeName()
		if name != "(*cisco.parser).lookupCmd" && name != "cisco.matchCmd" {
			continue
		}
		n++
		v := cs.In.Value()
		ok := false
		for _, b := range fn.Blocks {
			i := ifOf(b)
			if i == nil {
				continue
			}
			x, nonNilWhenTrue, isT := nilTest(i.Cond)
			if !isT {
				continue
			}
			match := x == v
			if !match {
				for _, rt := range valueRoots(x) {
					if rt == v {
						match = true
					}
				}
			}
			if !match {
				continue
			}
			nilSucc := 1
			if !nonNilWhenTrue {
				nilSucc = 0
			}
			// on the nil edge: a test of isRaw whose true edge returns an error
			for _, bb := range fn.Blocks {
				if !(bb == b.Succs[nilSucc] || edgeDominates(b, nilSucc, bb)) {
					continue
				}
				j := ifOf(bb)
				if j == nil {
					continue
				}
				cnd, neg := stripNot(j.Cond)
				if !isRawValue(cnd) {
					continue
				}
				ts := 0
				if neg {
					ts = 1
				}
				for _, in := range bb.Succs[ts].Instrs {
					if ret, isRet := in.(*ssa.Return); isRet && len(ret.Results) == 2 && errProvablyNonNil(ret.Results[1], bb.Succs[ts], 0) {
						ok = true
					}
				}
			}
		}
		r.add("R18.3", "unknown-command-rejected-in-raw|"+name, p.ipos(cs.In), "a line that matches no template is an error in a raw file ("+name+")", ok,
			"an unknown (sub-)command in a raw file is dropped silently instead of producing an error")
	}
	r.floor("R18.3", "template matching sites in ParseConfig", n, 2)
}

func isRawValue(v ssa.Value) bool {
	// isRaw := path.Ext(fName) == ".raw"
	for _, rt := range valueRoots(v) {
		if bo, ok := rt.(*ssa.BinOp); ok && bo.Op == token.EQL {
			if s, ok := constString(bo.Y); ok && s == ".raw" {
				return true
			}
		}
	}
	return false
}

// ruleAppendBoundary: R18.4 — the backwards search for the last permit line is
// clamped before it is used as a slice bound.
func ruleAppendBoundary(p *Prog, r *Report) {
	r.rule("R18.4", "APPEND boundary: in the ACL/chain merge functions the index found by searching backwards for the last permitting entry is never used as a slice bound while it can be -1 (ACL without any permit line, or empty ACL): every slice expression acl[:i] / acl[i:] whose bound derives from a loop counter that is decremented is dominated by a test i >= 0 / i < 0 (or the loop's exit value is provably >= 0).")
	for _, name := range []string{"cisco.mergeASAACLs", "cisco.mergeIOSACLs"} {
		fn := p.Fn(name)
		if fn == nil {
			r.fail("R18.4", "anchor|"+name, "", "not found", "")
			continue
		}
		n := 0
		for _, b := range fn.Blocks {
			for _, in := range b.Instrs {
				sl, ok := in.(*ssa.Slice)
				if !ok {
					continue
				}
				for _, bound := range []ssa.Value{sl.Low, sl.High} {
					if bound == nil {
						continue
					}
					phi, ok := bound.(*ssa.Phi)
					if !ok || !isIntType(phi.Type()) {
						continue
					}
					// a counter that is decremented somewhere
					dec := false
					var walk func(v ssa.Value, d int)
					seen := map[ssa.Value]bool{}
					walk = func(v ssa.Value, d int) {
						if seen[v] || d > 6 {
							return
						}
						seen[v] = true
						switch x := v.(type) {
						case *ssa.Phi:
							for _, e := range x.Edges {
								walk(e, d+1)
							}
						case *ssa.BinOp:
							if x.Op == token.SUB {
								dec = true
							}
							walk(x.X, d+1)
						}
					}
					walk(phi, 0)
					if !dec {
						continue
					}
					n++
					// non-negativity established: some phi edge value is a constant >= 0 replacing negatives,
					// i.e. the bound is guarded by a comparison with 0 that dominates the slice
					guarded := false
					for _, bb := range fn.Blocks {
						i := ifOf(bb)
						if i == nil {
							continue
						}
						bo, ok := i.Cond.(*ssa.BinOp)
						if !ok {
							continue
						}
						k, isC := constInt(bo.Y)
						if !isC || k != 0 {
							continue
						}
						if bo.Op != token.LSS && bo.Op != token.GEQ {
							continue
						}
						// compared value is a loop-exit value of the same counter
						rel := false
						for _, rt := range valueRoots(bo.X) {
							if rt == ssa.Value(phi) {
								rel = true
							}
						}
						if ph2, ok := bo.X.(*ssa.Phi); ok {
							for _, e := range phi.Edges {
								if e == ssa.Value(ph2) {
									rel = true
								}
							}
							for _, e := range ph2.Edges {
								if e == ssa.Value(phi) {
									rel = true
								}
							}
						}
						if rel && bb.Dominates(sl.Block()) && !isLoopCond(bb) {
							guarded = true
						}
					}
					r.add("R18.4", "append-index-clamped|"+name, p.ipos(sl), "slice bound from the backwards permit search is clamped to >= 0 before use", guarded,
						"[APPEND] on an ACL without permit line: slice bounds out of range [:-1] (crash), the documented boundary case")
				}
			}
		}
		// the same position handed to slices.Insert, here or in a helper new to the tree
		fns := []*ssa.Function{fn}
		for _, cs := range callsOf(fn) {
			if isNewHelper(cs.Static) {
				fns = append(fns, cs.Static)
			}
		}
		for _, f := range fns {
			for _, cs := range callsOf(f) {
				if cs.Static == nil {
					continue
				}
				g := cs.Static
				if o := g.Origin(); o != nil {
					g = o
				}
				if rawShortName(g) != "slices.Insert" || len(cs.In.Common().Args) < 2 {
					continue
				}
				n++
				okIdx := provedNonNegative(f, cs.In.Common().Args[1], cs.In.Block(), 0, map[ssa.Value]bool{})
				r.add("R18.4", "append-index-clamped|"+name+"|slices.Insert", p.ipos(cs.In), "insert position from the backwards permit search cannot be negative at slices.Insert", okIdx,
					"[APPEND] on an ACL without permit line: slices.Insert panics with slice bounds out of range [-1:]")
			}
		}
		r.floor("R18.4", "append-position slice expressions in "+name, n, 1)
	}
}

// ruleMergeOrder: R18.6 — the documented order of the merged lists, read from
// the append chains that build them.
func ruleMergeOrder(p *Prog, r *Report) {
	r.rule("R18.6", "Order skeleton of the merge, read from the append chains that build the merged lists: Cisco ACLs — result = (raw/prepend part) ++ (existing ACL), and APPEND lines are spliced in as acl[:i] ++ appendACL ++ acl[i:] where i follows the last permit line; lines are sorted into the prepend or the append list by the [APPEND] flag; PAN-OS — rules without the APPEND attribute are collected and put in front of the existing rules, rules with it are appended behind them; Linux — rules not marked append are inserted in front, rules marked append before the trailing DROP rules (the index is moved back while the previous rule is DROP), both as whole lists (no slices.Insert of a single rule). (The positions inside real lists are runtime values; this fixes which list goes where.)")
	descChain := func(v ssa.Value) []string {
		var out []string
		for _, x := range appendChain(v) {
			out = append(out, descValue(x, 0))
		}
		return out
	}
	for _, name := range []string{"cisco.mergeASAACLs", "cisco.mergeIOSACLs"} {
		fn := p.Fn(name)
		if fn == nil {
			r.fail("R18.6", "anchor|"+name, "", "not found", "")
			continue
		}
		var pre, app bool
		acc := accumulatorKinds(fn, "field cisco.cmd.append")
		kindOf := func(v ssa.Value) string {
			for d := 0; d < 5; d++ {
				if k, ok := acc[v]; ok {
					return k
				}
				switch x := v.(type) {
				case *ssa.Slice:
					v = x.X
				case *ssa.Phi:
					for _, e := range x.Edges {
						if k, ok := acc[e]; ok {
							return k
						}
					}
					return ""
				default:
					return ""
				}
			}
			return ""
		}
		for _, cs := range callsOf(fn) {
			b, ok := cs.In.Common().Value.(*ssa.Builtin)
			if !ok || b.Name() != "append" || cs.In.Value() == nil {
				continue
			}
			// only outermost appends (result not itself an argument of an append)
			outer := true
			for _, ref := range *cs.In.Value().Referrers() {
				if c2, ok := ref.(*ssa.Call); ok {
					if b2, ok := c2.Common().Value.(*ssa.Builtin); ok && b2.Name() == "append" && c2.Common().Args[0] != cs.In.Value() {
						outer = false
					}
				}
			}
			if !outer {
				continue
			}
			if args := cs.In.Common().Args; len(args) == 2 {
				if _, isLit := sliceLitElems(args[1]); isLit {
					continue // element-wise append (accumulation), not a concatenation of lists
				}
			}
			ch := appendChain(cs.In.Value())
			if len(ch) == 2 {
				// prependACL ++ acl : first operand is the list built from non-append raw lines
				d0, d1 := descValue(ch[0], 0), descValue(ch[1], 0)
				_ = d1
				if sl, ok := ch[0].(*ssa.Slice); ok {
					_ = sl
				}
				// identify by variable comment of the phi / alloc
				_ = d0
				if kindOf(ch[0]) == "not-flag" && kindOf(ch[1]) == "" {
					pre = true
				}
			}
			if len(ch) == 3 {
				s0, ok0 := ch[0].(*ssa.Slice)
				s2, ok2 := ch[2].(*ssa.Slice)
				if ok0 && ok2 && kindOf(ch[1]) == "flag" && s0.Low == nil && s0.High != nil && s2.Low != nil && s2.High == nil && s0.High == s2.Low && sameSlice(s0.X, s2.X) {
					app = true
				}
			}
		}
		// the splice written with the library: slices.Insert(acl, i, appendACL...), here or in a
		// helper the audited tree does not have that is handed the [APPEND] list
		isInsert := func(f *ssa.Function) bool {
			if f == nil {
				return false
			}
			if o := f.Origin(); o != nil {
				f = o
			}
			return rawShortName(f) == "slices.Insert"
		}
		// the position comes from a search that walks backwards (a counter that is decremented): behind
		// the LAST permit line, not in front of the first deny line
		backwards := func(v ssa.Value) bool {
			dec := false
			seen := map[ssa.Value]bool{}
			var walk func(v ssa.Value, d int)
			walk = func(v ssa.Value, d int) {
				if seen[v] || d > 8 {
					return
				}
				seen[v] = true
				switch x := v.(type) {
				case *ssa.Phi:
					for _, e := range x.Edges {
						walk(e, d+1)
					}
				case *ssa.BinOp:
					if x.Op == token.SUB {
						dec = true
					}
					walk(x.X, d+1)
				}
			}
			walk(v, 0)
			return dec
		}
		for _, cs := range callsOf(fn) {
			args := cs.In.Common().Args
			if isInsert(cs.Static) && len(args) == 3 && kindOf(args[2]) == "flag" && backwards(args[1]) {
				app = true
			}
			if isNewHelper(cs.Static) {
				for k, a := range args {
					if kindOf(a) != "flag" || k >= len(cs.Static.Params) {
						continue
					}
					for _, cs2 := range callsOf(cs.Static) {
						if a2 := cs2.In.Common().Args; isInsert(cs2.Static) && len(a2) == 3 && a2[2] == ssa.Value(cs.Static.Params[k]) && backwards(a2[1]) {
							app = true
						}
					}
				}
			}
		}
		r.add("R18.6", "prepend-order|"+name, p.pos(fn.Pos()), "merged ACL = prependACL ++ existing ACL", pre, "raw lines without [APPEND] no longer precede the Netspoc lines")
		r.add("R18.6", "append-splice|"+name, p.pos(fn.Pos()), "APPEND lines are spliced as acl[:i] ++ appendACL ++ acl[i:] (or slices.Insert(acl, i, appendACL...))", app, "APPEND lines are not placed between the last permit and the trailing deny lines")
		// sorting into the two lists by the append flag
		flagOK := false
		for _, b := range fn.Blocks {
			if i := ifOf(b); i != nil {
				if strings.Contains(descCond(i.Cond, true), "field cisco.cmd.append") {
					flagOK = true
				}
			}
		}
		r.add("R18.6", "append-flag-tested|"+name, p.pos(fn.Pos()), "lines are sorted into prepend/append lists by the [APPEND] flag", flagOK, "")
	}
	// PAN-OS
	if fn := p.Fn("(*panos.PanConfig).MergeSpoc"); fn != nil && len(fn.AnonFuncs) > 0 {
		cl := fn.AnonFuncs[0]
		okTop := false
		okFlag := false
		for _, b := range cl.Blocks {
			if i := ifOf(b); i != nil && strings.Contains(descCond(i.Cond, true), "field panos.panRule.Append") {
				okFlag = true
			}
			for _, in := range b.Instrs {
				st, ok := in.(*ssa.Store)
				if !ok {
					continue
				}
				fa, ok := st.Addr.(*ssa.FieldAddr)
				if !ok || fieldName(fa) != "panos.panVsys.Rules" {
					continue
				}
				ch := appendChain(st.Val)
				accP := accumulatorKinds(cl, "field panos.panRule.Append == nil")
				kindOfAcc := func(v ssa.Value) string {
					// accumulators must be local to one invocation of the per-vsys closure:
					// a captured variable keeps the rules of the previous vsys
					for _, rt := range valueRoots(v) {
						if u, ok := rt.(*ssa.UnOp); ok {
							if _, isFV := u.X.(*ssa.FreeVar); isFV {
								return "captured"
							}
						}
					}
					if kk, ok := accP[v]; ok {
						return kk
					}
					if ph, ok := v.(*ssa.Phi); ok {
						for _, e := range ph.Edges {
							if kk, ok := accP[e]; ok {
								return kk
							}
						}
					}
					return ""
				}
				isOld := func(v ssa.Value) bool { return strings.Contains(descValue(v, 0), "panos.panVsys.Rules") }
				// top ++ v1.Rules (APPEND rules were appended to v1.Rules before), or top ++ v1.Rules ++ bottom
				if len(ch) == 2 && isOld(ch[1]) && kindOfAcc(ch[0]) == "flag" {
					okTop = true
				}
				if len(ch) == 3 && isOld(ch[1]) && kindOfAcc(ch[0]) == "flag" && kindOfAcc(ch[2]) == "not-flag" {
					okTop = true
				}
			}
		}
		r.add("R18.6", "panos-prepend|(*panos.PanConfig).MergeSpoc", p.pos(fn.Pos()), "rules without APPEND are put in front: v1.Rules = top ++ v1.Rules [++ bottom], accumulators local to the per-vsys closure", okTop, "raw rules no longer precede the Netspoc rules")
		r.add("R18.6", "panos-append-flag|(*panos.PanConfig).MergeSpoc", p.pos(fn.Pos()), "the APPEND attribute decides between prepend and append", okFlag, "")
	} else {
		r.fail("R18.6", "anchor|panos MergeSpoc", "", "not found", "")
	}
	// Linux
	if fn := p.Fn("(*linux.config).MergeSpoc"); fn != nil {
		okIns, okFlag, okDrop := false, false, false
		for _, cs := range callsOf(fn) {
			n, _, _ := strings.Cut(cs.calleeName(), "[")
			if n == "slices.Insert" {
				okIns = true
			}
		}
		for _, b := range fn.Blocks {
			if i := ifOf(b); i != nil {
				d := descCond(i.Cond, true)
				if strings.Contains(d, "field linux.rule.append") {
					okFlag = true
				}
				if strings.Contains(d, `"DROP"`) {
					okDrop = true
				}
			}
		}
		// backward walk: the index is decremented under the DROP test
		okBack := false
		for _, b := range fn.Blocks {
			for _, in := range b.Instrs {
				if bo, ok := in.(*ssa.BinOp); ok && bo.Op == token.SUB && isIntType(bo.Type()) {
					if k, ok := constInt(bo.Y); ok && k == 1 {
						for _, g := range guardSet(bo) {
							if strings.Contains(g, `"DROP" ==`) || strings.Contains(g, `== "DROP"`) {
								okBack = true
							}
						}
					}
				}
			}
		}
		okDrop = okDrop && okBack
		// the walk over trailing DROP rules looks at the rules of the chain as Netspoc wrote it
		// (field rules of the receiver's chain), not at a list that already has raw rules in it
		walked, walkedOK := 0, true
		for _, b := range fn.Blocks {
			for _, in := range b.Instrs {
				lk, ok := in.(*ssa.Lookup)
				if !ok {
					continue
				}
				if k, isC := constString(lk.Index); !isC || k != "-j" {
					continue
				}
				// pairs of which rule?  rules[i-1].pairs
				var base ssa.Value = lk.X
				for d := 0; d < 6; d++ {
					switch x := base.(type) {
					case *ssa.UnOp:
						base = x.X
						continue
					case *ssa.FieldAddr:
						base = x.X
						continue
					case *ssa.Field:
						base = x.X
						continue
					}
					break
				}
				ia, ok := base.(*ssa.IndexAddr)
				if !ok {
					continue
				}
				if bo, isB := ia.Index.(*ssa.BinOp); !isB || bo.Op != token.SUB {
					continue // only the backward walk (rules[i-1])
				}
				walked++
				if d := descValue(ia.X, 0); !strings.HasPrefix(d, "field linux.chain.rules") {
					walkedOK = false
				}
			}
		}
		r.add("R18.6", "linux-drop-walk-on-netspoc-chain|(*linux.config).MergeSpoc", p.pos(fn.Pos()), fmt.Sprintf("%d backward test(s) for DROP read the rules of the Netspoc chain itself", walked), walkedOK && walked > 0,
			"the position for [APPEND] rules is searched in a list that already contains raw rules: a raw DROP at the end of the rules in front is walked over and the appended rule lands inside the raw part")
		// the lists are inserted whole: an element-wise slices.Insert in a loop puts every rule at
		// a position computed anew (index 0: the rules come out reversed; "before the trailing DROP
		// rules" moves while DROP rules are being inserted)
		whole, nIns := true, 0
		posIns := p.pos(fn.Pos())
		for _, g := range append([]*ssa.Function{fn}, fn.AnonFuncs...) {
			for _, cs := range callsOf(g) {
				if n, _, _ := strings.Cut(cs.calleeName(), "["); n == "slices.Insert" {
					nIns++
					args := cs.In.Common().Args
					if el, isLit := sliceLitElems(args[len(args)-1]); isLit && len(el) > 0 {
						whole = false
						posIns = p.ipos(cs.In)
					}
				}
			}
		}
		r.add("R18.6", "linux-insert-whole|(*linux.config).MergeSpoc", posIns, fmt.Sprintf("%d slices.Insert call(s) of the chain merge insert lists (`list...`), none a single rule: the raw rules in front and the [APPEND] rules are inserted as whole lists", nIns), whole && nIns > 0,
			"raw rules are inserted one by one at a position computed per rule: rules inserted at index 0 come out in reversed order (iptables is first match). (Pins the defect repaired by the fix for property C18.)")
		r.add("R18.6", "linux-insert|(*linux.config).MergeSpoc", p.pos(fn.Pos()), "raw rules are inserted (in front, or before the trailing DROP rules when marked append: backward walk while the previous rule is DROP)", okIns && okFlag && okDrop,
			"the chain merge lost the prepend / append-before-DROP placement")
	} else {
		r.fail("R18.6", "anchor|linux MergeSpoc", "", "not found", "")
	}
	_ = descChain
}

// accumulatorKinds: loop-carried slices (header phis and the append results
// that flow back into them) that are appended to under a condition whose
// normalised text contains cond ("flag") or its negation ("not-flag").
func accumulatorKinds(fn *ssa.Function, cond string) map[ssa.Value]string {
	out := map[ssa.Value]string{}
	for _, cs := range callsOf(fn) {
		b, ok := cs.In.Common().Value.(*ssa.Builtin)
		if !ok || b.Name() != "append" || cs.In.Value() == nil {
			continue
		}
		kind := ""
		for _, g := range guardSet(cs.In) {
			if g == cond || strings.HasSuffix(g, cond) && !strings.HasPrefix(g, "!") {
				kind = "flag"
			}
			if g == "!"+cond || negatedCond(g, cond) {
				kind = "not-flag"
			}
		}
		if kind == "" {
			continue
		}
		base := cs.In.Common().Args[0]
		out[base] = kind
		out[cs.In.Value()] = kind
		if ph, ok := base.(*ssa.Phi); ok {
			for _, e := range ph.Edges {
				out[e] = kind
			}
		}
		// phis that merge this append result
		for _, ref := range *cs.In.Value().Referrers() {
			if ph, ok := ref.(*ssa.Phi); ok {
				out[ph] = kind
			}
		}
	}
	return out
}

// negatedCond: g is the negation of cond for comparison conditions
// ("x == nil" vs "x != nil").
func negatedCond(g, cond string) bool {
	if strings.Contains(cond, " == ") {
		return g == strings.Replace(cond, " == ", " != ", 1)
	}
	if strings.Contains(cond, " != ") {
		return g == strings.Replace(cond, " != ", " == ", 1)
	}
	return false
}

// nameOfVar: source variable name of an SSA value (phi/alloc comment), looking
// through re-slicing.
func nameOfVar(v ssa.Value) string {
	for d := 0; d < 4; d++ {
		switch x := v.(type) {
		case *ssa.Phi:
			return x.Comment
		case *ssa.Alloc:
			return x.Comment
		case *ssa.Slice:
			v = x.X
			continue
		case *ssa.UnOp:
			if al, ok := x.X.(*ssa.Alloc); ok {
				return al.Comment
			}
		case *ssa.Parameter:
			return x.Name()
		case *ssa.Call:
			if b, ok := x.Common().Value.(*ssa.Builtin); ok && b.Name() == "append" {
				v = x.Common().Args[0]
				continue
			}
		}
		break
	}
	return ""
}

// ruleCommandsOnlyGrow: R-K.  In the planner functions of a package, lists of
// emitted commands are only appended to: no re-slicing of a []string /
// []change accumulator to a shorter length.
func ruleCommandsOnlyGrow(p *Prog, r *Report, pkg string) {
	r.rule("R-K", "Emitted commands are kept: in the planner functions (reachable from diffConfig) no list of commands ([]string, []change) is re-sliced to a shorter length (x[:n]); a command once appended is part of the result. (Discarding already collected commands while the state marks set along with them stay is a convergence defect that no expected-output test of single edits sees.)")
	root := p.Fn(pkg + ".diffConfig")
	if root == nil {
		r.fail("R-K", "anchor|"+pkg+".diffConfig", "", "not found", "")
		return
	}
	n := 0
	// accumulators: local variables / cells that are the first argument of an append of commands
	isAccRoot := func(v ssa.Value) bool {
		switch x := v.(type) {
		case *ssa.Phi, *ssa.Alloc, *ssa.FreeVar:
			return true
		case *ssa.Call:
			if bi, ok := x.Common().Value.(*ssa.Builtin); ok && bi.Name() == "append" {
				return true
			}
		case *ssa.UnOp:
			switch x.X.(type) {
			case *ssa.Alloc, *ssa.FreeVar:
				return true
			}
		}
		return false
	}
	var fns []*ssa.Function
	for _, fn := range funcTree(p, root) {
		if pkgOfFunc(fn) == pkg {
			fns = append(fns, fn)
		}
	}
	accCells := map[ssa.Value]bool{}
	for _, fn := range fns {
		for _, cs := range callsOf(fn) {
			bi, ok := cs.In.Common().Value.(*ssa.Builtin)
			if !ok || bi.Name() != "append" || cs.In.Value() == nil || !isCmdList(cs.In.Value().Type()) {
				continue
			}
			a0 := cs.In.Common().Args[0]
			if !isAccRoot(a0) {
				continue
			}
			n++
			accCells[a0] = true
			if u, ok := a0.(*ssa.UnOp); ok {
				accCells[u.X] = true
			}
		}
	}
	for _, fn := range fns {
		for _, b := range fn.Blocks {
			for _, in := range b.Instrs {
				x, ok := in.(*ssa.Slice)
				if !ok || x.High == nil || !isCmdList(x.X.Type()) {
					continue
				}
				hit := accCells[x.X]
				if u, ok := x.X.(*ssa.UnOp); ok && accCells[u.X] {
					hit = true
				}
				if !hit {
					continue
				}
				r.fail("R-K", "truncate|"+fnDisplay(fn), p.ipos(x), "the command accumulator is re-sliced ("+descValue(x.X, 0)+"[:...]) in "+fnDisplay(fn),
					"commands that were already collected can be dropped from the result")
			}
		}
	}
	r.add("R-K", "commands-only-appended|"+pkg, p.pos(root.Pos()), fmt.Sprintf("%d appends to command lists in the %s planner, no truncation", n, pkg), n >= 3, "no command list found: anchor lost")
}

func isCmdList(t types.Type) bool {
	sl, ok := t.Underlying().(*types.Slice)
	if !ok {
		return false
	}
	if isStringType(sl.Elem()) {
		return true
	}
	return strings.HasSuffix(typeShort(sl.Elem()), ".change")
}

// ruleEveryLineKept: R18.7.  In the ACL merge functions every line of the
// merged-in part is added to one of the result lists on every path through
// the loop body: no `continue`, no de-duplication, no filter.
func ruleEveryLineKept(p *Prog, r *Report) {
	r.rule("R18.7", "Every element of a merged-in part is kept: in cisco.mergeASAACLs and cisco.mergeIOSACLs (ACL lines), the PAN-OS and Linux MergeSpoc (rules) and the NSX MergeSpoc (policies) the loop over the elements of the merged-in part reaches, on every path through its body, an append / slices.Insert of the current element (or of the list it carries) to a result list. (ACL lines are never merged with or dropped in favour of an existing line: lines that look alike after object-group names were replaced by placeholders can differ in their groups.)")
	for _, spec := range [][2]string{{"cisco.mergeASAACLs", "bCmds"}, {"cisco.mergeIOSACLs", "cisco.cmd.sub"},
		{"(*panos.PanConfig).MergeSpoc$1", "panos.panVsys.Rules"}, {"(*nsx.NsxConfig).MergeSpoc", "nsx.NsxConfig.Policies"}, {"(*linux.config).MergeSpoc", "linux.chain.rules"}} {
		name, src := spec[0], spec[1]
		fn := p.Fn(name)
		if fn == nil {
			r.fail("R18.7", "anchor|"+name, "", "not found", "")
			continue
		}
		found := 0
		for _, blk := range fn.Blocks {
			for _, in := range blk.Instrs {
				elem, ok := in.(*ssa.UnOp)
				if !ok {
					continue
				}
				ia, ok := elem.X.(*ssa.IndexAddr)
				if !ok || !strings.Contains(descValue(ia.X, 0), src) {
					continue
				}
				if _, est := structOf(elem.Type()); est == nil {
					continue
				}
				// only elements of the merged-in side: outside package cisco the slice must not
				// be reached from the first parameter / receiver (the side merged into)
				if !strings.HasPrefix(name, "cisco.") {
					var base func(v ssa.Value, d int) ssa.Value
					base = func(v ssa.Value, d int) ssa.Value {
						if d > 12 {
							return v
						}
						switch x := v.(type) {
						case *ssa.UnOp:
							return base(x.X, d+1)
						case *ssa.FieldAddr:
							return base(x.X, d+1)
						case *ssa.Field:
							return base(x.X, d+1)
						case *ssa.IndexAddr:
							return base(x.X, d+1)
						case *ssa.Lookup:
							return base(x.X, d+1)
						case *ssa.Extract:
							return base(x.Tuple, d+1)
						case *ssa.Next:
							return base(x.Iter, d+1)
						case *ssa.Range:
							return base(x.X, d+1)
						case *ssa.Phi:
							if len(x.Edges) > 0 {
								return base(x.Edges[0], d+1)
							}
						}
						return v
					}
					if pa, isP := base(ia.X, 0).(*ssa.Parameter); isP && len(fn.Params) > 0 && pa == fn.Params[0] {
						continue
					}
				}
				// index must be a loop variable: innermost loop containing the load
				var h *ssa.BasicBlock
				var body map[*ssa.BasicBlock]bool
				for _, hb := range fn.Blocks {
					if bd := naturalLoopBody(hb); bd != nil && bd[blk] && (body == nil || len(bd) < len(body)) {
						h, body = hb, bd
					}
				}
				if h == nil {
					continue
				}
				ownElem := false
				if _, isPhi := ia.Index.(*ssa.Phi); isPhi {
					ownElem = true
				}
				if bo, isB := ia.Index.(*ssa.BinOp); isB && bo.Op == token.ADD {
					if _, isPhi := bo.X.(*ssa.Phi); isPhi {
						if k, isK := constInt(bo.Y); isK && k == 1 {
							ownElem = true // go/ssa: range index = phi + 1
						}
					}
				}
				if !ownElem {
					continue // not the loop's own element (e.g. rules[i-1] of a backward search)
				}
				found++
				keep := map[*ssa.BasicBlock]bool{}
				for _, b2 := range fn.Blocks {
					if !body[b2] {
						continue
					}
					for _, in2 := range b2.Instrs {
						c, ok := in2.(*ssa.Call)
						if !ok {
							continue
						}
						if f := c.Common().StaticCallee(); f != nil && strings.HasPrefix(shortName(f), "slices.Insert") {
							if el, ok := sliceLitElems(c.Common().Args[len(c.Common().Args)-1]); ok {
								for _, e := range el {
									for _, rt := range valueRoots(e) {
										if rt == ssa.Value(elem) {
											keep[b2] = true
										}
									}
								}
							}
							continue
						}
						if bi, ok := c.Common().Value.(*ssa.Builtin); !ok || bi.Name() != "append" {
							continue
						}
						if el, ok := sliceLitElems(c.Common().Args[1]); ok {
							for _, e := range el {
								if e == ssa.Value(elem) {
									keep[b2] = true
								}
								for _, rt := range valueRoots(e) {
									if rt == ssa.Value(elem) {
										keep[b2] = true
									}
								}
							}
						} else {
							// append(x, elem.field...): a list that belongs to the element
							for _, rt := range valueRoots(c.Common().Args[1]) {
								if u, ok := rt.(*ssa.UnOp); ok {
									if fa, ok := u.X.(*ssa.FieldAddr); ok && fa.X == ssa.Value(elem) {
										keep[b2] = true
									}
								}
							}
						}
					}
				}
				seen := map[*ssa.BasicBlock]bool{}
				skipped := false
				var walk func(b *ssa.BasicBlock)
				walk = func(b *ssa.BasicBlock) {
					if seen[b] || keep[b] || !body[b] {
						return
					}
					seen[b] = true
					for _, sx := range b.Succs {
						if sx == h {
							skipped = true
							return
						}
						walk(sx)
					}
				}
				if !keep[blk] {
					walk(blk)
				}
				r.add("R18.7", "every-line-kept|"+name, p.ipos(elem), fmt.Sprintf("every path through the loop over the merged-in lines appends the line (%d appending blocks)", len(keep)), len(keep) > 0 && !skipped,
					"some lines of the merged-in part are dropped without a message")
			}
		}
		if found == 0 {
			r.fail("R18.7", "anchor|loop over merged-in lines|"+name, p.pos(fn.Pos()), "no loop over the merged-in lines found", "")
		}
	}
}
