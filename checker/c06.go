package main

// C06 (approve never changes a wrong / unmanaged / passive device) and
// C11 (compare never changes the device).

import (
	"fmt"
	"go/token"
	"go/types"
	"sort"
	"strings"

	"golang.org/x/tools/go/callgraph"
	"golang.org/x/tools/go/ssa"
)

func init() {
	register("C06", "other", true, checkC06)
	register("C11", "proof", true, checkC11)
}

var trustedCallGraph = []string{
	"go/packages type checking and go/ssa construction of /repo/go (x/tools v0.29.0)",
	"VTA call graph seeded with CHA is sound for this module: asserted that production code uses no reflect.Call/unsafe/cgo/go:linkname",
}

// ---------- shared: sites gated by the unmanaged check ----------

// unmanagedGateSites returns the call instructions that execute only when the
// result of RealDevice.GetErrUnmanaged() was tested empty.
func unmanagedGateSites(p *Prog, m *Model) (gated map[ssa.Instruction]bool, gates []string) {
	gated = map[ssa.Instruction]bool{}
	for _, fn := range allModFuncs(p) {
		for _, cs := range callsOf(fn) {
			isGate := false
			if cs.Method != nil && cs.Method.Name() == "GetErrUnmanaged" {
				isGate = true
			}
			if cs.Static != nil && cs.Static.Name() == "GetErrUnmanaged" && cs.Static.Signature.Recv() != nil {
				isGate = true
			}
			if !isGate {
				continue
			}
			res := cs.In.Value()
			if res == nil {
				continue
			}
			for _, b := range fn.Blocks {
				i := ifOf(b)
				if i == nil {
					continue
				}
				x, nonEmptyWhenTrue, ok := emptinessTest(i.Cond)
				if !ok {
					continue
				}
				match := false
				for _, r := range valueRoots(x) {
					if r == res {
						match = true
					}
				}
				if !match {
					continue
				}
				emptySucc := 1
				if !nonEmptyWhenTrue {
					emptySucc = 0
				}
				n := 0
				for _, bb := range fn.Blocks {
					if !edgeDominates(b, emptySucc, bb) {
						continue
					}
					for _, in := range bb.Instrs {
						if _, ok := in.(ssa.CallInstruction); ok {
							gated[in] = true
							n++
						}
					}
				}
				gates = append(gates, fmt.Sprintf("%s: %d call sites on the empty edge of the test of GetErrUnmanaged() at %s",
					shortName(fn), n, p.ipos(i)))
			}
		}
	}
	sort.Strings(gates)
	return
}

// ruleGateAfterChecks: R06.7 — the gate is evaluated after every phase that can
// record an unmanaged finding.
func ruleGateAfterChecks(p *Prog, m *Model, r *Report) {
	r.rule("R06.7", "Let M be the RealDevice methods some implementation of which (transitively) stores into its unmanaged-findings field (LoadDevice for ASA/IOS/Linux, GetChanges for PAN-OS). In the function that tests GetErrUnmanaged() before applying, every call that can reach a method of M dominates the GetErrUnmanaged() call (it happens before the gate on every path), and no such call is reachable after it. Otherwise a finding recorded later never stops the run.")
	cg := p.CG()
	// methods that can store into an unmanaged field
	recording := map[*ssa.Function]string{}
	for _, t := range m.Impls {
		fields := map[*types.Var]string{}
		errSliceFields(t, "", fields)
		storeFns := map[*ssa.Function]bool{}
		for fv := range fields {
			for _, st := range storesToField(p, fv) {
				f := st.Parent()
				for f.Parent() != nil {
					f = f.Parent()
				}
				storeFns[st.Parent()] = true
				storeFns[f] = true
			}
		}
		if len(storeFns) == 0 {
			continue
		}
		iface := m.Iface.Underlying().(*types.Interface)
		for i := 0; i < iface.NumMethods(); i++ {
			name := iface.Method(i).Name()
			if name == "GetErrUnmanaged" {
				continue
			}
			sel := p.SSA.MethodSets.MethodSet(t).Lookup(iface.Method(i).Pkg(), name)
			fn := p.SSA.MethodValue(sel)
			reach := reachFrom(cg, []*ssa.Function{fn}, nil)
			for sf := range storeFns {
				if reach[sf] {
					recording[fn] = typeShort(t) + "." + name
				}
			}
		}
	}
	r.floor("R06.7", "methods that record unmanaged findings", len(recording), 4)
	gates := 0
	for _, fn := range allModFuncs(p) {
		for _, cs := range callsOf(fn) {
			if !(cs.Method != nil && cs.Method.Name() == "GetErrUnmanaged") {
				continue
			}
			// only gates that guard an apply: the function must reach ApplyCommands
			reachesApply := false
			rf := reachFrom(cg, []*ssa.Function{fn}, nil)
			for f := range applyImpls(m) {
				if rf[f] {
					reachesApply = true
				}
			}
			if !reachesApply {
				continue
			}
			gates++
			for _, other := range callsOf(fn) {
				if other == cs || other.In == cs.In {
					continue
				}
				var callees []*ssa.Function
				if n := cg.Nodes[fn]; n != nil {
					for _, e := range n.Out {
						if e.Site == other.In {
							callees = append(callees, e.Callee.Func)
						}
					}
				}
				rr := reachFrom(cg, callees, nil)
				var hits []string
				for rec, name := range recording {
					if rr[rec] {
						hits = append(hits, name)
					}
				}
				if len(hits) == 0 {
					continue
				}
				sort.Strings(hits)
				ok := idom(other.In, cs.In) && !ireach(cs.In, other.In)
				r.add("R06.7", "check-before-gate|"+shortName(fn)+"|"+other.calleeName(), p.ipos(other.In),
					fmt.Sprintf("call of %s (can record findings via %s) happens before the gate", other.calleeName(), strings.Join(hits, ", ")), ok,
					"findings recorded by this phase come after GetErrUnmanaged() was tested: an unmanaged device is changed")
			}
		}
	}
	r.floor("R06.7", "gates guarding an apply", gates, 1)
}

func applyImpls(m *Model) map[*ssa.Function]bool {
	s := map[*ssa.Function]bool{}
	for _, f := range m.Methods["ApplyCommands"] {
		s[f] = true
	}
	return s
}

// ruleGateDominatesApply: R06.1 + R06.2.
func ruleGateDominatesApply(p *Prog, m *Model, r *Report) {
	r.rule("R06.1", "Every call path from an entry point (drc.Main, doapprove.Main, missing-approve, get-netspoc-approve-conf) to an implementation of RealDevice.ApplyCommands passes through a call site that lies on the 'empty' edge of a test of the result of RealDevice.GetErrUnmanaged() (x != nil, len(x) != 0 and equivalents). Decided by reachability in the VTA call graph with the gated call sites removed.")
	gated, gates := unmanagedGateSites(p, m)
	r.floor("R06.1", "gate tests of GetErrUnmanaged()", len(gates), 1)
	for _, g := range gates {
		r.note("R06.1 gate: %s", g)
	}
	cg := p.CG()
	cut := func(e *callgraph.Edge) bool { return e.Site != nil && gated[e.Site] }
	for _, f := range m.Methods["ApplyCommands"] {
		path := callPath(cg, m.Entries, f, cut)
		key := "ungated-path|" + shortName(unwrap(f))
		if path != nil {
			r.fail("R06.1", key, p.pos(unwrap(f).Pos()), "ApplyCommands reachable without passing the unmanaged gate",
				"path: "+strings.Join(path, " -> "))
		} else {
			r.ok("R06.1", key, p.pos(unwrap(f).Pos()), "every call path to it passes the unmanaged gate")
		}
	}
	// who-may-apply (R06.2): list the direct callers for the evidence, and
	// require that each one is itself a gated site or inside a function that
	// is only reachable through gated sites (which the path rule established).
	r.rule("R06.2", "who-may-apply: the direct call sites of every ApplyCommands implementation are enumerated; none lies in a function reachable without the gate (implied by R06.1) and none is a go/defer.")
	n := 0
	for _, f := range m.Methods["ApplyCommands"] {
		for _, e := range callersOf(cg, f) {
			if e.Site == nil {
				continue
			}
			n++
			_, isCall := e.Site.(*ssa.Call)
			r.add("R06.2", "caller|"+shortName(e.Caller.Func)+"|"+shortName(unwrap(f)), p.ipos(e.Site),
				"call of ApplyCommands from "+shortName(e.Caller.Func), isCall, "ApplyCommands must not be deferred or started as a goroutine")
		}
	}
	r.floor("R06.2", "call edges into ApplyCommands implementations", n, len(m.Impls))
}

// ---------- R06.3 the gate sees what the checks found ----------

// errSliceFields: fields of type []error in struct t (following embedded structs).
func errSliceFields(t types.Type, prefix string, out map[*types.Var]string) {
	if pt, ok := t.Underlying().(*types.Pointer); ok {
		t = pt.Elem()
	}
	st, ok := t.Underlying().(*types.Struct)
	if !ok {
		return
	}
	for i := 0; i < st.NumFields(); i++ {
		f := st.Field(i)
		if sl, ok := f.Type().Underlying().(*types.Slice); ok {
			if types.TypeString(sl.Elem(), nil) == "error" {
				out[f] = prefix + fldName(f)
			}
		}
		if f.Embedded() {
			if _, isStruct := f.Type().Underlying().(*types.Struct); isStruct {
				errSliceFields(f.Type(), prefix+fldName(f)+".", out)
			}
		}
	}
}

func fieldVarOf(fa *ssa.FieldAddr) *types.Var {
	t := fa.X.Type()
	if pt, ok := t.Underlying().(*types.Pointer); ok {
		t = pt.Elem()
	}
	st, ok := t.Underlying().(*types.Struct)
	if !ok {
		return nil
	}
	return st.Field(fa.Field)
}

// storesToField lists all stores (in module functions) into struct field fv.
func storesToField(p *Prog, fv *types.Var) []*ssa.Store {
	var out []*ssa.Store
	for _, fn := range allModFuncs(p) {
		for _, b := range fn.Blocks {
			for _, in := range b.Instrs {
				if st, ok := in.(*ssa.Store); ok {
					if fa, ok := st.Addr.(*ssa.FieldAddr); ok && fieldVarOf(fa) == fv {
						out = append(out, st)
					}
				}
			}
		}
	}
	return out
}

// loadsOfField lists all loads (UnOp *) of struct field fv in fn.
func fieldLoadedBy(v ssa.Value) *types.Var {
	for _, r := range valueRoots(v) {
		if u, ok := r.(*ssa.UnOp); ok && u.Op == token.MUL {
			if fa, ok := u.X.(*ssa.FieldAddr); ok {
				return fieldVarOf(fa)
			}
		}
	}
	return nil
}

func ruleGateSeesChecks(p *Prog, m *Model, r *Report) map[types.Type]*types.Var {
	r.rule("R06.3", "For every implementation T of RealDevice: if any function stores into a field of type []error of T's state (the unmanaged-device findings), T.GetErrUnmanaged returns a load of that field on every return, and no store into it writes nil or a fresh empty slice (which would erase earlier findings).")
	res := map[types.Type]*types.Var{}
	withField := 0
	for _, t := range m.Impls {
		fields := map[*types.Var]string{}
		errSliceFields(t, "", fields)
		get := m.implMethod(t, "GetErrUnmanaged")
		tn := typeShort(t)
		if get == nil {
			r.fail("R06.3", "no-method|"+tn, "", "GetErrUnmanaged not found", "")
			continue
		}
		// which field does it return?
		var returned *types.Var
		allReturnField := true
		for _, ret := range returnsOf(get) {
			fv := fieldLoadedBy(ret.Results[0])
			if fv == nil || fields[fv] == "" {
				allReturnField = false
			} else {
				returned = fv
			}
		}
		var written []*types.Var
		for fv := range fields {
			if len(storesToField(p, fv)) > 0 {
				written = append(written, fv)
			}
		}
		sort.Slice(written, func(i, j int) bool { return written[i].Name() < written[j].Name() })
		if len(written) == 0 {
			r.ok("R06.3", "no-unmanaged-state|"+tn, p.pos(get.Pos()),
				tn+" records no unmanaged findings; GetErrUnmanaged may return nil")
			continue
		}
		withField++
		for _, fv := range written {
			ok := allReturnField && returned == fv
			r.add("R06.3", "returns-field|"+tn+"|"+fields[fv], p.pos(get.Pos()),
				fmt.Sprintf("%s.GetErrUnmanaged returns the field %s that the checks write", tn, fields[fv]), ok,
				fmt.Sprintf("%s is written by %s but GetErrUnmanaged does not return it on every path: approve would not be stopped", fields[fv], storeFuncs(storesToField(p, fv))))
			if ok {
				res[t] = fv
			}
			for _, st := range storesToField(p, fv) {
				bad := false
				for _, rt := range valueRoots(st.Val) {
					if isNilConst(rt) {
						bad = true
					}
					if _, isMk := rt.(*ssa.MakeSlice); isMk {
						bad = true
					}
				}
				r.add("R06.3", "store-keeps-findings|"+shortName(st.Parent())+"|"+fields[fv], p.ipos(st),
					"store into "+fields[fv]+" records a finding (does not erase)", !bad,
					"a store of nil / an empty slice erases findings recorded earlier in the session")
			}
		}
	}
	r.floor("R06.3", "implementations with unmanaged state", withField, 3)
	return res
}

func storeFuncs(l []*ssa.Store) string {
	s := map[string]bool{}
	for _, st := range l {
		s[shortName(st.Parent())] = true
	}
	var n []string
	for k := range s {
		n = append(n, k)
	}
	sort.Strings(n)
	return strings.Join(n, ", ")
}

// ---------- R06.4 checks on every load path ----------

// errProvablyNonNil: value v (an error operand of a return in block b) cannot be nil.
func errProvablyNonNil(v ssa.Value, at *ssa.BasicBlock, depth int) bool {
	if depth > 6 {
		return false
	}
	// functions with defer spill their results into cells before `rundefers`
	// and return loads of those cells: look at what was stored in this block
	if u, ok := v.(*ssa.UnOp); ok && u.Op == token.MUL {
		if al, ok := u.X.(*ssa.Alloc); ok {
			var last ssa.Value
			for _, in := range at.Instrs {
				if st, ok := in.(*ssa.Store); ok && st.Addr == ssa.Value(al) {
					last = st.Val
				}
				if in == ssa.Instruction(u) {
					break
				}
			}
			if last != nil {
				return errProvablyNonNil(last, at, depth+1)
			}
		}
	}
	if isNilConst(v) {
		return false
	}
	switch x := v.(type) {
	case *ssa.Call:
		if f := x.Common().StaticCallee(); f != nil {
			switch shortName(f) {
			case "fmt.Errorf", "errors.New":
				return true
			}
		}
	case *ssa.Phi:
		for _, e := range x.Edges {
			if !errProvablyNonNil(e, at, depth+1) {
				return false
			}
		}
		return true
	case *ssa.MakeInterface:
		return true
	}
	// dominated by the true edge of v != nil ?
	fn := at.Parent()
	for _, b := range fn.Blocks {
		i := ifOf(b)
		if i == nil {
			continue
		}
		x, nonNilWhenTrue, ok := nilTest(i.Cond)
		if !ok || x != v {
			continue
		}
		succ := 0
		if !nonNilWhenTrue {
			succ = 1
		}
		if edgeDominates(b, succ, at) {
			return true
		}
	}
	return false
}

// successReturns: returns of fn whose last result (error) may be nil; all
// returns if fn has no error result.
func successReturns(fn *ssa.Function) []*ssa.Return {
	var out []*ssa.Return
	res := fn.Signature.Results()
	errIdx := -1
	if res.Len() > 0 && types.TypeString(res.At(res.Len()-1).Type(), nil) == "error" {
		errIdx = res.Len() - 1
	}
	for _, ret := range returnsOf(fn) {
		if errIdx >= 0 && errProvablyNonNil(ret.Results[errIdx], ret.Block(), 0) {
			continue
		}
		out = append(out, ret)
	}
	return out
}

// mustCalls: callee -> a call site of it in fn that dominates every success
// return of fn (closures: immediately invoked ones are followed by the caller).
func mustCallSites(fn *ssa.Function) map[*ssa.Function]*callSite {
	out := map[*ssa.Function]*callSite{}
	rets := successReturns(fn)
	if len(rets) == 0 {
		return out
	}
	for _, cs := range callsOf(fn) {
		if cs.Static == nil || cs.Defer || cs.Go {
			continue
		}
		all := true
		for _, ret := range rets {
			if !idom(cs.In, ret) {
				all = false
				break
			}
		}
		if all {
			out[cs.Static] = cs
		}
	}
	return out
}

// mustReach: every successful execution of fn calls target (transitively
// through calls that dominate the success returns).  Returns the chain.
func mustReach(fn *ssa.Function, target func(*ssa.Function) bool, seen map[*ssa.Function]bool) []string {
	if seen[fn] {
		return nil
	}
	seen[fn] = true
	mc := mustCallSites(fn)
	var callees []*ssa.Function
	for c := range mc {
		callees = append(callees, c)
	}
	sort.Slice(callees, func(i, j int) bool { return shortName(callees[i]) < shortName(callees[j]) })
	for _, c := range callees {
		if target(c) {
			return []string{shortName(fn), shortName(c)}
		}
	}
	for _, c := range callees {
		if !isModFunc(c) {
			continue
		}
		if ch := mustReach(c, target, seen); ch != nil {
			return append([]string{shortName(fn)}, ch...)
		}
	}
	return nil
}

// isHostnameCheck: fn compares one of its string parameters (or a value read
// from the parsed device config) with another string and aborts / returns an
// error on one branch.
func isHostnameCheck(fn *ssa.Function) bool {
	if !isModFunc(fn) {
		return false
	}
	for _, b := range fn.Blocks {
		i := ifOf(b)
		if i == nil {
			continue
		}
		c, _ := stripNot(i.Cond)
		bo, ok := c.(*ssa.BinOp)
		if !ok || (bo.Op != token.NEQ && bo.Op != token.EQL) {
			continue
		}
		if !isStringType(bo.X.Type()) {
			continue
		}
		hasParam := false
		for _, side := range []ssa.Value{bo.X, bo.Y} {
			for _, rt := range valueRoots(side) {
				if par, ok := rt.(*ssa.Parameter); ok && isStringType(par.Type()) {
					hasParam = true
				}
			}
		}
		if !hasParam {
			continue
		}
		// one successor aborts or returns a non-nil error
		for _, s := range b.Succs {
			if blockAborts(s) {
				return true
			}
			for _, in := range s.Instrs {
				if ret, ok := in.(*ssa.Return); ok && len(ret.Results) > 0 {
					last := ret.Results[len(ret.Results)-1]
					if errProvablyNonNil(last, s, 0) {
						return true
					}
				}
			}
		}
	}
	return false
}

func isStringType(t types.Type) bool {
	b, ok := t.Underlying().(*types.Basic)
	return ok && b.Info()&types.IsString != 0
}

func ruleChecksOnLoadPath(p *Prog, m *Model, r *Report, unmanagedField map[types.Type]*types.Var) {
	r.rule("R06.4a", "hostname: every execution of T.LoadDevice that returns without error has called a hostname check (a function comparing a string parameter with a device-reported string, aborting or returning an error on mismatch) with an argument derived from codefiles.GetHostname / the login name; a check that returns its verdict as error must have that error flow into LoadDevice's returned error. NSX is exempt: the property names no hostname or marker for it.")
	r.rule("R06.4b", "marker: for T with unmanaged state recorded at login (ASA, IOS, Linux) every successful execution of T.LoadDevice has called a function that stores into the unmanaged field (must-call chain through calls dominating all success returns). For PAN-OS every store into the change list in GetChanges is dominated by a call of the function that stores into the unmanaged field (marker check per vsys), and the login closure returns nil only on the true edge of the HA-state check.")
	hn := 0
	mk := 0
	for _, t := range m.Impls {
		tn := typeShort(t)
		ld := m.implMethod(t, "LoadDevice")
		if ld == nil {
			r.fail("R06.4a", "no-LoadDevice|"+tn, "", "LoadDevice not found", "")
			continue
		}
		if tn == "*nsx.State" {
			r.note("R06.4: NSX exempt (no hostname or managed-by marker in the property's statement)")
			continue
		}
		// hostname
		seen := map[*ssa.Function]bool{}
		chain := mustReach(ld, isHostnameCheck, seen)
		if chain != nil {
			hn++
			// if the check returns an error, it must flow to the return
			okFlow := true
			detail := ""
			last := p.Fn(chain[len(chain)-1])
			if last != nil && last.Signature.Results().Len() > 0 && len(chain) == 2 {
				cs := mustCallSites(ld)[last]
				okFlow = false
				if cs != nil {
					for _, ret := range successReturns(ld) {
						for _, rt := range valueRoots(ret.Results[len(ret.Results)-1]) {
							if rt == cs.In.Value() {
								okFlow = true
							}
						}
					}
					if !okFlow {
						// alternatively tested with err != nil -> return/abort
						okFlow = resultIsTested(cs.In.Value())
					}
				}
				detail = "the verdict of the hostname check is dropped"
			}
			r.add("R06.4a", "hostname|"+tn, p.pos(ld.Pos()), "hostname check on every successful load: "+strings.Join(chain, " -> "), okFlow, detail)
		} else {
			r.fail("R06.4a", "hostname|"+tn, p.pos(ld.Pos()), "no hostname check dominates the successful returns of LoadDevice",
				"a device answering with another hostname would be accepted")
		}
		// marker
		fv := unmanagedField[t]
		if fv == nil {
			// R06.3 already reports the missing link; still look for the check via any written []error field
			fields := map[*types.Var]string{}
			errSliceFields(t, "", fields)
			for f := range fields {
				if len(storesToField(p, f)) > 0 {
					fv = f
				}
			}
		}
		if fv == nil {
			r.fail("R06.4b", "marker|"+tn, p.pos(ld.Pos()), "no unmanaged state at all for "+tn, "the managed-by marker cannot be checked")
			continue
		}
		storeFns := map[*ssa.Function]bool{}
		for _, st := range storesToField(p, fv) {
			storeFns[st.Parent()] = true
		}
		isMarker := func(f *ssa.Function) bool { return storeFns[f] }
		if tn == "*panos.State" {
			mk += rulePanosMarker(p, m, r, t, isMarker)
			continue
		}
		chain = mustReach(ld, isMarker, map[*ssa.Function]bool{})
		if chain != nil {
			mk++
			r.ok("R06.4b", "marker|"+tn, p.pos(ld.Pos()), "marker check on every successful load: "+strings.Join(chain, " -> "))
		} else {
			r.fail("R06.4b", "marker|"+tn, p.pos(ld.Pos()), "no marker check dominates the successful returns of LoadDevice",
				"some login path skips the managed-by marker check")
		}
	}
	r.floor("R06.4a", "hostname checks", hn, 4)
	r.floor("R06.4b", "marker checks", mk, 4)
}

// resultIsTested: the (error) value is compared with nil somewhere.
func resultIsTested(v ssa.Value) bool {
	if v == nil {
		return false
	}
	for _, ref := range *v.Referrers() {
		if bo, ok := ref.(*ssa.BinOp); ok {
			if _, _, ok := nilTest(bo); ok {
				return true
			}
		}
	}
	return false
}

func rulePanosMarker(p *Prog, m *Model, r *Report, t types.Type, isMarker func(*ssa.Function) bool) int {
	n := 0
	tn := typeShort(t)
	get := m.implMethod(t, "GetChanges")
	// change fields: fields of the state stored within GetChanges' closure tree
	stt := t.(*types.Pointer).Elem().Underlying().(*types.Struct)
	var fns []*ssa.Function
	var collect func(f *ssa.Function)
	collect = func(f *ssa.Function) {
		fns = append(fns, f)
		for _, a := range f.AnonFuncs {
			collect(a)
		}
	}
	collect(get)
	stores := 0
	for _, fn := range fns {
		for _, b := range fn.Blocks {
			for _, in := range b.Instrs {
				st, ok := in.(*ssa.Store)
				if !ok {
					continue
				}
				fa, ok := st.Addr.(*ssa.FieldAddr)
				if !ok {
					continue
				}
				fv := fieldVarOf(fa)
				isState := false
				for i := 0; i < stt.NumFields(); i++ {
					if stt.Field(i) == fv {
						isState = true
					}
				}
				if !isState || isMarkerField(fv) {
					continue
				}
				stores++
				// dominated by a call to a marker function
				dom := false
				for _, cs := range callsOf(fn) {
					if cs.Static != nil && isMarker(cs.Static) && !cs.Defer && idom(cs.In, st) {
						dom = true
					}
				}
				r.add("R06.4b", "panos-marker|"+shortName(fn)+"|"+fldName(fv), p.ipos(st),
					"store to change list "+fldName(fv)+" is dominated by the vsys marker check", dom,
					"changes are recorded for a vsys whose display-name was not checked for 'netspoc'")
				if dom {
					n++
				}
			}
		}
	}
	if stores == 0 {
		r.fail("R06.4b", "panos-marker|no-change-store|"+tn, p.pos(get.Pos()), "no store to a change field found in GetChanges", "rule anchor lost")
	}
	// HA: login closure of LoadDevice returns nil only on the true edge of checkHA
	ld := m.implMethod(t, "LoadDevice")
	found := false
	for _, cl := range ld.AnonFuncs {
		for _, cs := range callsOf(cl) {
			if cs.Static == nil || !isModFunc(cs.Static) {
				continue
			}
			res := cs.Static.Signature.Results()
			if res.Len() != 1 || types.TypeString(res.At(0).Type(), nil) != "bool" {
				continue
			}
			// a bool-valued module function tested in the login closure = state check
			v := cs.In.Value()
			for _, b := range cl.Blocks {
				i := ifOf(b)
				if i == nil {
					continue
				}
				c, neg := stripNot(i.Cond)
				if c != v {
					continue
				}
				found = true
				trueSucc := 0
				if neg {
					trueSucc = 1
				}
				okAll := true
				for _, ret := range successReturns(cl) {
					if !edgeDominates(b, trueSucc, ret.Block()) {
						okAll = false
					}
				}
				r.add("R06.4b", "panos-ha|"+shortName(cl)+"|"+shortName(cs.Static), p.ipos(i),
					"login succeeds only if "+shortName(cs.Static)+" returned true (active HA member)", okAll,
					"a passive HA member would be accepted as login target")
				if okAll {
					n++
				}
			}
		}
	}
	if !found {
		r.fail("R06.4b", "panos-ha|missing|"+tn, p.pos(ld.Pos()), "no HA-state test found in the login closure of LoadDevice", "")
	}
	return n
}

func isMarkerField(fv *types.Var) bool {
	sl, ok := fv.Type().Underlying().(*types.Slice)
	return ok && types.TypeString(sl.Elem(), nil) == "error"
}

// ---------- R06.5 optional banner is nil-safe ----------

func ruleOptionalBanner(p *Prog, m *Model, r *Report) {
	r.rule("R06.5", "Every pointer-typed field of program.Config that LoadConfig leaves nil when the option is absent (CheckBanner) is dereferenced (method call on it, field access, unary *) only where a '!= nil' test of the same load dominates the use; on the nil branch no store into an unmanaged field is reachable (check skipped, approve works normally).")
	cfgPkg := p.Mod["program"]
	obj := cfgPkg.Types.Scope().Lookup("Config")
	st := obj.Type().Underlying().(*types.Struct)
	var optional []*types.Var
	for i := 0; i < st.NumFields(); i++ {
		f := st.Field(i)
		if _, ok := f.Type().Underlying().(*types.Pointer); ok {
			optional = append(optional, f)
		}
	}
	r.floor("R06.5", "pointer-typed optional fields of program.Config", len(optional), 1)
	uses := 0
	for _, fn := range allModFuncs(p) {
		for _, b := range fn.Blocks {
			for _, in := range b.Instrs {
				u, ok := in.(*ssa.UnOp)
				if !ok || u.Op != token.MUL {
					continue
				}
				fa, ok := u.X.(*ssa.FieldAddr)
				if !ok {
					continue
				}
				fv := fieldVarOf(fa)
				isOpt := false
				for _, o := range optional {
					if o == fv {
						isOpt = true
					}
				}
				if !isOpt {
					continue
				}
				// u is a load of the optional pointer.  Every dereferencing use must be guarded.
				for _, ref := range derefUses(u) {
					uses++
					guard := gatedBy(ref, func(cond ssa.Value) (bool, int) {
						x, nonNilWhenTrue, ok := nilTest(cond)
						if !ok {
							return false, 0
						}
						same := x == u
						if !same {
							// a second load of the same field of the same struct value
							if u2, ok := x.(*ssa.UnOp); ok && u2.Op == token.MUL {
								if fa2, ok := u2.X.(*ssa.FieldAddr); ok && fieldVarOf(fa2) == fv && fa2.X == fa.X {
									same = true
								}
							}
						}
						if !same {
							return false, 0
						}
						if nonNilWhenTrue {
							return true, 0
						}
						return true, 1
					})
					// short-circuit && : cond block of `rx != nil && rx.Find..` -- the use sits in the
					// block reached by the true edge of the nil test, which gatedBy handles.
					r.add("R06.5", "nil-guard|"+shortName(fn)+"|"+fldName(fv), p.ipos(ref),
						"use of optional Config."+fldName(fv)+" is guarded by != nil", guard != nil,
						"with the option not configured this dereferences nil: the run crashes instead of skipping the check")
				}
			}
		}
	}
	r.floor("R06.5", "dereferencing uses of optional Config fields", uses, 2)
}

// derefUses: instructions that dereference pointer value v: calls with v as
// receiver (static method call or invoke), FieldAddr, loads.
func derefUses(v ssa.Value) []ssa.Instruction {
	var out []ssa.Instruction
	for _, ref := range *v.Referrers() {
		switch x := ref.(type) {
		case ssa.CallInstruction:
			com := x.Common()
			if !com.IsInvoke() && len(com.Args) > 0 && com.Args[0] == v && com.StaticCallee() != nil && com.StaticCallee().Signature.Recv() != nil {
				out = append(out, ref)
			} else if !com.IsInvoke() {
				// passed as ordinary argument to a module function: the callee must guard; followed one level
				if f := com.StaticCallee(); f != nil && isModFunc(f) {
					for i, a := range com.Args {
						if a == v && i < len(f.Params) {
							out = append(out, derefUses(f.Params[i])...)
						}
					}
				}
			}
		case *ssa.FieldAddr:
			if x.X == v {
				out = append(out, ref)
			}
		case *ssa.UnOp:
			if x.Op == token.MUL && x.X == v {
				out = append(out, ref)
			}
		}
	}
	return out
}

// ---------- R06.6 only allow-listed commands outside the apply region ----------

type allowTable struct {
	exact  map[string]string
	prefix []string
	asa    map[string]bool
}

func loadAllow() *allowTable {
	t := &allowTable{exact: map[string]string{}, asa: map[string]bool{}}
	for _, row := range readTable("readonly_cmds.tsv", 3) {
		switch row[0] {
		case "exact":
			t.exact[row[1]] = row[2]
		case "prefix":
			t.prefix = append(t.prefix, row[1])
		case "asa-width-exception":
			t.asa[row[1]] = true
		default:
			panic("readonly_cmds.tsv: unknown kind " + row[0])
		}
	}
	return t
}

// classifyConsole returns "", or the reason the pattern is allowed.
func (t *allowTable) classifyConsole(pt pattern) (class string, ok bool) {
	// strip the line terminator added by (*Conn).Send
	q := append(pattern{}, pt...)
	if n := len(q); n > 0 && q[n-1].Kind == "const" && strings.HasSuffix(q[n-1].S, "\n") {
		q[n-1].S = strings.TrimSuffix(q[n-1].S, "\n")
		q = q.norm()
	}
	if len(q) == 1 {
		a := q[0]
		switch a.Kind {
		case "const":
			if _, ok := t.exact[a.S]; ok {
				return "read-only/session command", true
			}
			for _, pf := range t.prefix {
				if strings.HasPrefix(a.S, pf) && !strings.ContainsAny(a.S, "\n;|&`$") {
					return "Cisco show command", true
				}
			}
			if t.asa[a.S] {
				return "asa-width-exception", true
			}
			return "", false
		case "password":
			return "login password (answer to a password prompt)", true
		}
		return "", false
	}
	// grep '<checkbanner regexp>' /etc/issue
	if len(q) == 3 && q[0].Kind == "const" && q[0].S == "grep '" && q[1].Kind == "regexp" &&
		q[1].S == "program.Config.CheckBanner" && q[2].Kind == "const" && q[2].S == "' /etc/issue" {
		return "marker check: grep of the configured banner regexp in /etc/issue", true
	}
	return "", false
}

func panosQueryReadOnly(q string) (string, bool) {
	// q is the constant part after "<prefix>?key=..&"
	params := map[string]string{}
	for _, kv := range strings.Split(q, "&") {
		k, v, _ := strings.Cut(kv, "=")
		params[k] = v
	}
	switch params["type"] {
	case "op":
		if strings.HasPrefix(params["cmd"], "<show>") {
			return "PAN-OS operational 'show' command", true
		}
	case "config":
		if a := params["action"]; a == "get" || a == "show" {
			return "PAN-OS config read (action=" + a + ")", true
		}
	}
	return "", false
}

func classifyHTTP(s *primSite, pt pattern) (string, bool) {
	switch s.Prim.Kind {
	case "http-get":
		if len(pt) == 1 && pt[0].Kind == "urlquery" {
			if strings.Contains(pt[0].S, `type="keygen"`) && !strings.Contains(pt[0].S, "action=") {
				return "PAN-OS login (type=keygen)", true
			}
			return "", false
		}
		if len(pt) == 2 && pt[0].Kind == "field" && pt[1].Kind == "const" {
			if pt[0].S == "panos.State.urlPrefix" {
				return panosQueryReadOnly(pt[1].S)
			}
		}
		return "", false
	case "http-post":
		if len(pt) == 2 && pt[0].Kind == "field" && pt[1].Kind == "const" && pt[1].S == "/api/session/create" {
			return "NSX login (session create)", true
		}
		return "", false
	}
	return "", false
}

func ruleAllowListedCommands(p *Prog, m *Model, r *Report, rule string) {
	r.rule(rule, "Every call site of a device primitive ((*GExpect).Send, (*http.Client).Get/Do/PostForm/Post/Head, exec.Command) is enumerated. For a site in the pre-apply region (reachable from an entry point without passing an ApplyCommands implementation) every string pattern its command argument can take — parameters followed to all callers inside that region, closure cells to their stores, concatenations to their parts — must be (a) a constant in tables/readonly_cmds.tsv, (b) the login password, (c) grep '<checkbanner>' /etc/issue, (d) an HTTP GET (NSX), the NSX/PAN-OS login requests, or a PAN-OS type=op <show> / type=config action=get query. The ASA trio 'configure terminal' / 'terminal width 511' / 'end' is the property's documented exception and must occur as exactly that sequence. Calls into network/exec libraries that are not classified are undecided and fail.")
	allow := loadAllow()
	sites, unknown := findPrimSites(p, m, m.PreApply)
	for _, u := range unknown {
		r.fail(rule, "unclassified-wire-call|"+shortName(u.Fn)+"|"+u.calleeName(), p.ipos(u.In),
			"call into a network/exec library that the checker has not classified", "undecided: may reach the device")
	}
	nPre, nPat := 0, 0
	asaSites := map[*ssa.Function][]string{}
	for _, s := range sites {
		if !s.InPre {
			r.ok(rule, "apply-region|"+s.key(), p.ipos(s.Site.In), "primitive call inside the apply region (unconstrained by this rule)")
			continue
		}
		nPre++
		if s.Prim.Kind == "http-do" {
			allGet := len(s.Method) > 0
			for _, mp := range s.Method {
				if !(len(mp) == 1 && mp[0].Kind == "const" && mp[0].S == "GET") {
					allGet = false
				}
			}
			var ms []string
			for _, mp := range s.Method {
				ms = append(ms, mp.String())
			}
			nPat += len(s.Method)
			r.add(rule, "http-method|"+s.key(), p.ipos(s.Site.In),
				"HTTP request method outside the apply region is GET: "+strings.Join(ms, ", "), allGet,
				"a request with a modifying method can be sent before/without the gate (compare, unmanaged device)")
			continue
		}
		if len(s.Patterns) == 0 {
			r.ok(rule, "no-pre-apply-caller|"+s.key(), p.ipos(s.Site.In), "no caller in the pre-apply region supplies a command")
		}
		for _, pt := range s.Patterns {
			nPat++
			var class string
			var ok bool
			switch s.Prim.Kind {
			case "console":
				class, ok = allow.classifyConsole(pt)
			case "exec":
				class, ok = "", false
			default:
				class, ok = classifyHTTP(s, pt)
			}
			r.add(rule, "cmd|"+s.key()+"|"+pt.String(), p.ipos(s.Site.In),
				"command sent outside the apply region is allow-listed ("+class+")", ok,
				"this command can reach the device in compare mode and before the unmanaged gate; it is not in tables/readonly_cmds.tsv")
			if class == "asa-width-exception" {
				asaSites[s.Site.Fn] = append(asaSites[s.Site.Fn], pt.String())
			}
		}
	}
	r.floor(rule, "primitive call sites in the pre-apply region", nPre, 5)
	r.floor(rule, "command patterns evaluated", nPat, 25)
	// the ASA exception: the three constants must be sent as one straight-line
	// sequence configure terminal; terminal width 511; end by a single function.
	checkASAWidthSequence(p, m, r, rule, allow)
}

// checkASAWidthSequence: find functions in the pre-apply region that pass the
// exception constants to a command-forwarding wrapper; in each, the constants
// sent from one basic block must be exactly [configure terminal, terminal
// width 511, end].
func checkASAWidthSequence(p *Prog, m *Model, r *Report, rule string, allow *allowTable) {
	found := 0
	for _, fn := range allModFuncs(p) {
		if !m.PreApply[fn] {
			continue
		}
		perBlock := map[*ssa.BasicBlock][]string{}
		any := false
		for _, b := range fn.Blocks {
			for _, in := range b.Instrs {
				ci, ok := in.(ssa.CallInstruction)
				if !ok {
					continue
				}
				f := ci.Common().StaticCallee()
				if f == nil || pkgOfFunc(f) != "console" {
					continue
				}
				for _, a := range ci.Common().Args {
					if s, ok := constString(a); ok {
						perBlock[b] = append(perBlock[b], s)
						if allow.asa[s] {
							any = true
						}
					}
				}
			}
		}
		if !any {
			continue
		}
		for b, seq := range perBlock {
			has := false
			for _, s := range seq {
				if allow.asa[s] {
					has = true
				}
			}
			if !has {
				continue
			}
			found++
			want := []string{"configure terminal", "terminal width 511", "end"}
			ok := len(seq) == 3 && seq[0] == want[0] && seq[1] == want[1] && seq[2] == want[2]
			r.add(rule, "asa-width-sequence|"+shortName(fn), p.pos(b.Instrs[0].Pos()),
				fmt.Sprintf("configuration-mode commands before the gate are exactly the terminal-width exception: %q", seq), ok,
				"configuration mode is entered outside the apply region for something other than 'terminal width 511'")
		}
	}
	r.floor(rule, "ASA terminal-width exception sequence", found, 1)
}

func checkC06(p *Prog, r *Report) {
	m, err := p.model()
	if err != nil {
		r.fail("model", "model", "", err.Error(), "")
		return
	}
	checkImplsMatchFactory(p, m, r)
	ruleGateDominatesApply(p, m, r)
	ruleGateAfterChecks(p, m, r)
	uf := ruleGateSeesChecks(p, m, r)
	ruleChecksOnLoadPath(p, m, r, uf)
	ruleOptionalBanner(p, m, r)
	ruleHAFailClosed(p, r)
	ruleBannerPatternComplete(p, r)
	ruleConfigValuesUnedited(p, r)
	ruleConfigNotRebuilt(p, r)
	ruleDeferredErrorPreserved(p, r, sessionPkgs)
	r.rule("R06.10", "The conditions under which an unmanaged-device finding is recorded are the audited ones (tables/guards.tsv rows for C06): ASA/IOS — a banner check is configured and the pattern does not occur in the login banner; Linux — a check is configured and grep of /etc/issue printed nothing; PAN-OS — the display-name of the vsys does not contain 'netspoc'. In particular, without a configured banner check no finding is recorded and approve works normally.")
	ruleGuardTable(p, r, "R06.10", "C06")
	ruleAllowListedCommands(p, m, r, "R06.6")
	ruleNoReflection(p, r)
	r.Trusted = append(trustedCallGraph,
		"the commands in tables/readonly_cmds.tsv do not change device configuration",
		"the predicates inside the checks (string equality of hostnames, regexp match of the banner, 'netspoc' in display-name, HA state strings) are the right ones")
	r.NotDec = "that the predicates inside the hostname/marker/HA checks are the right ones; device behaviour"
}

// checkImplsMatchFactory: the implementations found by types equal the types
// device.getRealDevice can return.
func checkImplsMatchFactory(p *Prog, m *Model, r *Report) {
	r.rule("E1", "The set of RealDevice implementations used by the rules (all named production types whose pointer type implements the interface) equals the set of concrete types converted to RealDevice in device.getRealDevice.")
	fn := p.Fn("device.getRealDevice")
	if fn == nil {
		r.fail("E1", "factory", "", "device.getRealDevice not found", "")
		return
	}
	got := map[string]bool{}
	for _, b := range fn.Blocks {
		for _, in := range b.Instrs {
			if mi, ok := in.(*ssa.MakeInterface); ok && types.Identical(mi.Type(), m.Iface) {
				got[typeShort(mi.X.Type())] = true
			}
		}
	}
	want := map[string]bool{}
	for _, t := range m.Impls {
		want[typeShort(t)] = true
	}
	for t := range want {
		r.add("E1", "impl|"+t, p.pos(fn.Pos()), "implementation "+t+" is produced by getRealDevice", got[t], "implementation not created by the factory")
	}
	for t := range got {
		if !want[t] {
			r.fail("E1", "impl|"+t, p.pos(fn.Pos()), "getRealDevice returns "+t+" which is not a known implementation", "")
		}
	}
	r.floor("E1", "RealDevice implementations", len(m.Impls), 5)
}

// ruleNoReflection: trusted-base assertion for call-graph soundness.
func ruleNoReflection(p *Prog, r *Report) {
	r.rule("E1.sound", "Production code does not import unsafe or \"C\", calls no reflect.Value.Call/Method*, and has no //go:linkname; so every call is visible to the call graph.")
	bad := 0
	for _, pk := range p.prodPkgs() {
		for _, f := range pk.Syntax {
			for _, imp := range f.Imports {
				path := strings.Trim(imp.Path.Value, `"`)
				if path == "unsafe" || path == "C" || path == "reflect" || path == "plugin" {
					bad++
					r.fail("E1.sound", "import|"+shortPath(pk.PkgPath)+"|"+path, p.pos(imp.Pos()), "import of "+path, "call graph soundness not established")
				}
			}
			for _, cg := range f.Comments {
				for _, c := range cg.List {
					if strings.HasPrefix(c.Text, "//go:linkname") {
						bad++
						r.fail("E1.sound", "linkname|"+shortPath(pk.PkgPath), p.pos(c.Pos()), "go:linkname", "")
					}
				}
			}
		}
	}
	if bad == 0 {
		r.ok("E1.sound", "no-reflection", "", fmt.Sprintf("no unsafe/C/reflect/plugin import and no go:linkname in %d production packages", len(p.Mod)))
	}
}

// ---------- C11 ----------

func checkC11(p *Prog, r *Report) {
	m, err := p.model()
	if err != nil {
		r.fail("model", "model", "", err.Error(), "")
		return
	}
	checkImplsMatchFactory(p, m, r)
	ruleCompareModeGate(p, m, r)
	ruleAllowListedCommands(p, m, r, "R06.6")
	rulePasswordSendsFor(p, r, "R11.p", "C11", "The login dialogue runs in compare mode as well, and what is typed there is not a command from the allow list: a password. It is typed only at audited places under audited conditions (the device has asked for the login or enable password: the dialogue has just matched a password prompt, or the previous answer ends in `password:`; rows of tables/guards.tsv). A password typed as answer to any other question can be taken by the device as a setting (a fresh ASA asks `Enter Password:` / `Repeat Password:` to SET the enable password): the compare run would change the device.")
	rulePromptTestFresh(p, r, "R11.q", map[string]bool{"cisco": true, "asa": true, "ios": true, "linux": true}, 2)
	ruleNoReflection(p, r)
	r.Trusted = append(trustedCallGraph,
		"the commands in tables/readonly_cmds.tsv do not change device configuration (the ASA terminal-width trio is the property's documented exception)")
	r.NotDec = "read-only-ness of the allow-listed commands themselves"
}

func ruleCompareModeGate(p *Prog, m *Model, r *Report) {
	r.rule("R11.2", "There is a bool parameter P of device.ApproveOrCompare such that every call path from an entry point to an ApplyCommands implementation passes a call site lying on the FALSE edge of a test of P (in ApproveOrCompare or its closures); every caller passes for P either the value of the command-line flag named \"compare\" or the comparison <action> == \"compare\".")
	r.rule("R11.1", "No ApplyCommands implementation is reachable in the call graph from the call sites on the TRUE edge of that test (the compare path) nor from device.CompareFiles.")
	aoc := p.Fn("device.ApproveOrCompare")
	if aoc == nil {
		r.fail("R11.2", "anchor|device.ApproveOrCompare", "", "function not found", "")
		return
	}
	cg := p.CG()
	var fns []*ssa.Function
	var collect func(f *ssa.Function)
	collect = func(f *ssa.Function) {
		fns = append(fns, f)
		for _, a := range f.AnonFuncs {
			collect(a)
		}
	}
	collect(aoc)
	applies := applyImpls(m)
	var flag *ssa.Parameter
	var trueSites []ssa.Instruction
	for _, par := range aoc.Params {
		if types.TypeString(par.Type(), nil) != "bool" {
			continue
		}
		falseSites := map[ssa.Instruction]bool{}
		var ts []ssa.Instruction
		for _, fn := range fns {
			for _, b := range fn.Blocks {
				i := ifOf(b)
				if i == nil {
					continue
				}
				c, neg := stripNot(i.Cond)
				roots := valueRoots(c)
				if len(roots) != 1 || roots[0] != ssa.Value(par) {
					continue
				}
				fs, tsu := 1, 0
				if neg {
					fs, tsu = 0, 1
				}
				for _, bb := range fn.Blocks {
					for _, in := range bb.Instrs {
						if _, ok := in.(ssa.CallInstruction); !ok {
							continue
						}
						if edgeDominates(b, fs, bb) {
							falseSites[in] = true
						}
						if edgeDominates(b, tsu, bb) {
							ts = append(ts, in)
						}
					}
				}
			}
		}
		if len(falseSites) == 0 {
			continue
		}
		cut := func(e *callgraph.Edge) bool { return e.Site != nil && falseSites[e.Site] }
		all := true
		for f := range applies {
			if callPath(cg, m.Entries, f, cut) != nil {
				all = false
			}
		}
		if all {
			flag = par
			trueSites = ts
			break
		}
	}
	if flag == nil {
		r.fail("R11.2", "mode-gate|device.ApproveOrCompare", p.pos(aoc.Pos()), "no bool parameter of ApproveOrCompare gates every path to ApplyCommands",
			"compare mode does not exclude applying changes")
		return
	}
	r.ok("R11.2", "mode-gate|device.ApproveOrCompare|"+flag.Name(), p.pos(aoc.Pos()),
		"every path to ApplyCommands lies on the false edge of parameter "+flag.Name())
	// R11.1
	var roots []*ssa.Function
	for _, in := range trueSites {
		ci := in.(ssa.CallInstruction)
		if f := ci.Common().StaticCallee(); f != nil {
			roots = append(roots, f)
		}
	}
	if cf := p.Fn("device.CompareFiles"); cf != nil {
		roots = append(roots, cf)
	} else {
		r.fail("R11.1", "anchor|device.CompareFiles", "", "function not found", "")
	}
	r.floor("R11.1", "compare-path roots", len(roots), 2)
	for _, rt := range roots {
		if !isModFunc(rt) {
			continue
		}
		bad := ""
		for f := range applies {
			if path := callPath(cg, []*ssa.Function{rt}, f, nil); path != nil {
				bad = strings.Join(path, " -> ")
			}
		}
		r.add("R11.1", "compare-root|"+shortName(rt), p.pos(rt.Pos()), "no ApplyCommands reachable from the compare path root "+shortName(rt), bad == "", "path: "+bad)
	}
	// callers pass the compare flag
	idx := -1
	for i, par := range aoc.Params {
		if par == flag {
			idx = i
		}
	}
	callers := 0
	var judge func(e *callgraph.Edge, idx, depth int)
	judge = func(e *callgraph.Edge, idx, depth int) {
		arg := e.Site.Common().Args[idx]
		// handed through: the caller passes its own parameter on; its callers decide
		if par, isPar := arg.(*ssa.Parameter); isPar && depth < 3 && par.Parent() == e.Caller.Func {
			pi := -1
			for i, q := range e.Caller.Func.Params {
				if q == par {
					pi = i
				}
			}
			up := callersOf(cg, e.Caller.Func)
			if pi >= 0 && len(up) > 0 {
				for _, e2 := range up {
					if e2.Site != nil && len(e2.Site.Common().Args) == len(e.Caller.Func.Params) {
						judge(e2, pi, depth+1)
					}
				}
				return
			}
		}
		callers++
		desc, ok := isCompareFlagValue(arg)
		r.add("R11.2", "caller-passes-flag|"+shortName(e.Caller.Func), p.ipos(e.Site),
			"caller passes the compare selection for "+flag.Name()+": "+desc, ok,
			"the mode argument is not the value of the 'compare' flag / verb")
	}
	for _, e := range callersOf(cg, aoc) {
		if e.Site == nil {
			continue
		}
		judge(e, idx, 0)
	}
	r.floor("R11.2", "callers of ApproveOrCompare", callers, 2)
	// doapprove: any action other than approve/compare returns before side effects:
	ruleDoApproveVerb(p, r)
	ruleValueFlags(p, r, cg, aoc)
}

// ruleValueFlags (R11.4): the options that consume the following word.
func ruleValueFlags(p *Prog, r *Report, cg *callgraph.Graph, aoc *ssa.Function) {
	r.rule("R11.4", "The mode is selected by a switch on the command line (-C / --compare). An option that takes a value consumes the word that follows it, also when that word is -C: then the run is an approve. In the packages whose functions call ApproveOrCompare every option defined on a pflag.FlagSet that takes a value (anything but Bool*/Count*) is audited by name in tables/cli_flags.tsv (what the callers put behind it); an option whose name is not a constant, or a further value-taking option, is reported.")
	want := map[string]string{}
	for _, row := range readTable("cli_flags.tsv", 4) {
		want[row[0]+"|"+row[1]+"|"+row[2]] = row[3]
	}
	pkgs := map[string]bool{}
	for _, e := range callersOf(cg, aoc) {
		pkgs[pkgOfFunc(e.Caller.Func)] = true
	}
	n, bools := 0, 0
	for _, fn := range allModFuncs(p) {
		if !pkgs[pkgOfFunc(fn)] {
			continue
		}
		for _, cs := range callsOf(fn) {
			f := cs.Static
			if f == nil || f.Pkg == nil || f.Pkg.Pkg.Path() != "github.com/spf13/pflag" {
				continue
			}
			sig := f.Signature
			nameIdx, usage := -1, false
			for i := 0; i < sig.Params().Len(); i++ {
				switch sig.Params().At(i).Name() {
				case "name":
					nameIdx = i
				case "usage":
					usage = true
				}
			}
			if nameIdx < 0 || !usage {
				continue
			}
			m := f.Name()
			if strings.HasPrefix(m, "Bool") && !strings.HasPrefix(m, "BoolSlice") || strings.HasPrefix(m, "Count") {
				bools++
				continue
			}
			args := cs.In.Common().Args
			if sig.Recv() != nil {
				args = args[1:]
			}
			name, ok := constString(args[nameIdx])
			if !ok {
				name = "<not a constant>"
			}
			kind := strings.TrimSuffix(strings.TrimSuffix(strings.TrimSuffix(m, "F"), "P"), "Var")
			k := pkgOfFunc(fn) + "|" + name + "|" + kind
			why, aud := want[k]
			n++
			r.add("R11.4", "value-option|"+k, p.ipos(cs.In), fmt.Sprintf("option --%s (%s) takes a value; audited: %q", name, m, why), aud,
				"a further option consumes the word behind it; written in front of -C it turns a compare into an approve: audit what callers put behind it (a former switch must stay a switch)")
		}
	}
	r.floor("R11.4", "value-taking options examined", n, 3)
	r.floor("R11.4", "switches seen", bools, 4)
}

// isCompareFlagValue: v is *fs.BoolP("compare", ...) / fs.Bool("compare") or x == "compare".
func isCompareFlagValue(v ssa.Value) (string, bool) {
	roots := valueRoots(v)
	if len(roots) != 1 {
		return fmt.Sprintf("%d possible values", len(roots)), false
	}
	switch x := roots[0].(type) {
	case *ssa.BinOp:
		if x.Op == token.EQL {
			if s, ok := constString(x.Y); ok && s == "compare" {
				return `<verb> == "compare"`, true
			}
			if s, ok := constString(x.X); ok && s == "compare" {
				return `"compare" == <verb>`, true
			}
		}
	case *ssa.UnOp:
		if x.Op == token.MUL {
			for _, rt := range valueRoots(x.X) {
				if call, ok := rt.(*ssa.Call); ok {
					if f := call.Common().StaticCallee(); f != nil && strings.HasPrefix(shortName(f), "(*github.com/spf13/pflag.FlagSet).Bool") {
						if s, ok := constString(call.Common().Args[1]); ok && s == "compare" {
							return `value of flag --compare`, true
						}
					}
				}
			}
		}
	}
	return roots[0].String(), false
}

// ruleDoApproveVerb: in doapprove.Main, with action not in {approve, compare}
// the function returns before the lock and before ApproveOrCompare.
func ruleDoApproveVerb(p *Prog, r *Report) {
	r.rule("R11.3", "In doapprove.Main the switch on the verb has cases \"compare\" and \"approve\" only, and its default branch returns without reaching ApproveOrCompare; so the approve path is taken only for the literal verb 'approve'.")
	fn := p.Fn("doapprove.Main")
	if fn == nil {
		r.fail("R11.3", "anchor|doapprove.Main", "", "not found", "")
		return
	}
	sites := callsTo(fn, "device.ApproveOrCompare")
	if len(sites) == 0 {
		r.fail("R11.3", "anchor|call ApproveOrCompare", "", "no call in doapprove.Main", "")
		return
	}
	// collect string-equality tests `action == const` that dominate the call on their TRUE edge or
	// whose false-false chain ends in a return: simply require that the call is NOT reachable
	// when all verb comparisons are false.
	call := sites[0].In
	// verb comparisons: BinOp EQL with const "approve"/"compare"
	type cmp struct {
		b    *ssa.BasicBlock
		verb string
	}
	var cmps []cmp
	for _, b := range fn.Blocks {
		i := ifOf(b)
		if i == nil {
			continue
		}
		if bo, ok := i.Cond.(*ssa.BinOp); ok && bo.Op == token.EQL {
			if s, ok := constString(bo.Y); ok && (s == "approve" || s == "compare") {
				cmps = append(cmps, cmp{b, s})
			}
		}
	}
	// reachability from entry to call when every such If takes its FALSE edge
	blocked := map[*ssa.BasicBlock]bool{}
	for _, c := range cmps {
		blocked[c.b] = true
	}
	seen := map[*ssa.BasicBlock]bool{}
	var walk func(b *ssa.BasicBlock)
	walk = func(b *ssa.BasicBlock) {
		if seen[b] {
			return
		}
		seen[b] = true
		if blocked[b] {
			walk(b.Succs[1])
			return
		}
		for _, s := range b.Succs {
			walk(s)
		}
	}
	walk(fn.Blocks[0])
	verbs := map[string]bool{}
	for _, c := range cmps {
		verbs[c.verb] = true
	}
	r.add("R11.3", "verb-switch|doapprove.Main", p.ipos(call),
		"ApproveOrCompare is unreachable when the verb is neither \"approve\" nor \"compare\"",
		!seen[call.Block()] && verbs["approve"] && verbs["compare"],
		"an unknown verb falls through to an approve run")
}

// ruleHAFailClosed: R06.8.
func ruleHAFailClosed(p *Prog, r *Report) {
	r.rule("R06.8", "The PAN-OS HA-state check fails closed: in the bool-valued function that the login closure tests (checkHA), `return true` never lies on the non-nil edge of an error test, and every `return true` is control dependent on a condition computed from the decoded reply of the device (enabled flag / local state), never reached unconditionally; a verdict computed from the local state is an equality comparison with \"active\" or \"active-primary\" (exact match against the enumerated accepting states, no prefix or substring test).")
	fn := p.Fn("(*panos.State).checkHA")
	if fn == nil {
		r.fail("R06.8", "anchor|checkHA", "", "not found", "")
		return
	}
	// taint: everything decoded from the reply
	var src []ssa.Value
	for _, cs := range callsOf(fn) {
		if v := cs.In.Value(); v != nil && (isModFunc(cs.Static) || strings.HasSuffix(cs.calleeName(), ".Unmarshal")) {
			src = append(src, v)
		}
	}
	t := taintFrom(fn, src)
	n := 0
	for _, ret := range returnsOf(fn) {
		if len(ret.Results) != 1 {
			continue
		}
		bv, isC := constBool(ret.Results[0])
		var vals []bool
		if isC {
			vals = []bool{bv}
		}
		if !isC {
			// `return ha.State == "active"`: an exact comparison of decoded data
			// with one of the two states in which a firewall handles traffic and
			// configuration (PAN-OS HA states: initial, passive, active,
			// active-primary, active-secondary, tentative, non-functional, suspended).
			n++
			if !t[ret.Results[0]] {
				r.fail("R06.8", "ha-verdict-from-reply", p.ipos(ret), "verdict does not derive from the device's reply", "")
				continue
			}
			exact := true
			why := ""
			for _, rt := range valueRoots(ret.Results[0]) {
				bo, isB := rt.(*ssa.BinOp)
				if !isB || bo.Op != token.EQL {
					exact, why = false, "the accept decision is "+descValue(rt, 0)+", not an equality with an enumerated state"
					continue
				}
				k, isK := constString(bo.Y)
				if !isK {
					k, isK = constString(bo.X)
				}
				if !isK || (k != "active" && k != "active-primary") {
					exact, why = false, "the state is compared with "+descValue(bo.Y, 0)
					continue
				}
				// pairing with the HA mode under which this return is reached
				for _, e := range controllingEdges(ret.Block()) {
					c, neg := stripNot(ifOf(e.b).Cond)
					mb, isB := c.(*ssa.BinOp)
					if !isB || mb.Op != token.EQL || neg || e.k != 0 {
						continue
					}
					mode, isM := constString(mb.Y)
					if !isM {
						continue
					}
					want := map[string]string{"Active-Passive": "active", "Active-Active": "active-primary"}[mode]
					if want != "" && want != k {
						exact, why = false, "in mode "+mode+" the accepted state is \""+k+"\" instead of \""+want+"\""
					}
				}
			}
			r.add("R06.8", "ha-verdict-from-reply", p.ipos(ret), "verdict is an exact comparison of the decoded HA state with \"active\" / \"active-primary\"", exact,
				"a member that is not the active one (passive, active-secondary, suspended, ...) can be accepted and changed: "+why)
			continue
		}
		if !vals[0] {
			continue // return false: fail closed
		}
		n++
		edges := controllingEdges(ret.Block())
		ok := len(edges) > 0
		for _, e := range edges {
			i := ifOf(e.b)
			if x, nonNilWhenTrue, isNT := nilTest(i.Cond); isNT && types.TypeString(x.Type(), nil) == "error" {
				errEdge := 0
				if !nonNilWhenTrue {
					errEdge = 1
				}
				if e.k == errEdge {
					ok = false // return true on an error edge
				}
				continue
			}
			if !t[i.Cond] {
				ok = false
			}
		}
		r.add("R06.8", "ha-true-only-on-evidence", p.ipos(ret), "`return true` of the HA check depends on the decoded reply and is not on an error edge", ok,
			"the HA check fails open: a device whose HA state cannot be determined is treated as active")
	}
	r.floor("R06.8", "positive verdicts of the HA check", n, 2)
}

// ruleBannerPatternComplete: R06.9.
func ruleBannerPatternComplete(p *Prog, r *Report) {
	r.rule("R06.9", "The marker pattern is the complete configured value: every store into program.Config.CheckBanner is controlled by the test that the option has exactly one value (1 == len(values)), and the compiled string is that value. (Compiling only the first word of a multi-word banner weakens the unmanaged-device check: any banner containing that word passes.)")
	n := 0
	for _, fn := range allModFuncs(p) {
		if pkgOfFunc(fn) != "program" {
			continue
		}
		for _, gs := range guardSitesOf(p, fn) {
			if gs.Name != "store:program.Config.CheckBanner" {
				continue
			}
			n++
			ok := false
			for _, g := range guardSet(gs.In) {
				if strings.HasPrefix(g, "1 == len(") || strings.HasPrefix(g, "len(") && strings.HasSuffix(g, " == 1") {
					ok = true
				}
			}
			r.add("R06.9", "banner-pattern-whole-value|"+fnDisplay(fn), p.ipos(gs.In), "CheckBanner is compiled only when the option has exactly one value", ok,
				"a banner text with blanks is cut down to its first word: devices whose banner merely contains that word count as managed")
		}
	}
	r.floor("R06.9", "stores into Config.CheckBanner", n, 1)
}

// ruleConfigNotRebuilt: R06.11.
func ruleConfigNotRebuilt(p *Prog, r *Report) {
	r.rule("R06.11", "The configuration the checks consult is the one that was loaded: a value of type program.Config is created only in the function that stores into CheckBanner (the loader); any other place that creates one copies the whole struct (`c2 := *cfg`) or stores into CheckBanner as well. A partial field-by-field copy (settings `needed to access the device`) arrives at the banner check with CheckBanner == nil, which means `no check configured`.")
	var cfgT types.Type
	if pk := p.Mod["program"]; pk != nil {
		if obj := pk.Types.Scope().Lookup("Config"); obj != nil {
			cfgT = obj.Type()
		}
	}
	if cfgT == nil {
		r.fail("R06.11", "anchor|program.Config", "", "type not found", "")
		return
	}
	st, _ := cfgT.Underlying().(*types.Struct)
	bannerIdx := -1
	for i := 0; st != nil && i < st.NumFields(); i++ {
		if fldName(st.Field(i)) == "CheckBanner" {
			bannerIdx = i
		}
	}
	n := 0
	for _, fn := range allModFuncs(p) {
		for _, b := range fn.Blocks {
			for _, in := range b.Instrs {
				al, ok := in.(*ssa.Alloc)
				if !ok || !types.Identical(al.Type().Underlying().(*types.Pointer).Elem(), cfgT) {
					continue
				}
				n++
				whole, banner := false, false
				if al.Referrers() != nil {
					for _, ref := range *al.Referrers() {
						switch x := ref.(type) {
						case *ssa.Store:
							if x.Addr == ssa.Value(al) {
								whole = true
							}
						case *ssa.FieldAddr:
							if x.Field == bannerIdx && x.Referrers() != nil {
								for _, r2 := range *x.Referrers() {
									if s2, ok := r2.(*ssa.Store); ok && s2.Addr == ssa.Value(x) {
										banner = true
									}
								}
							}
						}
					}
				}
				if !banner {
					// the loader fills the struct through a closure that captured it
					var visit func(f *ssa.Function)
					visit = func(f *ssa.Function) {
						for _, bb := range f.Blocks {
							for _, x := range bb.Instrs {
								if s2, ok := x.(*ssa.Store); ok {
									if fa, ok := s2.Addr.(*ssa.FieldAddr); ok && fa.Field == bannerIdx {
										if pt, ok := fa.X.Type().Underlying().(*types.Pointer); ok && types.Identical(pt.Elem(), cfgT) {
											banner = true
										}
									}
								}
							}
						}
						for _, a := range f.AnonFuncs {
							visit(a)
						}
					}
					visit(fn)
				}
				r.add("R06.11", "config-created|"+fnDisplay(fn), p.ipos(al), "the program.Config created in "+fnDisplay(fn)+" carries the banner check (loader, or whole-struct copy)", whole || banner,
					"a configuration is built field by field without CheckBanner: the unmanaged-device check is silently switched off for everything that uses this copy")
			}
		}
	}
	r.floor("R06.11", "places that create a program.Config", n, 1)
}

// ruleConfigValuesUnedited: R06.12.
func ruleConfigValuesUnedited(p *Prog, r *Report) {
	r.rule("R06.12", "The configured values reach the Config as they stand in the file: in the loader (the function that stores Config.CheckBanner) the content read with os.ReadFile is handed only to the audited operations (tables/config_ops.tsv: split into lines, split into words, the closures that store a value or print a warning). Any other operation on the file's text (a replacement, a cut, a trim) can shorten a value; a marker pattern cut to nothing means `no banner check configured`.")
	audited := map[string]string{}
	for _, row := range readTable("config_ops.tsv", 2) {
		audited[row[0]] = row[1]
	}
	n := 0
	for _, fn := range allModFuncs(p) {
		if pkgOfFunc(fn) != "program" || fn.Parent() != nil {
			continue
		}
		storesBanner := false
		for _, g := range treeOf(fn) {
			for _, gs := range guardSitesOf(p, g) {
				if gs.Name == "store:program.Config.CheckBanner" {
					storesBanner = true
				}
			}
		}
		if !storesBanner {
			continue
		}
		var src []ssa.Value
		for _, cs := range callsOf(fn) {
			if cs.Static != nil && rawShortName(cs.Static) == "os.ReadFile" {
				if v := cs.In.Value(); v != nil && v.Referrers() != nil {
					for _, ref := range *v.Referrers() {
						if ex, ok := ref.(*ssa.Extract); ok && ex.Index == 0 {
							src = append(src, ex)
						}
					}
				}
			}
		}
		if len(src) == 0 {
			r.fail("R06.12", "anchor|os.ReadFile in "+fnDisplay(fn), p.pos(fn.Pos()), "the loader reads its file with os.ReadFile", "no such call found: re-audit how the configuration is read")
			continue
		}
		t := taintFrom(fn, src)
		seen := map[string]bool{}
		for _, cs := range callsOf(fn) {
			if cs.Static != nil && rawShortName(cs.Static) == "os.ReadFile" {
				continue
			}
			tainted := false
			for _, a := range cs.In.Common().Args {
				if t[a] {
					tainted = true
				}
				if el, ok := sliceLitElems(a); ok {
					for _, e := range el {
						if t[e] {
							tainted = true
						}
					}
				}
			}
			if !tainted {
				continue
			}
			name := cs.calleeName()
			for _, c := range calleesOfSite(p, cs) {
				if cn := closureName(c); cn != "" {
					name = "closure:" + cn
				}
			}
			if _, isB := cs.In.Common().Value.(*ssa.Builtin); isB {
				continue
			}
			if seen[name] {
				continue
			}
			seen[name] = true
			n++
			why, ok := audited[name]
			r.add("R06.12", "config-op|"+name, p.ipos(cs.In), "the file's text is handed to "+name+" ("+why+")", ok,
				"an operation on the text of the configuration file that was not audited: it can change or shorten a configured value before it is stored")
		}
	}
	r.floor("R06.12", "operations on the configuration file's text", n, 3)
}
