package main

// C07: configuration outside Netspoc's scope is never deleted or altered.

import (
	"fmt"
	"go/types"
	"strings"

	"golang.org/x/tools/go/ssa"
)

func init() { register("C07", "other", true, checkC07) }

// appendedStrings: for every builtin append in fn whose elements are strings,
// the values appended one by one (append(x, a, b)); append(x, y...) is
// skipped (lists produced elsewhere are checked where they are built).
func appendedStrings(fn *ssa.Function) []struct {
	In  ssa.Instruction
	Val ssa.Value
} {
	var out []struct {
		In  ssa.Instruction
		Val ssa.Value
	}
	for _, cs := range callsOf(fn) {
		b, ok := cs.In.Common().Value.(*ssa.Builtin)
		if !ok || b.Name() != "append" {
			continue
		}
		args := cs.In.Common().Args
		if len(args) != 2 {
			continue
		}
		sl, ok := args[0].Type().Underlying().(*types.Slice)
		if !ok || !isStringType(sl.Elem()) {
			continue
		}
		if el, ok := sliceLitElems(args[1]); ok {
			for _, e := range el {
				out = append(out, struct {
					In  ssa.Instruction
					Val ssa.Value
				}{cs.In, e})
			}
		}
	}
	return out
}

// panosPlannerFuncs: functions of package panos reachable from diffConfig.
func panosPlannerFuncs(p *Prog) []*ssa.Function {
	root := p.Fn("panos.diffConfig")
	if root == nil {
		return nil
	}
	reach := reachFrom(p.CG(), []*ssa.Function{root}, nil)
	var out []*ssa.Function
	for _, fn := range allModFuncs(p) {
		top := fn
		for top.Parent() != nil {
			top = top.Parent()
		}
		if pkgOfFunc(fn) == "panos" && (reach[fn] || reach[top]) {
			out = append(out, fn)
		}
	}
	return out
}

type panosCmd struct {
	Fn  *ssa.Function
	In  ssa.Instruction
	Pat pattern
}

// panosCommandPatterns evaluates every command string the PAN-OS planner
// appends to a result list.
func panosCommandPatterns(p *Prog) []panosCmd {
	var out []panosCmd
	for _, fn := range panosPlannerFuncs(p) {
		for _, a := range appendedStrings(fn) {
			ctx := &provCtx{p: p, cg: p.CG(), seen: map[ssa.Value]bool{}, resolveLocalFields: true}
			for _, pt := range ctx.eval(a.Val) {
				out = append(out, panosCmd{fn, a.In, pt.norm()})
			}
		}
	}
	return out
}

func ruleNSXLoadFilter(p *Prog, r *Report) {
	r.rule("R07.1", "NSX load filter: in the functions that fetch the manager's objects (package nsx, LoadDevice and its helpers) every append to a list of raw JSON objects is controlled by strings.HasPrefix(<object id>, \"Netspoc\") being true; so objects whose id lacks the Netspoc prefix never enter the device model and can neither be compared nor deleted.")
	n := 0
	for _, fn := range allModFuncs(p) {
		if pkgOfFunc(fn) != "nsx" {
			continue
		}
		top := fn
		for top.Parent() != nil {
			top = top.Parent()
		}
		tn := shortName(top)
		if tn != "(*nsx.State).LoadDevice" && tn != "(*nsx.State).getRawJSON" {
			continue
		}
		for _, cs := range callsOf(fn) {
			b, ok := cs.In.Common().Value.(*ssa.Builtin)
			if !ok || b.Name() != "append" {
				continue
			}
			sl, ok := cs.In.Common().Args[0].Type().Underlying().(*types.Slice)
			if !ok || typeShort(sl.Elem()) != "encoding/json.RawMessage" {
				continue
			}
			n++
			gs := guardSet(cs.In)
			okG := false
			for _, g := range gs {
				if strings.HasPrefix(g, "strings.HasPrefix(") && strings.Contains(g, `"Netspoc"`) {
					okG = true
				}
			}
			r.add("R07.1", "netspoc-prefix-filter|"+shortName(fn), p.ipos(cs.In), fmt.Sprintf("object is loaded only under %v", gs), okG,
				"objects without the Netspoc id prefix are loaded and may be deleted as unused")
		}
	}
	r.floor("R07.1", "appends to raw object lists", n, 2)
}

func rulePanosXPathScope(p *Prog, r *Report) {
	r.rule("R07.2", "PAN-OS scoping: every command string the planner emits (each value appended to a result list in the functions reachable from panos.diffConfig, evaluated inter-procedurally to a concatenation pattern) has the form <action>&type=config&xpath= followed by /config/devices/entry<name>/vsys/entry<name>/..., i.e. the xpath is rooted at the vsys path that GetChanges builds from the device entry and the target vsys name; no command addresses /config/shared or another vsys.")
	cmds := panosCommandPatterns(p)
	r.floor("R07.2", "PAN-OS command patterns", len(cmds), 12)
	for _, c := range cmds {
		s := c.Pat.String()
		ok := false
		// find the atom containing xpath=
		for i, a := range c.Pat {
			if a.Kind != "const" {
				continue
			}
			j := strings.Index(a.S, "xpath=")
			if j < 0 {
				continue
			}
			rest := a.S[j+len("xpath="):]
			if rest == "/config/devices/entry" && i+3 < len(c.Pat) &&
				c.Pat[i+1].Kind == "opaque" && c.Pat[i+1].S == "call panos.nameAttr" &&
				c.Pat[i+2].Kind == "const" && strings.HasPrefix(c.Pat[i+2].S, "/vsys/entry") && (c.Pat[i+2].S == "/vsys/entry") &&
				c.Pat[i+3].Kind == "opaque" && c.Pat[i+3].S == "call panos.nameAttr" {
				ok = true
			}
			break
		}
		r.add("R07.2", "xpath-rooted-at-vsys|"+shortName(c.Fn)+"|"+s, p.ipos(c.In), "command addresses only the targeted vsys: "+s, ok,
			"an emitted command's xpath is not rooted at /config/devices/entry[..]/vsys/entry[..]: it can touch configuration outside the targeted vsys")
	}
}

func checkC07(p *Prog, r *Report) {
	ruleExitsAudited(p, r, "R-X", "C07", map[string]bool{"cisco": true, "asa": true, "ios": true}, 16)
	ruleMemo(p, r, "R-MEMO", "C07", map[string]bool{"cisco": true, "asa": true, "ios": true}, 6)
	ruleRegexpConsts(p, r, "R-RX", "C07", 1)
	ruleMapsCopy(p, r, "R-MC")
	ruleNSXLoadFilter(p, r)
	rulePanosXPathScope(p, r)
	r.rule("R07.5", "Protection sites of the Cisco planner keep exactly their audited controlling conditions (tables/guards.tsv): marking of objects behind unknown interfaces / unmanaged VRFs as needed; deletion candidates = not needed and (marked toDelete or generated name); the walk that protects everything an unmanaged object still references; deletion only when nothing to be deleted later references the object; no change for aaa-server, ldap attribute-map, interface; routes deleted only where the target specifies routes. Guard sets are computed from go/ssa (all If edges dominating the site, normalised) and compared as multisets.")
	ruleGuardTable(p, r, "R07.5", "C07")
	r.rule("R-M", "Mark discipline (Cisco): needed / ready / toDelete decide which device objects are kept and which become deletion candidates; every store into such a mark in package cisco lies at a function+site whose controlling conditions are audited rows of tables/guards.tsv (compared by R07.5).")
	ruleMarkDiscipline(p, r, "R-M", "C07", "cisco", []string{"cmd.needed", "cmd.ready", "cmd.toDelete"}, 18)
	// the references of a command are the edges the protecting walk follows: where they are set or dropped
	ruleMarkDiscipline(p, r, "R-M", "C07", "cisco", []string{"cisco.cmd.ref"}, 5)
	ruleListMapsAccumulate(p, r)
	ruleTemplateOrder(p, r, "R07.t")
	rulePanosForeignVsys(p, r)
	// the Cisco parser's line state decides which lines belong to a modelled command: lines of a command
	// the tool does not model must not be attached to the previous modelled one (R-S, with the
	// conditions under which each piece of state is replaced)
	ruleStickyState(p, r, "C07", map[string]bool{"cisco": true}, 5)
	ruleMustCalls(p, r, "R-PH", "C07")
	r.Trusted = []string{"go/ssa, call graph", "the audited guard sets in tables/guards.tsv are the intended ones (each row carries its reason)"}
	r.NotDec = "whole-device frame condition for arbitrary unmanaged content; value-dependent marking (which objects an unknown interface reaches); lines the parser does not model"
}

// ruleListMapsAccumulate: R07.6.
func ruleListMapsAccumulate(p *Prog, r *Report) {
	r.rule("R07.6", "Maps from a name to a list of commands are filled by accumulation: inside a loop, a store m[k] = v into a map[string][]*cmd in package cisco must extend the entry already stored under k (v = append(m[k], ...)), be keyed by the loop's own range key, or be guarded by a test that the entry is missing. A fresh list stored under a key that an earlier iteration may have used (an interface with an `in` and an `out` access-group) silently drops the earlier commands — for the interface protection map this means their ACLs are not marked needed and get deleted.")
	audited := map[string]string{}
	for _, row := range readTable("listmap_audit.tsv", 3) {
		audited[row[0]+"|"+row[1]] = row[2]
	}
	n := 0
	for _, s := range lookupStores(p) {
		blk := s.In.Block()
		inLoop := false
		var loopBody map[*ssa.BasicBlock]bool
		for _, h := range s.Fn.Blocks {
			if body := naturalLoopBody(h); body != nil && body[blk] {
				inLoop = true
				if loopBody == nil || len(body) < len(loopBody) {
					loopBody = body
				}
			}
		}
		if !inLoop {
			continue
		}
		n++
		name := fnDisplay(s.Fn)
		ok := false
		why := ""
		// (a) extends the entry under the same key
		var fromSame func(v ssa.Value, d int) bool
		fromSame = func(v ssa.Value, d int) bool {
			if d > 5 {
				return false
			}
			switch x := v.(type) {
			case *ssa.Lookup:
				return (sameSlice(x.X, s.In.Map) || descValue(x.X, 0) == descValue(s.In.Map, 0)) && (x.Index == s.In.Key || descValue(x.Index, 0) == descValue(s.In.Key, 0))
			case *ssa.Extract:
				return fromSame(x.Tuple, d+1)
			case *ssa.Call:
				if b, isB := x.Common().Value.(*ssa.Builtin); isB && b.Name() == "append" {
					for _, a := range x.Common().Args {
						if fromSame(a, d+1) {
							return true
						}
					}
					return false
				}
			case *ssa.Phi:
				for _, e := range x.Edges {
					if fromSame(e, d+1) {
						return true
					}
				}
			case *ssa.Slice:
				return fromSame(x.X, d+1)
			}
			return false
		}
		if fromSame(s.In.Value, 0) {
			ok, why = true, "extends the entry stored under the same key"
		}
		// (b) keyed by the range key of a map range (keys are unique)
		if !ok {
			for _, rt := range keyOrigins(s.In.Key) {
				if _, isMap := rt.Type().Underlying().(*types.Map); isMap {
					ok, why = true, "keyed by the key of a map being ranged over (unique)"
				}
			}
		}
		// (c) guarded by a missing-entry test of the same map
		if !ok {
			for _, g := range guardSet(s.In) {
				if strings.Contains(g, "nil == ") || strings.Contains(g, " == nil") || strings.HasPrefix(g, "!ok(") {
					ok, why = true, "guarded by "+g
				}
			}
		}
		if !ok {
			if reason, isAud := audited[name+"|"+s.Class]; isAud {
				ok, why = true, "audited: "+reason
			}
		}
		r.add("R07.6", "list-map-accumulates|"+name+"|"+s.Class, p.ipos(s.In), "store into a name->commands map inside a loop "+why, ok,
			"a fresh list overwrites what an earlier iteration stored under the same key: the earlier commands are lost (for the interface map: not protected, hence deleted)")
	}
	r.floor("R07.6", "stores into name->commands maps inside loops", n, 3)
}

// rulePanosForeignVsys: R07.7.
func rulePanosForeignVsys(p *Prog, r *Report) {
	r.rule("R07.7", "A PAN-OS vsys that exists on the device but not in the target is never diffed: processVsysPairs hands the callback, as second argument, exactly the result of looking the device vsys' name up among the target's vsys (nil when absent, no placeholder substituted), and in GetChanges the call of diffConfig is controlled by that argument being non-nil. (Diffing a foreign vsys against an empty one emits deletes for all its rules and objects.)")
	fn := p.Fn("panos.processVsysPairs")
	if fn == nil || len(fn.Params) < 3 {
		r.fail("R07.7", "anchor|panos.processVsysPairs", "", "not found", "")
		return
	}
	fpar := fn.Params[2]
	n := 0
	for _, cs := range callsOf(fn) {
		if cs.In.Common().Value != ssa.Value(fpar) {
			continue
		}
		args := cs.In.Common().Args
		if len(args) != 2 || isNilConst(args[0]) {
			continue // the (nil, v2) call for target-only vsys
		}
		n++
		ok := true
		why := ""
		for _, rt := range valueRoots(args[1]) {
			switch x := rt.(type) {
			case *ssa.Lookup:
			case *ssa.Extract:
				if _, isL := x.Tuple.(*ssa.Lookup); !isL {
					ok, why = false, descValue(rt, 0)
				}
			default:
				ok, why = false, descValue(rt, 0)
			}
		}
		r.add("R07.7", "foreign-vsys-passed-as-nil|panos.processVsysPairs", p.ipos(cs.In), "the target-side vsys handed to the callback is the plain map lookup (nil when the target has no such vsys)", ok,
			"a placeholder is substituted for a missing target vsys ("+why+"): the callback cannot tell a foreign vsys from an emptied one and deletes its content")
	}
	r.floor("R07.7", "callback calls for device vsys", n, 1)
	// GetChanges: diffConfig only when v2 != nil
	found := false
	for _, g := range allModFuncs(p) {
		if g.Parent() == nil || shortName(g.Parent()) != "(*panos.State).GetChanges" {
			continue
		}
		for _, cs := range callsTo(g, "panos.diffConfig") {
			found = true
			okG := false
			for _, gd := range guardSet(cs.In) {
				if gd == "nil != param:*panos.panVsys" {
					okG = true
				}
			}
			r.add("R07.7", "diff-only-with-target-vsys|"+fnDisplay(g), p.ipos(cs.In), "diffConfig is called only when both vsys exist", okG, "a vsys without counterpart is diffed")
		}
	}
	if !found {
		r.fail("R07.7", "anchor|diffConfig call in GetChanges", "", "not found", "")
	}
}
