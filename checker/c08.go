package main

// C08 (every emitted command is executable when sent) and C14 (safe
// intermediate steps): ordered-phase rules on go/ssa, config-mode
// bookkeeping, IOS numbering constants, PAN-OS URL well-formedness.

import (
	"fmt"
	"go/token"
	"regexp"
	"sort"
	"strconv"
	"strings"

	"golang.org/x/tools/go/ssa"
)

func init() {
	register("C08", "other", true, checkC08)
	register("C14", "other", true, checkC14)
}

// ---- ordered-phase helpers ----

type siteSel func(cs *callSite) bool

func sitesIn(p *Prog, fn *ssa.Function, sel siteSel) []*callSite {
	var out []*callSite
	for _, cs := range callsOf(fn) {
		if sel(cs) {
			out = append(out, cs)
		}
	}
	return out
}

// byCallee: call sites that may call a function whose display name (short
// name, or closure variable name) equals one of names.
func byCallee(p *Prog, names ...string) siteSel {
	return func(cs *callSite) bool {
		if b, ok := cs.In.Common().Value.(*ssa.Builtin); ok {
			for _, n := range names {
				if n == "builtin."+b.Name() {
					return true
				}
			}
			return false
		}
		for _, c := range calleesOfSite(p, cs) {
			for _, n := range names {
				sn := shortName(c)
				if base, _, ok := strings.Cut(sn, "["); ok {
					sn = base // instantiated generic
				}
				if sn == n || closureName(c) == n {
					return true
				}
			}
		}
		return false
	}
}

// phaseOrder: every A-site is strictly before every B-site (A dominates B and
// A is not reachable from B); both sets must be non-empty.
func phaseOrder(p *Prog, r *Report, rule, fnName, what string, fn *ssa.Function, a, b []*callSite, detail string) {
	key := "order|" + fnName + "|" + what
	if fn == nil {
		r.fail(rule, key, "", "function "+fnName+" not found", "anchor lost: re-audit")
		return
	}
	if len(a) == 0 || len(b) == 0 {
		r.fail(rule, key, p.pos(fn.Pos()), fmt.Sprintf("%s: %d earlier sites, %d later sites found", what, len(a), len(b)), "anchor lost: a phase of the planner cannot be located")
		return
	}
	bad := ""
	for _, x := range a {
		for _, y := range b {
			if !orderedInIteration(x.In, y.In) {
				bad = fmt.Sprintf("%s at %s is not ordered before %s at %s", x.calleeName(), p.ipos(x.In), y.calleeName(), p.ipos(y.In))
			}
		}
	}
	r.add(rule, key, p.ipos(b[0].In), what, bad == "", detail+" ("+bad+")")
}

// orderedInIteration: within one iteration of the innermost loop that contains
// both instructions (or in the whole function if there is none), b can run
// after a but a can never run after b.
func orderedInIteration(a, b ssa.Instruction) bool {
	fn := a.Parent()
	// innermost common loop header: a loop header block that dominates both
	var header *ssa.BasicBlock
	for _, h := range fn.Blocks {
		body := naturalLoopBody(h)
		if body == nil || !body[a.Block()] || !body[b.Block()] {
			continue
		}
		if header == nil || header.Dominates(h) {
			header = h
		}
	}
	reach := func(from, to ssa.Instruction) bool {
		if from.Block() == to.Block() && instrIndex(from) < instrIndex(to) {
			return true
		}
		seen := map[*ssa.BasicBlock]bool{}
		var walk func(x *ssa.BasicBlock) bool
		walk = func(x *ssa.BasicBlock) bool {
			for _, s := range x.Succs {
				if s == header {
					continue // back edge of the common loop: next iteration
				}
				if s == to.Block() {
					return true
				}
				if !seen[s] {
					seen[s] = true
					if walk(s) {
						return true
					}
				}
			}
			return false
		}
		return walk(from.Block())
	}
	return reach(a, b) && !reach(b, a)
}

// neverAfter: no A-site is reachable from a B-site.
func neverAfter(p *Prog, r *Report, rule, fnName, what string, fn *ssa.Function, a, b []*callSite, detail string) {
	key := "never-after|" + fnName + "|" + what
	if fn == nil || len(a) == 0 || len(b) == 0 {
		r.fail(rule, key, "", fmt.Sprintf("%s: sites not found (%d, %d)", what, len(a), len(b)), "anchor lost")
		return
	}
	bad := ""
	for _, x := range a {
		for _, y := range b {
			if ireach(y.In, x.In) {
				bad = fmt.Sprintf("%s at %s can run after %s at %s", x.calleeName(), p.ipos(x.In), y.calleeName(), p.ipos(y.In))
			}
		}
	}
	r.add(rule, key, p.ipos(a[0].In), what, bad == "", detail+" ("+bad+")")
}

// fieldLoadSites: pseudo call sites for loads of a struct field named name
// (used as anchors for `for range x.Field` loops).
func fieldLoads(fn *ssa.Function, suffix string) []ssa.Instruction {
	var out []ssa.Instruction
	for _, b := range fn.Blocks {
		for _, in := range b.Instrs {
			if u, ok := in.(*ssa.UnOp); ok && u.Op == token.MUL {
				if fa, ok := u.X.(*ssa.FieldAddr); ok && strings.HasSuffix(fieldName(fa), suffix) {
					out = append(out, in)
				}
			}
		}
	}
	return out
}

func instrOrder(p *Prog, r *Report, rule, fnName, what string, a, b []ssa.Instruction, detail string) {
	key := "order|" + fnName + "|" + what
	if len(a) == 0 || len(b) == 0 {
		r.fail(rule, key, "", fmt.Sprintf("%s: anchors not found (%d, %d)", what, len(a), len(b)), "anchor lost")
		return
	}
	ok := true
	for _, x := range a {
		for _, y := range b {
			if !orderedInIteration(x, y) {
				ok = false
			}
		}
	}
	r.add(rule, key, p.ipos(b[0]), what, ok, detail)
}

// appendChain flattens append(append(x, y...), z...) into its sources.
func appendChain(v ssa.Value) []ssa.Value {
	if call, ok := v.(*ssa.Call); ok {
		if b, ok := call.Common().Value.(*ssa.Builtin); ok && b.Name() == "append" {
			args := call.Common().Args
			out := appendChain(args[0])
			if len(args) > 1 {
				out = append(out, appendChain(args[1])...)
			}
			return out
		}
		if f := call.Common().StaticCallee(); f != nil {
			n, _, _ := strings.Cut(shortName(f), "[")
			if n == "slices.Concat" {
				if el, ok := sliceLitElems(call.Common().Args[0]); ok {
					var out []ssa.Value
					for _, e := range el {
						out = append(out, appendChain(e)...)
					}
					return out
				}
			}
		}
	}
	if phi, ok := v.(*ssa.Phi); ok && len(phi.Edges) == 1 {
		return appendChain(phi.Edges[0])
	}
	return []ssa.Value{v}
}

func calleeOfValue(v ssa.Value) string {
	if c, ok := v.(*ssa.Call); ok {
		if f := c.Common().StaticCallee(); f != nil {
			return shortName(f)
		}
	}
	return descValue(v, 0)
}

// ---- C08 ----

func checkC08(p *Prog, r *Report) {
	r.rule("R08.o", "Ordered phases (create before use, delete after last use), decided by dominance and reachability between call sites on go/ssa: PAN-OS result = transferNeededObjects ++ diffRules ++ removeUnneededObjects, addresses before address-groups and services before service-groups when transferring, groups before their members when removing, adaptGroups before the set command and set before move; NSX services first, policies next, removals last, adaptGroup before the rule/policy PUT; Cisco referenced objects are transferred (follow) before the referencing command (addCmd), deletions of a multi-line command before its insertions, deleteUnused after all anchors were compared and nothing emits afterwards.")
	r.rule("R08.m", "Config-mode bookkeeping: (*cisco.State).addChange is called only from the helpers that maintain subCmdOf (addCmd, addToplevel, setCmdConfMode, delCmds) and from two audited sites that are immediately followed by such a helper (makeEqual's `no <cmd>` before addCmd; deleteUnused's `exit` before the deletions); State.Changes is stored directly only by addChange and the audited join/trim code of the two ACL planners.")
	r.rule("R08.k", "IOS numbering constants agree: the step of the initial `ip access-list resequence <name> S S`, the multiplier of inserted (before*S+i+1) and deleted ((pos+1)*S) line numbers and the bound of the 'too many lines' abort are one and the same integer S; so numbers before*S+1 .. before*S+n stay below the next old line (before+1)*S.")
	r.rule("R08.e", "PAN-OS commands are well-formed URLs: every non-constant part of every emitted command pattern is the result of nameAttr, textAttr, printXML or printXMLValue (all of which url.QueryEscape their content) or url.QueryEscape itself.")
	r.rule("R08.g", "Deletion dependency order keeps its audited conditions (tables/guards.tsv rows for C08): an object is deleted only when no remaining candidate references it; references of candidates are recorded unconditionally.")

	// PAN-OS
	dc := p.Fn("panos.diffConfig")
	if dc == nil {
		r.fail("R08.o", "anchor|panos.diffConfig", "", "not found", "")
	} else {
		var chain []string
		for _, ret := range returnsOf(dc) {
			for _, v := range appendChain(ret.Results[0]) {
				chain = append(chain, calleeOfValue(v))
			}
		}
		want := []string{"(*panos.rulesPair).transferNeededObjects", "(*panos.rulesPair).diffRules", "(*panos.rulesPair).removeUnneededObjects"}
		r.add("R08.o", "order|panos.diffConfig|result-concatenation", p.pos(dc.Pos()), fmt.Sprintf("result = %v", chain), fmt.Sprint(chain) == fmt.Sprint(want),
			"objects must be created before the rules that use them and removed after the rules were changed")
	}
	if fn := p.Fn("(*panos.rulesPair).transferNeededObjects"); fn != nil {
		instrOrder(p, r, "R08.o", shortName(fn), "addresses before address-groups", fieldLoads(fn, "panVsys.Addresses"), fieldLoads(fn, "panVsys.AddressGroups"), "a group would be created before its members exist")
		instrOrder(p, r, "R08.o", shortName(fn), "services before service-groups", fieldLoads(fn, "panVsys.Services"), fieldLoads(fn, "panVsys.ServiceGroups"), "a service-group would be created before its members exist")
	} else {
		r.fail("R08.o", "anchor|transferNeededObjects", "", "not found", "")
	}
	if fn := p.Fn("(*panos.rulesPair).removeUnneededObjects"); fn != nil {
		instrOrder(p, r, "R08.o", shortName(fn), "address-groups removed before addresses", fieldLoads(fn, "panVsys.AddressGroups"), fieldLoads(fn, "panVsys.Addresses"), "an address still member of a group would be deleted")
		instrOrder(p, r, "R08.o", shortName(fn), "service-groups removed before services", fieldLoads(fn, "panVsys.ServiceGroups"), fieldLoads(fn, "panVsys.Services"), "a service still member of a group would be deleted")
	} else {
		r.fail("R08.o", "anchor|removeUnneededObjects", "", "not found", "")
	}
	if fn := p.Fn("(*panos.rulesPair).diffRules"); fn != nil {
		// set before move, adaptGroups before set
		var setApp, moveApp []*callSite
		for _, a := range appendedStrings(fn) {
			ctx := &provCtx{p: p, cg: p.CG(), seen: map[ssa.Value]bool{}}
			for _, pt := range ctx.eval(a.Val) {
				if len(pt) > 0 && pt[0].Kind == "const" {
					cs := &callSite{In: a.In.(ssa.CallInstruction), Fn: fn}
					if strings.HasPrefix(pt[0].S, "action=set&") {
						setApp = append(setApp, cs)
					}
					if strings.HasPrefix(pt[0].S, "action=move&") {
						moveApp = append(moveApp, cs)
					}
				}
			}
		}
		ad := sitesIn(p, fn, byCallee(p, "(*panos.rulesPair).adaptGroups"))
		phaseOrderSameIter(p, r, "R08.o", shortName(fn), "adaptGroups before the set command", ad, setApp, "the rule would name a group under its Netspoc name although an identical device group is reused")
		phaseOrderSameIter(p, r, "R08.o", shortName(fn), "set before move", setApp, moveApp, "a rule would be moved before it exists")
	}
	// NSX
	if fn := p.Fn("nsx.diffConfig"); fn != nil {
		add := sitesIn(p, fn, byCallee(p, "addNewServices"))
		pol := sitesIn(p, fn, byCallee(p, "nsx.diffPolicies"))
		rm := sitesIn(p, fn, byCallee(p, "removeUnusedServices", "removeUnusedGroups"))
		phaseOrder(p, r, "R08.o", shortName(fn), "services added before policies", fn, add, pol, "a rule would refer to a service that does not exist yet")
		phaseOrder(p, r, "R08.o", shortName(fn), "unused services/groups removed after policies", fn, pol, rm, "an object still referenced by an old rule would be deleted")
	} else {
		r.fail("R08.o", "anchor|nsx.diffConfig", "", "not found", "")
	}
	for _, spec := range [][2]string{{"(*nsx.rulesPair).diffRules", "ins"}, {"nsx.diffPolicies", "createPolicy"}} {
		par := p.Fn(spec[0])
		var fn *ssa.Function
		if par != nil {
			fn = closureByName(par, spec[1])
		}
		if fn == nil {
			r.fail("R08.o", "anchor|"+spec[0]+"."+spec[1], "", "closure not found", "")
			continue
		}
		ad := sitesIn(p, fn, byCallee(p, "(*nsx.rulesPair).adaptGroup"))
		wr := sitesIn(p, fn, byCallee(p, "(*nsx.rulesPair).writeRule", "encoding/json.Marshal"))
		phaseOrderSameIter(p, r, "R08.o", spec[0]+"."+spec[1], "adaptGroup before the rule/policy is serialised", ad, wr, "the PUT would name a group that is not on the device")
	}
	// Cisco
	if par := p.Fn("(*cisco.State).addCmds"); par != nil {
		fn := closureByName(par, "add")
		if fn == nil {
			r.fail("R08.o", "anchor|addCmds.add", "", "closure not found", "")
		} else {
			fo := sitesIn(p, fn, byCallee(p, "follow"))
			ac := sitesIn(p, fn, byCallee(p, "(*cisco.State).addCmd"))
			phaseOrderSameIter(p, r, "R08.o", "(*cisco.State).addCmds.add", "referenced objects are transferred (follow) before the referencing command (addCmd)", fo, ac, "a command would refer to an object not yet on the device")
			r.floor("R08.o", "follow sites in addCmds.add", len(fo), 2)
		}
	}
	if fn := p.Fn("(*cisco.State).diffCmds"); fn != nil {
		del := sitesIn(p, fn, func(cs *callSite) bool {
			if !byCallee(p, "(*cisco.State).delCmds")(cs) {
				return false
			}
			for _, g := range guardSet(cs.In) {
				if strings.Contains(g, "IsDelete") {
					return true
				}
			}
			return false
		})
		ins := sitesIn(p, fn, func(cs *callSite) bool {
			if !byCallee(p, "(*cisco.State).addCmds", "(*cisco.State).makeEqual")(cs) {
				return false
			}
			for _, g := range guardSet(cs.In) {
				if strings.Contains(g, "IsInsert") || strings.Contains(g, "IsEqual") {
					return true
				}
			}
			return false
		})
		phaseOrder(p, r, "R08.o", shortName(fn), "generic branch: delete loop before insert/equalise loop", fn, del, ins, "a sub-command would be added while the conflicting old one still exists")
	}
	if fn := p.Fn("(*cisco.State).diffConfig"); fn != nil {
		an := sitesIn(p, fn, byCallee(p, "(*cisco.State).diffAnchors", "(*cisco.State).diffSomeAnchors", "(*cisco.State).diffTunnelGroupMap", "(*cisco.State).diffWebVPN"))
		du := sitesIn(p, fn, byCallee(p, "(*cisco.State).deleteUnused"))
		phaseOrder(p, r, "R08.o", shortName(fn), "deleteUnused after all anchors were compared", fn, an, du, "objects would be deleted before all references to them were removed")
		neverAfter(p, r, "R08.o", shortName(fn), "nothing is compared after deleteUnused", fn, an, du, "")
	}
	ruleConfMode(p, r)
	ruleIOSNumbering(p, r)
	rulePanosEscaped(p, r)
	ruleGuardTable(p, r, "R08.g", "C08")
	ruleMergeCompleteness(p, r, "R18.1", map[string]bool{"panos": true})
	ruleStickyState(p, r, "C08", map[string]bool{"cisco": true, "asa": true, "ios": true}, 9)
	ruleComparatorsSymmetric(p, r, map[string]bool{"cisco": true, "asa": true, "ios": true}, 5)
	ruleFreshCounters(p, r, "R08.f", map[string]bool{"cisco": true, "panos": true, "nsx": true, "linux": true}, 1)
	ruleMustCalls(p, r, "R-PH", "C08")
	ruleBufferReuse(p, r, "R-REUSE", map[string]bool{"cisco": true, "asa": true, "ios": true, "nxos": true})
	ruleLookupsAudited(p, r, "R-LK", "C08", 5)
	ruleSides(p, r, "R-SIDE", "C08", map[string]bool{"panos": true, "nsx": true}, 25)
	ruleRegexpConsts(p, r, "R-RX", "C08", 1)
	ruleIdentityFirst(p, r, "R-IDF", "C08", 16)
	ruleFreshTestedAgainstUsed(p, r, "R08.f2")
	ruleCaseFolding(p, r, "R-FOLD", "C08", map[string]bool{"cisco": true, "asa": true, "ios": true, "panos": true, "nsx": true, "linux": true})
	r.rule("R08.c", "Emission discipline (Cisco): every call of the emitting helpers (addChange, addToplevel, addCmd, addCmds, delCmds) in package cisco lies at a function+site whose controlling conditions are audited rows of tables/guards.tsv (compared by R08.g): which command is written again, what is removed first, when a mode is left.")
	ruleEmitDiscipline(p, r, "R08.c", "C08", "cisco", []string{"(*cisco.State).addChange", "(*cisco.State).addToplevel", "(*cisco.State).addCmd", "(*cisco.State).addCmds", "(*cisco.State).delCmds"}, 33)
	ruleMemo(p, r, "R-MEMO", "C08", map[string]bool{"panos": true, "nsx": true}, 7)
	ruleExitsAudited(p, r, "R-X", "C08", map[string]bool{"cisco": true, "asa": true, "ios": true}, 17)
	ruleMemo(p, r, "R-MEMO", "C08", map[string]bool{"cisco": true, "asa": true, "ios": true, "nxos": true}, 6)
	ruleRewriteDiscipline(p, r, "R-FLAG", "C08", map[string]bool{"cisco": true}, 20)
	ruleCutsetMisuse(p, r, map[string]bool{"cisco": true, "asa": true, "ios": true, "panos": true, "nsx": true})
	r.rule("R-M", "Mark discipline (PAN-OS, NSX): the marks needed / nameOnDevice decide which objects are transferred before the rules that reference them and under which name a rule refers to a group; every store into such a mark lies at a function+site whose controlling conditions are audited rows of tables/guards.tsv (compared by R08.g).")
	ruleMarkDiscipline(p, r, "R-M", "C08", "panos", []string{".needed", ".nameOnDevice"}, 14)
	ruleMarkDiscipline(p, r, "R-M", "C08", "nsx", []string{".needed", ".nameOnDevice"}, 6)
	ruleMarkDiscipline(p, r, "R-M", "C08", "cisco", []string{"cmd.needed", "cmd.ready", "cmd.toDelete"}, 18)
	ruleMarkDiscipline(p, r, "R-M", "C08", "cisco", []string{"cisco.cmd.name", "cisco.cmd.seq"}, 16)
	ruleMarkDiscipline(p, r, "R-M", "C08", "cisco", []string{"cisco.State.subCmdOf"}, 5)
	r.Trusted = []string{"go/ssa, call graph", "audited guard sets in tables/guards.tsv"}
	r.NotDec = "referential validity of a concrete script; line-number arithmetic beyond the agreement of the constants; duplicate ACL entries"
}

// phaseOrderSameIter: inside a loop body every A-site dominates every B-site
// (same iteration): A dominates B; B does not dominate A.
func phaseOrderSameIter(p *Prog, r *Report, rule, fnName, what string, a, b []*callSite, detail string) {
	key := "order|" + fnName + "|" + what
	if len(a) == 0 || len(b) == 0 {
		r.fail(rule, key, "", fmt.Sprintf("%s: sites not found (%d, %d)", what, len(a), len(b)), "anchor lost")
		return
	}
	ok := true
	for _, x := range a {
		for _, y := range b {
			if x.In == y.In || !orderedInIteration(x.In, y.In) {
				ok = false
			}
		}
	}
	r.add(rule, key, p.ipos(b[0].In), what, ok, detail)
}

func ruleConfMode(p *Prog, r *Report) {
	ac := p.Fn("(*cisco.State).addChange")
	if ac == nil {
		r.fail("R08.m", "anchor|addChange", "", "not found", "")
		return
	}
	helpers := map[string]bool{"(*cisco.State).addCmd": true, "(*cisco.State).addToplevel": true, "(*cisco.State).setCmdConfMode": true, "(*cisco.State).delCmds": true}
	audited := map[string][]string{
		"(*cisco.State).makeEqual":    {"(*cisco.State).addCmd"},
		"(*cisco.State).deleteUnused": {"(*cisco.State).addToplevel"},
	}
	n := 0
	for _, e := range callersOf(p.CG(), ac) {
		if e.Site == nil {
			continue
		}
		if e.Caller.Func.Synthetic != "" {
			continue // promoted-method wrapper of asa.State / ios.State
		}
		n++
		cn := shortName(e.Caller.Func)
		if helpers[cn] {
			r.ok("R08.m", "addchange-caller|"+cn, p.ipos(e.Site), "addChange called from a helper that maintains the config mode")
			continue
		}
		next, isAud := audited[cn]
		ok := false
		if isAud {
			// followed by a helper: some call of `next` is reachable after the site
			for _, cs := range callsOf(e.Caller.Func) {
				for _, nn := range next {
					if cs.calleeName() == nn && ireach(e.Site, cs.In) {
						ok = true
					}
				}
			}
		}
		r.add("R08.m", "addchange-caller|"+cn, p.ipos(e.Site), "addChange outside the helpers is an audited site followed by a mode-setting helper", ok,
			"a command is emitted without updating subCmdOf: a following sub-command may be issued in the wrong configuration mode")
	}
	r.floor("R08.m", "callers of addChange", n, 6)
	// each helper really maintains the mode variable around every emission
	for hn := range helpers {
		h := p.Fn(hn)
		if h == nil {
			r.fail("R08.m", "anchor|"+hn, "", "helper not found", "")
			continue
		}
		isUpdate := func(in ssa.Instruction) bool {
			if st, ok := in.(*ssa.Store); ok {
				if fa, ok := st.Addr.(*ssa.FieldAddr); ok && fieldName(fa) == "cisco.State.subCmdOf" {
					return true
				}
			}
			if ci, ok := in.(ssa.CallInstruction); ok {
				if f := ci.Common().StaticCallee(); f != nil && shortName(f) == "(*cisco.State).setCmdConfMode" {
					return true
				}
			}
			return false
		}
		for _, cs := range callsTo(h, "(*cisco.State).addChange") {
			pre := !reachAvoiding(h, cs.In, isUpdate)
			post := mustPassBeforeReturn(p, cs.In, isUpdate, nil) == ""
			r.add("R08.m", "mode-updated|"+hn, p.ipos(cs.In), "emission in "+hn+" is accompanied by an update of the config-mode variable on every path (before or after it)", pre || post,
				"a command is emitted on a path that leaves subCmdOf stale: a later sub-command is sent without re-entering its parent's mode")
		}
	}
	// direct stores to Changes
	var fld []*ssa.Store
	for _, fn := range allModFuncs(p) {
		for _, b := range fn.Blocks {
			for _, in := range b.Instrs {
				if st, ok := in.(*ssa.Store); ok {
					if fa, ok := st.Addr.(*ssa.FieldAddr); ok && fieldName(fa) == "cisco.State.Changes" {
						fld = append(fld, st)
					}
				}
			}
		}
	}
	allowed := map[string]bool{"(*cisco.State).addChange": true, "(*cisco.State).diffIOSACLs": true, "(*cisco.State).diffIOSACLs.moveACL": true, "(*cisco.State).diffASAACLs.moveACL": true}
	for _, st := range fld {
		dn := fnDisplay(st.Parent())
		r.add("R08.m", "changes-store|"+dn, p.ipos(st), "direct store to State.Changes in "+dn, allowed[dn], "the command list is edited outside the audited places")
	}
	r.floor("R08.m", "stores to State.Changes", len(fld), 4)
}

func ruleIOSNumbering(p *Prog, r *Report) {
	fn := p.Fn("(*cisco.State).diffIOSACLs")
	if fn == nil {
		r.fail("R08.k", "anchor|diffIOSACLs", "", "not found", "")
		return
	}
	vals := map[string]int64{}
	mulConst := func(f *ssa.Function, label string) {
		if f == nil {
			r.fail("R08.k", "anchor|"+label, "", "closure not found", "")
			return
		}
		for _, b := range f.Blocks {
			for _, in := range b.Instrs {
				if bo, ok := in.(*ssa.BinOp); ok && bo.Op == token.MUL {
					if k, ok := constInt(bo.Y); ok {
						vals[label] = k
					} else if k, ok := constInt(bo.X); ok {
						vals[label] = k
					}
				}
			}
		}
	}
	mulConst(closureByName(fn, "addACL"), "insert multiplier (addACL)")
	mulConst(closureByName(fn, "delACL"), "delete multiplier (delACL)")
	// abort bound
	for _, b := range fn.Blocks {
		i := ifOf(b)
		if i == nil {
			continue
		}
		bo, ok := i.Cond.(*ssa.BinOp)
		if !ok {
			continue
		}
		k, isC := constInt(bo.Y)
		if !isC {
			continue
		}
		if blockAborts(b.Succs[0]) {
			// what is bounded must be the size of the inserted hunk (HighB - LowB): the line numbers
			// are computed from the index inside the hunk, whatever is done with the line later
			d := descValue(bo.X, 0)
			if !(strings.Contains(d, "Range.HighB") && strings.Contains(d, "Range.LowB") && strings.Contains(d, " - ")) {
				continue
			}
			switch bo.Op {
			case token.GEQ:
				vals["abort bound"] = k
			case token.GTR:
				vals["abort bound"] = k + 1
			}
		}
	}
	// resequence string
	re := regexp.MustCompile(` (\d+) (\d+)$`)
	first := true
	for _, cs := range callsTo(fn, "(*cisco.State).addToplevel") {
		ctx := &provCtx{p: p, cg: p.CG(), seen: map[ssa.Value]bool{}}
		for _, pt := range ctx.eval(cs.In.Common().Args[1]) {
			last := pt[len(pt)-1]
			if last.Kind == "const" {
				if m := re.FindStringSubmatch(last.S); m != nil && first {
					a, _ := strconv.ParseInt(m[1], 10, 64)
					b2, _ := strconv.ParseInt(m[2], 10, 64)
					vals["resequence start"] = a
					vals["resequence step"] = b2
					first = false
				}
			}
		}
	}
	var keys []string
	for k := range vals {
		keys = append(keys, k)
	}
	sort.Strings(keys)
	same := len(vals) == 5
	var ref int64 = -1
	for _, k := range keys {
		if ref < 0 {
			ref = vals[k]
		}
		if vals[k] != ref {
			same = false
		}
	}
	r.add("R08.k", "numbering-constants|(*cisco.State).diffIOSACLs", p.pos(fn.Pos()), fmt.Sprintf("numbering constants: %v", vals), same,
		"the resequence step, the line-number multipliers and the insert bound differ: inserted numbers can collide with the next old line")
}

func rulePanosEscaped(p *Prog, r *Report) {
	okCalls := map[string]bool{"call panos.nameAttr": true, "call panos.textAttr": true, "call panos.printXML": true, "call panos.printXMLValue": true, "call net/url.QueryEscape": true}
	cmds := panosCommandPatterns(p)
	n := 0
	for _, c := range cmds {
		for _, a := range c.Pat {
			if a.Kind == "const" {
				continue
			}
			n++
			r.add("R08.e", "escaped|"+shortName(c.Fn)+"|"+a.Kind+":"+a.S, p.ipos(c.In), "non-constant part <"+a.Kind+":"+a.S+"> of a PAN-OS command is URL-escaped", a.Kind == "opaque" && okCalls[a.S],
				"a device-controlled string is placed into the request URL unescaped: names with spaces or & produce a malformed or different request ("+c.Pat.String()+")")
		}
	}
	r.floor("R08.e", "non-constant parts of PAN-OS commands", n, 30)
}

// ---- C14 ----

func checkC14(p *Prog, r *Report) {
	ruleRegexpConsts(p, r, "R-RX", "C14", 1)
	// a new early return in an ACL or route planner skips the phases whose order this property is about
	ruleExitsAudited(p, r, "R-X", "C14", map[string]bool{"cisco": true, "linux": true}, 16)
	ruleMemo(p, r, "R-MEMO", "C14", map[string]bool{"cisco": true, "linux": true}, 6)
	ruleBufferReuse(p, r, "R-REUSE", map[string]bool{"cisco": true, "linux": true})
	r.rule("R14.o", "Safe order of incremental changes, decided by dominance/reachability between call sites: ASA and IOS ACLs — every insert/move (addACL, moveACL) happens before the list of deletions is reversed (slices.Reverse) and before any delete (delACL); deletions run bottom-up; IOS — the initial resequence dominates everything else that emits, the final resequence comes last; routes — inserts (with joined replace) before deletes, routes sorted more-specific-first before the comparison; Linux routes — SortFunc before the add loop before the delete loop.")
	r.rule("R14.b", "IOS block marking is complete before any move decision: in diffIOSACLs no store into the block-id slice (result of markIOSPermitDenyBlocks) is reachable from a call of moveACL, which reads it. (A split detected after an earlier hunk's move was judged 'same block' silently drops the move: lock-out.)")
	for _, name := range []string{"(*cisco.State).diffASAACLs", "(*cisco.State).diffIOSACLs"} {
		fn := p.Fn(name)
		if fn == nil {
			r.fail("R14.o", "anchor|"+name, "", "not found", "")
			continue
		}
		add := sitesIn(p, fn, byCallee(p, "addACL", "moveACL"))
		rev := sitesIn(p, fn, byCallee(p, "slices.Reverse"))
		del := sitesIn(p, fn, byCallee(p, "delACL"))
		phaseOrder(p, r, "R14.o", name, "inserts and moves before the deletions are reversed", fn, add, rev, "a delete could run before an insert: traffic permitted before and after is interrupted")
		phaseOrder(p, r, "R14.o", name, "deletions reversed (bottom-up) before the delete loop", fn, rev, del, "deletes run top-down: too much traffic is permitted for a while")
		neverAfter(p, r, "R14.o", name, "no insert or move after a delete", fn, add, del, "")
		// the reversed slice is the one the delete loop ranges over
		if len(rev) == 1 && len(del) >= 1 {
			arg := rev[0].In.Common().Args[0]
			same := false
			for _, d := range del {
				for _, a := range d.In.Common().Args {
					for _, rt := range valueRoots(a) {
						// element of the reversed slice
						if u, ok := rt.(*ssa.UnOp); ok {
							if ia, ok := u.X.(*ssa.IndexAddr); ok && sameSlice(ia.X, arg) {
								same = true
							}
						}
					}
				}
			}
			r.add("R14.o", "reverse-is-delete-list|"+name, p.ipos(rev[0].In), "the reversed slice is the list the delete loop walks", same, "another list is reversed: deletes are not bottom-up")
		}
	}
	if fn := p.Fn("(*cisco.State).diffIOSACLs"); fn != nil {
		reseq := sitesIn(p, fn, byCallee(p, "(*cisco.State).addToplevel"))
		emit := sitesIn(p, fn, byCallee(p, "addACL", "moveACL", "delACL"))
		if len(reseq) >= 2 {
			phaseOrder(p, r, "R14.o", shortName(fn), "initial resequence before every numbered command", fn, reseq[:1], emit, "numbered commands would address lines of the old numbering")
			phaseOrder(p, r, "R14.o", shortName(fn), "final resequence after every numbered command", fn, emit, reseq[len(reseq)-1:], "")
		} else {
			r.fail("R14.o", "anchor|resequence", p.pos(fn.Pos()), "two resequence commands expected", "")
		}
		// R14.b
		var blockSlice ssa.Value
		for _, cs := range callsTo(fn, "cisco.markIOSPermitDenyBlocks") {
			for _, ref := range *cs.In.Value().Referrers() {
				if ex, ok := ref.(*ssa.Extract); ok && ex.Index == 0 {
					blockSlice = ex
				}
			}
		}
		mv := sitesIn(p, fn, byCallee(p, "moveACL"))
		if blockSlice == nil || len(mv) == 0 {
			r.fail("R14.b", "anchor|block slice", p.pos(fn.Pos()), "block-id slice or moveACL call not found", "")
		} else {
			var stores []ssa.Instruction
			var all []*ssa.Function
			all = append(all, fn)
			for _, st := range storesIntoSlice(fn, blockSlice) {
				stores = append(stores, st)
			}
			bad := ""
			for _, st := range stores {
				for _, m := range mv {
					if ireach(m.In, st) {
						bad = "store at " + p.ipos(st) + " can run after moveACL at " + p.ipos(m.In)
					}
				}
			}
			r.add("R14.b", "block-marking-before-moves|"+shortName(fn), p.pos(fn.Pos()), fmt.Sprintf("%d stores into the block-id slice, none reachable from a moveACL call", len(stores)), bad == "" && len(stores) >= 1,
				"block split detection runs after a move decision was already taken: "+bad)
		}
	}
	if fn := p.Fn("(*cisco.State).diffRoutes"); fn != nil {
		ins := sitesIn(p, fn, byCallee(p, "(*cisco.State).addToplevel"))
		del := sitesIn(p, fn, byCallee(p, "(*cisco.State).delCmds"))
		phaseOrder(p, r, "R14.o", shortName(fn), "route inserts/replacements before route deletes", fn, ins, del, "a destination would be without route between delete and add")
	} else {
		r.fail("R14.o", "anchor|cisco diffRoutes", "", "not found", "")
	}
	if fn := p.Fn("(*cisco.State).diffConfig"); fn != nil {
		so := sitesIn(p, fn, byCallee(p, "cisco.sortRoutes"))
		an := sitesIn(p, fn, byCallee(p, "(*cisco.State).diffAnchors", "(*cisco.State).diffSomeAnchors"))
		phaseOrder(p, r, "R14.o", shortName(fn), "routes sorted more-specific-first before comparison", fn, so, an, "the default route could be switched before the specific routes exist")
		r.floor("R14.o", "sortRoutes calls", len(so), 2)
	}
	if fn := p.Fn("linux.diffRoutes"); fn != nil {
		so := sitesIn(p, fn, byCallee(p, "slices.SortFunc"))
		var addApp, delApp []*callSite
		for _, cs := range callsOf(fn) {
			if b, ok := cs.In.Common().Value.(*ssa.Builtin); ok && b.Name() == "append" {
				if el, ok := sliceLitElems(cs.In.Common().Args[1]); ok && len(el) == 1 {
					isDel := false
					for _, rt := range valueRoots(el[0]) {
						if c, ok := rt.(*ssa.Call); ok {
							for _, cal := range calleesOfSite(p, &callSite{In: c, Fn: fn, Static: c.Common().StaticCallee()}) {
								if closureName(cal) == "printDel" {
									isDel = true
								}
							}
						}
					}
					if isDel {
						delApp = append(delApp, cs)
					} else {
						addApp = append(addApp, cs)
					}
				}
			}
		}
		phaseOrder(p, r, "R14.o", shortName(fn), "new routes sorted before the add loop", fn, so, addApp, "")
		phaseOrder(p, r, "R14.o", shortName(fn), "adds (and joined replacements) before plain deletes", fn, addApp, delApp, "a destination would be without route between delete and add")
	} else {
		r.fail("R14.o", "anchor|linux.diffRoutes", "", "not found", "")
	}
	ruleJoinedTransactions(p, r)
	ruleSinglePass(p, r)
	ruleJoinedSentAsOnePacket(p, r)
	ruleStickyState(p, r, "C14", map[string]bool{"cisco": true, "linux": true}, 8)
	ruleFreshCounters(p, r, "R08.f", map[string]bool{"cisco": true}, 1)
	r.rule("R08.k", "IOS numbering constants agree and the too-many-lines abort bounds the size of the inserted hunk (see C08): numbers before*S+1 .. before*S+n stay below the next old line.")
	ruleIOSNumbering(p, r)
	ruleRewriteDiscipline(p, r, "R-FLAG", "C14", map[string]bool{"cisco": true}, 20)
	r.rule("R14.g", "The route delete / replace decisions of linux.diffRoutes keep their audited controlling conditions (tables/guards.tsv rows for C14): an old route is joined with the new one only for the same destination (address and prefix length), and deleted only while it is still marked present and not kept.")
	ruleGuardTable(p, r, "R14.g", "C14")
	r.Trusted = []string{"go/ssa, call graph"}
	r.NotDec = "packet-level verdict of each intermediate ACL; the move-inside-block logic itself; membership edits of shared object-groups (excluded by the property)"
}

func sameSlice(a, b ssa.Value) bool {
	if a == b {
		return true
	}
	ra, rb := valueRoots(a), valueRoots(b)
	for _, x := range ra {
		for _, y := range rb {
			if x == y {
				return true
			}
		}
	}
	return false
}

// storesIntoSlice: stores through IndexAddr of slice value sl (or of a slice
// derived from it by re-slicing) in fn and its closures.
func storesIntoSlice(fn *ssa.Function, sl ssa.Value) []ssa.Instruction {
	var out []ssa.Instruction
	derived := func(v ssa.Value) bool {
		for d := 0; d < 4; d++ {
			if v == sl {
				return true
			}
			for _, rt := range valueRoots(v) {
				if rt == sl {
					return true
				}
			}
			if s, ok := v.(*ssa.Slice); ok {
				v = s.X
				continue
			}
			break
		}
		return false
	}
	var visit func(f *ssa.Function)
	visit = func(f *ssa.Function) {
		for _, b := range f.Blocks {
			for _, in := range b.Instrs {
				if st, ok := in.(*ssa.Store); ok {
					if ia, ok := st.Addr.(*ssa.IndexAddr); ok && derived(ia.X) {
						if f == fn {
							out = append(out, in)
						}
					}
				}
			}
		}
	}
	visit(fn)
	return out
}

// naturalLoopBody: blocks of the natural loop(s) with header h (nil if h is
// not a loop header): h plus every block that reaches a back-edge source
// without passing through h.
func naturalLoopBody(h *ssa.BasicBlock) map[*ssa.BasicBlock]bool {
	var tails []*ssa.BasicBlock
	for _, pr := range h.Preds {
		if h.Dominates(pr) {
			tails = append(tails, pr)
		}
	}
	if len(tails) == 0 {
		return nil
	}
	body := map[*ssa.BasicBlock]bool{h: true}
	var walk func(b *ssa.BasicBlock)
	walk = func(b *ssa.BasicBlock) {
		if body[b] {
			return
		}
		body[b] = true
		for _, pr := range b.Preds {
			walk(pr)
		}
	}
	for _, t := range tails {
		walk(t)
	}
	return body
}

// reachAvoiding: target can be reached from the function entry along a path on
// which no instruction satisfies avoid (checked before target).  For a target
// inside a loop only the first arrival matters (the walk is over blocks).
func reachAvoiding(fn *ssa.Function, target ssa.Instruction, avoid func(ssa.Instruction) bool) bool {
	seen := map[*ssa.BasicBlock]bool{}
	var walk func(b *ssa.BasicBlock) bool
	walk = func(b *ssa.BasicBlock) bool {
		if seen[b] {
			return false
		}
		seen[b] = true
		for _, in := range b.Instrs {
			if in == target {
				return true
			}
			if avoid(in) {
				return false
			}
		}
		for _, s := range b.Succs {
			if walk(s) {
				return true
			}
		}
		return false
	}
	return walk(fn.Blocks[0])
}

// ruleJoinedTransactions: R14.j.
func ruleJoinedTransactions(p *Prog, r *Report) {
	r.rule("R14.j", "Moves and same-destination route replacements are sent as ONE joined line <delete>\\n<add> (the device applies both halves of a packet together): in both moveACL closures the element of State.Changes that replaces the delete command is the concatenation del + \"\\n\" + add; in cisco.diffRoutes the command emitted when a deleted route has the destination of an inserted one is \"no \" + <old> + \"\\n\" + <new>, and that old route is marked needed (not deleted again); in linux.diffRoutes the replacement is <del> + \"\\n\" + <add>.")
	hasNLConcat := func(v ssa.Value) bool {
		// (a + "\n") + b  with a, b non-constant
		bo, ok := v.(*ssa.BinOp)
		if !ok || bo.Op != token.ADD {
			return false
		}
		if _, isC := bo.Y.(*ssa.Const); isC {
			return false
		}
		in, ok := bo.X.(*ssa.BinOp)
		if !ok || in.Op != token.ADD {
			return false
		}
		sv, isC := constString(in.Y)
		if !isC || sv != "\n" {
			return false
		}
		_, lc := in.X.(*ssa.Const)
		return !lc || true
	}
	for _, name := range []string{"(*cisco.State).diffASAACLs", "(*cisco.State).diffIOSACLs"} {
		par := p.Fn(name)
		var cl *ssa.Function
		if par != nil {
			cl = closureByName(par, "moveACL")
		}
		if cl == nil {
			r.fail("R14.j", "anchor|"+name+".moveACL", "", "closure not found", "")
			continue
		}
		ok := false
		for _, b := range cl.Blocks {
			for _, in := range b.Instrs {
				if st, isSt := in.(*ssa.Store); isSt {
					if _, isIdx := st.Addr.(*ssa.IndexAddr); isIdx && hasNLConcat(st.Val) {
						ok = true
					}
				}
			}
		}
		r.add("R14.j", "move-joined|"+name, p.pos(cl.Pos()), "a moved ACL line is sent as `no <line>\\n<line at new position>` in one change element", ok,
			"delete and add of a moved line are separate commands: between them the line is missing (lock-out) or duplicated")
		// every add of the closure is joined: no path from a call of addACL to the return avoids the join
		isJoin := func(in ssa.Instruction) bool {
			st, isSt := in.(*ssa.Store)
			if !isSt {
				return false
			}
			_, isIdx := st.Addr.(*ssa.IndexAddr)
			return isIdx && hasNLConcat(st.Val)
		}
		nAdd := 0
		for _, cs := range callsOf(cl) {
			for _, cal := range calleesOfSite(p, cs) {
				if cal.Parent() != par || closureName(cal) != "addACL" {
					continue
				}
				nAdd++
				r.add("R14.j", fmt.Sprintf("move-add-joined|%s|%d", name, nAdd), p.ipos(cs.In), "the line added by moveACL is joined with its delete before the closure returns", !reachesExitAvoiding(cs.In, isJoin),
					"a path from this addACL to the return does not pass the join: delete and add of the same line go out as two commands, between them the line is missing")
			}
		}
		if nAdd == 0 {
			r.fail("R14.j", "move-add-joined|"+name, p.pos(cl.Pos()), "moveACL calls addACL", "no call of the addACL closure found in moveACL")
		}
	}
	if fn := p.Fn("(*cisco.State).diffRoutes"); fn != nil {
		okJ, okNeeded := false, false
		// the emitting call: addToplevel with the joined line, or a helper of package cisco that
		// joins two of its parameters with "\n" itself
		joinsParams := func(f *ssa.Function) bool {
			if f == nil || !isModFunc(f) {
				return false
			}
			for _, b := range f.Blocks {
				for _, in := range b.Instrs {
					if bo, ok := in.(*ssa.BinOp); ok && hasNLConcat(bo) {
						_, p1 := bo.Y.(*ssa.Parameter)
						inner, _ := bo.X.(*ssa.BinOp)
						_, p0 := inner.X.(*ssa.Parameter)
						if p0 && p1 {
							return true
						}
					}
				}
			}
			return false
		}
		var emitters []*callSite
		for _, cs := range callsOf(fn) {
			f := cs.In.Common().StaticCallee()
			if f == nil {
				continue
			}
			if shortName(f) == "(*cisco.State).addToplevel" || joinsParams(f) {
				emitters = append(emitters, cs)
			}
		}
		for _, cs := range emitters {
			a := cs.In.Common().Args[1]
			if hasNLConcat(a) || joinsParams(cs.In.Common().StaticCallee()) {
				// guarded by the lookup of the deleted route with the same destination
				for _, g := range guardSet(cs.In) {
					if strings.HasPrefix(g, "ok(") {
						okJ = true
						// the old route is marked needed on the same path
						for _, in := range cs.In.Block().Instrs {
							if st, isSt := in.(*ssa.Store); isSt {
								if fa, isFA := st.Addr.(*ssa.FieldAddr); isFA && fieldName(fa) == "cisco.cmd.needed" {
									if bv, isC := constBool(st.Val); isC && bv {
										okNeeded = true
									}
								}
							}
						}
					}
				}
			}
		}
		r.add("R14.j", "route-replace-joined|(*cisco.State).diffRoutes", p.pos(fn.Pos()), "a route to an existing destination is replaced by `no <old>\\n<new>` in one command", okJ,
			"old and new route to one destination are changed in two steps: the destination is unrouted or the add is rejected in between")
		r.add("R14.j", "route-replaced-not-deleted-again|(*cisco.State).diffRoutes", p.pos(fn.Pos()), "the replaced old route is marked needed (not deleted a second time)", okNeeded, "")
	} else {
		r.fail("R14.j", "anchor|cisco diffRoutes", "", "not found", "")
	}
	if fn := p.Fn("linux.diffRoutes"); fn != nil {
		ok := false
		for _, b := range fn.Blocks {
			for _, in := range b.Instrs {
				if bo, isB := in.(*ssa.BinOp); isB && hasNLConcat(bo) {
					ok = true
				}
			}
		}
		r.add("R14.j", "route-replace-joined|linux.diffRoutes", p.pos(fn.Pos()), "Linux: replacement of a route to the same destination is `<del>\\n<add>`", ok, "")
	}
}

// ruleSinglePass: R14.s.  The bottom-up order of the deletes (and the top-down
// order of the inserts) rests on the lists being filled in ascending line
// order: every statement that grows the list later reversed / walked lies in
// one and the same loop over the diff ranges (which are ascending).  A list
// filled in two passes is not sorted by line number, so Reverse does not give
// bottom-up.  An explicit sort of the list before it is used is accepted
// (comparator not analysed).
func ruleSinglePass(p *Prog, r *Report) {
	r.rule("R14.s", "ASA/IOS ACL diff: the list of lines to delete (argument of slices.Reverse) and, on ASA, the list of lines to insert (walked by the insert loop) are each filled inside one single loop over the parameter `diff` (ascending ranges) — directly or through a local closure called there — so they are in ascending line order; otherwise an explicit sort of the list must precede its use.")
	n := 0
	for _, name := range []string{"(*cisco.State).diffASAACLs", "(*cisco.State).diffIOSACLs"} {
		fn := p.Fn(name)
		if fn == nil {
			r.fail("R14.s", "anchor|"+name, "", "not found", "")
			continue
		}
		var diffPar *ssa.Parameter
		for _, pa := range fn.Params {
			if strings.HasSuffix(pa.Type().String(), "edit.Range") {
				diffPar = pa
			}
		}
		if diffPar == nil {
			r.fail("R14.s", "anchor|diff parameter|"+name, p.pos(fn.Pos()), "no parameter of type []edit.Range", "")
			continue
		}
		// outermost loops that index the diff parameter
		var loops []map[*ssa.BasicBlock]bool
		for _, h := range fn.Blocks {
			body := naturalLoopBody(h)
			if body == nil {
				continue
			}
			uses := false
			for b := range body {
				for _, in := range b.Instrs {
					if ia, ok := in.(*ssa.IndexAddr); ok && ia.X == diffPar {
						uses = true
					}
				}
			}
			if uses {
				loops = append(loops, body)
			}
		}
		var outer []map[*ssa.BasicBlock]bool
		for i, l := range loops {
			nested := false
			for j, m := range loops {
				if i != j && len(m) > len(l) {
					all := true
					for b := range l {
						if !m[b] {
							all = false
						}
					}
					if all {
						nested = true
					}
				}
			}
			if !nested {
				outer = append(outer, l)
			}
		}
		type listRole struct {
			role string
			v    ssa.Value
			use  ssa.Instruction
		}
		var lists []listRole
		for _, cs := range sitesIn(p, fn, byCallee(p, "slices.Reverse")) {
			lists = append(lists, listRole{"delete list", cs.In.Common().Args[0], cs.In})
		}
		if name == "(*cisco.State).diffASAACLs" {
			for _, cs := range sitesIn(p, fn, byCallee(p, "addACL")) {
				for _, a := range cs.In.Common().Args {
					for _, rt := range valueRoots(a) {
						if u, ok := rt.(*ssa.UnOp); ok {
							if ia, ok := u.X.(*ssa.IndexAddr); ok {
								lists = append(lists, listRole{"insert list", ia.X, cs.In})
							}
						}
					}
				}
			}
		}
		for _, l := range lists {
			key := "single-pass|" + name + "|" + l.role
			sites, sorted, err := growSites(p, fn, l.v, l.use)
			if err != "" {
				r.fail("R14.s", key, p.ipos(l.use), "cannot enumerate the statements that fill the "+l.role+": "+err, "")
				continue
			}
			n++
			if sorted {
				r.ok("R14.s", key, p.ipos(l.use), "the "+l.role+" is explicitly sorted before use (comparator not analysed)")
				continue
			}
			loopOf := func(in ssa.Instruction) int {
				for i, b := range outer {
					if b[in.Block()] {
						return i
					}
				}
				return -1
			}
			bad := ""
			first := -2
			for _, s := range sites {
				li := loopOf(s)
				if li < 0 {
					bad = "the list grows at " + p.ipos(s) + " outside any loop over diff"
				} else if first == -2 {
					first = li
				} else if li != first {
					bad = "the list grows at " + p.ipos(s) + " in a second loop over diff"
				}
			}
			r.add("R14.s", key, p.ipos(l.use), fmt.Sprintf("%d statements fill the %s, all inside one loop over diff", len(sites), l.role), bad == "" && len(sites) > 0,
				"the "+l.role+" is not in ascending line order: deletes are not bottom-up / inserts not top-down ("+bad+")")
		}
	}
	r.floor("R14.s", "lists with single-pass obligation", n, 3)
}

// growSites: instructions of fn at which the slice v (as seen at use) grows:
// append calls in fn, or calls in fn of a local closure that appends to the
// captured variable.  sorted: a sort call on the list is ordered before use.
func growSites(p *Prog, fn *ssa.Function, v ssa.Value, use ssa.Instruction) (sites []ssa.Instruction, sorted bool, err string) {
	seen := map[ssa.Value]bool{}
	var cells []*ssa.Alloc
	var walk func(x ssa.Value)
	isAppend := func(x ssa.Value) *ssa.Call {
		if c, ok := x.(*ssa.Call); ok {
			if b, ok := c.Common().Value.(*ssa.Builtin); ok && b.Name() == "append" {
				return c
			}
		}
		return nil
	}
	siteOf := func(in ssa.Instruction) {
		if in.Parent() == fn {
			sites = append(sites, in)
			return
		}
		found := false
		for _, cs := range callsOf(fn) {
			for _, c := range calleesOfSite(p, cs) {
				if c == in.Parent() {
					sites = append(sites, cs.In)
					found = true
				}
			}
		}
		if !found {
			err = "append in " + shortName(in.Parent()) + " has no call site in " + shortName(fn)
		}
	}
	walk = func(x ssa.Value) {
		if seen[x] {
			return
		}
		seen[x] = true
		switch y := x.(type) {
		case *ssa.Phi:
			for _, e := range y.Edges {
				walk(e)
			}
		case *ssa.Call:
			if c := isAppend(y); c != nil {
				siteOf(c)
				walk(c.Common().Args[0])
			} else {
				err = "list comes from a call of " + calleeOfValue(y)
			}
		case *ssa.UnOp:
			if a, ok := y.X.(*ssa.Alloc); ok {
				cells = append(cells, a)
				for _, st := range cellStores(a) {
					if c := isAppend(st.Val); c != nil {
						siteOf(c)
						// arg0 is a load of the same cell (or another list)
						if u, ok := c.Common().Args[0].(*ssa.UnOp); ok {
							if a2, ok := u.X.(*ssa.Alloc); ok && a2 == a {
								continue
							}
							if fv, ok := u.X.(*ssa.FreeVar); ok {
								same := false
								for _, b := range freeVarBindings(fv) {
									if b == a {
										same = true
									}
								}
								if same {
									continue
								}
							}
						}
						walk(c.Common().Args[0])
					} else if !isNilConst(st.Val) {
						if _, ok := st.Val.(*ssa.Const); !ok {
							err = "list variable assigned from " + descValue(st.Val, 0) + " at " + p.ipos(st)
						}
					}
				}
			} else {
				err = "list loaded from " + descValue(y.X, 0)
			}
		case *ssa.Const:
		case *ssa.Slice:
			walk(y.X)
		default:
			err = "unrecognised list value " + descValue(x, 0)
		}
	}
	walk(v)
	// explicit sort before use
	for _, cs := range callsOf(fn) {
		n := cs.calleeName()
		n, _, _ = strings.Cut(n, "[")
		if n == "slices.SortFunc" || n == "slices.SortStableFunc" || n == "sort.Slice" || n == "sort.SliceStable" {
			if len(cs.In.Common().Args) > 0 && (sameSlice(cs.In.Common().Args[0], v) || sameIface(cs.In.Common().Args[0], v)) && orderedInIteration(cs.In, use) {
				sorted = true
			}
		}
	}
	return
}

// sameIface: a is MakeInterface of a value that is the same slice as b.
func sameIface(a, b ssa.Value) bool {
	if mi, ok := a.(*ssa.MakeInterface); ok {
		return sameSlice(mi.X, b)
	}
	return false
}

// ruleJoinedSentAsOnePacket: R14.w.
func ruleJoinedSentAsOnePacket(p *Prog, r *Report) {
	r.rule("R14.w", "A joined change (`<delete>\\n<add>`: ACL move, same-destination route replacement) reaches the device as one packet: in every sender outside package console that looks at the halves of its command parameter (strings.Cut / strings.Split at \"\\n\") the argument of (*console.Conn).Send is the unsplit parameter itself, and that Send is not inside a loop. (Sent line by line, the device runs for one round trip without the moved ACL line — the lock-out the join exists to prevent.)")
	n := 0
	for _, fn := range allModFuncs(p) {
		if pkgOfFunc(fn) == "console" || fn.Synthetic != "" {
			continue
		}
		splits := false
		for _, cs := range callsOf(fn) {
			switch cs.calleeName() {
			case "strings.Cut", "strings.Split", "strings.SplitN", "strings.SplitSeq", "strings.Lines":
				for _, rt := range valueRoots(cs.In.Common().Args[0]) {
					if _, ok := rt.(*ssa.Parameter); ok {
						splits = true
					}
				}
			}
		}
		sends := callsTo(fn, "(*console.Conn).Send")
		for _, a := range fn.AnonFuncs {
			sends = append(sends, callsTo(a, "(*console.Conn).Send")...)
		}
		if !splits || len(sends) == 0 {
			continue
		}
		n++
		bad := ""
		for _, cs := range sends {
			arg := cs.In.Common().Args[len(cs.In.Common().Args)-1]
			whole := false
			for _, rt := range valueRoots(arg) {
				if pa, ok := rt.(*ssa.Parameter); ok && pa.Parent() == fn {
					whole = true
				} else {
					whole = false
					break
				}
			}
			if !whole {
				bad = "Send at " + p.ipos(cs.In) + " transmits " + descValue(arg, 0) + ", not the whole command"
			}
			for _, h := range cs.In.Parent().Blocks {
				if body := naturalLoopBody(h); body != nil && body[cs.In.Block()] {
					bad = "Send at " + p.ipos(cs.In) + " is inside a loop (one packet per line)"
				}
			}
		}
		r.add("R14.w", "joined-sent-as-one-packet|"+shortName(fn), p.ipos(sends[0].In), "the sender transmits its whole (possibly two-line) command with one Send", bad == "",
			"a joined delete+add is split over several packets: "+bad)
	}
	r.floor("R14.w", "senders that handle joined commands", n, 2)
}

// reachesExitAvoiding: some path from the instruction after `from` to a return of
// the function passes no instruction for which stop holds.
func reachesExitAvoiding(from ssa.Instruction, stop func(ssa.Instruction) bool) bool {
	b := from.Block()
	start := -1
	for i, in := range b.Instrs {
		if in == from {
			start = i + 1
		}
	}
	seen := map[*ssa.BasicBlock]bool{}
	var walk func(b *ssa.BasicBlock, i int) bool
	walk = func(b *ssa.BasicBlock, i int) bool {
		for ; i < len(b.Instrs); i++ {
			in := b.Instrs[i]
			if stop(in) {
				return false
			}
			if _, isRet := in.(*ssa.Return); isRet {
				return true
			}
		}
		for _, s := range b.Succs {
			if !seen[s] {
				seen[s] = true
				if walk(s, 0) {
					return true
				}
			}
		}
		return false
	}
	return walk(b, start)
}
