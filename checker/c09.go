package main

// C09: any device-side failure stops the run and is reported truthfully.

import (
	"fmt"
	"go/token"
	"go/types"
	"sort"
	"strings"

	"golang.org/x/tools/go/callgraph"
	"golang.org/x/tools/go/ssa"
)

func init() { register("C09", "other", true, checkC09) }

// taintFrom: forward def-use closure inside one function (and through local
// cells) starting at the given values.
func taintFrom(fn *ssa.Function, src []ssa.Value) map[ssa.Value]bool {
	t := map[ssa.Value]bool{}
	var work []ssa.Value
	add := func(v ssa.Value) {
		if v != nil && !t[v] {
			t[v] = true
			work = append(work, v)
		}
	}
	for _, s := range src {
		add(s)
	}
	for len(work) > 0 {
		v := work[len(work)-1]
		work = work[:len(work)-1]
		if v.Referrers() == nil {
			continue
		}
		for _, ref := range *v.Referrers() {
			switch x := ref.(type) {
			case *ssa.Store:
				if x.Val == v {
					// loads of the same cell
					if al, ok := x.Addr.(*ssa.Alloc); ok {
						for _, r2 := range *al.Referrers() {
							if u, ok := r2.(*ssa.UnOp); ok && u.Op == token.MUL {
								add(u)
							}
						}
					}
					if ia, ok := x.Addr.(*ssa.IndexAddr); ok {
						// element of a local array (varargs): slices of that array
						if al, ok := ia.X.(*ssa.Alloc); ok {
							for _, r2 := range *al.Referrers() {
								if sl, ok := r2.(*ssa.Slice); ok {
									add(sl)
								}
							}
						}
					}
					if fa, ok := x.Addr.(*ssa.FieldAddr); ok {
						// struct field of a local: loads of the same field address expression
						for _, b := range fn.Blocks {
							for _, in := range b.Instrs {
								if u, ok := in.(*ssa.UnOp); ok && u.Op == token.MUL {
									if fa2, ok := u.X.(*ssa.FieldAddr); ok && fa2.X == fa.X && fa2.Field == fa.Field {
										add(u)
									}
								}
							}
						}
					}
				}
			case ssa.Value:
				if call, ok := x.(*ssa.Call); ok {
					// decoding tainted bytes into a struct: the struct's fields are tainted
					if f := call.Common().StaticCallee(); f != nil && (strings.HasSuffix(shortName(f), ".Unmarshal") || strings.HasSuffix(shortName(f), ".Decode")) {
						args := call.Common().Args
						if len(args) >= 2 {
							for _, tgt := range valueRoots(args[len(args)-1]) {
								for _, b := range fn.Blocks {
									for _, in := range b.Instrs {
										if u, ok := in.(*ssa.UnOp); ok && u.Op == token.MUL {
											if fa, ok := u.X.(*ssa.FieldAddr); ok && fa.X == tgt {
												add(u)
											}
										}
									}
								}
							}
						}
					}
				}
				switch x.(type) {
				case *ssa.Call, *ssa.BinOp, *ssa.UnOp, *ssa.Phi, *ssa.Extract, *ssa.Slice, *ssa.Index, *ssa.IndexAddr,
					*ssa.Field, *ssa.FieldAddr, *ssa.Convert, *ssa.ChangeType, *ssa.MakeInterface, *ssa.TypeAssert, *ssa.Lookup:
					add(x)
				}
			}
		}
	}
	return t
}

// edgeDominatesNA: like edgeDominates, but predecessors that abort are ignored
// (control never continues from them).
func edgeDominatesNA(from *ssa.BasicBlock, k int, x *ssa.BasicBlock) bool {
	s := from.Succs[k]
	if !s.Dominates(x) {
		return false
	}
	for _, p := range s.Preds {
		if p == from {
			continue
		}
		if !s.Dominates(p) && !blockAborts(p) {
			return false
		}
	}
	if len(from.Succs) == 2 && from.Succs[0] == from.Succs[1] {
		return false
	}
	return true
}

// guardsAbort: If instruction whose one successor region aborts.
func guardsAbort(i *ssa.If) bool {
	b := i.Block()
	fn := b.Parent()
	for k := range b.Succs {
		if blockAborts(b.Succs[k]) {
			return true // `a || b` form: the aborting block has several predecessors
		}
		for _, bb := range fn.Blocks {
			if edgeDominates(b, k, bb) && blockAborts(bb) {
				return true
			}
		}
	}
	return false
}

// returnsDeviceVerdict: fn reads device output and a result of fn derives from
// it (the caller decides over the abort).
func returnsDeviceVerdict(fn *ssa.Function, sources func(cs *callSite) bool) bool {
	var src []ssa.Value
	for _, cs := range callsOf(fn) {
		if sources(cs) && cs.In.Value() != nil {
			src = append(src, cs.In.Value())
		}
	}
	if len(src) == 0 {
		return false
	}
	if fn.Signature.Results().Len() == 0 {
		return false
	}
	t := taintFrom(fn, src)
	for _, ret := range returnsOf(fn) {
		for _, v := range ret.Results {
			if t[v] {
				return true
			}
		}
	}
	// control dependence: which return is taken depends on the output
	if len(returnsOf(fn)) > 1 {
		for _, b := range fn.Blocks {
			if i := ifOf(b); i != nil && t[i.Cond] {
				return true
			}
		}
	}
	return false
}

// verdictMustReachAbortGuard: on every path from the call to a return of the
// caller, a condition computed from the call's result (phis count only along
// the edge that carries the result, so a later assignment that overwrites the
// verdict loses it) guards an abort.  Returns "" or a description of the path
// on which the verdict is lost.
func verdictMustReachAbortGuard(p *Prog, call ssa.Instruction) string {
	return verdictMustReach(p, call, isAbortCall, guardsAbort)
}

// verdictMustReach: on every path from the call to a return of the caller
// either an instruction satisfying goal is executed, or an If whose condition
// is computed from the call's result and that satisfies guardOK is evaluated.
// Phis carry the result only along the edge it arrives on; a phi that receives
// a boolean constant along the path taken fixes the outcome of a later test of
// that phi (so `x = f() || x` is followed correctly).
func verdictMustReach(p *Prog, call ssa.Instruction, goal func(ssa.Instruction) bool, guardOK func(*ssa.If) bool) string {
	v := call.(ssa.Value)
	var derives func(x ssa.Value, car map[ssa.Value]bool, d int) bool
	derives = func(x ssa.Value, car map[ssa.Value]bool, d int) bool {
		if car[x] {
			return true
		}
		if d > 6 {
			return false
		}
		switch y := x.(type) {
		case *ssa.BinOp:
			return derives(y.X, car, d+1) || derives(y.Y, car, d+1)
		case *ssa.UnOp:
			return derives(y.X, car, d+1)
		case *ssa.Extract:
			return derives(y.Tuple, car, d+1)
		case *ssa.Convert:
			return derives(y.X, car, d+1)
		case *ssa.ChangeType:
			return derives(y.X, car, d+1)
		case *ssa.MakeInterface:
			return derives(y.X, car, d+1)
		case *ssa.Call:
			for _, a := range y.Common().Args {
				if derives(a, car, d+1) {
					return true
				}
			}
		}
		return false
	}
	type state struct {
		b   *ssa.BasicBlock
		key string
	}
	seen := map[state]bool{}
	keyOf := func(car map[ssa.Value]bool, known map[ssa.Value]bool) string {
		var l []string
		for c := range car {
			l = append(l, c.Name())
		}
		for c, b := range known {
			l = append(l, fmt.Sprintf("%s=%v", c.Name(), b))
		}
		sort.Strings(l)
		return strings.Join(l, ",")
	}
	var lost string
	var walk func(b *ssa.BasicBlock, from int, car, known map[ssa.Value]bool)
	walk = func(b *ssa.BasicBlock, from int, car, known map[ssa.Value]bool) {
		if lost != "" {
			return
		}
		st := state{b, keyOf(car, known)}
		if from == 0 {
			if seen[st] {
				return
			}
			seen[st] = true
		}
		only := -1
		for _, in := range b.Instrs[from:] {
			if goal(in) || isAbortCall(in) {
				return
			}
			switch x := in.(type) {
			case *ssa.Panic:
				return
			case *ssa.Return:
				lost = "return at " + p.ipos(x)
				return
			case *ssa.Store:
				if car[x.Val] {
					lost = "the verdict is stored into memory at " + p.ipos(x) + " (not followed)"
					return
				}
			case *ssa.If:
				if derives(x.Cond, car, 0) && guardOK(x) {
					return
				}
				c, neg := stripNot(x.Cond)
				if car[c] {
					// the test is the (boolean) verdict itself: on the edge where it is
					// false there is nothing left to act on
					if neg {
						only = 1
					} else {
						only = 0
					}
				}
				if kv, ok := known[c]; ok {
					if kv != neg {
						only = 0
					} else {
						only = 1
					}
				}
			}
		}
		for si, s := range b.Succs {
			if only >= 0 && si != only {
				continue
			}
			idx := -1
			for i, pr := range s.Preds {
				if pr == b {
					idx = i
				}
			}
			nc := map[ssa.Value]bool{}
			for c := range car {
				nc[c] = true
			}
			nk := map[ssa.Value]bool{}
			for c, kv := range known {
				nk[c] = kv
			}
			for _, in := range s.Instrs {
				ph, ok := in.(*ssa.Phi)
				if !ok {
					break
				}
				delete(nk, ph)
				if idx >= 0 {
					if car[ph.Edges[idx]] {
						nc[ph] = true
					}
					if kv, isC := constBool(ph.Edges[idx]); isC {
						nk[ph] = kv
					} else if kv, isK := known[ph.Edges[idx]]; isK {
						nk[ph] = kv
					}
				}
			}
			walk(s, 0, nc, nk)
		}
	}
	walk(call.Block(), instrIndex(call)+1, map[ssa.Value]bool{v: true}, map[ssa.Value]bool{})
	return lost
}

// validatesDeviceOutput: fn reads device output (GetOutput / GetCmdOutput /
// IssueCmd result) and lets it decide over an abort.
func validatesDeviceOutput(fn *ssa.Function, sources func(cs *callSite) bool) (bool, string) {
	var src []ssa.Value
	for _, cs := range callsOf(fn) {
		if sources(cs) && cs.In.Value() != nil {
			src = append(src, cs.In.Value())
		}
	}
	if len(src) == 0 {
		return false, "does not read device output"
	}
	t := taintFrom(fn, src)
	for _, b := range fn.Blocks {
		i := ifOf(b)
		if i == nil || !t[i.Cond] {
			continue
		}
		if guardsAbort(i) {
			return true, ""
		}
	}
	return false, "device output does not guard an abort"
}

func isConnRead(cs *callSite) bool {
	switch cs.calleeName() {
	case "(*console.Conn).GetOutput", "(*console.Conn).GetCmdOutput", "(*console.Conn).IssueCmd":
		return true
	}
	return false
}

func ruleOutputValidated(p *Prog, m *Model, r *Report, only string) {
	r.rule("R09.1", "Every function outside package console that puts a change command on the wire with the raw (*console.Conn).Send (asa, ios, linux `cmd`) validates the device's answer before it returns: a validating function (reads GetOutput, and the output — through StripEcho/stripReloadBanner — decides over errlog.Abort) is called on every path after the Send for the first command, and once more under the guard <second part of strings.Cut(cmd, \"\\n\")> != \"\" for a joined two-command line. Linux additionally compares the output of `echo $?`.")
	n := 0
	for _, fn := range allModFuncs(p) {
		if pkgOfFunc(fn) == "console" || (only != "" && pkgOfFunc(fn) != only) {
			continue
		}
		sends := callsTo(fn, "(*console.Conn).Send")
		if len(sends) == 0 {
			continue
		}
		n++
		send := sends[0]
		// validating callees
		type vc struct {
			cs *callSite
		}
		var uncond, guarded int
		var lostVerdict []string
		// second part of Cut
		var second ssa.Value
		for _, cs := range callsOf(fn) {
			if cs.calleeName() == "strings.Cut" && cs.In.Value() != nil {
				for _, ref := range *cs.In.Value().Referrers() {
					if ex, ok := ref.(*ssa.Extract); ok && ex.Index == 1 {
						second = ex
					}
				}
			}
		}
		rets := returnsOf(fn)
		for _, cs := range callsOf(fn) {
			var callee *ssa.Function
			if cs.Static != nil {
				callee = cs.Static
			}
			if callee == nil || !isModFunc(callee) || cs.Defer {
				continue
			}
			if ok, _ := validatesDeviceOutput(callee, isConnRead); !ok {
				// result form: the callee returns the verdict and the caller aborts
				if cs.In.Value() == nil || !returnsDeviceVerdict(callee, isConnRead) {
					continue
				}
				if lost := verdictMustReachAbortGuard(p, cs.In); lost != "" {
					lostVerdict = append(lostVerdict, "verdict of "+cs.calleeName()+" at "+p.ipos(cs.In)+" is lost before "+lost)
					continue
				}
			}
			if !idom(send.In, cs.In) {
				continue
			}
			domAll := true
			for _, ret := range rets {
				if !idom(cs.In, ret) {
					domAll = false
				}
			}
			if domAll {
				uncond++
				continue
			}
			// guarded by second != ""
			if second != nil {
				g := gatedBy(cs.In, func(cond ssa.Value) (bool, int) {
					c, neg := stripNot(cond)
					bo, ok := c.(*ssa.BinOp)
					if !ok || (bo.Op != token.NEQ && bo.Op != token.EQL) {
						return false, 0
					}
					if !(bo.X == second || bo.Y == second) {
						return false, 0
					}
					s, isC := constString(bo.Y)
					if !isC {
						s, isC = constString(bo.X)
					}
					if !isC || s != "" {
						return false, 0
					}
					nonEmptyWhenTrue := bo.Op == token.NEQ
					if neg {
						nonEmptyWhenTrue = !nonEmptyWhenTrue
					}
					if nonEmptyWhenTrue {
						return true, 0
					}
					return true, 1
				})
				if g != nil {
					// and by nothing else: `check(c1) || c2 != "" && check(c2)` skips the
					// second validation whenever the first call returns true
					extra := ""
					for _, ob := range fn.Blocks {
						oi := ifOf(ob)
						if oi == nil || oi == g {
							continue
						}
						for k := range ob.Succs {
							if edgeDominates(ob, k, cs.In.Block()) {
								extra = "the second validation at " + p.ipos(cs.In) + " also depends on the condition at " + p.ipos(oi)
							}
						}
					}
					if extra == "" {
						guarded++
					} else {
						lostVerdict = append(lostVerdict, extra)
					}
				}
			}
		}
		r.add("R09.1", "first-answer-validated|"+shortName(fn), p.ipos(send.In),
			fmt.Sprintf("%d validation(s) of the device's answer on every path after Send", uncond), uncond >= 1,
			"a rejected command is not noticed before the next command is sent "+strings.Join(lostVerdict, "; "))
		if second != nil {
			r.add("R09.1", "second-answer-validated|"+shortName(fn), p.ipos(send.In),
				fmt.Sprintf("%d validation(s) guarded by <second command> != \"\"", guarded), guarded >= 1,
				"a failure in the second half of a joined two-command line is not noticed "+strings.Join(lostVerdict, "; "))
		}
		// sent command is the parameter, not a part: both halves are sent in one packet
	}
	if only != "" {
		r.floor("R09.1", "raw senders of change commands in package "+only, n, 1)
		return
	}
	r.floor("R09.1", "raw senders of change commands", n, 3)
	// linux exit status
	if fn := p.Fn("(*linux.State).cmd"); fn != nil {
		ok := false
		for _, cs := range callsTo(fn, "(*console.Conn).GetCmdOutput") {
			if s, isC := constString(cs.In.Common().Args[1]); isC && s == "echo $?" {
				t := taintFrom(fn, []ssa.Value{cs.In.Value()})
				for _, b := range fn.Blocks {
					if i := ifOf(b); i != nil && t[i.Cond] && guardsAbort(i) {
						ok = true
					}
				}
			}
		}
		r.add("R09.1", "exit-status|(*linux.State).cmd", p.pos(fn.Pos()), "Linux: the exit status of every command (`echo $?`) decides over an abort", ok,
			"a failing shell command is not noticed")
	} else {
		r.fail("R09.1", "anchor|(*linux.State).cmd", "", "not found", "")
	}
}

// ---- R09.2: error edges in the apply region never continue; save last ----

func applyRegionFuncs(p *Prog, m *Model) []*ssa.Function {
	set := map[*ssa.Function]bool{}
	for f := range m.ApplyOnly {
		if isModFunc(f) {
			set[f] = true
		}
	}
	for _, f := range m.Methods["ApplyCommands"] {
		f = unwrap(f)
		set[f] = true
	}
	// the console session layer is used by every phase (login, retrieval, change, save)
	for _, f := range p.ModFuncs {
		if pkgOfFunc(f) == "console" && f.Parent() == nil {
			set[f] = true
		}
	}
	// closures
	var add func(f *ssa.Function)
	add = func(f *ssa.Function) {
		for _, a := range f.AnonFuncs {
			set[a] = true
			add(a)
		}
	}
	for f := range set {
		add(f)
	}
	var out []*ssa.Function
	for f := range set {
		out = append(out, f)
	}
	sort.Slice(out, func(i, j int) bool { return shortName(out[i]) < shortName(out[j]) })
	return out
}

func errExempt() map[string]string {
	ex := map[string]string{}
	for _, row := range readTable("err_exempt.tsv", 4) {
		ex[row[0]+"|"+row[1]] = row[2] + ": " + row[3]
	}
	return ex
}

func ruleErrorEdges(p *Prog, m *Model, r *Report) {
	r.rule("R09.2a", "In the apply region (ApplyCommands implementations, their closures and everything reachable only through them) every call that returns an error has that error tested, and from the non-nil edge every path ends in a return of a non-nil error or in errlog.Abort without re-entering the block that made the call (no `break`/`continue` that goes on sending, no overwritten error variable). Directly returned errors count as propagated. Exempt calls are listed in tables/err_exempt.tsv.")
	ex := errExempt()
	n := 0
	for _, fn := range applyRegionFuncs(p, m) {
		for _, cs := range callsOf(fn) {
			sig := cs.In.Common().Signature()
			if sig == nil {
				continue
			}
			if _, isB := cs.In.Common().Value.(*ssa.Builtin); isB {
				continue
			}
			ei := errorResultIndex(sig)
			if ei < 0 {
				continue
			}
			name := cs.calleeName()
			if strings.HasPrefix(name, "fmt.Print") || strings.HasPrefix(name, "fmt.Fprint") {
				continue
			}
			key := shortName(fn) + "|" + name
			if _, ok := ex[key]; ok {
				continue
			}
			n++
			v := cs.In.Value()
			var errV ssa.Value
			if v != nil {
				if sig.Results().Len() == 1 {
					errV = v
				} else {
					for _, ref := range *v.Referrers() {
						if e, ok := ref.(*ssa.Extract); ok && e.Index == ei {
							errV = e
						}
					}
				}
			}
			if errV == nil || !hasRealReferrer(errV) {
				r.fail("R09.2a", "error-dropped|"+key, p.ipos(cs.In), "error result of "+name+" is dropped in the apply region", "a device-side failure is ignored and the run goes on")
				continue
			}
			ok, why := errorEdgeTerminates(fn, cs.In, errV)
			r.add("R09.2a", "error-edge|"+key, p.ipos(cs.In), "error of "+name+" ends the apply phase on its non-nil edge", ok, why)
		}
	}
	r.floor("R09.2a", "error-returning calls in the apply region", n, 8)
}

// errorEdgeTerminates: see R09.2a.
func errorEdgeTerminates(fn *ssa.Function, call ssa.Instruction, errV ssa.Value) (bool, string) {
	// directly returned?
	returned := false
	tested := false
	for _, ref := range *errV.Referrers() {
		if ret, ok := ref.(*ssa.Return); ok {
			_ = ret
			returned = true
		}
	}
	for _, b := range fn.Blocks {
		i := ifOf(b)
		if i == nil {
			continue
		}
		x, nonNilWhenTrue, ok := nilTest(i.Cond)
		if !ok || x != errV {
			continue
		}
		tested = true
		ts := 0
		if !nonNilWhenTrue {
			ts = 1
		}
		// explore from the non-nil successor
		start := b.Succs[ts]
		seen := map[*ssa.BasicBlock]bool{}
		var bad string
		var walk func(bb *ssa.BasicBlock)
		walk = func(bb *ssa.BasicBlock) {
			if seen[bb] || bad != "" {
				return
			}
			seen[bb] = true
			if bb == call.Block() {
				bad = "the failure edge leads back to the sending code (loop continues)"
				return
			}
			if blockAborts(bb) {
				return
			}
			if len(bb.Instrs) > 0 {
				if ret, ok := bb.Instrs[len(bb.Instrs)-1].(*ssa.Return); ok {
					res := fn.Signature.Results()
					if res.Len() > 0 && types.TypeString(res.At(res.Len()-1).Type(), nil) == "error" {
						ev := ret.Results[len(ret.Results)-1]
						if !(ev == errV || errProvablyNonNil(ev, bb, 0) || wrapsErr(ev, errV)) {
							bad = "returns without a non-nil error on the failure edge"
						}
					} else if res.Len() == 1 && types.TypeString(res.At(0).Type(), nil) == "bool" {
						if bv, ok := constBool(ret.Results[0]); !ok || bv {
							bad = "returns true on the failure edge"
						}
					} else {
						bad = "returns normally on the failure edge (the function cannot report the error)"
					}
					return
				}
			}
			for _, s := range bb.Succs {
				walk(s)
			}
		}
		walk(start)
		if bad != "" {
			return false, bad
		}
	}
	if tested || returned {
		return true, ""
	}
	// passed on to a wrapper (fmt.Errorf) whose result is returned/tested? accept if the error value flows into a call
	for _, ref := range *errV.Referrers() {
		if _, ok := ref.(ssa.CallInstruction); ok {
			return true, ""
		}
		if _, ok := ref.(*ssa.MakeInterface); ok {
			return true, ""
		}
		if _, ok := ref.(*ssa.Phi); ok {
			return true, "" // merged with other errors and handled later (e.g. `return body, err`)
		}
		if bo, ok := ref.(*ssa.BinOp); ok {
			if _, _, isNil := nilTest(bo); isNil {
				return true, "" // reported to the caller as a bool (optional poll: TryPrompt)
			}
		}
	}
	return false, "error is neither tested nor returned"
}

func wrapsErr(v, errV ssa.Value) bool {
	call, ok := v.(*ssa.Call)
	if !ok {
		return false
	}
	if f := call.Common().StaticCallee(); f != nil && shortName(f) == "fmt.Errorf" {
		return true
	}
	return false
}

// ruleRecoverSites: recover() is called in errlog.HandleAbort only.
func ruleRecoverSites(p *Prog, r *Report, rule, why string) {
	n := 0
	for _, fn := range allModFuncs(p) {
		for _, cs := range callsOf(fn) {
			if b, ok := cs.In.Common().Value.(*ssa.Builtin); ok && b.Name() == "recover" {
				top := fn
				for top.Parent() != nil {
					top = top.Parent()
				}
				n++
				r.add(rule, "recover-site|"+shortName(fn), p.ipos(cs.In), "recover() only inside errlog.HandleAbort", shortName(top) == "errlog.HandleAbort", why)
			}
		}
	}
	r.floor(rule, "recover sites", n, 1)
}

func ruleSaveLast(p *Prog, m *Model, r *Report) {
	r.rule("R09.2b", "Save/commit sites (console commands with the constant 'write memory'; the PAN-OS query beginning 'type=commit') are plain calls — never deferred or started as goroutine, at any level of the call chain down from ApplyCommands; in ApplyCommands no call that can send to the device is reachable after the call that performs the save; no function of the apply region calls recover(), so an abort in the change loop unwinds past the save; the device's reply to the save decides over success (it is tested and guards errlog.Abort, or every nil-error return of the committing function is control dependent on it).")
	cg := p.CG()
	// no recover in apply region
	nrec := 0
	for _, fn := range applyRegionFuncs(p, m) {
		for _, cs := range callsOf(fn) {
			if b, ok := cs.In.Common().Value.(*ssa.Builtin); ok && b.Name() == "recover" {
				nrec++
				r.fail("R09.2b", "recover|"+shortName(fn), p.ipos(cs.In), "recover() in the apply region", "an abort raised by a failed command can be swallowed and the save still executed")
			}
		}
	}
	if nrec == 0 {
		r.ok("R09.2b", "no-recover-in-apply-region", "", fmt.Sprintf("no recover() in %d apply-region functions", len(applyRegionFuncs(p, m))))
	}
	// the only recover in the module is errlog.HandleAbort's
	ruleRecoverSites(p, r, "R09.2b", "a second recover can turn an abort into a normal continuation")
	// save sites
	type saveSite struct {
		cs   *callSite
		kind string
	}
	var saves []saveSite
	for _, fn := range applyRegionFuncs(p, m) {
		for _, cs := range callsOf(fn) {
			for _, a := range cs.In.Common().Args {
				ctx := &provCtx{p: p, cg: cg, seen: map[ssa.Value]bool{}}
				if !isStringType(a.Type()) {
					continue
				}
				if _, isPar := a.(*ssa.Parameter); isPar {
					continue
				}
				for _, pt := range ctx.eval(a) {
					if len(pt) > 0 && pt[0].Kind == "const" {
						if pt[0].S == "write memory" {
							saves = append(saves, saveSite{cs, "write memory"})
						} else if strings.HasPrefix(pt[0].S, "type=commit") {
							saves = append(saves, saveSite{cs, "commit"})
						}
					}
				}
			}
		}
	}
	r.floor("R09.2b", "save/commit sites", len(saves), 3)
	applies := map[*ssa.Function]bool{}
	for _, f := range m.Methods["ApplyCommands"] {
		applies[unwrap(f)] = true
	}
	for _, sv := range saves {
		fn := sv.cs.Fn
		key := shortName(fn) + "|" + sv.kind
		_, plain := sv.cs.In.(*ssa.Call)
		r.add("R09.2b", "save-plain-call|"+key, p.ipos(sv.cs.In), sv.kind+" is sent by a plain call", plain, "a deferred save runs even while an abort unwinds")
		// reply validated: every normal return of the saving function happens
		// on the positive edge of a test of the device's reply
		okv := false
		why := "reply to the save is not examined"
		{
			var src []ssa.Value
			for _, c2 := range callsOf(fn) {
				if (isConnRead(c2) || c2.calleeName() == sv.cs.calleeName()) && c2.In.Value() != nil {
					src = append(src, c2.In.Value())
				}
			}
			t := taintFrom(fn, src)
			rets := successReturns(fn)
			all := len(rets) > 0
			for _, ret := range rets {
				edges := controllingEdges(ret.Block())
				dep := len(edges) > 0
				for _, e := range edges {
					i := ifOf(e.b)
					k, isPos := positiveEdge(i)
					if !(t[i.Cond] && isPos && k == e.k) {
						dep = false
					}
				}
				if !dep {
					all = false
					why = "a normal return at " + p.ipos(ret) + " is not on the positive edge (== constant / Contains / HasPrefix) of a test of the device's reply: success is assumed without positive confirmation"
				}
			}
			okv = all
		}
		r.add("R09.2b", "save-reply-validated|"+key, p.ipos(sv.cs.In), "the device's reply to "+sv.kind+" decides over success", okv, why)
		// chain up to ApplyCommands: every call level is a plain call, and nothing sends after it
		cur := fn
		for depth := 0; depth < 6; depth++ {
			top := cur
			if applies[top] {
				break
			}
			callers := callersOf(cg, cur)
			if cur.Parent() != nil && len(callers) == 0 {
				break
			}
			advanced := false
			for _, e := range callers {
				if e.Site == nil {
					continue
				}
				_, isCall := e.Site.(*ssa.Call)
				r.add("R09.2b", "save-chain-plain|"+shortName(cur)+"|"+shortName(e.Caller.Func), p.ipos(e.Site),
					shortName(cur)+" (performs "+sv.kind+") is invoked by a plain call from "+shortName(e.Caller.Func), isCall,
					"the save is deferred or asynchronous")
				// nothing that sends is reachable after this call in the caller
				caller := e.Caller.Func
				for _, other := range callsOf(caller) {
					if other.In == e.Site {
						continue
					}
					if !reachesPrimitive(p, cg, caller, other) {
						continue
					}
					if ireach(e.Site, other.In) && !other.Defer {
						r.fail("R09.2b", "send-after-save|"+shortName(caller)+"|"+other.calleeName(), p.ipos(other.In),
							"a call that sends to the device is reachable after the save", "changes after the save are not persisted / save happens before all changes were accepted")
					}
				}
				cur = caller
				advanced = true
				break
			}
			if !advanced {
				break
			}
		}
		// in the function containing the save itself: nothing sends after it
		for _, other := range callsOf(fn) {
			if other.In == sv.cs.In || other.Defer {
				continue
			}
			if reachesPrimitive(p, cg, fn, other) && ireach(sv.cs.In, other.In) {
				// polling of the commit job and the retry loop of write memory re-issue the same callee: allowed
				if other.calleeName() == sv.cs.calleeName() || strings.HasPrefix(other.calleeName(), "(*console.Conn).") && sv.kind == "write memory" {
					continue
				}
				r.fail("R09.2b", "send-after-save|"+shortName(fn)+"|"+other.calleeName(), p.ipos(other.In), "a call that sends to the device is reachable after the save", "")
			}
		}
	}
}

var primReachCache = map[*ssa.Function]bool{}

func reachesPrimitive(p *Prog, cg *callgraph.Graph, fn *ssa.Function, cs *callSite) bool {
	prim := map[string]bool{}
	for _, pr := range primitives {
		prim[pr.Name] = true
	}
	if prim[cs.calleeName()] {
		return true
	}
	var callees []*ssa.Function
	if n := cg.Nodes[fn]; n != nil {
		for _, e := range n.Out {
			if e.Site == cs.In {
				callees = append(callees, e.Callee.Func)
			}
		}
	}
	for _, c := range callees {
		if !isModFunc(c) {
			continue
		}
		v, ok := primReachCache[c]
		if !ok {
			v = false
			for f := range reachFrom(cg, []*ssa.Function{c}, func(e *callgraph.Edge) bool { return !isModFunc(e.Callee.Func) && !prim[shortName(e.Callee.Func)] }) {
				if prim[shortName(f)] {
					v = true
				}
			}
			primReachCache[c] = v
		}
		if v {
			return true
		}
	}
	return false
}

// ---- R09.3: error discipline in session packages ----

func ruleErrorDiscipline(p *Prog, r *Report, rule string, pkgs map[string]bool, fileSuffix string) {
	ex := errExempt()
	used := map[string]bool{}
	n := 0
	total := 0
	for _, d := range droppedErrors(p) {
		fn := d.Site.Fn
		if !pkgs[pkgOfFunc(fn)] {
			continue
		}
		if fileSuffix != "" && !strings.HasSuffix(p.Fset.Position(d.Site.In.Pos()).Filename, fileSuffix) {
			// the merge code is what MergeSpoc reaches in its package, whatever file it stands in
			if fileSuffix != "config.go" || !mergeReach(p)[rootOf(fn)] {
				continue
			}
		}
		name := d.Site.calleeName()
		total++
		if strings.HasPrefix(name, "fmt.Print") || strings.HasPrefix(name, "fmt.Fprint") {
			continue
		}
		n++
		key := shortName(fn) + "|" + name
		reason, ok := ex[key]
		used[key] = true
		// a row for a function covers its closures (`defer func() { f.Close() }()`)
		for par := fn.Parent(); par != nil && !ok; par = par.Parent() {
			pk := shortName(par) + "|" + name
			if reason, ok = ex[pk]; ok {
				used[pk] = true
			}
		}
		r.add(rule, "dropped-error|"+key, p.ipos(d.Site.In), "error of "+name+" not looked at ("+d.How+"): "+reason, ok,
			"an error is silently dropped; it is not in tables/err_exempt.tsv")
	}
	r.note("%s: %d dropped errors in scope (%d outside the fmt print family)", rule, total, n)
}

// ---- R09.4 ----

func ruleAbortMachinery(p *Prog, r *Report) {
	r.rule("R09.4", "errlog.Abort prints and then panics with the bailout value on every path; errlog.HandleAbort's deferred function sets the exit code to 1 for a bailout and re-panics for anything else; device.ApproveOrCompare's closure aborts when the session returned an error (the non-nil edge of the error test reaches errlog.Abort) and returns 0 only otherwise. Together with R13.5/R13.2 (status, history and exit status derive from that result).")
	ab := p.Fn("errlog.Abort")
	if ab == nil {
		r.fail("R09.4", "anchor|errlog.Abort", "", "not found", "")
	} else {
		ok := len(returnsOf(ab)) == 0
		hasPanic := false
		for _, b := range ab.Blocks {
			for _, in := range b.Instrs {
				if _, isP := in.(*ssa.Panic); isP {
					hasPanic = true
				}
			}
		}
		r.add("R09.4", "abort-never-returns", p.pos(ab.Pos()), "errlog.Abort has no return: every path ends in panic", ok && hasPanic, "Abort can return: callers continue after a fatal error")
	}
	ha := p.Fn("errlog.HandleAbort")
	if ha == nil || len(ha.AnonFuncs) == 0 {
		r.fail("R09.4", "anchor|errlog.HandleAbort", "", "not found or no deferred closure", "")
	} else {
		cl := ha.AnonFuncs[0]
		repanic, setsOne := false, false
		for _, b := range cl.Blocks {
			for _, in := range b.Instrs {
				if _, ok := in.(*ssa.Panic); ok {
					repanic = true
				}
				if st, ok := in.(*ssa.Store); ok {
					if k, ok := constInt(st.Val); ok && k != 0 {
						setsOne = true
					}
				}
			}
		}
		deferred := false
		for _, cs := range callsOf(ha) {
			if cs.Defer && cs.Static == cl {
				deferred = true
			}
		}
		r.add("R09.4", "handleabort-shape", p.pos(ha.Pos()), "HandleAbort: deferred recover sets a non-zero exit code for a bailout and re-panics otherwise", repanic && setsOne && deferred,
			"a runtime panic would be reported as a clean failure, or a bailout as success")
	}
	// ApproveOrCompare closure
	aoc := p.Fn("device.ApproveOrCompare")
	if aoc == nil {
		r.fail("R09.4", "anchor|device.ApproveOrCompare", "", "not found", "")
		return
	}
	var fns []*ssa.Function
	fns = append(fns, aoc)
	fns = append(fns, aoc.AnonFuncs...)
	ok := false
	for _, fn := range fns {
		for _, b := range fn.Blocks {
			i := ifOf(b)
			if i == nil {
				continue
			}
			x, nonNil, isT := nilTest(i.Cond)
			if !isT || types.TypeString(x.Type(), nil) != "error" {
				continue
			}
			// x comes from approve/compare results
			from := false
			for _, rt := range valueRoots(x) {
				if c, isC := rt.(*ssa.Call); isC && c.Common().StaticCallee() != nil {
					n := shortName(c.Common().StaticCallee())
					if n == "(*device.state).approve" || n == "(*device.state).compare" {
						from = true
					}
				}
			}
			if !from {
				continue
			}
			ts := 0
			if !nonNil {
				ts = 1
			}
			if blockAborts(b.Succs[ts]) {
				ok = true
			}
		}
	}
	r.add("R09.4", "session-error-aborts|device.ApproveOrCompare", p.pos(aoc.Pos()), "an error returned by approve/compare reaches errlog.Abort (exit status 1)", ok,
		"a failed session ends with exit status 0")
}

// ---- R09.5 finite waits ----

func ruleFiniteWaits(p *Prog, r *Report) {
	r.rule("R09.5", "Every (*GExpect).Expect call takes its timeout from Conn.Timeout / Conn.ShortTimeout (set from Config.Timeout / Config.LoginTimeout) or the constant 0 (non-blocking poll); the ssh process is spawned with such a timeout; the http.Client literal sets Timeout from Config.Timeout and the dialer from Config.LoginTimeout. So a device that stops answering ends the run by time-out (which aborts).")
	n := 0
	okField := func(v ssa.Value) (bool, string) {
		cg := p.CG()
		ctx := &provCtx{p: p, cg: cg, seen: map[ssa.Value]bool{}}
		_ = ctx
		var desc []string
		ok := true
		var walk func(v ssa.Value, d int)
		seen := map[ssa.Value]bool{}
		walk = func(v ssa.Value, d int) {
			if seen[v] || d > 8 {
				return
			}
			seen[v] = true
			for _, rt := range valueRoots(v) {
				switch x := rt.(type) {
				case *ssa.Const:
					desc = append(desc, "const "+x.String())
					if d == 0 {
						// a literal timeout: only 0 (poll) or negative (goexpect: the spawn default) are finite by construction
						if k, isInt := constInt(x); !isInt || k > 0 {
							ok = false
						}
					}
				case *ssa.UnOp:
					if fa, isF := x.X.(*ssa.FieldAddr); isF && x.Op == token.MUL {
						fnm := fieldName(fa)
						desc = append(desc, fnm)
						switch fnm {
						case "console.Conn.Timeout", "console.Conn.ShortTimeout", "program.Config.Timeout", "program.Config.LoginTimeout":
						default:
							ok = false
						}
					} else {
						ok = false
					}
				case *ssa.Parameter:
					// follow to callers
					fn := x.Parent()
					idx := -1
					for i, q := range fn.Params {
						if q == x {
							idx = i
						}
					}
					nd := cg.Nodes[fn]
					if nd == nil || len(nd.In) == 0 {
						ok = false
						return
					}
					for _, e := range nd.In {
						if e.Site == nil || e.Site.Common().IsInvoke() {
							ok = false
							continue
						}
						walk(e.Site.Common().Args[idx], d+1)
					}
				case *ssa.BinOp:
					walk(x.X, d+1)
					walk(x.Y, d+1)
				case *ssa.Convert:
					walk(x.X, d+1)
				default:
					ok = false
					desc = append(desc, fmt.Sprintf("%T", rt))
				}
			}
		}
		walk(v, 0)
		return ok && len(desc) > 0, strings.Join(desc, ", ")
	}
	for _, fn := range allModFuncs(p) {
		for _, cs := range callsOf(fn) {
			switch cs.calleeName() {
			case "(*github.com/tailscale/goexpect.GExpect).Expect":
				n++
				ok, d := okField(cs.In.Common().Args[2])
				r.add("R09.5", "expect-timeout|"+shortName(fn), p.ipos(cs.In), "Expect timeout derives from: "+d, ok, "a wait without the configured time-out can hang forever")
			case "github.com/tailscale/goexpect.SpawnWithArgs":
				n++
				ok, d := okField(cs.In.Common().Args[1])
				r.add("R09.5", "spawn-timeout|"+shortName(fn), p.ipos(cs.In), "spawn timeout derives from: "+d, ok, "")
			}
		}
	}
	// http.Client literal
	if fn := p.Fn("httpdevice.GetHTTPClient"); fn != nil {
		found := map[string]bool{}
		for _, b := range fn.Blocks {
			for _, in := range b.Instrs {
				st, ok := in.(*ssa.Store)
				if !ok {
					continue
				}
				fa, ok := st.Addr.(*ssa.FieldAddr)
				if !ok {
					continue
				}
				switch fieldName(fa) {
				case "net/http.Client.Timeout", "net.Dialer.Timeout":
					ok2, d := okField(st.Val)
					n++
					found[fieldName(fa)] = true
					r.add("R09.5", "http-timeout|"+fieldName(fa), p.ipos(st), fieldName(fa)+" derives from: "+d, ok2, "HTTP requests without time-out can hang forever")
				}
			}
		}
		r.add("R09.5", "http-client-timeout-set", p.pos(fn.Pos()), "http.Client.Timeout is set in GetHTTPClient", found["net/http.Client.Timeout"], "no overall request time-out")
	} else {
		r.fail("R09.5", "anchor|httpdevice.GetHTTPClient", "", "not found", "")
	}
	// stores to Conn.Timeout / ShortTimeout come from the configuration
	for _, fn := range allModFuncs(p) {
		for _, b := range fn.Blocks {
			for _, in := range b.Instrs {
				st, ok := in.(*ssa.Store)
				if !ok {
					continue
				}
				fa, ok := st.Addr.(*ssa.FieldAddr)
				if !ok {
					continue
				}
				if fnm := fieldName(fa); fnm == "console.Conn.Timeout" || fnm == "console.Conn.ShortTimeout" {
					ok2, d := okField(st.Val)
					n++
					r.add("R09.5", "conn-timeout-set|"+fnm, p.ipos(st), fnm+" is set from: "+d, ok2 && strings.Contains(d, "program.Config."), "")
				}
			}
		}
	}
	r.floor("R09.5", "timeout sites", n, 7)
}

var sessionPkgs = map[string]bool{"device": true, "asa": true, "ios": true, "cisco": true, "linux": true, "nsx": true, "panos": true,
	"httpdevice": true, "console": true, "doapprove": true, "status": true, "errlog": true, "drc": true, "codefiles": true, "program": true}

func checkC09(p *Prog, r *Report) {
	ruleSharedErrorInGoroutines(p, r, "R09.12")
	ruleNoRetryOnFailure(p, r, "R09.14", map[string]bool{"panos": true, "nsx": true, "httpdevice": true})
	ruleDeviceReadsAudited(p, r, "R09.15")
	ruleLinuxStartupRoutingLast(p, r, "R09.13")
	ruleRegexpConsts(p, r, "R-RX", "C09", 1)
	m, err := p.model()
	if err != nil {
		r.fail("model", "model", "", err.Error(), "")
		return
	}
	ruleOutputValidated(p, m, r, "")
	ruleConsoleTypestate(p, r, "R15.10", map[string]bool{"ios": true, "asa": true, "cisco": true, "linux": true}, 30)
	ruleErrorEdges(p, m, r)
	ruleSaveLast(p, m, r)
	r.rule("R09.3", "Error discipline (E6) in the session packages: every call whose result contains an error has that result looked at (tested, returned, wrapped, passed on), or the call is listed with a reason in tables/err_exempt.tsv; the fmt print family is exempt as a class.")
	ruleErrorDiscipline(p, r, "R09.3", sessionPkgs, "")
	ruleAbortMachinery(p, r)
	ruleHTTPStatus(p, r)
	ruleValidatorsExamineAllLines(p, r)
	ruleEchoIsPrefix(p, r)
	ruleDeferredErrorPreserved(p, r, sessionPkgs)
	r.rule("R09.9", "The rejecting return of the output validators (asa/ios isValidOutput) keeps its audited controlling conditions (tables/guards.tsv rows for C09): a non-empty line is rejected unless it is an INFO: or WARNING: line (ASA: or expected output of that command kind); a further class of lines that is waved through changes these conditions.")
	ruleGuardTable(p, r, "R09.9", "C09")
	ruleShortCircuitSkips(p, r, sessionPkgs, newSummarizer(p))
	ruleStatusAfterSession(p, r, "R13.2")
	ruleTruthfulStatus(p, r, "R13.5")
	ruleFiniteWaits(p, r)
	r.Trusted = []string{"go/ssa, VTA call graph", "goexpect returns an error from Expect on time-out/EOF", "panic unwinding runs deferred calls and skips the rest of the function"}
	r.NotDec = "that a fault at the k-th of n commands behaves like the canned one (same code path by the loop rules, but no transcript is simulated); device timing; runtime panics on malformed device output (see C20 notes)"
}

// positiveEdge: for an If whose condition is a positive match of a value
// against a constant (x == const, strings.Contains/HasPrefix/HasSuffix(x,
// const), regexp match), the successor index taken when the match holds.
func positiveEdge(i *ssa.If) (int, bool) {
	c, neg := stripNot(i.Cond)
	pos := -1
	if _, contained, ok := indexAsContains(c); ok {
		pos = 1
		if contained {
			pos = 0
		}
		if neg {
			pos = 1 - pos
		}
		return pos, true
	}
	switch x := c.(type) {
	case *ssa.BinOp:
		_, cy := x.Y.(*ssa.Const)
		_, cx := x.X.(*ssa.Const)
		if !(cx || cy) {
			return 0, false
		}
		switch x.Op {
		case token.EQL:
			pos = 0
		case token.NEQ:
			pos = 1
		default:
			return 0, false
		}
	case *ssa.Call:
		if f := x.Common().StaticCallee(); f != nil {
			switch shortName(f) {
			case "strings.Contains", "strings.HasPrefix", "strings.HasSuffix", "(*regexp.Regexp).MatchString", "bytes.Contains":
				pos = 0
			}
		}
	}
	if pos < 0 {
		return 0, false
	}
	if neg {
		pos = 1 - pos
	}
	return pos, true
}

type cfgEdge struct {
	b *ssa.BasicBlock
	k int
}

// controllingEdges: the conditional edges through which control reaches block
// x most immediately: walk back over unconditional jumps (ignoring aborting
// predecessors) until If blocks are met.
func controllingEdges(x *ssa.BasicBlock) []cfgEdge {
	var out []cfgEdge
	seen := map[*ssa.BasicBlock]bool{}
	var walk func(b *ssa.BasicBlock)
	walk = func(b *ssa.BasicBlock) {
		if seen[b] {
			return
		}
		seen[b] = true
		for _, p := range b.Preds {
			if blockAborts(p) {
				continue
			}
			if ifOf(p) != nil {
				for k, s := range p.Succs {
					if s == b {
						out = append(out, cfgEdge{p, k})
					}
				}
				continue
			}
			walk(p)
		}
	}
	walk(x)
	return out
}

// ruleHTTPStatus: R09.6 / R09.7.
func ruleHTTPStatus(p *Prog, r *Report) {
	r.rule("R09.6", "HTTP devices: every module function that performs a request ((*http.Client).Get/Do/PostForm) compares the StatusCode of the response with http.StatusOK and every return reachable over the mismatch edge carries a non-nil error (so an HTTP error status stops the run, whatever the body looks like).")
	r.rule("R09.7", "PAN-OS: parseResponse returns a non-nil error unless the status attribute of the reply equals \"success\"; every reply to a change command passes through it (doCmd), so a command the device rejects is an error.")
	n := 0
	for _, fn := range allModFuncs(p) {
		var reqs []*callSite
		for _, cs := range callsOf(fn) {
			switch cs.calleeName() {
			case "(*net/http.Client).Get", "(*net/http.Client).Do", "(*net/http.Client).PostForm", "(*net/http.Client).Post":
				reqs = append(reqs, cs)
			}
		}
		if len(reqs) == 0 {
			continue
		}
		n++
		ok := false
		for _, b := range fn.Blocks {
			i := ifOf(b)
			if i == nil {
				continue
			}
			c, neg := stripNot(i.Cond)
			bo, isB := c.(*ssa.BinOp)
			if !isB || (bo.Op != token.NEQ && bo.Op != token.EQL) {
				continue
			}
			k, isC := constInt(bo.Y)
			if !isC || k != 200 {
				continue
			}
			fp := loadedFieldPath(bo.X)
			if len(fp) == 0 || fp[len(fp)-1] != "StatusCode" {
				continue
			}
			badSucc := 0
			if bo.Op == token.EQL {
				badSucc = 1
			}
			if neg {
				badSucc = 1 - badSucc
			}
			// every return that can be reached over the mismatch edge carries a non-nil
			// error (reachability, not dominance: `status != 200 && len(body) != 0`
			// lets an error status with an empty body fall through to the success return)
			good := true
			found := false
			reach := map[*ssa.BasicBlock]bool{}
			var walk func(x *ssa.BasicBlock)
			walk = func(x *ssa.BasicBlock) {
				if reach[x] {
					return
				}
				reach[x] = true
				if blockAborts(x) {
					return
				}
				for _, sx := range x.Succs {
					walk(sx)
				}
			}
			walk(b.Succs[badSucc])
			for _, ret := range returnsOf(fn) {
				if reach[ret.Block()] {
					found = true
					if !errProvablyNonNil(ret.Results[len(ret.Results)-1], ret.Block(), 0) {
						good = false
					}
				}
			}
			if found && good {
				ok = true
			}
		}
		r.add("R09.6", "http-status-checked|"+shortName(fn), p.ipos(reqs[0].In), "the HTTP status code of the reply is compared with 200 and a mismatch is returned as error", ok,
			"an HTTP error status (4xx/5xx) is taken as success: the run goes on and may commit")
	}
	r.floor("R09.6", "functions performing HTTP requests", n, 3)
	pr := p.Fn("panos.parseResponse")
	if pr == nil {
		r.fail("R09.7", "anchor|panos.parseResponse", "", "not found", "")
		return
	}
	ok := false
	for _, b := range pr.Blocks {
		i := ifOf(b)
		if i == nil {
			continue
		}
		c, neg := stripNot(i.Cond)
		bo, isB := c.(*ssa.BinOp)
		if !isB || (bo.Op != token.NEQ && bo.Op != token.EQL) {
			continue
		}
		sv, isC := constString(bo.Y)
		if !isC || sv != "success" {
			continue
		}
		fp := loadedFieldPath(bo.X)
		if len(fp) == 0 || fp[len(fp)-1] != "Status" {
			continue
		}
		badSucc := 0
		if bo.Op == token.EQL {
			badSucc = 1
		}
		if neg {
			badSucc = 1 - badSucc
		}
		for _, ret := range returnsOf(pr) {
			if edgeDominates(b, badSucc, ret.Block()) && errProvablyNonNil(ret.Results[len(ret.Results)-1], ret.Block(), 0) {
				ok = true
			}
		}
		// and success returns only on the other edge
		for _, ret := range successReturns(pr) {
			if !edgeDominates(b, 1-badSucc, ret.Block()) {
				ok = false
			}
		}
	}
	r.add("R09.7", "panos-status-success|panos.parseResponse", p.pos(pr.Pos()), "a reply whose status is not \"success\" is an error; nil error only on the success edge", ok,
		"a command rejected by PAN-OS (status=error) is taken as accepted")
	// every reply in ApplyCommands goes through parseResponse
	ac := p.Fn("(*panos.State).ApplyCommands")
	if ac != nil {
		through := false
		for _, cl := range ac.AnonFuncs {
			if len(callsTo(cl, "panos.parseResponse")) > 0 && len(callsTo(cl, "(*panos.State).httpPrefixGetLog")) > 0 {
				// the closure's success return is the parse result
				through = true
			}
		}
		r.add("R09.7", "replies-parsed|(*panos.State).ApplyCommands", p.pos(ac.Pos()), "the command helper of ApplyCommands parses every reply with parseResponse", through, "replies to change commands are not examined")
	}
}

// ruleValidatorsExamineAllLines: R09.8.
func ruleValidatorsExamineAllLines(p *Prog, r *Report) {
	r.rule("R09.8", "Output validators (the bool functions whose verdict decides over the abort in the console `cmd` helpers: asa/ios isValidOutput) accept only after every line was looked at: each `return true` lies behind the loop over the lines of the output (it is dominated by the loop header and is not inside the loop body), and the loop contains a `return false`. So an expected warning on one line cannot mask an error on another.")
	n := 0
	for _, fn := range allModFuncs(p) {
		if fn.Parent() != nil || fn.Signature.Results().Len() != 1 || types.TypeString(fn.Signature.Results().At(0).Type(), nil) != "bool" {
			continue
		}
		// is its verdict used to guard an abort on device output?
		used := false
		for _, e := range callersOf(p.CG(), fn) {
			if e.Site == nil || e.Site.Value() == nil {
				continue
			}
			caller := e.Caller.Func
			for _, b := range caller.Blocks {
				if i := ifOf(b); i != nil {
					c, _ := stripNot(i.Cond)
					if c == e.Site.Value() && (guardsAbort(i) || (caller.Signature.Results().Len() > 0 && len(returnsOf(caller)) > 1)) {
						// (second form: the caller hands the verdict on as its result)
						// and an argument derives from the connection's output
						var src []ssa.Value
						for _, cs := range callsOf(caller) {
							if isConnRead(cs) && cs.In.Value() != nil {
								src = append(src, cs.In.Value())
							}
						}
						t := taintFrom(caller, src)
						for _, a := range e.Site.Common().Args {
							if t[a] {
								used = true
							}
						}
					}
				}
			}
		}
		if !used {
			continue
		}
		n++
		// the loop over the lines of the output: `for ... range strings.Split(<output param>, ...)`
		var header *ssa.BasicBlock
		for _, cs := range callsOf(fn) {
			if cs.calleeName() != "strings.Split" && cs.calleeName() != "strings.Fields" && cs.calleeName() != "strings.SplitSeq" {
				continue
			}
			fromParam := false
			for _, rt := range valueRoots(cs.In.Common().Args[0]) {
				if _, ok := rt.(*ssa.Parameter); ok {
					fromParam = true
				}
			}
			if !fromParam || cs.In.Value() == nil {
				continue
			}
			split := cs.In.Value()
			for _, hb := range fn.Blocks {
				i := ifOf(hb)
				if i == nil || naturalLoopBody(hb) == nil {
					continue
				}
				bo, ok := i.Cond.(*ssa.BinOp)
				if !ok || bo.Op != token.LSS {
					continue
				}
				if lc, ok := bo.Y.(*ssa.Call); ok {
					if bi, ok := lc.Common().Value.(*ssa.Builtin); ok && bi.Name() == "len" && lc.Common().Args[0] == split {
						header = hb
					}
				}
			}
		}
		if header == nil {
			r.fail("R09.8", "validator-loop|"+shortName(fn), p.pos(fn.Pos()), "validator has no loop over the output lines with a rejecting return", "")
			continue
		}
		body := naturalLoopBody(header)
		ok := true
		for _, ret := range returnsOf(fn) {
			v, isC := constBool(ret.Results[0])
			if !isC || !v {
				continue
			}
			if !header.Dominates(ret.Block()) || (body[ret.Block()] && ret.Block() != header) {
				ok = false
			}
		}
		r.add("R09.8", "accept-after-all-lines|"+shortName(fn), p.pos(fn.Pos()), "every `return true` of "+shortName(fn)+" comes after the loop over all output lines", ok,
			"the validator can accept the output before every line was examined: an error line next to an expected warning is missed")
	}
	r.floor("R09.8", "output validators", n, 2)
}

// ruleEchoIsPrefix: R09.10.
func ruleEchoIsPrefix(p *Prog, r *Report) {
	r.rule("R09.10", "The echo check is a prefix check: in (*console.Conn).StripEcho the abort is controlled by a test that the response STARTS with the command's echo (s[:len(cmd)] != cmd together with the length test, !strings.HasPrefix(s, cmd), or the found-flag of strings.CutPrefix), not by a search for the echo anywhere in the response (strings.Cut / Contains / Index): text the device printed in front of the echo — an error message belonging to the previous command — must not be discarded silently.")
	fn := p.Fn("(*console.Conn).StripEcho")
	if fn == nil {
		r.fail("R09.10", "anchor|StripEcho", "", "not found", "")
		return
	}
	isPrefixTest := func(cond ssa.Value) bool {
		c, _ := stripNot(cond)
		switch x := c.(type) {
		case *ssa.BinOp:
			if x.Op != token.NEQ && x.Op != token.EQL {
				return false
			}
			for _, side := range []ssa.Value{x.X, x.Y} {
				if sl, ok := side.(*ssa.Slice); ok && sl.Low == nil && sl.High != nil {
					if _, isPar := sl.X.(*ssa.Parameter); isPar {
						return true
					}
				}
			}
		case *ssa.Call:
			if f := x.Common().StaticCallee(); f != nil && shortName(f) == "strings.HasPrefix" {
				_, isPar := x.Common().Args[0].(*ssa.Parameter)
				return isPar
			}
		case *ssa.Extract:
			if call, ok := x.Tuple.(*ssa.Call); ok && x.Index == 1 {
				if f := call.Common().StaticCallee(); f != nil && shortName(f) == "strings.CutPrefix" {
					return true
				}
			}
		}
		return false
	}
	okAbort, other := false, ""
	for _, b := range fn.Blocks {
		i := ifOf(b)
		if i == nil || !guardsAbort(i) {
			continue
		}
		if isPrefixTest(i.Cond) {
			okAbort = true
		} else {
			c, _ := stripNot(i.Cond)
			if bo, isB := c.(*ssa.BinOp); isB && (bo.Op == token.LSS || bo.Op == token.GTR || bo.Op == token.LEQ || bo.Op == token.GEQ) {
				continue // length test that protects the slice expression
			}
			other = "the abort depends on " + descValue(i.Cond, 0)
		}
	}
	r.add("R09.10", "echo-prefix-test|(*console.Conn).StripEcho", p.pos(fn.Pos()), "the response must start with the echo of the command", okAbort && other == "",
		"output printed before the echo is thrown away instead of being reported: an error message of the device is lost and the run goes on. "+other)
}

// ruleDeferredErrorPreserved: R09.11.
func ruleDeferredErrorPreserved(p *Prog, r *Report, pkgs map[string]bool) {
	r.rule("R09.11", "A deferred closure never erases a pending error: where a deferred function literal assigns the enclosing function's named error result, the assigned value is provably non-nil, or the assignment is controlled by the result being nil so far, or it is the result of a helper each of whose returns is provably non-nil or is the error it was given (its parameter). A helper that returns nil on some path while it was handed the pending error (`if fh == nil { return nil }`) makes the failure of the device check or of a change command disappear: the run goes on.")
	n := 0
	for _, fn := range allModFuncs(p) {
		if fn.Parent() == nil || !pkgs[pkgOfFunc(fn)] {
			continue
		}
		// is fn deferred in its parent?
		deferred := false
		for _, b := range fn.Parent().Blocks {
			for _, in := range b.Instrs {
				if d, ok := in.(*ssa.Defer); ok {
					if mc, ok := d.Common().Value.(*ssa.MakeClosure); ok && mc.Fn == ssa.Value(fn) {
						deferred = true
					}
				}
			}
		}
		if !deferred {
			continue
		}
		for _, b := range fn.Blocks {
			for _, in := range b.Instrs {
				st, ok := in.(*ssa.Store)
				if !ok {
					continue
				}
				fv, ok := st.Addr.(*ssa.FreeVar)
				if !ok || types.TypeString(fv.Type().Underlying().(*types.Pointer).Elem(), nil) != "error" {
					continue
				}
				// bound to a named result of the parent
				isResult := false
				for _, bd := range freeVarBindings(fv) {
					if al, ok := bd.(*ssa.Alloc); ok {
						res := al.Parent().Signature.Results()
						for i := 0; i < res.Len(); i++ {
							if res.At(i).Name() != "" && res.At(i).Name() == al.Comment {
								isResult = true
							}
						}
					}
				}
				if !isResult {
					continue
				}
				n++
				ok2, why := false, ""
				if errProvablyNonNil(st.Val, st.Block(), 0) {
					ok2 = true
				}
				// only when no error so far
				for _, g := range guardSet(st) {
					if strings.HasPrefix(g, "nil == ") && strings.Contains(g, "error") || strings.HasSuffix(g, " == nil") && strings.Contains(g, "error") {
						ok2 = true
					}
				}
				if !ok2 {
					if call, isCall := st.Val.(*ssa.Call); isCall {
						if h := call.Common().StaticCallee(); h != nil && isModFunc(h) {
							// which parameter receives the pending error?
							pidx := -1
							for i, a := range call.Common().Args {
								if u, ok := a.(*ssa.UnOp); ok && u.X == ssa.Value(fv) {
									pidx = i
								}
							}
							all := pidx >= 0
							for _, ret := range returnsOf(h) {
								rv := ret.Results[len(ret.Results)-1]
								if errProvablyNonNil(rv, ret.Block(), 0) {
									continue
								}
								isParam := false
								for _, rt := range valueRoots(rv) {
									if pa, ok := rt.(*ssa.Parameter); ok && pidx >= 0 && pidx < len(h.Params) && pa == h.Params[pidx] {
										isParam = true
									} else if !errProvablyNonNil(rt, ret.Block(), 0) {
										isParam = false
										why = "helper " + shortName(h) + " can return " + descValue(rt, 0) + " at " + p.ipos(ret)
										break
									}
								}
								if !isParam {
									all = false
									if why == "" {
										why = "helper " + shortName(h) + " has a return at " + p.ipos(ret) + " that is neither its error parameter nor non-nil"
									}
								}
							}
							ok2 = all
						}
					}
				}
				r.add("R09.11", "deferred-error-preserved|"+fnDisplay(fn), p.ipos(st), "the deferred assignment to the error result keeps a pending error", ok2,
					"a pending error can be replaced by nil in a deferred closure: "+why)
			}
		}
	}
	r.note("R09.11: %d deferred assignments to named error results", n)
}

var mergeReachCache map[*ssa.Function]bool

// mergeReach: the top-level functions of a package that its MergeSpoc method reaches
// through calls inside the package.
func mergeReach(p *Prog) map[*ssa.Function]bool {
	if mergeReachCache != nil {
		return mergeReachCache
	}
	out := map[*ssa.Function]bool{}
	var visit func(f *ssa.Function, pkg string)
	visit = func(f *ssa.Function, pkg string) {
		f = rootOf(f)
		if out[f] || pkgOfFunc(f) != pkg || len(f.Blocks) == 0 {
			return
		}
		out[f] = true
		var all []*ssa.Function
		var collect func(g *ssa.Function)
		collect = func(g *ssa.Function) {
			all = append(all, g)
			for _, a := range g.AnonFuncs {
				collect(a)
			}
		}
		collect(f)
		for _, g := range all {
			for _, cs := range callsOf(g) {
				for _, cal := range calleesOfSite(p, cs) {
					visit(cal, pkg)
				}
			}
		}
	}
	for _, f := range allModFuncs(p) {
		if f.Name() == "MergeSpoc" && f.Parent() == nil {
			visit(f, pkgOfFunc(f))
		}
	}
	mergeReachCache = out
	return out
}
