package main

// C10: structural necessary conditions of "an interrupted approve can be resumed".
// A second approve sees a device that holds part of the first run's changes: objects with
// generated names that nothing references yet, rules that already name new groups.  The
// property's mechanisms: every decision is recomputed from the device's current state,
// left-over generated objects are reused or removed, the candidate configuration is read,
// fresh names avoid the names on the device.

import (
	"fmt"
	"sort"
	"strings"

	"golang.org/x/tools/go/ssa"
)

func init() {
	register("C10", "other", true, checkC10)
}

func checkC10(p *Prog, r *Report) {
	m, err := p.model()
	if err != nil {
		r.fail("model", "model", "", err.Error(), "")
		return
	}
	// R10.1: the planners read nothing but the two configurations
	r.rule("R10.1", "Every decision is recomputed from the two configurations in front of the planner: no function reachable from T.GetChanges (VTA call graph, every device type) reads a file, a directory, the environment or the status/history of an earlier run (os.Open, os.ReadFile, os.ReadDir, os.Stat, os.Getenv, os.LookupEnv, status.Read). A planner that remembers what an earlier, interrupted run did cannot be correct for a device that was changed in between.")
	cg := p.CG()
	forbidden := map[string]bool{"os.Open": true, "os.OpenFile": true, "os.ReadFile": true, "os.ReadDir": true, "os.Stat": true, "os.Lstat": true,
		"os.Getenv": true, "os.LookupEnv": true, "status.Read": true, "os.Readlink": true, "path/filepath.Glob": true}
	nT := 0
	for _, t := range m.Impls {
		gc := m.implMethod(t, "GetChanges")
		if gc == nil {
			continue
		}
		nT++
		seen := map[*ssa.Function]bool{}
		var bad []string
		var walk func(f *ssa.Function)
		walk = func(f *ssa.Function) {
			if seen[f] {
				return
			}
			seen[f] = true
			n := cg.Nodes[f]
			if n == nil {
				return
			}
			for _, e := range n.Out {
				c := e.Callee.Func
				if forbidden[shortName(c)] {
					bad = append(bad, shortName(f)+" -> "+shortName(c)+" at "+p.ipos(e.Site))
					continue
				}
				if isModFunc(c) {
					walk(c)
				}
			}
		}
		walk(gc)
		sort.Strings(bad)
		r.add("R10.1", "planner-reads-configs-only|"+typeShort(t), p.pos(gc.Pos()), fmt.Sprintf("%d functions reachable from %s.GetChanges read no file, environment or earlier status", len(seen), typeShort(t)), len(bad) == 0,
			"the planner consults state outside the two configurations: "+strings.Join(bad, "; "))
	}
	r.floor("R10.1", "device types with a planner", nT, 5)

	// R10.2: PAN-OS reads the candidate configuration
	r.rule("R10.2", "PAN-OS: the configuration the planner compares is the candidate configuration (request `type=config&action=get`), so set/edit/delete commands of an interrupted run that were not committed are seen by the next run; `action=show` would return the running configuration without them.")
	nReq := 0
	for _, fn := range allModFuncs(p) {
		if pkgOfFunc(fn) != "panos" {
			continue
		}
		for _, b := range fn.Blocks {
			for _, in := range b.Instrs {
				for _, op := range in.Operands(nil) {
					if op == nil || *op == nil {
						continue
					}
					if s, ok := constString(*op); ok && strings.Contains(s, "type=config") && strings.Contains(s, "xpath=/config/devices") && !strings.Contains(s, "action=set") {
						nReq++
						r.add("R10.2", "candidate-config|"+shortName(fn), p.ipos(in), "the device configuration is requested with "+s, strings.Contains(s, "action=get"),
							"the request does not read the candidate configuration: uncommitted changes of an interrupted run are invisible to the next run")
					}
				}
			}
		}
	}
	r.floor("R10.2", "PAN-OS configuration requests", nReq, 1)

	r.rule("R10.3", "Left-overs are reused, avoided or removed under the audited conditions (tables/guards.tsv rows listing C10): fresh names and ids are tested against the names on the DEVICE (genUniqRuleNames / genUniqGroupNames of PAN-OS and NSX, generateNamesForTransfer.setName of Cisco); an identical group found on the device is taken over only if not already needed (findGroupOnDevice, equalizedGroups, adaptGroup); deletion candidates are the objects that are not needed and carry a generated name or are marked toDelete (deleteUnused and its protecting walk).")
	ruleGuardTable(p, r, "R10.3", "C10")
	ruleLookupsAudited(p, r, "R10.4", "C10", 20)
	ruleSaveScope(p, m, r, "R10.5")
	{
		all := map[string]bool{"cisco": true, "asa": true, "ios": true, "panos": true, "nsx": true, "linux": true}
		// a resumed run plans from what it reads now: no early exit, cache or reused buffer that the audited planner does not have
		ruleExitsAudited(p, r, "R-X", "C10", all, 20)
		ruleMemo(p, r, "R-MEMO", "C10", all, 12)
		ruleBufferReuse(p, r, "R-REUSE", all)
	}
	r.rule("R-M", "Mark discipline: the marks needed / nameOnDevice (PAN-OS, NSX) and needed / ready / toDelete (Cisco) decide which left-over object is taken over and which is removed at the end; every store into them lies at an audited site with audited conditions (rows listing C10, compared by R10.3). A left-over object that is reused without being marked needed is deleted by the clean-up of the same run.")
	ruleMarkDiscipline(p, r, "R-M", "C10", "panos", []string{".needed", ".nameOnDevice"}, 14)
	ruleMarkDiscipline(p, r, "R-M", "C10", "nsx", []string{".needed", ".nameOnDevice"}, 6)
	ruleMarkDiscipline(p, r, "R-M", "C10", "cisco", []string{"cmd.needed", "cmd.ready", "cmd.toDelete"}, 18)
	ruleMustCalls(p, r, "R-PH", "C10")
	// a left-over object is reused only when it is identical to the target's: the predicates that
	// decide "identical" treat device and target alike (a half-created object is a subset)
	ruleComparatorsSymmetric(p, r, map[string]bool{"cisco": true, "panos": true, "nsx": true, "linux": true}, 10)
	r.Trusted = []string{"go/ssa, VTA call graph", "the audited rows of tables/guards.tsv and tables/phases.tsv"}
	r.NotDec = "that the second run converges: needs the device state after every prefix of an emitted script, i.e. executing the script on a device model"
}
