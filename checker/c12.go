package main

// C12: at most one approve/compare session per device.

import (
	"strconv"
	"path/filepath"
	"os"
	"os/exec"
	"encoding/json"
	"fmt"
	"go/token"
	"sort"
	"strings"

	"golang.org/x/tools/go/callgraph"
	"golang.org/x/tools/go/ssa"
)

func init() { register("C12", "proof", true, checkC12) }

// Library calls (made directly from module code) that create, modify or remove
// files, start processes or talk to the network.  Reads (os.Open, os.ReadFile,
// os.Stat, EvalSymlinks, WalkDir) are not effects.
var effectAPIs = map[string]string{
	"os.OpenFile": "file create/open", "os.Create": "file create", "os.WriteFile": "file write",
	"os.Mkdir": "mkdir", "os.MkdirAll": "mkdir", "os.MkdirTemp": "mkdir", "os.CreateTemp": "temp file",
	"os.Rename": "rename", "os.Remove": "remove", "os.RemoveAll": "remove", "os.Symlink": "symlink", "os.Link": "link",
	"os.Chmod": "chmod", "os.Chown": "chown", "os.Truncate": "truncate", "os.Chtimes": "chtimes",
	"(*os.File).Truncate": "truncate",
	"os/exec.Command":     "process", "(*os/exec.Cmd).Run": "process", "(*os/exec.Cmd).Start": "process",
	"(*os/exec.Cmd).Output": "process", "(*os/exec.Cmd).CombinedOutput": "process", "os.StartProcess": "process",
	"github.com/tailscale/goexpect.SpawnWithArgs": "ssh session", "github.com/tailscale/goexpect.Spawn": "ssh session",
	"(*github.com/tailscale/goexpect.GExpect).Send": "device command",
	"(*net/http.Client).Get":                        "http", "(*net/http.Client).Do": "http", "(*net/http.Client).PostForm": "http",
	"(*net/http.Client).Post": "http", "(*net/http.Client).Head": "http", "net/http.Get": "http", "net/http.Post": "http",
	"net.Dial": "network", "net.DialTimeout": "network",
}

// sliceLitElems: for `slice t[:]` of a `new [n]T (varargs/slicelit)` array,
// returns the values stored at each constant index, in order.
func sliceLitElems(v ssa.Value) ([]ssa.Value, bool) {
	sl, ok := v.(*ssa.Slice)
	if !ok {
		return nil, false
	}
	al, ok := sl.X.(*ssa.Alloc)
	if !ok {
		return nil, false
	}
	elems := map[int64]ssa.Value{}
	max := int64(-1)
	for _, ref := range *al.Referrers() {
		ia, ok := ref.(*ssa.IndexAddr)
		if !ok {
			continue
		}
		k, ok := constInt(ia.Index)
		if !ok {
			return nil, false
		}
		for _, r2 := range *ia.Referrers() {
			if st, ok := r2.(*ssa.Store); ok && st.Addr == ia {
				elems[k] = st.Val
				if k > max {
					max = k
				}
			}
		}
	}
	out := make([]ssa.Value, max+1)
	for i := range out {
		out[i] = elems[int64(i)]
		if out[i] == nil {
			return nil, false
		}
	}
	return out, true
}

// pathExpr renders a path-building expression in a flattened normal form:
// join[elem, elem, ...] with nested Joins flattened, base(x), const, field,
// param.
var pathExprBind = map[*ssa.Parameter]ssa.Value{}
var pathExprDepth int

func pathExpr(v ssa.Value) []string {
	if s, ok := constString(v); ok {
		return []string{fmt.Sprintf("%q", s)}
	}
	switch x := v.(type) {
	case *ssa.Call:
		if f := x.Common().StaticCallee(); f != nil {
			switch shortName(f) {
			case "path.Join", "path/filepath.Join":
				if el, ok := sliceLitElems(x.Common().Args[0]); ok {
					var out []string
					for _, e := range el {
						out = append(out, pathExpr(e)...)
					}
					return out
				}
			case "path.Base", "path/filepath.Base":
				return []string{"base(" + strings.Join(pathExpr(x.Common().Args[0]), ",") + ")"}
			}
			// a module helper that computes the path: its returned expression, with the
			// arguments in place of its parameters (one return, two levels)
			if isModFunc(f) && f.Parent() == nil && len(f.Params) == len(x.Common().Args) && pathExprDepth < 2 {
				var rets []*ssa.Return
				for _, b := range f.Blocks {
					if len(b.Instrs) > 0 {
						if rt, ok := b.Instrs[len(b.Instrs)-1].(*ssa.Return); ok {
							rets = append(rets, rt)
						}
					}
				}
				if len(rets) == 1 && len(rets[0].Results) == 1 {
					for i, pa := range f.Params {
						pathExprBind[pa] = x.Common().Args[i]
					}
					pathExprDepth++
					out := pathExpr(rets[0].Results[0])
					pathExprDepth--
					for _, pa := range f.Params {
						delete(pathExprBind, pa)
					}
					return out
				}
			}
			return []string{"call:" + shortName(f)}
		}
	case *ssa.Parameter:
		if bv, ok := pathExprBind[x]; ok {
			return pathExpr(bv)
		}
		return []string{"param:" + x.Name()}
	case *ssa.UnOp:
		if x.Op == token.MUL {
			if fa, ok := x.X.(*ssa.FieldAddr); ok {
				return []string{"field:" + fieldName(fa)}
			}
		}
	case *ssa.BinOp:
		if x.Op == token.ADD {
			return []string{"concat(" + strings.Join(pathExpr(x.X), ",") + "+" + strings.Join(pathExpr(x.Y), ",") + ")"}
		}
	}
	return []string{fmt.Sprintf("?%T", v)}
}

// ctxInfeasible: instruction in (inside fn) cannot execute when fn's string
// parameters have the constant values ctx (param index -> value): some If on
// `param == c` / `param != c` that edge-dominates the instruction contradicts
// ctx.
func ctxInfeasible(in ssa.Instruction, ctx map[int]string) bool {
	if len(ctx) == 0 {
		return false
	}
	fn := in.Parent()
	for _, b := range fn.Blocks {
		i := ifOf(b)
		if i == nil {
			continue
		}
		c, neg := stripNot(i.Cond)
		bo, ok := c.(*ssa.BinOp)
		if !ok || (bo.Op != token.EQL && bo.Op != token.NEQ) {
			continue
		}
		var par *ssa.Parameter
		var k string
		if p, ok := bo.X.(*ssa.Parameter); ok {
			if s, ok := constString(bo.Y); ok {
				par, k = p, s
			}
		} else if p, ok := bo.Y.(*ssa.Parameter); ok {
			if s, ok := constString(bo.X); ok {
				par, k = p, s
			}
		}
		if par == nil {
			continue
		}
		idx := -1
		for j, q := range fn.Params {
			if q == par {
				idx = j
			}
		}
		val, has := ctx[idx]
		if !has {
			continue
		}
		condTrue := (val == k) == (bo.Op == token.EQL)
		if neg {
			condTrue = !condTrue
		}
		// the edge NOT taken
		dead := 0
		if condTrue {
			dead = 1
		}
		if edgeDominates(b, dead, in.Block()) {
			return true
		}
	}
	return false
}

func constArgCtx(site ssa.CallInstruction, callee *ssa.Function) map[int]string {
	ctx := map[int]string{}
	com := site.Common()
	if com.IsInvoke() || com.StaticCallee() != callee {
		return ctx
	}
	for i, a := range com.Args {
		if s, ok := constString(a); ok {
			ctx[i] = s
		}
	}
	return ctx
}

type effectHit struct {
	Site *callSite
	Path []string
}

// ungatedEffects explores the call graph from the entries, not following call
// sites in `gated`, not entering `exempt` functions, and pruning call sites
// that are infeasible under the constant string arguments of the call that
// entered the function.  It returns every direct call of an effect API found.
func ungatedEffects(p *Prog, entries []*ssa.Function, gated map[ssa.Instruction]bool, exempt map[*ssa.Function]bool) (hits []effectHit, visited int) {
	cg := p.CG()
	type state struct {
		fn  *ssa.Function
		key string
	}
	type item struct {
		fn   *ssa.Function
		ctx  map[int]string
		path []string
	}
	ctxKey := func(ctx map[int]string) string {
		var l []string
		for k, v := range ctx {
			l = append(l, fmt.Sprintf("%d=%q", k, v))
		}
		sort.Strings(l)
		return strings.Join(l, ",")
	}
	seen := map[state]bool{}
	var queue []item
	for _, e := range entries {
		queue = append(queue, item{e, nil, []string{shortName(e)}})
		seen[state{e, ""}] = true
	}
	for len(queue) > 0 {
		it := queue[0]
		queue = queue[1:]
		visited++
		if !isModFunc(it.fn) || exempt[it.fn] {
			continue // library internals are not explored: effects are classified at the module boundary
		}
		n := cg.Nodes[it.fn]
		if n == nil {
			continue
		}
		// direct effect calls in this function
		for _, cs := range callsOf(it.fn) {
			if gated[cs.In] || ctxInfeasible(cs.In, it.ctx) {
				continue
			}
			if _, ok := effectAPIs[cs.calleeName()]; ok {
				hits = append(hits, effectHit{cs, append(append([]string{}, it.path...), cs.calleeName())})
			}
		}
		for _, e := range n.Out {
			if e.Site != nil && (gated[e.Site] || ctxInfeasible(e.Site, it.ctx)) {
				continue
			}
			c := e.Callee.Func
			var ctx map[int]string
			if e.Site != nil {
				ctx = constArgCtx(e.Site, c)
			}
			st := state{c, ctxKey(ctx)}
			if seen[st] {
				continue
			}
			seen[st] = true
			queue = append(queue, item{c, ctx, append(append([]string{}, it.path...), shortName(c))})
		}
	}
	return
}

func checkC12(p *Prog, r *Report) {
	m, err := p.model()
	if err != nil {
		r.fail("model", "model", "", err.Error(), "")
		return
	}
	ruleLockFilesStay(p, r)
	cg := p.CG()
	r.rule("R12.3", "Exactly one module function calls syscall.Flock (the lock function); its flags are the constant LOCK_EX|LOCK_NB; the locked file is opened at join[<fields of the configuration>, constants..., base(<its name parameter>)] so that a device name and a path to the device's code file give the same lock file, and no other parameter influences the path; on the flock-failure edge the returned error is non-nil.")
	var lockFns []*ssa.Function
	var flockSites []*callSite
	for _, fn := range allModFuncs(p) {
		for _, cs := range callsOf(fn) {
			if cs.calleeName() == "syscall.Flock" {
				lockFns = append(lockFns, fn)
				flockSites = append(flockSites, cs)
			}
		}
	}
	if len(lockFns) != 1 {
		r.fail("R12.3", "one-lock-function", "", fmt.Sprintf("%d functions call syscall.Flock, expected exactly one", len(lockFns)),
			"two front-ends deriving their lock differently do not exclude each other")
		if len(lockFns) == 0 {
			return
		}
	} else {
		r.ok("R12.3", "one-lock-function|"+shortName(lockFns[0]), p.pos(lockFns[0].Pos()), "single lock function "+shortName(lockFns[0]))
	}
	L := lockFns[0]
	fl := flockSites[0]
	// flags
	how, isC := constInt(fl.In.Common().Args[1])
	r.add("R12.3", "flock-flags|"+shortName(L), p.ipos(fl.In), fmt.Sprintf("flock flags are LOCK_EX|LOCK_NB (=6): got %d const=%v", how, isC),
		isC && how == 6, "a shared or blocking lock does not make the second run fail immediately")
	// fd comes from a file opened in L; path expression
	var openSite *callSite
	for _, cs := range callsOf(L) {
		if cs.calleeName() == "os.OpenFile" || cs.calleeName() == "os.Create" || cs.calleeName() == "os.Open" {
			openSite = cs
		}
	}
	if openSite == nil {
		r.fail("R12.3", "lock-path|"+shortName(L), p.pos(L.Pos()), "no os.OpenFile in the lock function", "")
	} else {
		pe := pathExpr(openSite.In.Common().Args[0])
		okPath := len(pe) >= 2
		last := pe[len(pe)-1]
		if !(strings.HasPrefix(last, "base(param:") && strings.HasSuffix(last, ")")) {
			okPath = false
		}
		for _, e := range pe[:len(pe)-1] {
			if !(strings.HasPrefix(e, `"`) || strings.HasPrefix(e, "field:program.Config.")) {
				okPath = false
			}
		}
		r.add("R12.3", "lock-path|"+shortName(L), p.ipos(openSite.In), "lock file path = join["+strings.Join(pe, ", ")+"]", okPath,
			"the lock file must be <configured dir>/<constants>/base(<device argument>): otherwise 'router' and '/path/code/router' lock different files")
		// the fd locked is the file opened here
		fdOK := false
		for _, rt := range valueRoots(fl.In.Common().Args[0]) {
			if call, ok := rt.(*ssa.Call); ok && call.Common().StaticCallee() != nil && shortName(call.Common().StaticCallee()) == "(*os.File).Fd" {
				for _, r2 := range valueRoots(call.Common().Args[0]) {
					if ex, ok := r2.(*ssa.Extract); ok && ex.Tuple == openSite.In.Value() {
						fdOK = true
					}
				}
			}
		}
		r.add("R12.3", "lock-fd|"+shortName(L), p.ipos(fl.In), "flock is applied to the descriptor of the file opened at the lock path", fdOK, "flock on another descriptor")
		// the handle returned is that file
		retOK := true
		for _, ret := range returnsOf(L) {
			if len(ret.Results) < 2 {
				retOK = false
				continue
			}
			if errProvablyNonNil(ret.Results[len(ret.Results)-1], ret.Block(), 0) {
				continue
			}
			is := false
			for _, r2 := range valueRoots(ret.Results[0]) {
				if ex, ok := r2.(*ssa.Extract); ok && ex.Tuple == openSite.In.Value() {
					is = true
				}
			}
			if !is {
				retOK = false
			}
		}
		r.add("R12.3", "lock-handle-returned|"+shortName(L), p.pos(L.Pos()), "the locked file handle is what the lock function returns", retOK, "caller cannot keep the lock alive")
	}
	// flock-failure edge returns non-nil error
	flErr := fl.In.Value()
	failOK := false
	for _, b := range L.Blocks {
		i := ifOf(b)
		if i == nil {
			continue
		}
		x, nonNilWhenTrue, ok := nilTest(i.Cond)
		if !ok || x != flErr {
			continue
		}
		ts := 0
		if !nonNilWhenTrue {
			ts = 1
		}
		failOK = true
		for _, ret := range returnsOf(L) {
			ev := ret.Results[len(ret.Results)-1]
			if edgeDominates(b, ts, ret.Block()) {
				if !errProvablyNonNil(ev, ret.Block(), 0) && ev != flErr {
					failOK = false
				}
				continue
			}
			if !ireachBlock(b.Succs[ts], ret.Block()) {
				continue
			}
			// reached through a join: the returned value must be a phi whose
			// incoming values from the failure side are non-nil
			phi, ok := ev.(*ssa.Phi)
			if !ok || phi.Block() != ret.Block() && !phi.Block().Dominates(ret.Block()) {
				failOK = false
				continue
			}
			for k, pred := range phi.Block().Preds {
				if edgeDominates(b, ts, pred) || pred == b.Succs[ts] {
					e := phi.Edges[k]
					if !(e == flErr || errProvablyNonNil(e, pred, 0)) {
						failOK = false
					}
				}
			}
		}
	}
	r.add("R12.3", "flock-failure-is-error|"+shortName(L), p.ipos(fl.In), "when flock fails the lock function returns a non-nil error", failOK,
		"a failed flock that is reported as success lets a second session run")

	// ---- R12.1: every effect behind the lock ----
	r.rule("R12.1", "Every call path from an entry point to a direct call of an effect API (file create/write/rename/remove/mkdir, process start, ssh spawn, device send, HTTP request) passes a call site that lies on the success edge (err == nil) of a call of the lock function, except inside the lock function itself. Call sites that are infeasible under the constant string arguments of the entering call (errlog.SetStderrLog(\"\") in file-compare mode) are pruned. Hence nothing is written and no device is contacted before the lock is held, and the failure branch reaches no effect.")
	gated := map[ssa.Instruction]bool{}
	lockCalls := 0
	for _, e := range callersOf(cg, L) {
		if e.Site == nil {
			continue
		}
		lockCalls++
		caller := e.Caller.Func
		site := e.Site
		var errV ssa.Value
		var fhV ssa.Value
		if v := site.Value(); v != nil {
			for _, ref := range *v.Referrers() {
				if ex, ok := ref.(*ssa.Extract); ok {
					if ex.Index == 1 {
						errV = ex
					} else if ex.Index == 0 {
						fhV = ex
					}
				}
			}
		}
		n := 0
		if errV != nil {
			for _, b := range caller.Blocks {
				i := ifOf(b)
				if i == nil {
					continue
				}
				x, nonNilWhenTrue, ok := nilTest(i.Cond)
				if !ok {
					continue
				}
				match := false
				for _, rt := range valueRoots(x) {
					if rt == errV {
						match = true
					}
				}
				if !match {
					continue
				}
				okSucc := 1
				if !nonNilWhenTrue {
					okSucc = 0
				}
				for _, bb := range caller.Blocks {
					if edgeDominates(b, okSucc, bb) {
						for _, in := range bb.Instrs {
							if _, ok := in.(ssa.CallInstruction); ok {
								gated[in] = true
								n++
							}
						}
					}
				}
			}
		}
		r.add("R12.1", "lock-result-tested|"+shortName(caller), p.ipos(site),
			fmt.Sprintf("%s tests the error of the lock function; %d call sites lie on its success edge", shortName(caller), n), n > 0,
			"the result of the lock attempt is ignored")
		// R12.2 handle liveness
		ruleLockHandle(p, r, caller, site, fhV)
	}
	r.floor("R12.1", "callers of the lock function", lockCalls, 2)
	hits, visited := ungatedEffects(p, m.Entries, gated, map[*ssa.Function]bool{L: true})
	r.note("R12.1 explored %d (function, constant-context) states", visited)
	seenHit := map[string]bool{}
	for _, h := range hits {
		k := "ungated-effect|" + shortName(h.Site.Fn) + "|" + h.Site.calleeName()
		if seenHit[k] {
			continue
		}
		seenHit[k] = true
		r.fail("R12.1", k, p.ipos(h.Site.In), effectAPIs[h.Site.calleeName()]+" reachable without holding the device lock",
			"path: "+strings.Join(h.Path, " -> "))
	}
	// positive part: list the effect sites that ARE behind the lock (evidence + floor)
	all, _ := ungatedEffects(p, m.Entries, map[ssa.Instruction]bool{}, map[*ssa.Function]bool{L: true})
	behind := map[string]bool{}
	for _, h := range all {
		k := shortName(h.Site.Fn) + "|" + h.Site.calleeName()
		if !seenHit["ungated-effect|"+k] && !behind[k] {
			behind[k] = true
			r.ok("R12.1", "effect-behind-lock|"+k, p.ipos(h.Site.In), effectAPIs[h.Site.calleeName()]+" only reachable with the lock held")
		}
	}
	r.floor("R12.1", "effect sites behind the lock", len(behind), 10)
	ruleNoReflection(p, r)
	r.Trusted = append(trustedCallGraph,
		"flock(2) semantics: exclusive per open file description, released by the kernel when the holder exits or is killed",
		"effects are classified at the boundary between module code and libraries (table effectAPIs in c12.go); library internals are not explored")
	r.Assume = []string{"local file system with working flock (not NFS without lock support)", "nobody removes a held lock file (bin/delete-old-policies does after keep_history days: noted, out of scope)"}
	r.NotDec = "the interleavings themselves; kernel release on kill; deletion of held lock files by cron"
}

func ireachBlock(a, b *ssa.BasicBlock) bool {
	return a == b || blockReach(a)[b]
}

// ruleLockHandle: R12.2.
func ruleLockHandle(p *Prog, r *Report, caller *ssa.Function, site ssa.CallInstruction, fh ssa.Value) {
	r.rule("R12.2", "In every caller of the lock function the returned file handle is kept alive until the function returns: it is bound (not discarded), its only uses are nil tests and one deferred (*os.File).Close; it is not closed by a plain call and not handed to any other function (e.g. one that removes the lock file: flock protects the inode, not the name). (A discarded *os.File is closed by its finalizer at the next GC, dropping the flock while the session runs.)")
	key := "lock-handle|" + shortName(caller)
	if fh == nil {
		r.fail("R12.2", key, p.ipos(site), "the lock handle is discarded", "the os.File finalizer releases the lock at the next garbage collection")
		return
	}
	deferred, plain := 0, 0
	var escapes []string
	var visit func(v ssa.Value, depth int)
	seen := map[ssa.Value]bool{}
	visit = func(v ssa.Value, depth int) {
		if seen[v] || depth > 4 {
			return
		}
		seen[v] = true
		for _, ref := range *v.Referrers() {
			switch x := ref.(type) {
			case *ssa.Defer:
				if f := x.Common().StaticCallee(); f != nil && shortName(f) == "(*os.File).Close" {
					deferred++
				} else {
					escapes = append(escapes, "deferred call of "+(&callSite{In: x, Static: x.Common().StaticCallee()}).calleeName())
				}
			case *ssa.Call:
				if f := x.Common().StaticCallee(); f != nil && shortName(f) == "(*os.File).Close" {
					plain++
				} else {
					escapes = append(escapes, "passed to "+(&callSite{In: x, Static: x.Common().StaticCallee()}).calleeName())
				}
			case *ssa.Go:
				escapes = append(escapes, "go statement")
			case *ssa.BinOp, *ssa.DebugRef:
				// nil comparison
			case *ssa.MakeClosure:
				escapes = append(escapes, "captured by a closure")
			case *ssa.MakeInterface:
				escapes = append(escapes, "converted to an interface")
			case *ssa.Phi:
				visit(x, depth+1)
			case *ssa.Store:
				// spilled to a cell (captured / address taken): follow loads of the cell
				if al, ok := x.Addr.(*ssa.Alloc); ok {
					for _, r2 := range *al.Referrers() {
						if u, ok := r2.(*ssa.UnOp); ok && u.Op == token.MUL {
							visit(u, depth+1)
						}
						// `defer func() { fh.Close() }()`: a closure over the variable that
						// only closes (and nil-tests) the handle and is itself only deferred
						if mc, ok := r2.(*ssa.MakeClosure); ok {
							g := mc.Fn.(*ssa.Function)
							closes, other := 0, ""
							for i, b := range mc.Bindings {
								if b != ssa.Value(al) {
									continue
								}
								for _, r3 := range *g.FreeVars[i].Referrers() {
									ld, ok := r3.(*ssa.UnOp)
									if !ok {
										other = "closure " + shortName(g) + " writes or passes on the variable"
										continue
									}
									for _, r4 := range *ld.Referrers() {
										switch y := r4.(type) {
										case *ssa.Call:
											if f := y.Common().StaticCallee(); f != nil && shortName(f) == "(*os.File).Close" {
												closes++
											} else {
												other = "closure " + shortName(g) + " passes the handle to " + (&callSite{In: y, Static: y.Common().StaticCallee()}).calleeName()
											}
										case *ssa.BinOp, *ssa.DebugRef:
										default:
											other = "closure " + shortName(g) + " uses the handle otherwise"
										}
									}
								}
							}
							onlyDeferred := mc.Referrers() != nil && len(*mc.Referrers()) > 0
							for _, r3 := range *mc.Referrers() {
								if d, ok := r3.(*ssa.Defer); !ok || d.Common().Value != ssa.Value(mc) {
									if _, dbg := r3.(*ssa.DebugRef); !dbg {
										onlyDeferred = false
									}
								}
							}
							switch {
							case other != "":
								escapes = append(escapes, other)
							case closes > 0 && onlyDeferred:
								deferred++
							case closes > 0:
								escapes = append(escapes, "closed by closure "+shortName(g)+" that is not (only) deferred")
							default:
								escapes = append(escapes, "captured by closure "+shortName(g))
							}
						}
					}
				}
			}
		}
	}
	visit(fh, 0)
	r.add("R12.2", key, p.ipos(site), fmt.Sprintf("lock handle: %d deferred Close, %d plain Close, other uses %v", deferred, plain, escapes),
		deferred >= 1 && plain == 0 && len(escapes) == 0,
		"the lock must be held until the function returns: the handle may only be nil-tested and closed by a deferred Close; any other use (a helper that unlinks or closes the lock file, a goroutine) can release or orphan the lock while the session runs")
}

var _ = callgraph.AddEdge

// ruleLockFilesStay: R12.4.  The lock is the flock on an open file of basedir/lock/<device>.
// A program that unlinks or renames that file while a run holds it lets the next run create and
// lock a new file: both runs proceed.  No program of the repository may do that.
func ruleLockFilesStay(p *Prog, r *Report) {
	r.rule("R12.4", "Nothing in the repository removes or renames an entry of the lock directory: (a) for every shell script under bin/ (parsed by bash, nothing executed; shell/c19.py --lockdir-facts) no rm / rmdir / unlink / mv / find -delete / find -exec rm has a path argument that, after replacing variables by every value the script assigns to them (assignments and `for V in words`), has a path component `lock`; (b) no call of os.Remove, os.RemoveAll or os.Rename in the module's production code has an argument built with the constant \"lock\". An unlinked lock file that is still held no longer excludes anybody: the next run creates a new file and locks that.")
	cmd := exec.Command("python3", filepath.Join(verifDir(), "shell", "c19.py"), "--lockdir-facts")
	cmd.Env = append(os.Environ(), "VERIF_REPO="+p.RepoDir, "VERIF_DIR="+verifDir())
	out, err := cmd.Output()
	type fact struct {
		Script   string `json:"script"`
		Ok       bool   `json:"ok"`
		Commands int    `json:"commands"`
		Detail   string `json:"detail"`
	}
	var facts []fact
	if err == nil {
		err = json.Unmarshal(out, &facts)
	}
	if err != nil {
		r.fail("R12.4", "lockdir|shell-scripts", "bin/", "shell scripts could not be analysed: "+err.Error(), "undecided")
	}
	for _, f := range facts {
		r.add("R12.4", "lockdir|bin/"+f.Script, "bin/"+f.Script, fmt.Sprintf("%d simple commands, none removes or renames entries of the lock directory", f.Commands), f.Ok,
			"the script removes entries of the lock directory; a lock file that is held at that moment stops excluding other runs: "+f.Detail)
	}
	r.floor("R12.4", "shell scripts under bin/ analysed", len(facts), 8)
	n := 0
	for _, fn := range allModFuncs(p) {
		for _, cs := range callsOf(fn) {
			switch cs.calleeName() {
			case "os.Remove", "os.RemoveAll", "os.Rename":
				n++
				bad := ""
				for _, a := range cs.In.Common().Args {
					for _, s := range pathConstants(a, 0, map[ssa.Value]bool{}) {
						if s == "lock" || strings.HasPrefix(s, "lock/") || strings.Contains(s, "/lock/") || strings.HasSuffix(s, "/lock") {
							bad = s
						}
					}
				}
				r.add("R12.4", "lockdir|"+shortName(fn)+"|"+cs.calleeName(), p.ipos(cs.In), cs.calleeName()+" in "+shortName(fn)+" does not touch the lock directory", bad == "",
					"removes or renames a path built with "+strconv.Quote(bad))
			}
		}
	}
	r.note("R12.4: %d os.Remove/RemoveAll/Rename calls examined", n)
}

// pathConstants: the string constants a path value is built from (through path.Join and other
// calls, concatenation, variables).
func pathConstants(v ssa.Value, d int, seen map[ssa.Value]bool) []string {
	if v == nil || d > 8 || seen[v] {
		return nil
	}
	seen[v] = true
	var out []string
	if s, ok := constString(v); ok {
		return []string{s}
	}
	switch x := v.(type) {
	case *ssa.Call:
		for _, a := range x.Common().Args {
			out = append(out, pathConstants(a, d+1, seen)...)
			if el, ok := sliceLitElems(a); ok {
				for _, e := range el {
					out = append(out, pathConstants(e, d+1, seen)...)
				}
			}
		}
	case *ssa.BinOp:
		out = append(out, pathConstants(x.X, d+1, seen)...)
		out = append(out, pathConstants(x.Y, d+1, seen)...)
	case *ssa.Phi:
		for _, e := range x.Edges {
			out = append(out, pathConstants(e, d+1, seen)...)
		}
	case *ssa.UnOp:
		if al, ok := x.X.(*ssa.Alloc); ok {
			for _, st := range cellStores(al) {
				out = append(out, pathConstants(st.Val, d+1, seen)...)
			}
		}
	case *ssa.MakeInterface:
		out = append(out, pathConstants(x.X, d+1, seen)...)
	case *ssa.Convert:
		out = append(out, pathConstants(x.X, d+1, seen)...)
	case *ssa.Extract:
		out = append(out, pathConstants(x.Tuple, d+1, seen)...)
	}
	return out
}
