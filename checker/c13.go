package main

// C13: missing-approve never forgets a device (writer/reader agreement on the
// status file, tolerant reader, status update after every session).

import (
	"encoding/json"
	"fmt"
	"go/constant"
	"go/token"
	"go/types"
	"os"
	"os/exec"
	"path/filepath"
	"sort"
	"strings"

	"golang.org/x/tools/go/ssa"
)

func init() { register("C13", "other", true, checkC13) }

// fieldPath: names of the struct fields selected from a base address,
// outermost first: &v.Approve.Result -> [Approve Result].
func fieldPath(v ssa.Value) ([]string, ssa.Value) {
	var path []string
	for {
		switch x := v.(type) {
		case *ssa.FieldAddr:
			n := fieldName(x)
			if i := strings.LastIndex(n, "."); i >= 0 {
				n = n[i+1:]
			}
			path = append([]string{n}, path...)
			v = x.X
			continue
		case *ssa.Field:
			st := x.X.Type().Underlying()
			_ = st
			path = append([]string{fmt.Sprintf("#%d", x.Field)}, path...)
			v = x.X
			continue
		}
		return path, v
	}
}

// loadedFieldPath: v is a load *(&a.b.c) -> [b c].
func loadedFieldPath(v ssa.Value) []string {
	u, ok := v.(*ssa.UnOp)
	if !ok || u.Op != token.MUL {
		return nil
	}
	p, _ := fieldPath(u.X)
	return p
}

type constWhen struct {
	K    string
	When string // "param-true" | "param-false" | "always" | "?"
}

// constsWithPolarity: the constants v can be, each with the value of bool
// parameter par on the path that selects it.
func constsWithPolarity(v ssa.Value, fn *ssa.Function) []constWhen {
	var out []constWhen
	if s, ok := constString(v); ok {
		return []constWhen{{s, "always"}}
	}
	phi, ok := v.(*ssa.Phi)
	if !ok {
		return []constWhen{{"<non-constant>", "?"}}
	}
	for k, e := range phi.Edges {
		s, ok := constString(e)
		if !ok {
			out = append(out, constWhen{"<non-constant>", "?"})
			continue
		}
		pred := phi.Block().Preds[k]
		when := "?"
		for _, b := range fn.Blocks {
			i := ifOf(b)
			if i == nil {
				continue
			}
			c, neg := stripNot(i.Cond)
			if _, isPar := c.(*ssa.Parameter); !isPar {
				continue
			}
			ts, fs := 0, 1
			if neg {
				ts, fs = 1, 0
			}
			switch {
			case edgeDominates(b, ts, pred) || (pred == b && b.Succs[ts] == phi.Block()):
				when = "param-true"
			case edgeDominates(b, fs, pred) || (pred == b && b.Succs[fs] == phi.Block()):
				when = "param-false"
			}
		}
		out = append(out, constWhen{s, when})
	}
	return out
}

func checkC13(p *Prog, r *Report) {
	ruleSharedStateInGoroutines(p, r, "R13.13", false)
	ruleStatusFileOnly(p, r)
	ruleCurrentPolicyStaysPlain(p, r)
	ruleWalkVisitsAll(p, r)
	ruleOpenFlags(p, r, "R13.17")
	r.rule("R13.16", "Every line of the session's log is classified: in the front-ends and the status code (packages doapprove, status, cmd/missing-approve) no loop is left early (`break`, jump to the end of an enclosing loop) except at audited places (tables/breaks_audit.tsv; none today). The loop of do-approve over the log lines sets the flags errors / warnings / changed from which the recorded result is computed; leaving it at the first line loses a later `comp: *** device changed ***`.")
	ruleBreaksAudited(p, r, "R13.16", "C13", map[string]bool{"doapprove": true, "status": true, "cmd/missing-approve": true})
	r.rule("R13.14", "A crash of the session is a failed session: recover() is called in errlog.HandleAbort only, which turns an abort into exit status 1. Any other recover between the device code and the status update lets a crashed approve continue to the point where the result is recorded (a named result left at its zero value reads as success).")
	ruleRecoverSites(p, r, "R13.14", "a recovered panic reaches the status update as a normal return; unless the result is set explicitly the crashed approve is recorded as OK")
	ruleScannerErr(p, r, "R13.11", map[string]bool{"doapprove": true, "status": true, "missing-approve": true, "main": true, "device": true, "errlog": true})
	ruleMustCalls(p, r, "R-PH", "C13")
	r.rule("R13.1", "Writer/reader agreement on status constants, derived from the code of both sides: the constant status.SetApprove stores for failed=false is a case of missing-approve's switch on Approve.Result whose branch takes Approve.Policy as the device's policy, and the constant for failed=true is not; the constant SetCompare stores for changed=false is a reader case taking Compare.Policy, the constant for changed=true is a reader case that clears the device policy (device is listed); SetCompare's sticky test compares with the very constant it writes for changed=true; the reader consults the compare slot only when Compare.Time is later than the accepted approve time.")
	r.rule("R13.3", "status.Read cannot abort: it contains no panic, no call of errlog.Abort/os.Exit/log.Fatal and ignores read/decode errors, so an unreadable status decodes to the zero value; for the zero value the reader's device policy is the empty string, which is listed.")
	r.rule("R13.4", "The reader compares the code of the observed policy with the current one for every part of the target: directories code, code/ipv6 (and code/ipv4) crossed with suffixes \"\" and \".raw\"; the old side is read through a helper that falls back to <file>.bz2: the plain file first, the compressed one only when that cannot be read (guard rows), and decoded content only when decoding ended without error.")
	// ---- writers
	type wr struct {
		slot   string // Approve | Compare
		consts []constWhen
		fn     *ssa.Function
		pos    string
	}
	var writers []wr
	for _, fn := range allModFuncs(p) {
		if pkgOfFunc(fn) != "status" {
			continue
		}
		for _, b := range fn.Blocks {
			for _, in := range b.Instrs {
				st, ok := in.(*ssa.Store)
				if !ok {
					continue
				}
				path, _ := fieldPath(st.Addr)
				if len(path) != 1 || (path[0] != "Approve" && path[0] != "Compare") {
					continue
				}
				// value is a load of a composite literal
				u, ok := st.Val.(*ssa.UnOp)
				if !ok {
					continue
				}
				al, ok := u.X.(*ssa.Alloc)
				if !ok {
					continue
				}
				for _, ref := range *al.Referrers() {
					fa, ok := ref.(*ssa.FieldAddr)
					if !ok || !strings.HasSuffix(fieldName(fa), ".Result") {
						continue
					}
					for _, r2 := range *fa.Referrers() {
						if s2, ok := r2.(*ssa.Store); ok && s2.Addr == ssa.Value(fa) {
							writers = append(writers, wr{path[0], constsWithPolarity(s2.Val, fn), fn, p.ipos(s2)})
						}
					}
				}
			}
		}
	}
	r.floor("R13.1", "writers of status result", len(writers), 2)
	written := map[string]map[string]string{"Approve": {}, "Compare": {}} // slot -> when -> const
	for _, w := range writers {
		for _, c := range w.consts {
			if c.When == "?" || c.K == "<non-constant>" {
				r.fail("R13.1", "writer-const|"+shortName(w.fn)+"|"+w.slot, w.pos, "result written to "+w.slot+" is not a constant selected by the bool parameter", fmt.Sprint(w.consts))
				continue
			}
			written[w.slot][c.When] = c.K
		}
	}
	// ---- reader
	var reader *ssa.Function
	for _, fn := range allModFuncs(p) {
		if pkgOfFunc(fn) != "cmd/missing-approve" {
			continue
		}
		for _, cs := range callsOf(fn) {
			if cs.calleeName() == "status.Read" {
				reader = fn
			}
		}
	}
	if reader == nil {
		r.fail("R13.1", "anchor|reader", "", "no function of cmd/missing-approve calls status.Read", "")
		return
	}
	// device policy variable: compared with "" and the true branch prints
	var devPol ssa.Value
	for _, b := range reader.Blocks {
		i := ifOf(b)
		if i == nil {
			continue
		}
		bo, ok := i.Cond.(*ssa.BinOp)
		if !ok || bo.Op != token.EQL {
			continue
		}
		if s, ok := constString(bo.Y); ok && s == "" {
			prints := false
			for _, in := range b.Succs[0].Instrs {
				if c, ok := in.(*ssa.Call); ok && c.Common().StaticCallee() != nil && strings.HasPrefix(shortName(c.Common().StaticCallee()), "fmt.Print") {
					prints = true
				}
			}
			if prints {
				devPol = bo.X
			}
		}
	}
	if devPol == nil {
		r.fail("R13.1", "anchor|device-policy", p.pos(reader.Pos()), "cannot find the reader's device-policy variable (compared with \"\" before printing the device)", "")
		return
	}
	r.ok("R13.1", "anchor|device-policy", p.pos(reader.Pos()), "reader lists the device when its device policy is empty")
	// outcome of a case: what flows into devPol through the case's true block
	outcome := func(tb *ssa.BasicBlock) string {
		res := map[string]bool{}
		seen := map[ssa.Value]bool{}
		var walk func(v ssa.Value, viaTB bool)
		walk = func(v ssa.Value, viaTB bool) {
			phi, ok := v.(*ssa.Phi)
			if !ok {
				if !viaTB {
					return
				}
				if s, ok := constString(v); ok {
					res[fmt.Sprintf("const %q", s)] = true
					return
				}
				if fp := loadedFieldPath(v); fp != nil {
					res["field "+strings.Join(fp, ".")] = true
					return
				}
				res["other"] = true
				return
			}
			if seen[v] && !viaTB {
				return
			}
			seen[v] = true
			for k, e := range phi.Edges {
				pred := phi.Block().Preds[k]
				through := viaTB || pred == tb || tb.Dominates(pred)
				if _, isPhi := e.(*ssa.Phi); isPhi {
					walk(e, through)
				} else if through {
					walk(e, true)
				}
			}
		}
		walk(devPol, false)
		var l []string
		for k := range res {
			l = append(l, k)
		}
		sort.Strings(l)
		return strings.Join(l, "|")
	}
	cases := map[string]map[string]string{"Approve": {}, "Compare": {}} // slot -> const -> outcome
	guardedByTime := true
	nCompareCases := 0
	for _, b := range reader.Blocks {
		i := ifOf(b)
		if i == nil {
			continue
		}
		bo, ok := i.Cond.(*ssa.BinOp)
		if !ok || bo.Op != token.EQL {
			continue
		}
		k, ok := constString(bo.Y)
		if !ok {
			continue
		}
		fp := loadedFieldPath(bo.X)
		if len(fp) != 2 || fp[1] != "Result" {
			continue
		}
		cases[fp[0]][k] = outcome(b.Succs[0])
		if fp[0] == "Compare" {
			nCompareCases++
			// time guard
			g := gatedBy(i, func(cond ssa.Value) (bool, int) {
				c, neg := stripNot(cond)
				bb, ok := c.(*ssa.BinOp)
				if !ok || (bb.Op != token.LSS && bb.Op != token.GTR) {
					return false, 0
				}
				var later, earlier ssa.Value = bb.Y, bb.X
				if bb.Op == token.GTR {
					later, earlier = bb.X, bb.Y
				}
				fpl := loadedFieldPath(later)
				_ = earlier
				if len(fpl) == 2 && fpl[0] == "Compare" && fpl[1] == "Time" {
					if neg {
						return true, 1
					}
					return true, 0
				}
				return false, 0
			})
			if g == nil {
				guardedByTime = false
			}
		}
	}
	r.note("reader cases: %v", cases)
	r.note("writer constants: %v", written)
	chk := func(key, desc string, ok bool, detail string) {
		r.add("R13.1", key, p.pos(reader.Pos()), desc, ok, detail)
	}
	aOK, aFail := written["Approve"]["param-false"], written["Approve"]["param-true"]
	cSame, cDiff := written["Compare"]["param-false"], written["Compare"]["param-true"]
	chk("approve-success-accepted", fmt.Sprintf("approve success constant %q is a reader case taking Approve.Policy (outcome %q)", aOK, cases["Approve"][aOK]),
		aOK != "" && cases["Approve"][aOK] == "field Approve.Policy", "a successful approve is not recognised by missing-approve (device listed forever) or takes the wrong policy")
	chk("approve-failure-not-accepted", fmt.Sprintf("approve failure constant %q is not accepted by the reader (outcome %q)", aFail, cases["Approve"][aFail]),
		aFail != "" && aFail != aOK && cases["Approve"][aFail] == "", "a failed approve is taken as evidence that the device carries the policy")
	chk("compare-uptodate-accepted", fmt.Sprintf("compare constant for unchanged %q is a reader case taking Compare.Policy (outcome %q)", cSame, cases["Compare"][cSame]),
		cSame != "" && cases["Compare"][cSame] == "field Compare.Policy", "")
	chk("compare-diff-lists", fmt.Sprintf("compare constant for changed %q is a reader case clearing the device policy (outcome %q)", cDiff, cases["Compare"][cDiff]),
		cDiff != "" && cDiff != cSame && cases["Compare"][cDiff] == `const ""`, "a compare that found differences does not make missing-approve list the device")
	chk("compare-guarded-by-time", "the compare slot is consulted only if Compare.Time is later than the accepted approve time", guardedByTime && nCompareCases >= 2, "an old compare overrides a later approve")
	// R13.6: no verdict before the compare slot was considered
	r.rule("R13.6", "In the reader every return that omits the device (does not print it) is dominated by the test that consults the compare slot (accepted approve time < Compare.Time): the device is never declared up to date on the strength of the approve slot alone, because a later compare may have found a difference (manual drift).")
	var guardBlock *ssa.BasicBlock
	for _, b := range reader.Blocks {
		i := ifOf(b)
		if i == nil {
			continue
		}
		c2, _ := stripNot(i.Cond)
		if bb, ok := c2.(*ssa.BinOp); ok && (bb.Op == token.LSS || bb.Op == token.GTR) {
			fx, fy := loadedFieldPath(bb.X), loadedFieldPath(bb.Y)
			if (len(fx) == 2 && fx[0] == "Compare" && fx[1] == "Time") || (len(fy) == 2 && fy[0] == "Compare" && fy[1] == "Time") {
				guardBlock = b
			}
		}
	}
	if guardBlock == nil {
		r.fail("R13.6", "anchor|compare-consult", p.pos(reader.Pos()), "the reader has no test of Compare.Time", "")
	} else {
		nret := 0
		for _, ret := range returnsOf(reader) {
			prints := false
			for _, in := range ret.Block().Instrs {
				if c3, ok := in.(*ssa.Call); ok && c3.Common().StaticCallee() != nil && strings.HasPrefix(shortName(c3.Common().StaticCallee()), "fmt.Print") {
					prints = true
				}
			}
			if prints {
				continue
			}
			nret++
			r.add("R13.6", "omit-after-compare-consult", p.ipos(ret), "a return that omits the device comes after the compare slot was consulted", guardBlock.Dominates(ret.Block()),
				"the device is omitted without looking at a later compare result: manual drift found by compare is forgotten")
		}
		r.floor("R13.6", "omitting returns in the reader", nret, 2)
	}
	// sticky test in the writer
	sticky := ""
	var wfn *ssa.Function
	for _, w := range writers {
		if w.slot == "Compare" {
			wfn = w.fn
		}
	}
	timeCmp := false
	if wfn != nil {
		for _, b := range wfn.Blocks {
			for _, in := range b.Instrs {
				bo, ok := in.(*ssa.BinOp)
				if !ok {
					continue
				}
				if bo.Op == token.NEQ || bo.Op == token.EQL {
					if k, ok := constString(bo.Y); ok {
						if fp := loadedFieldPath(bo.X); len(fp) == 2 && fp[0] == "Compare" && fp[1] == "Result" {
							sticky = k
						}
					}
				}
				if bo.Op == token.LSS || bo.Op == token.GTR {
					a, b2 := loadedFieldPath(bo.X), loadedFieldPath(bo.Y)
					if len(a) == 2 && len(b2) == 2 && a[1] == "Time" && b2[1] == "Time" && a[0] != b2[0] {
						timeCmp = true
					}
				}
			}
		}
	}
	chk("sticky-constant", fmt.Sprintf("SetCompare's sticky test compares Compare.Result with %q, the constant it writes for changed", sticky), sticky != "" && sticky == cDiff,
		"sticky DIFF logic tests a different constant than is written")
	chk("sticky-time-exception", "SetCompare refreshes a sticky DIFF when the device was approved since (Compare.Time vs Approve.Time)", timeCmp,
		"DIFF, approve, drift, DIFF would keep the old compare time and hide the device")

	// ---- R13.3 tolerant reader
	rd := p.Fn("status.Read")
	if rd == nil {
		r.fail("R13.3", "anchor|status.Read", "", "not found", "")
	} else {
		bad := ""
		for _, b := range rd.Blocks {
			for _, in := range b.Instrs {
				if _, ok := in.(*ssa.Panic); ok {
					bad = "panic"
				}
				if ci, ok := in.(ssa.CallInstruction); ok {
					if f := ci.Common().StaticCallee(); f != nil {
						switch shortName(f) {
						case "errlog.Abort", "os.Exit", "log.Fatal", "log.Fatalf", "log.Panic":
							bad = shortName(f)
						}
						if isModFunc(f) {
							sm := newSummarizer(p)
							if sm.sums[f] != nil && sm.sums[f].Emits["Abort"] {
								bad = shortName(f) + " (aborts)"
							}
						}
					}
				}
			}
		}
		r.add("R13.3", "read-never-aborts", p.pos(rd.Pos()), "status.Read has no abort/panic/exit path", bad == "", "unreadable status file ends the run instead of listing the device: "+bad)
		// zero value -> listed: initial device policy is ""
		zeroListed := false
		if phi, ok := devPol.(*ssa.Phi); ok {
			var first func(v ssa.Value, d int) bool
			first = func(v ssa.Value, d int) bool {
				if d > 5 {
					return false
				}
				if s, ok := constString(v); ok && s == "" {
					return true
				}
				if ph, ok := v.(*ssa.Phi); ok {
					for _, e := range ph.Edges {
						if first(e, d+1) {
							return true
						}
					}
				}
				return false
			}
			zeroListed = first(phi, 0)
		}
		r.add("R13.3", "zero-value-listed", p.pos(reader.Pos()), "with no accepted approve and no compare the device policy stays \"\" and the device is listed", zeroListed, "")
	}
	// ---- R13.4 compared parts
	want := map[string]bool{`"code"`: false, `"code/ipv6"`: false, `""`: false, `".raw"`: false}
	for _, b := range reader.Blocks {
		for _, in := range b.Instrs {
			if st, ok := in.(*ssa.Store); ok {
				if _, isIdx := st.Addr.(*ssa.IndexAddr); isIdx {
					if s, ok := constString(st.Val); ok {
						if _, w := want[fmt.Sprintf("%q", s)]; w {
							want[fmt.Sprintf("%q", s)] = true
						}
					}
				}
			}
		}
	}
	for k, v := range want {
		r.add("R13.4", "compared-part|"+k, p.pos(reader.Pos()), "reader compares part "+k, v, "a part of the target (IPv6 code or raw file) is not compared: a device whose raw/IPv6 code changed is omitted")
	}
	bz := false
	for _, fn := range allModFuncs(p) {
		if pkgOfFunc(fn) == "cmd/missing-approve" {
			for _, cs := range callsOf(fn) {
				if cs.calleeName() == "compress/bzip2.NewReader" {
					bz = true
				}
			}
		}
	}
	r.add("R13.4", "bz2-aware", "", "old policy files are also read from <file>.bz2", bz, "")
	// the plain file is read first and the compressed one only when that fails (an interrupted
	// compress leaves a partial <file>.bz2 next to the intact file); what was decoded counts
	// only when decoding ended without error
	ruleGuardTable(p, r, "R13.4", "C13")
	for _, fn := range allModFuncs(p) {
		if pkgOfFunc(fn) != "cmd/missing-approve" {
			continue
		}
		for _, cs := range callsOf(fn) {
			if cs.calleeName() != "io.ReadAll" {
				continue
			}
			call, _ := cs.In.(*ssa.Call)
			if call == nil {
				continue
			}
			n, bad := 0, ""
			decoded := func(v ssa.Value) bool {
				for d := range valueDeps(v) {
					if ex, ok := d.(*ssa.Extract); ok && ex.Tuple == ssa.Value(call) && ex.Index == 0 {
						return true
					}
				}
				return false
			}
			judge := func(in ssa.Instruction) {
				n++
				okg := false
				for _, g := range guardSet(in) {
					if strings.HasPrefix(g, "nil == result1(io.ReadAll(") {
						okg = true
					}
				}
				if !okg {
					bad = p.ipos(in)
				}
			}
			for _, b := range fn.Blocks {
				for _, in := range b.Instrs {
					switch x := in.(type) {
					case *ssa.Return:
						if len(x.Results) > 0 && decoded(x.Results[0]) {
							judge(x)
						}
					case *ssa.Store:
						// with a defer in the function the result travels through a cell
						if _, isCell := x.Addr.(*ssa.Alloc); isCell && decoded(x.Val) {
							judge(x)
						}
					}
				}
			}
			r.add("R13.4", "decoded-only-without-error|"+shortName(fn), p.ipos(cs.In), fmt.Sprintf("%d return(s) of what io.ReadAll decoded are taken only when it reported no error", n), bad == "" && n > 0,
				"a truncated <file>.bz2 is taken as the (shorter or empty) content of the old file; an old file that reads as empty equals a file that is gone, and the device is omitted: "+bad)
		}
	}
	// ---- R13.2 status update after the session
	ruleStatusAfterSession(p, r, "R13.2")
	ruleTruthfulStatus(p, r, "R13.5")
	rulePolicyOfTheCodeUsed(p, r)
	ruleWholeFileComparison(p, r, reader)
	ruleChangeSignalLogged(p, r)
	ruleFailedApproveKeepsHistoryConsistent(p, r)
	r.Trusted = []string{"go/ssa construction", "both sides share the struct type status.status, so field names agree by construction"}
	r.NotDec = "sufficiency of the two-slot encoding over all event histories; bzip2/removal cases at run time; clock monotonicity"
}

// mustPassBeforeReturn: every path from instruction `from` to a Return passes
// an instruction for which hit() is true.  Paths ending in Abort/panic do not
// count.  Returns a description of an offending return or "".
func mustPassBeforeReturn(p *Prog, from ssa.Instruction, hit func(ssa.Instruction) bool, exempt func(*ssa.BasicBlock) bool) string {
	type pos struct {
		b *ssa.BasicBlock
		i int
	}
	seen := map[*ssa.BasicBlock]bool{}
	var bad string
	var walk func(b *ssa.BasicBlock, start int)
	walk = func(b *ssa.BasicBlock, start int) {
		if bad != "" {
			return
		}
		for i := start; i < len(b.Instrs); i++ {
			in := b.Instrs[i]
			if hit(in) {
				return
			}
			if isAbortCall(in) {
				return
			}
			if _, ok := in.(*ssa.Panic); ok {
				return
			}
			if ret, ok := in.(*ssa.Return); ok {
				if exempt != nil && exempt(b) {
					return
				}
				bad = p.ipos(ret)
				return
			}
		}
		for _, s := range b.Succs {
			if !seen[s] {
				seen[s] = true
				walk(s, 0)
			}
		}
	}
	walk(from.Block(), instrIndex(from)+1)
	return bad
}

func ruleStatusAfterSession(p *Prog, r *Report, rule string) {
	r.rule(rule, "In every function that calls device.ApproveOrCompare and any status.Set* function (do-approve), every path from the ApproveOrCompare call to a return passes a call of status.SetApprove or status.SetCompare and afterwards a history line, except the audited edge where the log file cannot be read back; the `failed` argument of SetApprove and the return value derive from ApproveOrCompare's result and nothing else.")
	n := 0
	for _, fn := range allModFuncs(p) {
		aoc := callsTo(fn, "device.ApproveOrCompare")
		if len(aoc) == 0 {
			continue
		}
		hasStatus := false
		for _, cs := range callsOf(fn) {
			if strings.HasPrefix(cs.calleeName(), "status.Set") {
				hasStatus = true
			}
		}
		if !hasStatus {
			continue // drc: no status file
		}
		n++
		isSet := func(in ssa.Instruction) bool {
			if ci, ok := in.(ssa.CallInstruction); ok {
				if f := ci.Common().StaticCallee(); f != nil && strings.HasPrefix(shortName(f), "status.Set") {
					return true
				}
			}
			return false
		}
		// audited exemption: return on the error edge of os.ReadFile of the log file
		exempt := func(b *ssa.BasicBlock) bool {
			for _, bb := range fn.Blocks {
				i := ifOf(bb)
				if i == nil {
					continue
				}
				x, nonNil, ok := nilTest(i.Cond)
				if !ok {
					continue
				}
				ex, isEx := x.(*ssa.Extract)
				if !isEx {
					continue
				}
				call, isCall := ex.Tuple.(*ssa.Call)
				if !isCall || call.Common().StaticCallee() == nil || shortName(call.Common().StaticCallee()) != "os.ReadFile" {
					continue
				}
				ts := 0
				if !nonNil {
					ts = 1
				}
				if edgeDominates(bb, ts, b) {
					return true
				}
			}
			return false
		}
		bad := mustPassBeforeReturn(p, aoc[0].In, isSet, exempt)
		r.add(rule, "status-after-session|"+shortName(fn), p.ipos(aoc[0].In), "every path from the session to a return updates the status file", bad == "",
			"a return at "+bad+" is reachable after the session without a status update: missing-approve keeps believing the old state")
	}
	r.floor(rule, "front-ends with status update", n, 1)
}

// phiTrueUnder: bool value v can be true because of a constant true assigned in
// a block that is only reached on the given edge.
func phiTrueUnder(v ssa.Value, from *ssa.BasicBlock, succ int, seen map[ssa.Value]bool) bool {
	if seen[v] {
		return false
	}
	seen[v] = true
	switch x := v.(type) {
	case *ssa.Phi:
		for k, e := range x.Edges {
			pred := x.Block().Preds[k]
			if b, ok := constBool(e); ok {
				if b && (edgeDominates(from, succ, pred) || (pred == from && from.Succs[succ] == x.Block())) {
					return true
				}
				continue
			}
			if phiTrueUnder(e, from, succ, seen) {
				return true
			}
		}
	case *ssa.BinOp:
		if x.Op == token.OR || x.Op == token.LOR {
			return phiTrueUnder(x.X, from, succ, seen) || phiTrueUnder(x.Y, from, succ, seen)
		}
	}
	return false
}

// ruleTruthfulStatus: the failure of the session reaches the status file, the
// history and the exit status.
func ruleTruthfulStatus(p *Prog, r *Report, rule string) {
	r.rule(rule, "In do-approve the result of device.ApproveOrCompare is tested against 0; on the non-zero edge a flag becomes true that (a) is the `failed` argument of status.SetApprove, (b) makes the `changed` argument of status.SetCompare true, (c) selects the FAILED text of the END: history line and (d) the non-zero return value. The END: line is written on every path after the status update.")
	fn := p.Fn("doapprove.Main")
	if fn == nil {
		r.fail(rule, "anchor|doapprove.Main", "", "not found", "")
		return
	}
	aoc := callsTo(fn, "device.ApproveOrCompare")
	if len(aoc) != 1 {
		r.fail(rule, "anchor|ApproveOrCompare", "", fmt.Sprintf("%d calls of ApproveOrCompare in doapprove.Main", len(aoc)), "")
		return
	}
	res := aoc[0].In.Value()
	var condB *ssa.BasicBlock
	failSucc := 0
	for _, b := range fn.Blocks {
		i := ifOf(b)
		if i == nil {
			continue
		}
		c, neg := stripNot(i.Cond)
		bo, ok := c.(*ssa.BinOp)
		if !ok || bo.X != res {
			continue
		}
		k, isC := constInt(bo.Y)
		if !isC || k != 0 {
			continue
		}
		switch bo.Op {
		case token.NEQ, token.GTR:
			failSucc = 0
		case token.EQL:
			failSucc = 1
		default:
			continue
		}
		if neg {
			failSucc = 1 - failSucc
		}
		condB = b
	}
	if condB == nil {
		r.fail(rule, "result-tested|doapprove.Main", p.ipos(aoc[0].In), "the result of ApproveOrCompare is not compared with 0", "the session's failure is ignored")
		return
	}
	r.ok(rule, "result-tested|doapprove.Main", p.ipos(aoc[0].In), "result of ApproveOrCompare is compared with 0")
	for _, cs := range callsOf(fn) {
		switch cs.calleeName() {
		case "status.SetApprove", "status.SetCompare":
			args := cs.In.Common().Args
			flag := args[len(args)-1]
			ok := phiTrueUnder(flag, condB, failSucc, map[ssa.Value]bool{})
			r.add(rule, "failure-reaches|"+cs.calleeName(), p.ipos(cs.In), "a failed session makes the last argument of "+cs.calleeName()+" true", ok,
				"status records OK/UPTODATE although the session failed")
			if cs.calleeName() == "status.SetApprove" {
				// nothing but the session result may set it: all true edges come from the failure edge
				only := true
				var walk func(v ssa.Value, seen map[ssa.Value]bool)
				walk = func(v ssa.Value, seen map[ssa.Value]bool) {
					if seen[v] {
						return
					}
					seen[v] = true
					phi, isPhi := v.(*ssa.Phi)
					if !isPhi {
						if _, isC := constBool(v); !isC {
							only = false
						}
						return
					}
					for k, e := range phi.Edges {
						pred := phi.Block().Preds[k]
						if b, isC := constBool(e); isC {
							if b && !(edgeDominates(condB, failSucc, pred) || (pred == condB && condB.Succs[failSucc] == phi.Block())) {
								only = false
							}
							continue
						}
						walk(e, seen)
					}
				}
				walk(flag, map[ssa.Value]bool{})
				r.add(rule, "failed-only-from-session|status.SetApprove", p.ipos(cs.In), "`failed` is true exactly when the session result is non-zero", only,
					"FAILED can be recorded for another reason or OK despite failure")
			}
		}
	}
	// return value
	for _, ret := range returnsOf(fn) {
		if len(ret.Results) != 1 {
			continue
		}
		if k, ok := constInt(ret.Results[0]); ok && k == 0 {
			// a return 0 after the session must not be reachable on the failure edge without passing the flag test:
			// require that it is not dominated by the failure edge
			if blockReach(aoc[0].In.Block())[ret.Block()] && edgeDominates(condB, failSucc, ret.Block()) {
				r.fail(rule, "exit-status|doapprove.Main", p.ipos(ret), "return 0 on the failure edge", "exit status 0 after a failed session")
			}
		}
	}
	// END: line on all paths after status update
	isEnd := func(in ssa.Instruction) bool {
		ci, ok := in.(ssa.CallInstruction)
		if !ok {
			return false
		}
		for _, a := range ci.Common().Args {
			if el, ok := sliceLitElems(a); ok {
				for _, e := range el {
					for _, rt := range valueRoots(e) {
						if s, ok := constString(rt); ok && s == "END:" {
							return true
						}
					}
				}
			}
		}
		return false
	}
	nEnd := 0
	for _, cs := range callsOf(fn) {
		if strings.HasPrefix(cs.calleeName(), "status.Set") {
			bad := mustPassBeforeReturn(p, cs.In, isEnd, nil)
			nEnd++
			r.add(rule, "end-line-after|"+cs.calleeName(), p.ipos(cs.In), "an END: history line is written on every path after "+cs.calleeName(), bad == "", "return at "+bad+" without END: line")
		}
	}
	r.floor(rule, "status update sites", nEnd, 2)
	// END text: the message argument is "FAILED" under the failure flag
	okMsg := false
	for _, b := range fn.Blocks {
		for _, in := range b.Instrs {
			if phi, ok := in.(*ssa.Phi); ok {
				hasOK, hasFailed := false, false
				for _, e := range phi.Edges {
					if s, ok := constString(e); ok {
						if s == "OK" {
							hasOK = true
						}
						if s == "FAILED" {
							hasFailed = true
						}
					}
				}
				if hasOK && hasFailed {
					// the FAILED edge is taken on the true edge of a flag that is true under failure
					for k, e := range phi.Edges {
						if s, _ := constString(e); s == "FAILED" {
							pred := phi.Block().Preds[k]
							for _, bb := range fn.Blocks {
								i := ifOf(bb)
								if i == nil {
									continue
								}
								if (edgeDominates(bb, 0, pred) || pred == bb.Succs[0]) && phiTrueUnder(i.Cond, condB, failSucc, map[ssa.Value]bool{}) {
									okMsg = true
								}
							}
						}
					}
				}
			}
		}
	}
	r.add(rule, "end-text-failed|doapprove.Main", p.pos(fn.Pos()), "the END: text is FAILED when the session failed", okMsg, "history says OK after a failed session")
}

// rulePolicyOfTheCodeUsed: R13.7.
func rulePolicyOfTheCodeUsed(p *Prog, r *Report) {
	r.rule("R13.7", "The policy name recorded in a status slot is the policy whose code was handed to the device session: (a) in package status every value stored into the Policy field of an action derives from a parameter of the writing function (it is not looked up at write time, when `current` may already point to a newer policy); (b) at every call site of such a writer the policy argument and the code file argument of the device.ApproveOrCompare call in the same function derive from one and the same resolution of the `current` link: every call in the backward slice of the policy argument that can observe the outside world (anything but path/filepath/strings/fmt string functions) also lies in the backward slice of the code file argument, and there is at least one such call.")
	// (a)
	type wparam struct {
		fn  *ssa.Function
		idx int
	}
	var writers []wparam
	nStores := 0
	for _, fn := range allModFuncs(p) {
		if pkgOfFunc(fn) != "status" {
			continue
		}
		for _, b := range fn.Blocks {
			for _, in := range b.Instrs {
				st, ok := in.(*ssa.Store)
				if !ok {
					continue
				}
				fa, ok := st.Addr.(*ssa.FieldAddr)
				if !ok || !strings.HasSuffix(fieldName(fa), "action.Policy") {
					continue
				}
				nStores++
				okP := true
				var idxs []int
				for _, rt := range valueRoots(st.Val) {
					pa, isP := rt.(*ssa.Parameter)
					if !isP || pa.Parent() != fn {
						okP = false
						continue
					}
					for i, q := range fn.Params {
						if q == pa {
							idxs = append(idxs, i)
						}
					}
				}
				r.add("R13.7", "policy-from-parameter|"+shortName(fn), p.ipos(st), "the recorded policy is a parameter of "+shortName(fn), okP && len(idxs) > 0,
					"the recorded policy is determined when the status is written, not when the code was chosen: a policy switch during the session makes the status claim the new policy for old code")
				for _, i := range idxs {
					writers = append(writers, wparam{fn, i})
				}
			}
		}
	}
	r.floor("R13.7", "stores into action.Policy", nStores, 2)
	// (b)
	closure := func(v ssa.Value) map[ssa.Value]bool {
		seen := map[ssa.Value]bool{}
		var walk func(x ssa.Value)
		walk = func(x ssa.Value) {
			if x == nil || seen[x] {
				return
			}
			seen[x] = true
			if in, ok := x.(ssa.Instruction); ok {
				for _, op := range in.Operands(nil) {
					if *op != nil {
						walk(*op)
					}
				}
			}
			if u, ok := x.(*ssa.UnOp); ok && u.Op == token.MUL {
				if vals, ok := cellValues(u.X); ok {
					for _, sv := range vals {
						walk(sv)
					}
				}
			}
			if al, ok := x.(*ssa.Alloc); ok && al.Referrers() != nil {
				// elements stored into a local array (varargs)
				for _, ref := range *al.Referrers() {
					if ia, ok := ref.(*ssa.IndexAddr); ok && ia.Referrers() != nil {
						for _, r2 := range *ia.Referrers() {
							if st, ok := r2.(*ssa.Store); ok && st.Addr == ssa.Value(ia) {
								walk(st.Val)
							}
						}
					}
				}
			}
		}
		walk(v)
		return seen
	}
	nSites := 0
	done := map[string]bool{}
	for _, w := range writers {
		for _, e := range callersOf(p.CG(), w.fn) {
			if e.Site == nil || !isModFunc(e.Caller.Func) || e.Caller.Func.Synthetic != "" {
				continue
			}
			caller := e.Caller.Func
			key := "same-resolution|" + shortName(caller) + "|" + shortName(w.fn)
			if done[key] {
				continue
			}
			done[key] = true
			nSites++
			args := e.Site.Common().Args
			if w.idx >= len(args) {
				r.fail("R13.7", key, p.ipos(e.Site), "argument not found", "")
				continue
			}
			polSlice := closure(args[w.idx])
			var codeSlices []map[ssa.Value]bool
			for _, cs := range callsTo(caller, "device.ApproveOrCompare") {
				for _, a := range cs.In.Common().Args {
					if types.TypeString(a.Type(), nil) == "string" {
						codeSlices = append(codeSlices, closure(a))
					}
				}
			}
			common, foreign := "", ""
			pure := func(n string) bool {
				n = strings.TrimPrefix(n, "path/")
				return strings.HasPrefix(n, "path.") || strings.HasPrefix(n, "filepath.") && n != "filepath.EvalSymlinks" && n != "filepath.Glob" && n != "filepath.Abs" ||
					strings.HasPrefix(n, "strings.") || strings.HasPrefix(n, "fmt.Sprint")
			}
			for v := range polSlice {
				c, ok := v.(*ssa.Call)
				if !ok {
					continue
				}
				if _, isB := c.Common().Value.(*ssa.Builtin); isB {
					continue
				}
				n := "dynamic call"
				if f := c.Common().StaticCallee(); f != nil {
					n = shortName(f)
				}
				if pure(n) {
					continue
				}
				// a call that can observe the outside world (link resolution, environment, config ...)
				inAll := len(codeSlices) > 0
				for _, cs := range codeSlices {
					if !cs[v] {
						inAll = false
					}
				}
				if inAll {
					if common == "" || strings.Contains(n, "EvalSymlinks") || strings.Contains(n, "Readlink") {
						common = n + " at " + p.ipos(c)
					}
				} else {
					foreign = "the policy can also come from " + n + " at " + p.ipos(c) + ", which the code file does not derive from"
				}
			}
			if foreign != "" {
				common = ""
			}
			r.add("R13.7", key, p.ipos(e.Site), "policy argument and code file of the session derive from one resolution of `current` ("+common+")", common != "",
				"the recorded policy and the code that was approved/compared can belong to different policies. "+foreign)
		}
	}
	r.floor("R13.7", "call sites of status writers", nSites, 2)
}

// ruleWholeFileComparison: R13.8.
func ruleWholeFileComparison(p *Prog, r *Report, reader *ssa.Function) {
	r.rule("R13.8", "The reader decides 'same code' by comparing complete file contents: the decision to list the device is an If on the result of slices.Equal / bytes.Equal (or == on strings), and both operands are whole reads — result 0 of os.ReadFile, or of io.ReadAll on a reader built only from os.Open and bzip2.NewReader (no io.LimitReader / section reader / re-slice), possibly through a module helper all of whose returns have that form (nil for a missing file); every iteration of the loop over the parts reaches that comparison (a part missing on one side is a difference, not a reason to skip).")
	var whole func(v ssa.Value, d int) string
	whole = func(v ssa.Value, d int) string {
		if d > 6 {
			return "too deep"
		}
		if isNilConst(v) {
			return ""
		}
		switch x := v.(type) {
		case *ssa.Phi:
			for _, e := range x.Edges {
				if w := whole(e, d+1); w != "" {
					return w
				}
			}
			return ""
		case *ssa.UnOp:
			if vals, ok := cellValues(x.X); ok && x.Op == token.MUL {
				for _, sv := range vals {
					if w := whole(sv, d+1); w != "" {
						return w
					}
				}
				return ""
			}
		case *ssa.Convert:
			return whole(x.X, d+1)
		case *ssa.Slice:
			return "the contents are re-sliced at " + p.ipos(x)
		case *ssa.Extract:
			if x.Index != 0 {
				return "unexpected result index"
			}
			return whole(x.Tuple, d+1)
		case *ssa.Call:
			f := x.Common().StaticCallee()
			if f == nil {
				return "dynamic call at " + p.ipos(x)
			}
			switch shortName(f) {
			case "os.ReadFile":
				return ""
			case "io.ReadAll":
				// the reader argument: only os.Open / bzip2.NewReader / conversions
				seen := map[ssa.Value]bool{}
				var bad string
				var walk func(y ssa.Value)
				walk = func(y ssa.Value) {
					if y == nil || seen[y] || bad != "" {
						return
					}
					seen[y] = true
					if c, ok := y.(*ssa.Call); ok {
						n := "dynamic call"
						if cf := c.Common().StaticCallee(); cf != nil {
							n = shortName(cf)
						}
						if n != "os.Open" && n != "compress/bzip2.NewReader" && n != "bzip2.NewReader" && n != "bufio.NewReader" {
							bad = "the reader passed to io.ReadAll is wrapped by " + n + " at " + p.ipos(c)
							return
						}
					}
					if in, ok := y.(ssa.Instruction); ok {
						for _, op := range in.Operands(nil) {
							if *op != nil {
								walk(*op)
							}
						}
					}
					if u, ok := y.(*ssa.UnOp); ok && u.Op == token.MUL {
						if vals, ok := cellValues(u.X); ok {
							for _, sv := range vals {
								walk(sv)
							}
						}
					}
				}
				walk(x.Common().Args[0])
				return bad
			}
			if isModFunc(f) {
				for _, ret := range returnsOf(f) {
					if len(ret.Results) == 0 {
						return "helper " + shortName(f) + " returns nothing"
					}
					if w := whole(ret.Results[0], d+1); w != "" {
						return w
					}
				}
				return ""
			}
			return "contents come from " + shortName(f)
		}
		return "unrecognised origin " + descValue(v, 0)
	}
	n := 0
	for _, cs := range callsOf(reader) {
		name := cs.calleeName()
		if i := strings.Index(name, "["); i >= 0 {
			name = name[:i]
		}
		if name != "slices.Equal" && name != "bytes.Equal" {
			continue
		}
		n++
		bad := ""
		for _, a := range cs.In.Common().Args {
			if w := whole(a, 0); w != "" {
				bad = w
			}
		}
		r.add("R13.8", "whole-contents|"+shortName(reader), p.ipos(cs.In), "both sides of the code comparison are complete file contents", bad == "",
			"files that differ beyond the compared part are taken as equal and the device is omitted: "+bad)
		// every part is compared: no iteration of the loop over the parts skips the comparison
		var h *ssa.BasicBlock
		var body map[*ssa.BasicBlock]bool
		for _, hb := range reader.Blocks {
			if bd := naturalLoopBody(hb); bd != nil && bd[cs.In.Block()] && (body == nil || len(bd) < len(body)) {
				h, body = hb, bd
			}
		}
		if h == nil {
			r.fail("R13.8", "every-part-compared|"+shortName(reader), p.ipos(cs.In), "the content comparison is not inside the loop over the parts", "")
		} else {
			seen := map[*ssa.BasicBlock]bool{}
			skipped := false
			var walk func(b *ssa.BasicBlock)
			walk = func(b *ssa.BasicBlock) {
				if seen[b] || !body[b] || b == cs.In.Block() {
					return
				}
				seen[b] = true
				for _, sx := range b.Succs {
					if sx == h {
						skipped = true
						return
					}
					walk(sx)
				}
			}
			for _, sx := range h.Succs {
				walk(sx)
			}
			r.add("R13.8", "every-part-compared|"+shortName(reader), p.ipos(cs.In), "every iteration of the loop over the parts (code, ipv6, raw) reaches the content comparison", !skipped,
				"some parts are skipped without comparison (e.g. when the file is missing on one side): a device whose raw or IPv6 part was removed or added is omitted")
		}
	}
	r.floor("R13.8", "content comparisons in the reader", n, 1)
}

// ruleChangeSignalLogged: R13.9.
func ruleChangeSignalLogged(p *Prog, r *Report) {
	r.rule("R13.9", "do-approve learns the outcome of a compare from the log file: every constant prefix it tests log lines for (strings.HasPrefix(line, K) in doapprove.Main) is produced — a call of errlog.Info/Warning/Abort (or the format inside those functions) has a constant text starting with K — and the info channel is not switched off on this path: every value that reaches the global errlog.Quiet from a call in package doapprove is the constant false (errlog.Info prints only while Quiet is false; a suppressed 'comp: *** device changed ***' line makes do-approve record UPTODATE for a device that differs).")
	main := p.Fn("doapprove.Main")
	if main == nil {
		r.fail("R13.9", "anchor|doapprove.Main", "", "not found", "")
		return
	}
	// consumer constants
	var prefixes []string
	for _, cs := range callsOf(main) {
		if cs.calleeName() == "strings.HasPrefix" {
			if k, ok := constString(cs.In.Common().Args[1]); ok {
				prefixes = append(prefixes, k)
			}
		}
	}
	// producer texts: constant first arguments of errlog functions, and constant formats inside package errlog
	var texts []string
	for _, fn := range allModFuncs(p) {
		for _, cs := range callsOf(fn) {
			name := cs.calleeName()
			if strings.HasPrefix(name, "errlog.") || pkgOfFunc(fn) == "errlog" {
				for _, a := range cs.In.Common().Args {
					if k, ok := constString(a); ok {
						texts = append(texts, k)
					}
				}
			}
		}
		if pkgOfFunc(fn) == "errlog" {
			for _, b := range fn.Blocks {
				for _, in := range b.Instrs {
					if bo, ok := in.(*ssa.BinOp); ok {
						for _, v := range []ssa.Value{bo.X, bo.Y} {
							if k, ok := constString(v); ok {
								texts = append(texts, k)
							}
						}
					}
				}
			}
		}
	}
	n := 0
	for _, k := range prefixes {
		if k == "ERROR>>> while waiting for login prompt" {
			continue // refinement of the ERROR>>> prefix for --brief
		}
		n++
		found := false
		for _, t := range texts {
			if strings.HasPrefix(t, k) || strings.HasPrefix(k, strings.TrimRight(t, " ")) && len(t) >= 5 {
				found = true
			}
		}
		r.add("R13.9", "signal-produced|"+fmt.Sprintf("%q", k), p.pos(main.Pos()), fmt.Sprintf("a log line starting with %q is produced somewhere", k), found,
			"do-approve waits for a line nobody writes: the outcome it records does not depend on the device")
	}
	r.floor("R13.9", "log line prefixes tested by do-approve", n, 3)
	// stores into errlog.Quiet
	nq := 0
	for _, fn := range allModFuncs(p) {
		for _, b := range fn.Blocks {
			for _, in := range b.Instrs {
				st, ok := in.(*ssa.Store)
				if !ok {
					continue
				}
				g, ok := st.Addr.(*ssa.Global)
				if !ok || g.Name() != "Quiet" || g.Pkg == nil || shortPath(g.Pkg.Pkg.Path()) != "errlog" {
					continue
				}
				for _, rt := range valueRoots(st.Val) {
					pa, isP := rt.(*ssa.Parameter)
					if !isP {
						continue
					}
					owner := pa.Parent()
					idx := -1
					for i, q := range owner.Params {
						if q == pa {
							idx = i
						}
					}
					for _, e := range callersOf(p.CG(), owner) {
						if e.Site == nil || pkgOfFunc(e.Caller.Func) != "doapprove" || idx < 0 || idx >= len(e.Site.Common().Args) {
							continue
						}
						nq++
						arg := e.Site.Common().Args[idx]
						bv, isC := constBool(arg)
						r.add("R13.9", "info-channel-open|"+shortName(e.Caller.Func)+"|"+shortName(owner), p.ipos(e.Site), "do-approve passes the constant false for the parameter of "+shortName(owner)+" that becomes errlog.Quiet", isC && !bv,
							"info lines (among them the compare verdict 'comp: *** device changed ***') can be suppressed in a do-approve run: a difference is recorded as UPTODATE")
					}
				}
			}
		}
	}
	r.floor("R13.9", "calls from do-approve that set errlog.Quiet", nq, 1)
}

// ruleFailedApproveKeepsHistoryConsistent: R13.10.
func ruleFailedApproveKeepsHistoryConsistent(p *Prog, r *Report) {
	r.rule("R13.10", "A failed approve does not make an outdated compare verdict authoritative: the writer that stores the failure constant into the approve slot (overwriting the record of the last successful approve, which the reader would have preferred over any older compare) also resets the compare slot on the failure path, under a comparison of Compare.Time with the overwritten Approve.Time. History that fails otherwise: compare UPTODATE p1; approve OK p2; approve FAILED p3 with p3's code equal to p1's — the reader falls back to the compare of p1 and omits a device that carries p2's code.")
	fn := p.Fn("status.SetApprove")
	if fn == nil {
		r.fail("R13.10", "anchor|status.SetApprove", "", "not found", "")
		return
	}
	// stores into the Compare slot (whole struct or its fields) inside SetApprove
	reset := false
	timeCmp := false
	for _, b := range fn.Blocks {
		for _, in := range b.Instrs {
			st, ok := in.(*ssa.Store)
			if !ok {
				continue
			}
			path, _ := fieldPath(st.Addr)
			if len(path) >= 1 && path[0] == "Compare" {
				reset = true
				for _, g := range guardSet(st) {
					if strings.Contains(g, "status.action.Time") || strings.Contains(g, ".Time") {
						timeCmp = true
					}
				}
			}
		}
	}
	r.add("R13.10", "failed-approve-resets-older-compare|status.SetApprove", p.pos(fn.Pos()), "on the failure path the compare slot is reset when it is older than the overwritten successful approve", reset && timeCmp,
		"after approve OK p2 and approve FAILED p3 an older compare UPTODATE p1 decides: with p3's code equal to p1's the device is omitted although it carries p2's code")
}

// ruleStatusFileOnly: R13.12.
func ruleStatusFileOnly(p *Prog, r *Report) {
	r.rule("R13.12", "The status of a device is one file: every file that package status reads (os.ReadFile, os.Open, os.OpenFile) is <basedir>/status/<device> — the path is built from the constant \"status\" and no other string constant; what it writes is that file, or a temporary name in the same directory that is renamed onto it in the same function (atomic replace). A second copy that is read back (backup) can be older than the latest observation; a reader that falls back to it resurrects a superseded verdict.")
	consts := func(v ssa.Value) []string {
		var out []string
		for _, s := range pathConstants(v, 0, map[ssa.Value]bool{}) {
			if s != "" {
				out = append(out, s)
			}
		}
		sort.Strings(out)
		return uniqStrings(out)
	}
	isStatus := func(c []string) bool { return len(c) == 1 && c[0] == "status" }
	n := 0
	for _, fn := range allModFuncs(p) {
		if pkgOfFunc(fn) != "status" {
			continue
		}
		// temporary names renamed onto the status file
		renamed := map[string]bool{}
		for _, cs := range callsOf(fn) {
			if cs.calleeName() == "os.Rename" && isStatus(consts(cs.In.Common().Args[1])) {
				renamed[strings.Join(consts(cs.In.Common().Args[0]), "|")] = true
			}
		}
		for _, cs := range callsOf(fn) {
			name := cs.calleeName()
			switch name {
			case "os.ReadFile", "os.Open", "os.OpenFile", "os.WriteFile", "os.Create", "os.Rename", "os.Remove":
			default:
				continue
			}
			n++
			c := consts(cs.In.Common().Args[0])
			ok := isStatus(c)
			if !ok && (name == "os.WriteFile" || name == "os.Create" || name == "os.Rename" || name == "os.OpenFile") && renamed[strings.Join(c, "|")] {
				ok = true
			}
			r.add("R13.12", "status-file-only|"+fnDisplay(fn)+"|"+name, p.ipos(cs.In), fmt.Sprintf("%s in %s works on <basedir>/status/<device> (path constants %q)", name, fnDisplay(fn), c), ok,
				"package status reads or writes another file than the device's status file")
			// a status is replaced as a whole: a file opened for writing is truncated (or new)
			if name == "os.OpenFile" && len(cs.In.Common().Args) >= 2 {
				if fc, isC := cs.In.Common().Args[1].(*ssa.Const); isC && fc.Value != nil {
					flags, _ := constant.Int64Val(constant.ToInt(fc.Value))
					writes := flags&int64(os.O_WRONLY|os.O_RDWR) != 0
					whole := flags&int64(os.O_TRUNC) != 0 || flags&int64(os.O_EXCL) != 0
					if writes {
						r.add("R13.12", "status-written-whole|"+fnDisplay(fn), p.ipos(cs.In), "a status file opened for writing is truncated or created exclusively", whole && flags&int64(os.O_APPEND) == 0,
							"the new status is written over the old bytes: when it is shorter the tail of the old one stays behind it, the file no longer decodes, and the device counts as never approved")
					}
				} else {
					r.fail("R13.12", "status-written-whole|"+fnDisplay(fn), p.ipos(cs.In), "the flags of os.OpenFile are a constant", "cannot tell whether the file is truncated")
				}
			}
		}
	}
	r.floor("R13.12", "file operations of package status", n, 2)
}

// ruleCurrentPolicyStaysPlain: R13.15.  The reader walks the directory `current` points to and
// takes every file name without a dot for a device; it reads the files of that policy with
// os.ReadFile only (the bz2 fallback is for the observed, older policy).  That is right as long
// as nothing compresses the current policy.
func ruleCurrentPolicyStaysPlain(p *Prog, r *Report) {
	r.rule("R13.15", "missing-approve (and do-approve) read the files of the policy `current` points to uncompressed: device names are the dot-free file names of current/code, contents come from os.ReadFile. So no script under bin/ may compress that directory: every pipeline that starts with a find at the policies directory and ends in a compressor (bzip2, gzip, xz, ...) leaves out the directory named by a variable assigned from $(readlink .../current) (`! -name \"$CURRENT\"`). Decided on bash's parse of each script by shell/c19.py --compress-facts; nothing is executed. A policy that stays current for compress_at days would otherwise have all its devices dropped from the list.")
	cmd := exec.Command("python3", filepath.Join(verifDir(), "shell", "c19.py"), "--compress-facts")
	cmd.Env = append(os.Environ(), "VERIF_REPO="+p.RepoDir, "VERIF_DIR="+verifDir())
	out, err := cmd.Output()
	type fact struct {
		Script    string `json:"script"`
		Ok        bool   `json:"ok"`
		Commands  int    `json:"commands"`
		Pipelines int    `json:"pipelines"`
		Detail    string `json:"detail"`
	}
	var facts []fact
	if err == nil {
		err = json.Unmarshal(out, &facts)
	}
	if err != nil {
		r.fail("R13.15", "compress|shell-scripts", "bin/", "shell scripts could not be analysed: "+err.Error(), "undecided")
		return
	}
	pipes := 0
	for _, f := range facts {
		pipes += f.Pipelines
		r.add("R13.15", "compress|bin/"+f.Script, "bin/"+f.Script, fmt.Sprintf("%d simple commands, %d compressing pipeline(s) below the policies directory, each leaves out the current policy", f.Commands, f.Pipelines), f.Ok,
			"the current policy can be compressed: missing-approve then finds no device name in current/code and lists nothing, do-approve finds no code file: "+f.Detail)
	}
	r.floor("R13.15", "shell scripts under bin/ analysed", len(facts), 8)
	r.floor("R13.15", "compressing pipelines found", pipes, 1)
}
