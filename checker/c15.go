package main

// C15: IOS changes always run under a reload guard and survive its banners.

import (
	"fmt"
	"go/token"
	"go/types"
	"regexp"
	"regexp/syntax"
	"sort"
	"strconv"
	"strings"

	"golang.org/x/tools/go/ssa"
)

func init() { register("C15", "other", true, checkC15) }

func checkC15(p *Prog, r *Report) {
	ruleRegexpConsts(p, r, "R-RX", "C15", 1)
	ruleDeviceReadsAudited(p, r, "R15.13")
	ruleConsoleTypestate(p, r, "R15.10", map[string]bool{"ios": true, "cisco": true}, 10)
	ruleDialogueConsts(p, r, "R15.11", "C15")
	r.rule("R15.1", "Typestate schedule -> (changes)* -> cancel -> write: the functions that store true / false into ios.State.reloadActive are the arm and cancel functions; every call site of the IOS change sender (*ios.State).cmd, program-wide, lies in one function in which a call reaching the arm function dominates it and a `defer` of the cancel function is registered before it; the function that writes memory is called by a plain call that comes after the call of that guarded function, so the deferred cancel has run before the save; nothing but reads is sent between.")
	r.rule("R15.3", "reloadActive is set true only in the function that sends 'reload in N' and false only in the function that sends 'reload cancel'.")
	r.rule("R15.4", "In (*ios.State).cmd the validation closure strips the reload banner before the echo check: the argument of StripEcho derives from result 0 of stripReloadBanner, whose argument derives from GetOutput; the call of the re-arm function is guarded by the flag that accumulates result 1 of stripReloadBanner over both halves of a joined command (a later half must not overwrite an earlier true).")
	r.rule("R15.6", "In stripReloadBanner, once a banner was matched, the re-arm verdict (second result) of every return derives from matching the one-minute pattern against that banner's message; with no banner (or no active reload) it is the constant false.")
	pk := p.Mod["ios"]
	if pk == nil {
		r.fail("R15.1", "anchor|ios", "", "package ios not loaded", "")
		return
	}
	// field reloadActive
	var fld *types.Var
	if obj := pk.Types.Scope().Lookup("State"); obj != nil {
		st := obj.Type().Underlying().(*types.Struct)
		for i := 0; i < st.NumFields(); i++ {
			if f := st.Field(i); types.TypeString(f.Type(), nil) == "bool" {
				fld = f
			}
		}
	}
	if fld == nil {
		r.fail("R15.3", "anchor|ios.State bool field", "", "no bool field (reloadActive) in ios.State", "")
		return
	}
	var armFns, cancelFns []*ssa.Function
	for _, st := range storesToField(p, fld) {
		b, ok := constBool(st.Val)
		if !ok {
			r.fail("R15.3", "store-const|"+shortName(st.Parent()), p.ipos(st), "store of a non-constant into "+fldName(fld), "")
			continue
		}
		if b {
			armFns = append(armFns, st.Parent())
		} else {
			cancelFns = append(cancelFns, st.Parent())
		}
	}
	sendsConst := func(fn *ssa.Function, frag string) bool {
		for _, cs := range callsOf(fn) {
			for _, a := range cs.In.Common().Args {
				for _, rt := range valueRoots(a) {
					if s, ok := constString(rt); ok && strings.Contains(s, frag) {
						return true
					}
					if c, ok := rt.(*ssa.Call); ok && c.Common().StaticCallee() != nil && shortName(c.Common().StaticCallee()) == "fmt.Sprintf" {
						if s, ok := constString(c.Common().Args[0]); ok && strings.Contains(s, frag) {
							return true
						}
					}
				}
			}
		}
		return false
	}
	r.add("R15.3", "arm-function", "", fmt.Sprintf("reloadActive=true stored in %d function(s)", len(armFns)), len(armFns) == 1 && sendsConst(armFns[0], "reload in"),
		"the flag is raised somewhere else than where 'reload in N' is sent")
	r.add("R15.3", "cancel-function", "", fmt.Sprintf("reloadActive=false stored in %d function(s)", len(cancelFns)), len(cancelFns) == 1 && sendsConst(cancelFns[0], "reload cancel"),
		"the flag is lowered somewhere else than where 'reload cancel' is sent")
	if len(armFns) != 1 || len(cancelFns) != 1 {
		return
	}
	arm, cancel := armFns[0], cancelFns[0]
	cg := p.CG()
	reachesFn := func(from *ssa.Function, target *ssa.Function) bool {
		return from == target || reachFrom(cg, []*ssa.Function{from}, nil)[target]
	}
	// R15.8: the flag tells the truth
	r.rule("R15.8", "reloadActive is truthful: in the function that sends 'reload in N' every path from that send to a return raises the flag (the flag is not raised only for one of the device's dialogue variants), and in the function that sends 'reload cancel' that send lies on every path (no early return in front of it). Otherwise a reload armed on the device is not cancelled: the run reports success and the router reboots.")
	{
		isSendOf := func(frag string) func(ssa.Instruction) bool {
			return func(in ssa.Instruction) bool {
				ci, ok := in.(ssa.CallInstruction)
				if !ok {
					return false
				}
				for _, a := range ci.Common().Args {
					for _, rt := range valueRoots(a) {
						if s, ok := constString(rt); ok && strings.Contains(s, frag) {
							return true
						}
						if c, ok := rt.(*ssa.Call); ok && c.Common().StaticCallee() != nil && shortName(c.Common().StaticCallee()) == "fmt.Sprintf" {
							if s, ok := constString(c.Common().Args[0]); ok && strings.Contains(s, frag) {
								return true
							}
						}
					}
				}
				return false
			}
		}
		isFlagStore := func(val bool) func(ssa.Instruction) bool {
			return func(in ssa.Instruction) bool {
				st, ok := in.(*ssa.Store)
				if !ok {
					return false
				}
				fa, ok := st.Addr.(*ssa.FieldAddr)
				if !ok || !strings.HasSuffix(fieldName(fa), "."+fldName(fld)) {
					return false
				}
				bv, isC := constBool(st.Val)
				return isC && bv == val
			}
		}
		var sendArm ssa.Instruction
		for _, b := range arm.Blocks {
			for _, in := range b.Instrs {
				if sendArm == nil && isSendOf("reload in")(in) {
					sendArm = in
				}
			}
		}
		if sendArm == nil {
			r.fail("R15.8", "flag-raised-on-every-path|"+shortName(arm), p.pos(arm.Pos()), "send of 'reload in' not found", "")
		} else {
			bad := mustPassBeforeReturn(p, sendArm, isFlagStore(true), nil)
			r.add("R15.8", "flag-raised-on-every-path|"+shortName(arm), p.ipos(sendArm), "after 'reload in N' was sent every path to the return stores reloadActive = true", bad == "",
				"a reload can be scheduled on the device while the flag stays false (return at "+bad+"): it is neither cancelled nor re-armed, banners are not stripped")
		}
		// cancel: the send is reached from the entry on every path
		entry := cancel.Blocks[0].Instrs[0]
		bad := mustPassBeforeReturn(p, entry, isSendOf("reload cancel"), nil)
		if isSendOf("reload cancel")(entry) {
			bad = ""
		}
		r.add("R15.8", "cancel-unconditional|"+shortName(cancel), p.pos(cancel.Pos()), "'reload cancel' is sent on every path through the cancel function", bad == "",
			"the cancel function can return without sending 'reload cancel' (return at "+bad+")")
	}
	// change sender
	sender := p.Fn("(*ios.State).cmd")
	if sender == nil {
		r.fail("R15.1", "anchor|(*ios.State).cmd", "", "not found", "")
		return
	}
	var guarded *ssa.Function
	n := 0
	for _, e := range callersOf(cg, sender) {
		if e.Site == nil {
			continue
		}
		n++
		fn := e.Caller.Func
		armed, deferred := false, false
		for _, cs := range callsOf(fn) {
			if cs.Static == nil {
				continue
			}
			if !cs.Defer && reachesFn(cs.Static, arm) && idom(cs.In, e.Site) && !ireach(e.Site, cs.In) {
				armed = true
			}
			if cs.Defer && reachesFn(cs.Static, cancel) && idom(cs.In, e.Site) {
				deferred = true
			}
		}
		// arm must come before the deferred cancel registration? The cancel is deferred after arming:
		r.add("R15.1", "change-under-guard|"+shortName(fn), p.ipos(e.Site), "change command is sent after the reload was armed and with the cancel deferred", armed && deferred,
			"a change command can be sent without a scheduled reload, or the reload is not cancelled when the function unwinds")
		if armed && deferred {
			guarded = fn
		}
	}
	r.floor("R15.1", "call sites of the IOS change sender", n, 1)
	if guarded == nil {
		return
	}
	// arm before defer cancel; configure terminal after both; defer end after configure terminal
	{
		var armCall, deferCancel, confT, deferEnd ssa.Instruction
		for _, cs := range callsOf(guarded) {
			if cs.Static != nil && !cs.Defer && reachesFn(cs.Static, arm) && armCall == nil {
				armCall = cs.In
			}
			if cs.Static != nil && cs.Defer && reachesFn(cs.Static, cancel) {
				deferCancel = cs.In
			}
			for _, a := range cs.In.Common().Args {
				if s, ok := constString(a); ok {
					if s == "configure terminal" && !cs.Defer {
						confT = cs.In
					}
					if s == "end" && cs.Defer {
						deferEnd = cs.In
					}
				}
			}
			// `defer func() { s.Conn.SendCmd("end") }()`: the deferred closure sends it
			if cs.Defer {
				for _, cal := range calleesOfSite(p, cs) {
					if cal.Parent() != guarded {
						continue
					}
					for _, ics := range callsOf(cal) {
						for _, a := range ics.In.Common().Args {
							if s, ok := constString(a); ok && s == "end" {
								deferEnd = cs.In
							}
						}
					}
				}
			}
		}
		ok := armCall != nil && deferCancel != nil && before(armCall, deferCancel)
		r.add("R15.1", "arm-before-defer-cancel|"+shortName(guarded), p.pos(guarded.Pos()), "reload is armed before its cancellation is deferred", ok,
			"if arming aborts, a cancel for a reload that was never scheduled would be sent (or the cancel is registered too early)")
		ok2 := confT != nil && deferEnd != nil && deferCancel != nil && before(deferCancel, confT) && before(confT, deferEnd)
		r.add("R15.1", "confmode-inside-guard|"+shortName(guarded), p.pos(guarded.Pos()), "configure terminal after the guard is set up; `end` deferred after entering configuration mode (runs before the cancel)", ok2,
			"configuration mode is entered outside the reload guard or not left before 'reload cancel'")
	}
	// write memory after the guarded function, plain call
	var writeFn *ssa.Function
	for _, fn := range allModFuncs(p) {
		if pkgOfFunc(fn) == "ios" && sendsConst(fn, "write memory") {
			writeFn = fn
		}
	}
	if writeFn == nil {
		r.fail("R15.1", "anchor|write memory", "", "no function of package ios sends 'write memory'", "")
	} else {
		nW := 0
		for _, e := range callersOf(cg, writeFn) {
			if e.Site == nil {
				continue
			}
			nW++
			caller := e.Caller.Func
			_, plain := e.Site.(*ssa.Call)
			// the guarded function (closure) is called before, by a plain call, in the same caller
			var gcall ssa.Instruction
			for _, cs := range callsOf(caller) {
				if cs.Static == guarded && !cs.Defer {
					gcall = cs.In
				}
			}
			ok := plain && gcall != nil && before(gcall, e.Site)
			r.add("R15.1", "write-after-cancel|"+shortName(caller), p.ipos(e.Site), "write memory is a plain call after the guarded change function returned (its deferred cancel has run)", ok,
				"the configuration is saved while a reload is still pending, or saved although the changes aborted")
			// nothing but the save between: no other sending call between gcall and the write
			if gcall != nil {
				for _, cs := range callsOf(caller) {
					if cs.In == gcall || cs.In == e.Site {
						continue
					}
					if ireach(gcall, cs.In) && ireach(cs.In, e.Site) && reachesPrimitive(p, cg, caller, cs) {
						r.fail("R15.1", "send-between|"+shortName(caller)+"|"+cs.calleeName(), p.ipos(cs.In), "something is sent between cancel and write memory", "")
					}
				}
			}
		}
		r.floor("R15.1", "callers of the write-memory function", nW, 1)
	}

	// ---- R15.12: no unstripped echo check inside the reload window
	r.rule("R15.12", "While a reload is pending its banners can land in the echo of ANY command. In the code that runs between arming and cancelling (the guarded function, the arm and cancel functions and every function of package ios they reach) no call into package console reaches the echo check (*console.Conn).StripEcho; the only echo check of the window is the direct one in the change sender, behind stripReloadBanner (R15.4).")
	{
		echoFn := p.Fn("(*console.Conn).StripEcho")
		if echoFn == nil {
			r.fail("R15.12", "anchor|(*console.Conn).StripEcho", "", "not found", "")
		} else {
			window := map[*ssa.Function]bool{}
			var add func(f *ssa.Function)
			add = func(f *ssa.Function) {
				if f == nil || window[f] || pkgOfFunc(f) != "ios" {
					return
				}
				window[f] = true
				for _, a := range f.AnonFuncs {
					add(a)
				}
				for _, cs := range callsOf(f) {
					for _, cal := range calleesOfSite(p, cs) {
						add(cal)
					}
				}
			}
			add(guarded)
			add(arm)
			add(cancel)
			var fns []*ssa.Function
			for f := range window {
				fns = append(fns, f)
			}
			sort.Slice(fns, func(i, j int) bool { return fnDisplay(fns[i]) < fnDisplay(fns[j]) })
			nCalls := 0
			for _, f := range fns {
				seenCallee := map[string]bool{}
				for _, cs := range callsOf(f) {
					for _, cal := range calleesOfSite(p, cs) {
						if pkgOfFunc(cal) != "console" || cal == echoFn {
							continue
						}
						nCalls++
						k := fnDisplay(f) + "|" + shortName(cal)
						bad := reachesFn(cal, echoFn)
						if seenCallee[k] && !bad {
							continue
						}
						seenCallee[k] = true
						r.add("R15.12", "window-call|"+k, p.ipos(cs.In), "inside the reload window "+fnDisplay(f)+" calls "+shortName(cal)+", which performs no echo check", !bad,
							shortName(cal)+" compares the device's answer with the command's echo; a reload banner inside that echo aborts the run (changes not sent, or sent but not saved, reload left to the deferred cancel)")
					}
				}
			}
			r.floor("R15.12", "console calls inside the reload window", nCalls, 10)
		}
	}
	// ---- R15.4
	var chk *ssa.Function
	for _, a := range sender.AnonFuncs {
		for _, cs := range callsOf(a) {
			if cs.calleeName() == "(*console.Conn).StripEcho" {
				chk = a
			}
		}
	}
	if chk == nil {
		r.fail("R15.4", "anchor|validation closure", p.pos(sender.Pos()), "no closure of (*ios.State).cmd calls StripEcho", "")
	} else {
		var getOut, strip, echo *callSite
		for _, cs := range callsOf(chk) {
			switch cs.calleeName() {
			case "(*console.Conn).GetOutput":
				getOut = cs
			case "(*ios.State).stripReloadBanner":
				strip = cs
			case "(*console.Conn).StripEcho":
				echo = cs
			}
		}
		ok := getOut != nil && strip != nil && echo != nil
		if ok {
			t1 := taintFrom(chk, []ssa.Value{getOut.In.Value()})
			ok = t1[strip.In.Common().Args[1]] || strip.In.Common().Args[1] == getOut.In.Value()
			// StripEcho's string argument derives from result 0 of stripReloadBanner
			var r0 ssa.Value
			for _, ref := range *strip.In.Value().Referrers() {
				if ex, isEx := ref.(*ssa.Extract); isEx && ex.Index == 0 {
					r0 = ex
				}
			}
			if r0 == nil {
				ok = false
			} else {
				t2 := taintFrom(chk, []ssa.Value{r0})
				arg := echo.In.Common().Args[2]
				ok = ok && (t2[arg] || arg == r0)
			}
		}
		r.add("R15.4", "banner-stripped-before-echo|"+shortName(chk), p.pos(chk.Pos()), "GetOutput -> stripReloadBanner -> StripEcho", ok,
			"a reload banner inside the output breaks the echo check (or the banner is never removed)")
		// re-arm flag
		var flagCell ssa.Value
		if strip != nil {
			for _, ref := range *strip.In.Value().Referrers() {
				if ex, isEx := ref.(*ssa.Extract); isEx && ex.Index == 1 {
					// stored into a captured cell, possibly combined with its old value
					t := taintFrom(chk, []ssa.Value{ex})
					for _, b := range chk.Blocks {
						for _, in := range b.Instrs {
							if st, isSt := in.(*ssa.Store); isSt && (st.Val == ssa.Value(ex) || t[st.Val]) {
								if fv, isFV := st.Addr.(*ssa.FreeVar); isFV {
									flagCell = fv
									// accumulation: the stored value must also depend on the old value of the cell,
									// or the store must be conditional on the new value being true
									acc := false
									if st.Val != ssa.Value(ex) {
										for _, rt := range storeOperands(st.Val) {
											if u, isU := rt.(*ssa.UnOp); isU && u.Op == token.MUL && u.X == ssa.Value(fv) {
												acc = true
											}
										}
									}
									if g := gatedBy(st, func(cond ssa.Value) (bool, int) {
										c, neg := stripNot(cond)
										if c == ssa.Value(ex) {
											if neg {
												return true, 1
											}
											return true, 0
										}
										return false, 0
									}); g != nil {
										acc = true
									}
									r.add("R15.4", "rearm-flag-accumulates|"+shortName(chk), p.ipos(st), "the re-arm flag keeps an earlier true when the second half of a joined command is checked", acc,
										"check(c2) overwrites the flag set by check(c1): a one-minute warning seen in the first half of a two-command line does not re-arm the reload")
								}
							}
						}
					}
				}
			}
		}
		// extendReload guarded by the flag
		okG := false
		if flagCell != nil {
			bindings := freeVarBindings(flagCell.(*ssa.FreeVar))
			for _, cs := range callsOf(sender) {
				if cs.Static != nil && !cs.Defer && reachesFn(cs.Static, arm) {
					g := gatedBy(cs.In, func(cond ssa.Value) (bool, int) {
						c, neg := stripNot(cond)
						u, isU := c.(*ssa.UnOp)
						if !isU || u.Op != token.MUL {
							return false, 0
						}
						for _, b := range bindings {
							if u.X == b {
								if neg {
									return true, 1
								}
								return true, 0
							}
						}
						return false, 0
					})
					if g != nil {
						okG = true
					}
				}
			}
		}
		lostB := ""
		if flagCell == nil && strip != nil && chk.Signature.Results().Len() > 0 {
			// result form: the closure returns the one-minute verdict; every call's result
			// must reach the test that guards the re-arm call on every path
			var ex1 ssa.Value
			for _, ref := range *strip.In.Value().Referrers() {
				if ex, isEx := ref.(*ssa.Extract); isEx && ex.Index == 1 {
					ex1 = ex
				}
			}
			returnsVerdict := false
			if ex1 != nil {
				t := taintFrom(chk, []ssa.Value{ex1})
				for _, ret := range returnsOf(chk) {
					for _, rv := range ret.Results {
						if rv == ex1 || t[rv] {
							returnsVerdict = true
						}
					}
				}
			}
			isArmCall := func(in ssa.Instruction) bool {
				c, ok := in.(*ssa.Call)
				return ok && c.Common().StaticCallee() != nil && reachesFn(c.Common().StaticCallee(), arm)
			}
			guardOK := func(i *ssa.If) bool {
				b := i.Block()
				for k := range b.Succs {
					for _, bb := range sender.Blocks {
						if bb == b.Succs[k] || edgeDominates(b, k, bb) {
							for _, in := range bb.Instrs {
								if isArmCall(in) {
									return true
								}
							}
						}
					}
				}
				return false
			}
			nCalls := 0
			if returnsVerdict {
				for _, cs := range callsOf(sender) {
					if cs.Static == chk && cs.In.Value() != nil {
						nCalls++
						if lost := verdictMustReach(p, cs.In, isArmCall, guardOK); lost != "" {
							lostB = "the one-minute verdict of the call at " + p.ipos(cs.In) + " is lost before " + lost
						}
					}
				}
			}
			okG = returnsVerdict && nCalls >= 1 && lostB == ""
			r.add("R15.4", "rearm-flag-accumulates|"+shortName(chk), p.pos(chk.Pos()), "the one-minute verdict of every half of a joined command reaches the test that guards the re-arm", okG,
				"a one-minute warning seen in one half of a two-command line does not re-arm the reload: "+lostB)
		}
		r.add("R15.4", "rearm-on-flag|"+shortName(sender), p.pos(sender.Pos()), "the re-arm function is called when the one-minute flag is set", okG, "the one-minute warning does not re-arm the reload "+lostB)
	}

	// ---- R15.6
	sb := p.Fn("(*ios.State).stripReloadBanner")
	if sb == nil {
		r.fail("R15.6", "anchor|stripReloadBanner", "", "not found", "")
	} else {
		// banner match: result of FindStringSubmatchIndex tested != nil
		var found *ssa.If
		foundSucc := 0
		var matchCalls []ssa.Value
		for _, cs := range callsOf(sb) {
			if strings.HasPrefix(cs.calleeName(), "(*regexp.Regexp).FindStringSubmatch") {
				v := cs.In.Value()
				for _, b := range sb.Blocks {
					if i := ifOf(b); i != nil {
						if x, nn, ok := emptinessTest(i.Cond); ok && x == v {
							found = i
							if !nn {
								foundSucc = 1
							}
						}
					}
				}
			}
			if cs.calleeName() == "regexp.MatchString" || cs.calleeName() == "(*regexp.Regexp).MatchString" || cs.calleeName() == "strings.Contains" {
				if cs.In.Value() != nil {
					matchCalls = append(matchCalls, cs.In.Value())
				}
			}
		}
		if found == nil {
			r.fail("R15.6", "anchor|banner match", p.pos(sb.Pos()), "no test of a regexp match result", "")
		} else {
			t := taintFrom(sb, matchCalls)
			nret := 0
			for _, ret := range returnsOf(sb) {
				if len(ret.Results) < 2 {
					continue
				}
				v := ret.Results[1]
				if edgeDominates(found.Block(), foundSucc, ret.Block()) {
					nret++
					r.add("R15.6", "verdict-from-banner", p.ipos(ret), "after a banner was matched the re-arm verdict derives from the one-minute match on its message", t[v],
						"the message of the stripped banner is dropped: a one-minute warning in this position does not re-arm the reload")
				} else {
					b, isC := constBool(v)
					r.add("R15.6", "verdict-false-without-banner", p.ipos(ret), "without a banner the verdict is the constant false", isC && !b, "")
				}
			}
			r.floor("R15.6", "returns after a banner match", nret, 1)
		}
		// the one-minute matcher itself: evaluated over sample banner messages
		var yes = []string{" --- SHUTDOWN in 0:01:00 ---", " --- SHUTDOWN in 00:01:00 ---"}
		var no = []string{" --- SHUTDOWN in 0:02:00 ---", " --- SHUTDOWN in 0:11:00 ---", " --- SHUTDOWN in 1:01:00 ---", " --- SHUTDOWN ABORTED ---"}
		evaluated := 0
		for _, cs := range callsOf(sb) {
			var match func(string) bool
			desc := ""
			args := cs.In.Common().Args
			switch cs.calleeName() {
			case "regexp.MatchString":
				if pat, ok := constString(args[0]); ok {
					if re, err := regexp.Compile(pat); err == nil {
						match, desc = re.MatchString, "regexp "+strconv.Quote(pat)
					}
				}
			case "(*regexp.Regexp).MatchString":
				if pat, ok := regexpPatternOf(args[0]); ok {
					if re, err := regexp.Compile(pat); err == nil {
						match, desc = re.MatchString, "regexp "+strconv.Quote(pat)
					}
				}
			case "strings.Contains":
				if sub, ok := constString(args[1]); ok {
					match, desc = func(x string) bool { return strings.Contains(x, sub) }, "substring "+strconv.Quote(sub)
				}
			case "strings.HasSuffix", "strings.HasPrefix":
				if sub, ok := constString(args[1]); ok {
					pre := cs.calleeName() == "strings.HasPrefix"
					match, desc = func(x string) bool {
						if pre {
							return strings.HasPrefix(x, sub)
						}
						return strings.HasSuffix(x, sub)
					}, cs.calleeName()+" "+strconv.Quote(sub)
				}
			default:
				continue
			}
			if match == nil {
				continue
			}
			// only the matcher whose result reaches the second result of a return
			t := taintFrom(sb, []ssa.Value{cs.In.Value()})
			feeds := false
			for _, ret := range returnsOf(sb) {
				if len(ret.Results) >= 2 && t[ret.Results[1]] {
					feeds = true
				}
			}
			if !feeds {
				continue
			}
			evaluated++
			bad := ""
			for _, x := range yes {
				if !match(x) {
					bad += " does not match " + strconv.Quote(x) + ";"
				}
			}
			for _, x := range no {
				if match(x) {
					bad += " matches " + strconv.Quote(x) + ";"
				}
			}
			r.add("R15.6", "one-minute-matcher", p.ipos(cs.In), "the one-minute matcher ("+desc+") accepts the one-minute warning in both spellings IOS prints (0:01:00, 00:01:00) and no other banner", bad == "",
				"evaluated over sample banner messages:"+bad+" the reload is not re-armed (or re-armed at the wrong time)")
		}
		r.add("R15.6", "one-minute-matcher-found", p.pos(sb.Pos()), fmt.Sprintf("%d matcher(s) feeding the re-arm verdict evaluated", evaluated), evaluated >= 1,
			"the verdict does not come from a constant pattern that can be evaluated: undecided")
	}
	r.rule("R15.7", "What stripReloadBanner does after it removed a banner keeps its audited controlling conditions (tables/guards.tsv rows for C15): banner alone before the prompt -> wait for the next prompt and strip it; banner directly behind real output -> try a further prompt; otherwise nothing more is read. (Reading a prompt that will not come ends the run with a time-out; not reading one that comes shifts every later answer.)")
	ruleGuardTable(p, r, "R15.7", "C15")
	ruleBannerPatternBounded(p, r)
	// "only if all changes were accepted": the IOS instance of R09.1
	ruleOutputValidated(p, nil, r, "ios")
	r.Trusted = []string{"go/ssa, call graph", "IOS prints the reload banners in the forms bannerRe matches"}
	r.NotDec = "all offsets of an asynchronous banner inside a byte stream (run-time parsing); prepareDevice's session set-up commands are sent before the reload is scheduled (they are not change commands of the plan)"
}

// storeOperands: leaf operands of a boolean/|| expression (BinOp OR / phi).
func storeOperands(v ssa.Value) []ssa.Value {
	var out []ssa.Value
	seen := map[ssa.Value]bool{}
	var walk func(v ssa.Value)
	walk = func(v ssa.Value) {
		if seen[v] {
			return
		}
		seen[v] = true
		switch x := v.(type) {
		case *ssa.BinOp:
			walk(x.X)
			walk(x.Y)
		case *ssa.Phi:
			for _, e := range x.Edges {
				walk(e)
			}
			// `a || b` lowers to a phi whose control depends on a: include the conditions of the predecessors
			for _, pb := range x.Block().Preds {
				if i := ifOf(pb); i != nil {
					walk(i.Cond)
				}
			}
		default:
			out = append(out, v)
		}
	}
	walk(v)
	return out
}

// ruleBannerPatternBounded: R15.9.
func ruleBannerPatternBounded(p *Prog, r *Report) {
	r.rule("R15.9", "The reload-banner pattern removes exactly the banner: parsed with regexp/syntax, the constant pattern of ios.bannerRe has no unbounded repetition (*, +, {n,}) of anything that can match a newline, so the number of line ends it consumes is fixed. (A pattern that may swallow further newlines eats the line end of the neighbouring command echo; the echo check then aborts the run or a later answer is misread.)")
	var pat string
	found := false
	for _, fn := range allModFuncs(p) {
		if pkgOfFunc(fn) != "ios" || fn.Name() != "init" {
			continue
		}
		for _, b := range fn.Blocks {
			for _, in := range b.Instrs {
				st, ok := in.(*ssa.Store)
				if !ok {
					continue
				}
				g, ok := st.Addr.(*ssa.Global)
				if !ok || g.Name() != "bannerRe" {
					continue
				}
				if c, ok := st.Val.(*ssa.Call); ok && len(c.Common().Args) == 1 {
					if s, ok := constString(c.Common().Args[0]); ok {
						pat, found = s, true
					}
				}
			}
		}
	}
	if !found {
		r.fail("R15.9", "anchor|ios.bannerRe", "", "no constant pattern compiled into ios.bannerRe found", "")
		return
	}
	re, err := syntax.Parse(pat, syntax.Perl)
	if err != nil {
		r.fail("R15.9", "banner-pattern-parses", "", "pattern does not parse: "+err.Error(), "")
		return
	}
	var matchesNL func(x *syntax.Regexp) bool
	matchesNL = func(x *syntax.Regexp) bool {
		switch x.Op {
		case syntax.OpLiteral:
			for _, c := range x.Rune {
				if c == '\n' {
					return true
				}
			}
			return false
		case syntax.OpCharClass:
			for i := 0; i+1 < len(x.Rune); i += 2 {
				if x.Rune[i] <= '\n' && '\n' <= x.Rune[i+1] {
					return true
				}
			}
			return false
		case syntax.OpAnyChar:
			return true
		case syntax.OpAnyCharNotNL, syntax.OpEmptyMatch, syntax.OpBeginLine, syntax.OpEndLine, syntax.OpBeginText, syntax.OpEndText, syntax.OpWordBoundary, syntax.OpNoWordBoundary:
			return false
		}
		for _, s := range x.Sub {
			if matchesNL(s) {
				return true
			}
		}
		return false
	}
	bad := ""
	var walk func(x *syntax.Regexp)
	walk = func(x *syntax.Regexp) {
		unbounded := x.Op == syntax.OpStar || x.Op == syntax.OpPlus || (x.Op == syntax.OpRepeat && x.Max == -1)
		if unbounded && len(x.Sub) == 1 && matchesNL(x.Sub[0]) {
			bad = x.String()
		}
		for _, s := range x.Sub {
			walk(s)
		}
	}
	walk(re)
	r.add("R15.9", "banner-pattern-consumes-fixed-line-ends|ios.bannerRe", "", fmt.Sprintf("pattern %q has no unbounded repetition over newlines", pat), bad == "",
		"the sub-pattern "+bad+" can consume a varying number of newlines: line ends of neighbouring output are removed together with the banner")
}

// regexpPatternOf: the constant pattern of a *regexp.Regexp value (MustCompile(const) directly,
// or a package-level variable initialised with it).
func regexpPatternOf(re ssa.Value) (string, bool) {
	for _, rt := range valueRoots(re) {
		switch x := rt.(type) {
		case *ssa.Call:
			if f := x.Common().StaticCallee(); f != nil && strings.HasPrefix(shortName(f), "regexp.MustCompile") {
				if s, ok := constString(x.Common().Args[0]); ok {
					return s, true
				}
			}
		case *ssa.UnOp:
			if g, ok := x.X.(*ssa.Global); ok {
				if s := globalRegexpPattern(g); s != "" {
					return s, true
				}
			}
		}
	}
	return "", false
}
