package main

// C16: determinism.  E3: every range over a map in production code is
// order-insensitive by rule, or by an audited, kind-restricted exemption.

import (
	"fmt"
	"go/ast"
	"go/token"
	"go/types"
	"sort"
	"strings"

	"golang.org/x/tools/go/ssa"
)

func init() { register("C16", "proof", true, checkC16) }

type mapLoop struct {
	Fn      *ssa.Function
	Range   *ssa.Range
	Next    *ssa.Next
	Header  *ssa.BasicBlock
	Body    map[*ssa.BasicBlock]bool
	Key     ssa.Value // may be nil
	Val     ssa.Value // may be nil
	MapDesc string
	Kinds   map[string]string // kind -> first position/detail
	// distinct constants inserted into outer maps; more than one = inserts do not commute
	constVals map[string]bool
}

func isConstVal(v ssa.Value) bool { _, ok := v.(*ssa.Const); return ok }

func findMapLoops(p *Prog) []*mapLoop {
	var out []*mapLoop
	for _, fn := range allModFuncs(p) {
		for _, b := range fn.Blocks {
			for _, in := range b.Instrs {
				rg, ok := in.(*ssa.Range)
				if !ok {
					continue
				}
				if _, isMap := rg.X.Type().Underlying().(*types.Map); !isMap {
					continue
				}
				l := &mapLoop{Fn: fn, Range: rg, Kinds: map[string]string{}, constVals: map[string]bool{}}
				for _, ref := range *rg.Referrers() {
					if nx, ok := ref.(*ssa.Next); ok {
						l.Next = nx
					}
				}
				if l.Next == nil {
					continue
				}
				l.Header = l.Next.Block()
				for _, ref := range *l.Next.Referrers() {
					if ex, ok := ref.(*ssa.Extract); ok {
						switch ex.Index {
						case 1:
							l.Key = ex
						case 2:
							l.Val = ex
						}
					}
				}
				l.Body = map[*ssa.BasicBlock]bool{}
				if i := ifOf(l.Header); i != nil {
					entry := l.Header.Succs[0]
					for _, bb := range fn.Blocks {
						if entry.Dominates(bb) {
							l.Body[bb] = true
						}
					}
				}
				l.MapDesc = describeMapExpr(rg.X)
				out = append(out, l)
			}
		}
	}
	sort.Slice(out, func(i, j int) bool {
		if shortName(out[i].Fn) != shortName(out[j].Fn) {
			return shortName(out[i].Fn) < shortName(out[j].Fn)
		}
		return out[i].Range.Pos() < out[j].Range.Pos()
	})
	return out
}

// describeMapExpr: type + a short syntactic root of the ranged map (field or
// variable name), used as the table key together with the function.
func describeMapExpr(v ssa.Value) string {
	t := typeShort(v.Type())
	name := ""
	var walk func(v ssa.Value, d int)
	walk = func(v ssa.Value, d int) {
		if d > 6 || name != "" {
			return
		}
		switch x := v.(type) {
		case *ssa.UnOp:
			if x.Op == token.MUL {
				if fa, ok := x.X.(*ssa.FieldAddr); ok {
					name = fieldName(fa)
					return
				}
				if g, ok := x.X.(*ssa.Global); ok {
					name = "global " + g.Name()
					return
				}
				walk(x.X, d+1)
			}
		case *ssa.Lookup:
			if s, ok := constString(x.Index); ok {
				walk(x.X, d+1)
				if name != "" {
					name += fmt.Sprintf("[%q]", s)
				}
				return
			}
			walk(x.X, d+1)
			if name != "" {
				name += "[...]"
			}
		case *ssa.Parameter:
			name = "param " + x.Name()
		case *ssa.FreeVar:
			name = "captured " + x.Name()
		case *ssa.Alloc:
			name = "var " + x.Comment
		case *ssa.Extract:
			name = "element of outer range"
		case *ssa.Phi:
			name = "var " + x.Comment
		case *ssa.MakeMap:
			name = "local map"
		case *ssa.Call:
			if f := x.Common().StaticCallee(); f != nil {
				name = "result of " + shortName(f)
			}
		}
	}
	walk(v, 0)
	if name == "" {
		name = v.Name()
	}
	return t + " " + name
}

// ---- loop-relative classification ----

const (
	clsElem  = "elem"
	clsLocal = "local"
	clsOuter = "outer"
)

type loopCtx struct {
	l  *mapLoop
	sm *summarizer
	// what called functions write (roots in this function), for the read-after-write check
	callWritten []ssa.Value
}

// classOf: where does the memory designated by v live, relative to loop l?
func (c *loopCtx) classOf(v ssa.Value) map[string]bool {
	res := map[string]bool{}
	rc := &rootCtx{stop: func(v ssa.Value) (root, bool) {
		if v == c.l.Key || v == c.l.Val || v == ssa.Value(c.l.Next) {
			return root{Kind: clsElem}, true
		}
		// m2 := outer[rangeKey]: a different entry per iteration
		if lk, ok := v.(*ssa.Lookup); ok && c.l.Body[lk.Block()] && c.keyIncludesRangeKey(lk.Index) {
			return root{Kind: clsElem}, true
		}
		if in, ok := v.(ssa.Instruction); ok {
			if !c.l.Body[in.Block()] {
				// defined outside the loop body
				switch v.(type) {
				case *ssa.Const:
					return root{}, false
				}
				return root{Kind: clsOuter}, true
			}
		}
		return root{}, false
	}}
	for r := range rc.roots(v) {
		switch r.Kind {
		case clsElem:
			res[clsElem] = true
		case clsOuter, "param", "freevar", "global", "unknown":
			res[clsOuter] = true
		case "fresh":
			res[clsLocal] = true
		}
	}
	return res
}

func (c *loopCtx) invariant(v ssa.Value) bool {
	if _, ok := v.(*ssa.Const); ok {
		return true
	}
	if in, ok := v.(ssa.Instruction); ok {
		return !c.l.Body[in.Block()] && in.Block() != c.l.Header
	}
	switch v.(type) {
	case *ssa.Parameter, *ssa.FreeVar, *ssa.Global, *ssa.Function:
		return true
	}
	return false
}

// keyIncludesRangeKey: key value is the range key itself or a composite
// literal (array/struct built in the body) one of whose elements is.
func (c *loopCtx) keyIncludesRangeKey(k ssa.Value) bool {
	if c.l.Key == nil {
		return false
	}
	seen := map[ssa.Value]bool{}
	var has func(v ssa.Value, d int) bool
	has = func(v ssa.Value, d int) bool {
		if v == c.l.Key {
			return true
		}
		if d > 6 || seen[v] {
			return false
		}
		seen[v] = true
		switch x := v.(type) {
		case *ssa.UnOp:
			if x.Op == token.MUL {
				if al, ok := x.X.(*ssa.Alloc); ok {
					// composite literal assembled in a local: any store of the key into a field/index of it
					for _, ref := range *al.Referrers() {
						var addr ssa.Value
						switch y := ref.(type) {
						case *ssa.IndexAddr:
							addr = y
						case *ssa.FieldAddr:
							addr = y
						}
						if addr == nil {
							continue
						}
						for _, r2 := range *addr.Referrers() {
							if st, ok := r2.(*ssa.Store); ok && st.Addr == addr && has(st.Val, d+1) {
								return true
							}
						}
					}
					for _, st := range cellStores(al) {
						if has(st.Val, d+1) {
							return true
						}
					}
				}
			}
		case *ssa.ChangeType:
			return has(x.X, d+1)
		case *ssa.Convert:
			return has(x.X, d+1)
		case *ssa.MakeInterface:
			return has(x.X, d+1)
		}
		return false
	}
	return has(k, 0)
}

func (l *mapLoop) kind(k, detail string) {
	if _, ok := l.Kinds[k]; !ok {
		l.Kinds[k] = detail
	}
}

// analyse computes the order-sensitive effect kinds of the loop.
func (c *loopCtx) analyse(p *Prog) {
	l := c.l
	var bodyBlocks []*ssa.BasicBlock
	for _, b := range l.Fn.Blocks {
		if l.Body[b] {
			bodyBlocks = append(bodyBlocks, b)
		}
	}
	// maps written (updated or deleted from) inside the loop body
	var writtenMaps []ssa.Value
	for _, b := range bodyBlocks {
		for _, in := range b.Instrs {
			switch x := in.(type) {
			case *ssa.MapUpdate:
				writtenMaps = append(writtenMaps, x.Map)
			case ssa.CallInstruction:
				if bi, ok := x.Common().Value.(*ssa.Builtin); ok && bi.Name() == "delete" {
					writtenMaps = append(writtenMaps, x.Common().Args[0])
				}
			}
		}
	}
	for _, b := range bodyBlocks {
		for _, in := range b.Instrs {
			switch x := in.(type) {
			case *ssa.Lookup:
				// reading, under a key other than the range key, a map that this loop also
				// writes: the value read depends on which entries were visited before
				if _, isMap := x.X.Type().Underlying().(*types.Map); isMap && !c.keyIncludesRangeKey(x.Index) {
					// a map selected by the range key (outer[rangeKey]) belongs to this entry alone
					entryLocal := false
					for _, rt := range valueRoots(x.X) {
						if lk, ok := rt.(*ssa.Lookup); ok && c.keyIncludesRangeKey(lk.Index) {
							entryLocal = true
						}
						if ex, ok := rt.(*ssa.Extract); ok {
							if lk, ok := ex.Tuple.(*ssa.Lookup); ok && c.keyIncludesRangeKey(lk.Index) {
								entryLocal = true
							}
						}
					}
					if entryLocal {
						break
					}
					for _, w := range writtenMaps {
						if sameSlice(w, x.X) {
							l.kind("MAPREAD:other-entry-of-written-map", p.ipos(x))
						}
					}
				}
			case *ssa.Store:
				c.classifyStore(p, x)
			case *ssa.MapUpdate:
				cls := c.classOf(x.Map)
				if cls[clsOuter] {
					switch {
					case c.keyIncludesRangeKey(x.Key):
						l.kind("MAPSTORE:keyed", p.ipos(x))
					case isConstVal(x.Value):
						l.constVals[x.Value.(*ssa.Const).String()] = true
						l.kind("MAPSTORE:constval", p.ipos(x))
					default:
						l.kind("MAPSTORE:other", p.ipos(x))
					}
				} else if cls[clsElem] {
					l.kind("ELEMSTORE", p.ipos(x))
				}
			case ssa.CallInstruction:
				c.classifyCall(p, x)
			case *ssa.Return:
				inv := true
				for _, rv := range x.Results {
					if !c.invariant(rv) {
						inv = false
					}
				}
				if inv {
					l.kind("EXIT:invariant", p.ipos(x))
				} else {
					l.kind("EXIT:value", p.ipos(x))
				}
			case *ssa.Panic:
				l.kind("EMIT:Abort", p.ipos(x))
			}
		}
		// edges leaving the loop other than through the header
		for _, s := range b.Succs {
			if l.Body[s] || s == l.Header {
				continue
			}
			if blockAborts(b) {
				continue
			}
			// break / goto out of the loop: values carried out through phis of s
			inv := true
			for _, in := range s.Instrs {
				phi, ok := in.(*ssa.Phi)
				if !ok {
					break
				}
				for k, pred := range s.Preds {
					if pred == b && !c.invariant(phi.Edges[k]) {
						inv = false
					}
				}
			}
			if inv {
				l.kind("EXIT:invariant", p.pos(b.Instrs[len(b.Instrs)-1].Pos()))
			} else {
				l.kind("EXIT:value", p.pos(b.Instrs[len(b.Instrs)-1].Pos()))
			}
		}
	}
	// loop-carried variables: phis of the header
	for _, in := range l.Header.Instrs {
		phi, ok := in.(*ssa.Phi)
		if !ok {
			continue
		}
		c.classifyCarry(p, phi)
	}
	// a map that called functions write (under whatever key, constants included) and that the
	// loop body reads: what is read depends on which entries were visited before
	if len(c.callWritten) > 0 {
		sameMap := func(read, written ssa.Value) bool {
			if sameSlice(read, written) {
				return true
			}
			for _, rt := range valueRoots(read) {
				if rt == written {
					return true
				}
			}
			// load of a captured cell
			if u, ok := read.(*ssa.UnOp); ok && u.X == written {
				return true
			}
			return false
		}
		for _, b := range bodyBlocks {
			for _, in := range b.Instrs {
				lk, ok := in.(*ssa.Lookup)
				if !ok {
					continue
				}
				if _, isMap := lk.X.Type().Underlying().(*types.Map); !isMap {
					continue
				}
				for _, w := range c.callWritten {
					if _, isMapW := w.Type().Underlying().(*types.Map); !isMapW {
						if pt, isPtr := w.Type().Underlying().(*types.Pointer); !isPtr {
							continue
						} else if _, isMapP := pt.Elem().Underlying().(*types.Map); !isMapP {
							continue
						}
					}
					if sameMap(lk.X, w) {
						l.kind("MAPREAD:map-written-by-callee", p.ipos(lk))
					}
				}
			}
		}
	}
}

func (c *loopCtx) classifyStore(p *Prog, st *ssa.Store) {
	l := c.l
	// store into a variable cell declared outside the loop (captured / address taken)
	if al, ok := st.Addr.(*ssa.Alloc); ok {
		if l.Body[al.Block()] {
			return // per-iteration variable
		}
		c.classifyCellUpdate(p, st, al)
		return
	}
	if fv, ok := st.Addr.(*ssa.FreeVar); ok {
		c.classifyCellUpdate(p, st, fv)
		return
	}
	cls := c.classOf(st.Addr)
	switch {
	case cls[clsOuter]:
		if c.invariant(st.Val) {
			l.kind("OUTERSTORE:invariant", p.ipos(st))
		} else {
			l.kind("OUTERSTORE", p.ipos(st)+" "+st.Addr.String())
		}
	case cls[clsElem]:
		l.kind("ELEMSTORE", p.ipos(st))
	}
}

// classifyCellUpdate: assignment to an outer variable that lives in a cell.
func (c *loopCtx) classifyCellUpdate(p *Prog, st *ssa.Store, cell ssa.Value) {
	l := c.l
	v := st.Val
	if c.invariant(v) {
		l.kind("CARRY:flag", p.ipos(st))
		return
	}
	isLoadOfCell := func(x ssa.Value) bool {
		u, ok := x.(*ssa.UnOp)
		return ok && u.Op == token.MUL && u.X == cell
	}
	if bo, ok := v.(*ssa.BinOp); ok && (bo.Op == token.ADD || bo.Op == token.SUB) && isIntType(bo.Type()) {
		if (isLoadOfCell(bo.X) && c.invariant(bo.Y)) || (isLoadOfCell(bo.Y) && c.invariant(bo.X)) {
			l.kind("CARRY:count", p.ipos(st))
			return
		}
	}
	if call, ok := v.(*ssa.Call); ok {
		if b, ok := call.Common().Value.(*ssa.Builtin); ok && b.Name() == "append" && isLoadOfCell(call.Common().Args[0]) {
			l.kind("CARRY:append", p.ipos(st))
			return
		}
	}
	l.kind("CARRY:value", p.ipos(st))
}

func isIntType(t types.Type) bool {
	b, ok := t.Underlying().(*types.Basic)
	return ok && b.Info()&types.IsInteger != 0
}

func (c *loopCtx) classifyCarry(p *Prog, phi *ssa.Phi) {
	l := c.l
	// values flowing in over back edges (from body blocks)
	for k, pred := range l.Header.Preds {
		if !l.Body[pred] {
			continue
		}
		c.classifyCarryValue(p, phi, phi.Edges[k], map[ssa.Value]bool{})
	}
}

func (c *loopCtx) classifyCarryValue(p *Prog, phi *ssa.Phi, u ssa.Value, seen map[ssa.Value]bool) {
	l := c.l
	if u == ssa.Value(phi) || seen[u] {
		return // unchanged on this path
	}
	seen[u] = true
	pos := p.pos(phi.Pos())
	if in, ok := u.(ssa.Instruction); ok && in.Pos().IsValid() {
		pos = p.ipos(in)
	}
	name := phi.Comment
	if c.invariant(u) {
		l.kind("CARRY:flag", pos+" "+name)
		return
	}
	switch x := u.(type) {
	case *ssa.Phi:
		if l.Body[x.Block()] {
			for _, e := range x.Edges {
				c.classifyCarryValue(p, phi, e, seen)
			}
			return
		}
	case *ssa.BinOp:
		if (x.Op == token.ADD || x.Op == token.SUB) && isIntType(x.Type()) {
			if (x.X == ssa.Value(phi) && c.invariant(x.Y)) || (x.Y == ssa.Value(phi) && c.invariant(x.X)) {
				l.kind("CARRY:count", pos+" "+name)
				return
			}
		}
	case *ssa.Call:
		if b, ok := x.Common().Value.(*ssa.Builtin); ok && b.Name() == "append" {
			// append(phi-or-derived, ...)
			base := x.Common().Args[0]
			if c.derivesFromPhi(base, phi, map[ssa.Value]bool{}) {
				l.kind("CARRY:append", pos+" "+name)
				return
			}
		}
	}
	l.kind("CARRY:value", pos+" "+name)
}

func (c *loopCtx) derivesFromPhi(v ssa.Value, phi *ssa.Phi, seen map[ssa.Value]bool) bool {
	if v == ssa.Value(phi) {
		return true
	}
	if seen[v] {
		return false
	}
	seen[v] = true
	switch x := v.(type) {
	case *ssa.Phi:
		for _, e := range x.Edges {
			if c.derivesFromPhi(e, phi, seen) {
				return true
			}
		}
	case *ssa.Call:
		if b, ok := x.Common().Value.(*ssa.Builtin); ok && b.Name() == "append" {
			return c.derivesFromPhi(x.Common().Args[0], phi, seen)
		}
	}
	return false
}

func (c *loopCtx) classifyCall(p *Prog, ci ssa.CallInstruction) {
	l := c.l
	if isAbortCall(ci) {
		l.kind("EMIT:Abort", p.ipos(ci))
		return
	}
	c.sm.applyCall(l.Fn, ci,
		func(v ssa.Value, name string, constSet string) {
			cls := c.classOf(v)
			if _, isB := ci.Common().Value.(*ssa.Builtin); !isB {
				c.callWritten = append(c.callWritten, v)
			}
			if constSet != "" {
				if al, ok := v.(*ssa.Alloc); (ok && !l.Body[al.Block()]) || cls[clsOuter] {
					l.constVals[constSet] = true
					l.kind("CALLWRITE:constset", p.ipos(ci))
				}
				return
			}
			if b, ok := ci.Common().Value.(*ssa.Builtin); ok {
				name = b.Name()
				if name == "delete" && cls[clsOuter] {
					if c.keyIncludesRangeKey(ci.Common().Args[1]) {
						l.kind("MAPDELETE:keyed", p.ipos(ci))
					} else {
						l.kind("MAPDELETE:other", p.ipos(ci))
					}
					return
				}
			}
			// an outer variable cell written by a closure: treat like an assignment
			if al, ok := v.(*ssa.Alloc); ok && !l.Body[al.Block()] {
				l.kind("CALLWRITE:outer:"+name, p.ipos(ci))
				return
			}
			switch {
			case cls[clsOuter]:
				l.kind("CALLWRITE:outer:"+name, p.ipos(ci))
			case cls[clsElem]:
				l.kind("CALLWRITE:elem", p.ipos(ci))
			}
		},
		func(k string) { l.kind("EMIT:"+k, p.ipos(ci)) },
		func(g string) {
			if rest, ok := strings.CutPrefix(g, "constset:"); ok {
				_, cv, _ := strings.Cut(rest, "=")
				l.constVals[cv] = true
				l.kind("CALLWRITE:constset", p.ipos(ci))
				return
			}
			l.kind("CALLWRITE:global:"+g, p.ipos(ci))
		})
}

// sortedAfter: for CARRY:append — on every path after the loop, the first use
// of the accumulated slice is a sort (collect-then-sort idiom).
func (c *loopCtx) sortedAfter(p *Prog) bool {
	l := c.l
	ok := true
	found := false
	check := func(slice ssa.Value) {
		// uses outside the body
		var uses []ssa.Instruction
		for _, ref := range *slice.Referrers() {
			if !l.Body[ref.Block()] && ref.Block() != l.Header {
				uses = append(uses, ref)
			}
		}
		if len(uses) == 0 {
			return
		}
		found = true
		// find sort uses; every other use must be dominated by a sort use
		var sorts []ssa.Instruction
		for _, u := range uses {
			if ci, ok := u.(ssa.CallInstruction); ok {
				if f := ci.Common().StaticCallee(); f != nil {
					fnm, _, _ := strings.Cut(shortName(f), "[")
					switch fnm {
					case "sort.Strings", "slices.Sort", "sort.Ints":
						// only total orders on the elements themselves: a sort by a partial key
						// (sort.Slice / SortFunc) leaves ties in collection order, i.e. map order
						sorts = append(sorts, u)
					}
				}
			}
		}
		for _, u := range uses {
			dominated := false
			for _, s := range sorts {
				if s == u || idom(s, u) {
					dominated = true
				}
			}
			if !dominated {
				ok = false
			}
		}
	}
	for _, in := range l.Header.Instrs {
		if phi, isPhi := in.(*ssa.Phi); isPhi {
			if _, isSlice := phi.Type().Underlying().(*types.Slice); isSlice {
				check(phi)
			}
		}
	}
	// cell-based accumulation: loads of the cell after the loop
	for _, b := range l.Fn.Blocks {
		if !l.Body[b] {
			continue
		}
		for _, in := range b.Instrs {
			st, isSt := in.(*ssa.Store)
			if !isSt {
				continue
			}
			al, isAl := st.Addr.(*ssa.Alloc)
			if !isAl || l.Body[al.Block()] {
				continue
			}
			if _, isSlice := al.Type().Underlying().(*types.Pointer).Elem().Underlying().(*types.Slice); !isSlice {
				continue
			}
			for _, ref := range *al.Referrers() {
				if u, isU := ref.(*ssa.UnOp); isU && u.Op == token.MUL && !l.Body[u.Block()] && blockReach(l.Header)[u.Block()] {
					check(u)
				}
			}
		}
	}
	return ok && found
}

var safeKinds = map[string]bool{
	"ELEMSTORE": true, "CALLWRITE:elem": true, "MAPSTORE:keyed": true, "MAPSTORE:constval": true,
	"MAPDELETE:keyed": true, "OUTERSTORE:invariant": true, "CARRY:flag": true, "CARRY:count": true,
	"CARRY:append-sorted": true, "CALLWRITE:constset": true,
}

func isWriteKind(k string) bool {
	return strings.HasPrefix(k, "ELEMSTORE") || strings.HasPrefix(k, "CALLWRITE") || strings.HasPrefix(k, "MAPSTORE") ||
		strings.HasPrefix(k, "MAPDELETE") || strings.HasPrefix(k, "OUTERSTORE") || strings.HasPrefix(k, "CARRY")
}

// unsafeKinds applies the auto-safe rules and returns what is left.
func (c *loopCtx) unsafeKinds(p *Prog) []string {
	l := c.l
	kinds := map[string]bool{}
	for k := range l.Kinds {
		kinds[k] = true
	}
	if kinds["CARRY:append"] && c.sortedAfter(p) {
		delete(kinds, "CARRY:append")
		kinds["CARRY:append-sorted"] = true
		l.Kinds["CARRY:append-sorted"] = l.Kinds["CARRY:append"]
	}
	if len(l.constVals) > 1 {
		kinds["CONSTSET:conflicting-constants"] = true
		l.Kinds["CONSTSET:conflicting-constants"] = fmt.Sprint(l.constVals)
	}
	hasWrite := false
	hasOuterWrite := false
	for k := range kinds {
		if isWriteKind(k) && k != "CARRY:flag" {
			hasWrite = true
			switch k {
			case "ELEMSTORE", "CALLWRITE:elem", "MAPSTORE:keyed", "MAPDELETE:keyed":
				// confined to the entry being visited
			default:
				hasOuterWrite = true
			}
		}
	}
	var out []string
	for k := range kinds {
		switch {
		case safeKinds[k]:
		case k == "EXIT:invariant" && !hasWrite:
			// existential search: leaves with a constant as soon as some element matches
		case k == "EMIT:Abort" && !hasOuterWrite:
			// per-element validity check whose writes are confined to the visited
			// entry: whether the run aborts does not depend on the order (only which
			// element the message names, and error text is outside C16's statement)
		default:
			out = append(out, k)
		}
	}
	sort.Strings(out)
	return out
}

func checkC16(p *Prog, r *Report) {
	r.rule("R16.1", "Every `range` over a map in production code (enumerated on go/ssa: Range instructions with a map operand) has only order-insensitive effects: stores through the ranged element (ELEMSTORE, CALLWRITE:elem), stores into an outer map keyed by the range key or storing a constant (MAPSTORE:keyed/constval), deletes keyed by the range key, counters, constant flags, collect-then-sort appends, existential search exits carrying only constants, per-element aborts without other writes. Effects of called functions come from inter-procedural write/emit summaries. Any other kind (EMIT:Warning/Info/print, EXIT:value, CARRY:value, CARRY:append, MAPSTORE:other, MAPREAD:other-entry-of-written-map — a lookup, under a key other than the range key, in a map the loop also writes —, MAPREAD:map-written-by-callee — a lookup in a map that a function called in the loop writes —, OUTERSTORE, CALLWRITE:outer/global) must be permitted by a row of tables/maprange.tsv keyed by function + map; a row relaxes named kinds only, so a new effect inside an exempted loop is still reported.")
	sm := newSummarizer(p)
	loops := findMapLoops(p)
	r.floor("R16.1", "map range loops enumerated", len(loops), 30)
	// cross-check with the AST count
	astCount := 0
	for _, pk := range p.prodPkgs() {
		for _, f := range pk.Syntax {
			ast.Inspect(f, func(n ast.Node) bool {
				if rs, ok := n.(*ast.RangeStmt); ok {
					if t := pk.TypesInfo.TypeOf(rs.X); t != nil {
						if _, ok := t.Underlying().(*types.Map); ok {
							astCount++
						}
					}
				}
				return true
			})
		}
	}
	r.add("R16.1", "ssa-ast-agree", "", fmt.Sprintf("map ranges: %d in go/ssa, %d in the AST", len(loops), astCount), len(loops) == astCount,
		"a map range statement is not represented as an ssa.Range: the classifier would miss it")
	// exemptions
	type exRow struct {
		permitted map[string]bool
		reason    string
		used      bool
	}
	ex := map[string]*exRow{}
	for _, row := range readTable("maprange.tsv", 4) {
		perm := map[string]bool{}
		for _, k := range strings.Split(row[2], ",") {
			perm[strings.TrimSpace(k)] = true
		}
		ex[row[0]+"|"+row[1]] = &exRow{permitted: perm, reason: row[3]}
	}
	for _, l := range loops {
		c := &loopCtx{l: l, sm: sm}
		c.analyse(p)
		unsafe := c.unsafeKinds(p)
		var all []string
		for k := range l.Kinds {
			all = append(all, k)
		}
		sort.Strings(all)
		key := "maprange|" + shortName(l.Fn) + "|" + l.MapDesc
		pos := p.pos(l.Range.Pos())
		desc := fmt.Sprintf("range over %s: kinds {%s}", l.MapDesc, strings.Join(all, ", "))
		if len(unsafe) == 0 {
			r.ok("R16.1", key, pos, desc+" — all order-insensitive")
			continue
		}
		row := ex[shortName(l.Fn)+"|"+l.MapDesc]
		var notPermitted []string
		for _, k := range unsafe {
			if row == nil || !row.permitted[k] {
				notPermitted = append(notPermitted, k+" at "+l.Kinds[k])
			}
		}
		if row != nil {
			row.used = true
		}
		if len(notPermitted) == 0 {
			r.ok("R16.1", key, pos, desc+" — order-sensitive kinds permitted by audit row: "+row.reason)
		} else {
			r.fail("R16.1", key, pos, desc, "order-sensitive effects under map iteration: "+strings.Join(notPermitted, "; "))
		}
	}
	for k, row := range ex {
		if !row.used {
			r.note("stale exemption row in tables/maprange.tsv: %s", k)
		}
	}
	ruleAnchorUniform(p, r)
	ruleMapIterators(p, r)
	ruleNoNondetSources(p, r)
	ruleNoClockInComputation(p, r, "R16.6")
	ruleOpenFlags(p, r, "R16.7")
	r.Trusted = []string{"go/ssa construction", "sort/slices/maps.Keys+Sorted are deterministic functions of their input",
		"distinct entries of one map do not alias each other's memory (stated assumption for ELEMSTORE)",
		"standard-library functions not listed in libWrites (effects.go) do not write through their arguments"}
	r.NotDec = "determinism of the Go library sort and of fmt's sorted map printing (trusted)"
}

// kindClass: "CALLWRITE:outer:(*cisco.State).addCmds" -> "CALLWRITE:outer"
func kindClass(k string) string {
	parts := strings.SplitN(k, ":", 3)
	if len(parts) >= 2 {
		return parts[0] + ":" + parts[1]
	}
	return k
}

// ruleNoNondetSources: R16.2 / R16.3.
func ruleNoNondetSources(p *Prog, r *Report) {
	r.rule("R16.2", "Production code contains no go statement, select, channel operation, and imports neither math/rand nor crypto/rand; time.Now is called only in mytime.Now, whose callers are limited to log-file naming, history and status time stamps (never the planner).")
	r.rule("R16.3", "No format string in production code contains %p, and no pointer value is formatted with %v (checked: arguments of fmt verbs that are pointer-typed are errors/Stringers only).")
	n := 0
	for _, pk := range p.prodPkgs() {
		for _, f := range pk.Syntax {
			for _, imp := range f.Imports {
				path := strings.Trim(imp.Path.Value, `"`)
				if path == "math/rand" || path == "crypto/rand" || path == "math/rand/v2" {
					r.fail("R16.2", "import|"+shortPath(pk.PkgPath)+"|"+path, p.pos(imp.Pos()), "random source imported", "")
					n++
				}
			}
			ast.Inspect(f, func(nd ast.Node) bool {
				switch x := nd.(type) {
				case *ast.GoStmt:
					r.fail("R16.2", "go-stmt|"+declName(pk, enclosingDecl(f, x.Pos())), p.pos(x.Pos()), "goroutine started", "scheduling order is not deterministic")
					n++
				case *ast.SelectStmt:
					r.fail("R16.2", "select|"+declName(pk, enclosingDecl(f, x.Pos())), p.pos(x.Pos()), "select statement", "")
					n++
				}
				return true
			})
		}
	}
	// %p in format strings: constant string arguments of variadic ...any functions
	nfmt := 0
	for _, fn := range allModFuncs(p) {
		for _, cs := range callsOf(fn) {
			sig := cs.In.Common().Signature()
			if sig == nil || !sig.Variadic() {
				continue
			}
			for _, a := range cs.In.Common().Args {
				if s, ok := constString(a); ok && strings.Contains(s, "%") {
					nfmt++
					if strings.Contains(s, "%p") {
						r.fail("R16.3", "percent-p|"+shortName(fn)+"|"+cs.calleeName(), p.ipos(cs.In), "%p in a format string", "pointer values differ between runs")
						n++
					}
				}
			}
		}
	}
	r.floor("R16.3", "constant format strings inspected", nfmt, 50)
	// time.Now callers
	tn := 0
	for _, fn := range allModFuncs(p) {
		for _, cs := range callsOf(fn) {
			switch cs.calleeName() {
			case "time.Now", "os.Getpid", "time.Since":
				tn++
				ok := shortName(fn) == "mytime.Now"
				r.add("R16.2", "clock|"+shortName(fn)+"|"+cs.calleeName(), p.ipos(cs.In), cs.calleeName()+" called in "+shortName(fn), ok,
					"clock/pid read outside mytime.Now")
			}
		}
	}
	if my := p.Fn("mytime.Now"); my != nil {
		allowed := map[string]bool{"errlog.MoveLogFile": true, "doapprove.logHistory": true, "status.SetApprove": true, "status.SetCompare": true, "status.set": true}
		for _, e := range callersOf(p.CG(), my) {
			cn := shortName(e.Caller.Func)
			r.add("R16.2", "clock-user|"+cn, p.ipos(e.Site), "mytime.Now used by "+cn, allowed[cn],
				"the clock reaches code outside log naming / history / status")
		}
	}
	if n == 0 {
		r.ok("R16.2", "no-nondeterminism-source", "", "no goroutine, select, random source or %p in production code")
	}
	r.floor("R16.2", "clock call sites", tn, 1)
}

// ruleNoClockInComputation: R16.6 — what is computed from the two configurations does not
// depend on how long the computation takes.
func ruleNoClockInComputation(p *Prog, r *Report, rule string) {
	r.rule(rule, "Parsing, merging and planning do not consult the clock or the scheduler: no function reachable (VTA call graph) from a method ParseConfig, MergeSpoc, GetChanges or ShowChanges of the module calls time.Now / Since / Until / After / AfterFunc / NewTimer / NewTicker / Tick / Sleep, context.WithTimeout / WithDeadline (and their Cause variants), os.Getpid / Getppid / Hostname, runtime.Gosched / NumGoroutine / NumCPU / GOMAXPROCS or anything of math/rand. A result that depends on how long a diff took differs between two runs on the same input (a deadline that falls back to another plan).")
	forbidden := func(f *ssa.Function) bool {
		if f.Pkg == nil {
			return false
		}
		switch f.Pkg.Pkg.Path() {
		case "math/rand", "math/rand/v2", "crypto/rand":
			return true
		}
		switch shortName(f) {
		case "time.Now", "time.Since", "time.Until", "time.After", "time.AfterFunc", "time.NewTimer", "time.NewTicker", "time.Tick", "time.Sleep",
			"context.WithTimeout", "context.WithDeadline", "context.WithTimeoutCause", "context.WithDeadlineCause",
			"os.Getpid", "os.Getppid", "os.Hostname",
			"runtime.Gosched", "runtime.NumGoroutine", "runtime.NumCPU", "runtime.GOMAXPROCS":
			return true
		}
		return false
	}
	cg := p.CG()
	nRoots := 0
	for _, root := range allModFuncs(p) {
		if root.Parent() != nil || root.Synthetic != "" || root.Signature.Recv() == nil {
			continue
		}
		switch root.Name() {
		case "ParseConfig", "MergeSpoc", "GetChanges", "ShowChanges":
		default:
			continue
		}
		nRoots++
		seen := map[*ssa.Function]bool{}
		var bad []string
		var walk func(f *ssa.Function)
		walk = func(f *ssa.Function) {
			if seen[f] {
				return
			}
			seen[f] = true
			n := cg.Nodes[f]
			if n == nil {
				return
			}
			for _, e := range n.Out {
				c := e.Callee.Func
				if forbidden(c) {
					bad = append(bad, shortName(f)+" -> "+shortName(c)+" at "+p.ipos(e.Site))
					continue
				}
				if isModFunc(c) {
					walk(c)
				}
			}
		}
		walk(root)
		sort.Strings(bad)
		r.add(rule, "no-clock|"+shortName(root), p.pos(root.Pos()), fmt.Sprintf("%d functions reachable from %s consult neither clock nor scheduler", len(seen), shortName(root)), len(bad) == 0,
			"the result of the computation depends on time or scheduling: "+strings.Join(bad, "; "))
	}
	r.floor(rule, "ParseConfig / MergeSpoc / GetChanges / ShowChanges methods", nRoots, 15)
}

// ruleMapIterators: R16.5 — map iterators (maps.Keys/Values/All) are only fed
// into sorting collectors.
func ruleMapIterators(p *Prog, r *Report) {
	r.rule("R16.5", "Every call of maps.Keys / maps.Values / maps.All in production code has its result used only as the argument of slices.Sorted / slices.SortedFunc / slices.SortedStableFunc (so the unordered iterator never drives a loop or an unsorted collection).")
	n := 0
	for _, fn := range allModFuncs(p) {
		for _, cs := range callsOf(fn) {
			name := cs.calleeName()
			base, _, _ := strings.Cut(name, "[")
			if base != "maps.Keys" && base != "maps.Values" && base != "maps.All" {
				continue
			}
			n++
			v := cs.In.Value()
			ok := v != nil && len(*v.Referrers()) > 0
			if v != nil {
				for _, ref := range *v.Referrers() {
					ci, isCall := ref.(ssa.CallInstruction)
					if !isCall {
						ok = false
						continue
					}
					cn := ""
					if f := ci.Common().StaticCallee(); f != nil {
						cn, _, _ = strings.Cut(shortName(f), "[")
					}
					if !(cn == "slices.Sorted" || cn == "slices.SortedFunc" || cn == "slices.SortedStableFunc") {
						ok = false
					}
				}
			}
			r.add("R16.5", "map-iterator|"+shortName(fn)+"|"+base, p.ipos(cs.In), base+" result goes straight into a sorting collector", ok,
				"an unordered map iterator is consumed without sorting")
		}
	}
	r.floor("R16.5", "map iterator calls", n, 10)
}
