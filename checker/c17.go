package main

// C17: passwords, API keys and session tokens never reach logs, history,
// status, stdout or stderr.  E4: inter-procedural, label-aware taint analysis
// on go/ssa with label-polymorphic function summaries.

import (
	"fmt"
	"go/token"
	"go/types"
	"sort"
	"strings"

	"golang.org/x/tools/go/ssa"
)

func init() { register("C17", "other", true, checkC17) }

type secLabel uint8

const (
	lPassword secLabel = 1 << iota
	lAPIKey
	lToken
)

func (l secLabel) String() string {
	var s []string
	if l&lPassword != 0 {
		s = append(s, "password")
	}
	if l&lAPIKey != 0 {
		s = append(s, "apikey")
	}
	if l&lToken != 0 {
		s = append(s, "token")
	}
	return strings.Join(s, "+")
}

// atom: a concrete secret (with the place it entered an error/string, for
// reporting) or a symbolic dependency on a parameter / free variable of the
// function being summarised.
type tAtom struct {
	Kind   byte // 'C' concrete, 'P' parameter, 'F' free variable
	Idx    int  // label bit for C, index for P/F
	Origin string
}

// lset: atom -> labels that sanitisers have removed on the way
type lset map[tAtom]secLabel

func (a lset) clone() lset {
	o := lset{}
	for k, v := range a {
		o[k] = v
	}
	return o
}

func (a lset) union(b lset) bool {
	ch := false
	for k, m := range b {
		if k.Kind == 'C' && m&secLabel(k.Idx) != 0 {
			continue // masked concrete secret: gone
		}
		if old, ok := a[k]; !ok {
			a[k] = m
			ch = true
		} else if old&m != old {
			a[k] = old & m
			ch = true
		}
	}
	return ch
}

func (a lset) masked(m secLabel) lset {
	o := lset{}
	for k, v := range a {
		nv := v | m
		if k.Kind == 'C' && nv&secLabel(k.Idx) != 0 {
			continue
		}
		o[k] = nv
	}
	return o
}

func (a lset) concrete() []tAtom {
	var out []tAtom
	for k, m := range a {
		if k.Kind == 'C' && m&secLabel(k.Idx) == 0 {
			out = append(out, k)
		}
	}
	sort.Slice(out, func(i, j int) bool {
		return out[i].Origin+fmt.Sprint(out[i].Idx) < out[j].Origin+fmt.Sprint(out[j].Idx)
	})
	return out
}

type sinkHit struct {
	Sink   string // callee name of the sink
	Fn     *ssa.Function
	In     ssa.Instruction
	Labels lset
}

func (h sinkHit) id() string { return fmt.Sprintf("%s@%s", h.Sink, shortName(h.Fn)) }

type tSummary struct {
	Results []lset
	Sinks   map[string]sinkHit // by id + atom
	Fields  map[*types.Var]lset
}

type taintEngine struct {
	p       *Prog
	sums    map[*ssa.Function]*tSummary
	fields  map[*types.Var]lset // concrete labels stored into struct fields, program-wide
	changed bool
	// statistics
	nSources, nSinks, nSanitisers int
	srcSites                      map[string]bool
	sinkSites                     map[string]bool
	sanSites                      map[string]bool
}

var sinkFuncs = map[string]bool{
	"errlog.Info": true, "errlog.Warning": true, "errlog.Abort": true, "errlog.DoLog": true, "errlog.PrintWithMarker": true,
	"(*console.Conn).logString": true, "doapprove.logHistory": true, "status.write": true,
	"fmt.Print": true, "fmt.Printf": true, "fmt.Println": true,
	"(*os.File).Write": true, "(*os.File).WriteString": true, "os.WriteFile": true,
	"drc.abort": true, "doapprove.abort": true, "program.warn": true,
	// library functions that panic with a message quoting their argument: the Go runtime prints
	// the panic value on stderr (errlog.HandleAbort re-raises what is not its own abort)
	"regexp.MustCompile": true, "regexp.MustCompilePOSIX": true,
	"text/template.Must": true, "html/template.Must": true,
}

// quotedPattern: v is built from constants and results of regexp.QuoteMeta only.
func quotedPattern(v ssa.Value, d int) bool {
	if d > 8 {
		return false
	}
	switch x := v.(type) {
	case *ssa.Const:
		return true
	case *ssa.BinOp:
		return x.Op == token.ADD && quotedPattern(x.X, d+1) && quotedPattern(x.Y, d+1)
	case *ssa.Phi:
		for _, e := range x.Edges {
			if !quotedPattern(e, d+1) {
				return false
			}
		}
		return true
	case *ssa.Call:
		f := x.Common().StaticCallee()
		return f != nil && shortName(f) == "regexp.QuoteMeta"
	}
	return false
}

func isBuilderWriter(v ssa.Value) bool {
	t := v.Type()
	if mi, ok := v.(*ssa.MakeInterface); ok {
		t = mi.X.Type()
	}
	s := typeShort(t)
	return s == "*strings.Builder" || s == "*bytes.Buffer"
}

// maskOfRegexp: which label a ReplaceAllString with this regexp removes.
func maskOfRegexp(re ssa.Value) secLabel {
	for _, rt := range valueRoots(re) {
		// load of a package-level variable initialised with regexp.MustCompile(const)
		var pat string
		switch x := rt.(type) {
		case *ssa.Call:
			if f := x.Common().StaticCallee(); f != nil && strings.HasPrefix(shortName(f), "regexp.MustCompile") {
				pat, _ = constString(x.Common().Args[0])
			}
		case *ssa.UnOp:
			if g, ok := x.X.(*ssa.Global); ok {
				pat = globalRegexpPattern(g)
			}
		}
		var m secLabel
		if strings.Contains(pat, "password=") {
			m |= lPassword
		}
		if strings.Contains(pat, "key=") || strings.Contains(pat, "<key>") {
			m |= lAPIKey
		}
		if m != 0 {
			return m
		}
	}
	return 0
}

func globalRegexpPattern(g *ssa.Global) string {
	pkg := g.Package()
	init := pkg.Func("init")
	if init == nil {
		return ""
	}
	for _, b := range init.Blocks {
		for _, in := range b.Instrs {
			if st, ok := in.(*ssa.Store); ok && st.Addr == ssa.Value(g) {
				if c, ok := st.Val.(*ssa.Call); ok && c.Common().StaticCallee() != nil && strings.HasPrefix(shortName(c.Common().StaticCallee()), "regexp.MustCompile") {
					s, _ := constString(c.Common().Args[0])
					return s
				}
			}
		}
	}
	return ""
}

type fnCtx struct {
	e    *taintEngine
	fn   *ssa.Function
	memo map[ssa.Value]lset
	busy map[ssa.Value]bool
	// container taints: object value -> (instruction, labels)
	cont map[ssa.Value][]contTaint
	// values marked as sources in this function (arguments of parseAPIKey)
	marked map[ssa.Value]lset
}

type contTaint struct {
	In ssa.Instruction
	L  lset
}

func (c *fnCtx) labels(v ssa.Value) lset {
	if l, ok := c.memo[v]; ok {
		return l
	}
	if c.busy[v] {
		return lset{}
	}
	c.busy[v] = true
	l := c.eval(v)
	delete(c.busy, v)
	if m, ok := c.marked[v]; ok {
		l = l.clone()
		l.union(m)
	}
	c.memo[v] = l
	return l
}

// labelsAt: labels of v as seen by instruction use (adds container taints that
// happened before).
func (c *fnCtx) labelsAt(v ssa.Value, use ssa.Instruction) lset {
	l := c.labels(v).clone()
	objs := []ssa.Value{v}
	if mi, ok := v.(*ssa.MakeInterface); ok {
		objs = append(objs, mi.X)
	}
	if ct, ok := v.(*ssa.ChangeType); ok {
		objs = append(objs, ct.X)
	}
	for _, o := range objs {
		for _, ct := range c.cont[o] {
			if ct.In == nil || ireach(ct.In, use) {
				l.union(ct.L)
			}
		}
	}
	return l
}

func (c *fnCtx) eval(v ssa.Value) lset {
	out := lset{}
	switch x := v.(type) {
	case *ssa.Parameter:
		for i, p := range c.fn.Params {
			if p == x {
				out[tAtom{Kind: 'P', Idx: i}] = 0
			}
		}
	case *ssa.FreeVar:
		for i, p := range c.fn.FreeVars {
			if p == x {
				out[tAtom{Kind: 'F', Idx: i}] = 0
			}
		}
	case *ssa.Const, *ssa.Function, *ssa.Global, *ssa.Builtin:
	case *ssa.BinOp:
		out.union(c.labels(x.X))
		out.union(c.labels(x.Y))
	case *ssa.Phi:
		for _, e := range x.Edges {
			out.union(c.labels(e))
		}
	case *ssa.Convert:
		out.union(c.labels(x.X))
	case *ssa.ChangeType:
		out.union(c.labels(x.X))
	case *ssa.MakeInterface:
		out.union(c.labels(x.X))
	case *ssa.ChangeInterface:
		out.union(c.labels(x.X))
	case *ssa.TypeAssert:
		out.union(c.labels(x.X))
	case *ssa.Slice:
		out.union(c.labels(x.X))
	case *ssa.Index:
		out.union(c.labels(x.X))
	case *ssa.Lookup:
		out.union(c.labels(x.X))
	case *ssa.Field:
		out.union(c.labels(x.X))
	case *ssa.IndexAddr:
		out.union(c.labels(x.X))
		out = dropCredField(out, x.X, x.Index)
	case *ssa.FieldAddr:
		// address: labels of the object
		out.union(c.labels(x.X))
	case *ssa.Next:
		out.union(c.labels(x.Iter))
	case *ssa.Range:
		out.union(c.labels(x.X))
	case *ssa.Alloc:
		// variable cell: union of what is stored (flow-insensitive), in this function
		for _, st := range cellStores(x) {
			if st.Parent() == c.fn {
				out.union(c.labels(st.Val))
			}
		}
		// composite literal: values stored into fields/elements
		for _, ref := range *x.Referrers() {
			var addr ssa.Value
			switch y := ref.(type) {
			case *ssa.FieldAddr:
				addr = y
			case *ssa.IndexAddr:
				addr = y
			}
			if addr != nil {
				for _, r2 := range *addr.Referrers() {
					if st, ok := r2.(*ssa.Store); ok && st.Addr == addr {
						out.union(c.labels(st.Val))
					}
				}
			}
		}
	case *ssa.UnOp:
		if x.Op == token.MUL {
			switch a := x.X.(type) {
			case *ssa.FieldAddr:
				if fv := fieldVarOf(a); fv != nil {
					out.union(c.e.fields[fv])
				}
				// an object marked as a whole (the request a RoundTripper sees): every field carries the marks
				if m, ok := c.marked[a.X]; ok {
					out.union(m)
				}
				// a local struct: what was stored into this field of the same base
				for _, b := range c.fn.Blocks {
					for _, in := range b.Instrs {
						if st, ok := in.(*ssa.Store); ok {
							if fa2, ok := st.Addr.(*ssa.FieldAddr); ok && fa2.X == a.X && fa2.Field == a.Field {
								out.union(c.labels(st.Val))
							}
						}
					}
				}
			case *ssa.Alloc:
				out.union(c.labels(a))
			case *ssa.FreeVar:
				out.union(c.labels(a))
			case *ssa.IndexAddr:
				out.union(dropCredField(c.labels(a.X).clone(), a.X, a.Index))
			case *ssa.Global:
			default:
				out.union(c.labels(x.X))
			}
		} else {
			out.union(c.labels(x.X))
		}
	case *ssa.Extract:
		if call, ok := x.Tuple.(*ssa.Call); ok {
			out.union(c.callResult(call, x.Index))
		} else {
			out.union(c.labels(x.Tuple))
		}
	case *ssa.Call:
		out.union(c.callResult(x, 0))
	case *ssa.MakeClosure:
		for _, b := range x.Bindings {
			out.union(c.labels(b))
		}
	}
	return out
}

func origin(fn *ssa.Function, what string) string { return shortName(fn) + ":" + what }

// callResult: labels of result idx of call.
func (c *fnCtx) callResult(call *ssa.Call, idx int) lset {
	out := lset{}
	com := call.Common()
	if b, ok := com.Value.(*ssa.Builtin); ok {
		switch b.Name() {
		case "append":
			for _, a := range com.Args {
				out.union(c.labelsAt(a, call))
			}
		}
		return out
	}
	argAt := func(i int) lset {
		if i < len(com.Args) {
			return c.labelsAt(com.Args[i], call)
		}
		return lset{}
	}
	name := ""
	if f := com.StaticCallee(); f != nil {
		name = shortName(f)
	}
	switch name {
	case "(*program.Config).GetUserPass":
		if idx == 1 {
			out[tAtom{Kind: 'C', Idx: int(lPassword), Origin: origin(c.fn, "GetUserPass")}] = 0
			c.e.srcSites[c.e.p.ipos(call)+" password"] = true
			return out
		}
		// user name and error: what the function's summary says (an error text built from a
		// line of the credentials file carries the password)
	case "os.ReadFile":
		// the credentials file: every line holds a password in its third field
		if idx == 0 {
			for _, k := range pathConstants(com.Args[0], 0, map[ssa.Value]bool{}) {
				if k == "credentials" {
					out[tAtom{Kind: 'C', Idx: int(lPassword), Origin: origin(c.fn, credOrigin)}] = 0
					c.e.srcSites[c.e.p.ipos(call)+" password"] = true
				}
			}
		}
		return out
	case "golang.org/x/term.ReadPassword":
		if idx == 0 {
			out[tAtom{Kind: 'C', Idx: int(lPassword), Origin: origin(c.fn, "term.ReadPassword")}] = 0
			c.e.srcSites[c.e.p.ipos(call)+" password"] = true
		}
		return out
	case "panos.parseAPIKey":
		if idx == 0 {
			out[tAtom{Kind: 'C', Idx: int(lAPIKey), Origin: origin(c.fn, "parseAPIKey")}] = 0
			c.e.srcSites[c.e.p.ipos(call)+" apikey"] = true
		}
		return out
	case "(net/http.Header).Get":
		if s, ok := constString(com.Args[1]); ok && strings.Contains(strings.ToLower(s), "token") {
			out[tAtom{Kind: 'C', Idx: int(lToken), Origin: origin(c.fn, "Header.Get("+s+")")}] = 0
			c.e.srcSites[c.e.p.ipos(call)+" token"] = true
		}
		return out
	case "(*regexp.Regexp).ReplaceAllString", "(*regexp.Regexp).ReplaceAllLiteralString":
		src := argAt(1)
		repl, isC := constString(com.Args[2])
		if m := maskOfRegexp(com.Args[0]); m != 0 && isC && strings.Contains(repl, "xxx") {
			c.e.sanSites[c.e.p.ipos(call)+" masks "+m.String()] = true
			return src.masked(m)
		}
		out.union(src)
		return out
	case "(*net/http.Client).Get", "(*net/http.Client).Head", "(*net/http.Client).PostForm", "(*net/http.Client).Post":
		// *url.Error embeds the request URL, not the body
		if errIdx := 1; idx == errIdx {
			for a, m := range argAt(1) {
				a.Origin = origin(c.fn, name+" error")
				out[a] = m
			}
		}
		return out
	case "(*net/http.Client).Do":
		if idx == 1 {
			for a, m := range argAt(1) {
				a.Origin = origin(c.fn, name+" error")
				out[a] = m
			}
		}
		return out
	case "net/http.NewRequest", "net/http.NewRequestWithContext":
		// the request object carries the URL (for Do's error); headers/body are separate objects
		if idx == 0 {
			out.union(argAt(1))
		}
		return out
	case "(*github.com/tailscale/goexpect.GExpect).Send", "(*github.com/tailscale/goexpect.GExpect).Expect":
		return out // what is sent does not come back in the result
	}
	callees := c.e.calleesOf(c.fn, call)
	if len(callees) == 0 || !isModFunc(callees[0]) {
		// library call: the result may contain any argument
		if name == "fmt.Sprint" || name == "fmt.Sprintf" || name == "fmt.Sprintln" || name == "fmt.Errorf" || name == "fmt.Fprintf" || true {
			for i, a := range com.Args {
				_ = i
				if el, ok := sliceLitElems(a); ok {
					for _, e := range el {
						out.union(c.labelsAt(e, call))
					}
				}
				out.union(c.labelsAt(a, call))
			}
			if com.IsInvoke() {
				out.union(c.labelsAt(com.Value, call))
			}
		}
		return out
	}
	for _, cal := range callees {
		sum := c.e.sums[cal]
		if sum == nil || idx >= len(sum.Results) {
			continue
		}
		out.union(c.subst(sum.Results[idx], call, cal))
	}
	return out
}

// subst: replace the callee's symbolic atoms by the labels of the actual
// arguments / closure bindings at this call.
func (c *fnCtx) subst(l lset, call ssa.CallInstruction, cal *ssa.Function) lset {
	out := lset{}
	com := call.Common()
	for a, m := range l {
		switch a.Kind {
		case 'C':
			out.union(lset{a: m})
		case 'P':
			var arg ssa.Value
			if h := com.StaticCallee(); h != nil && h != cal && !com.IsInvoke() {
				// refined parameter call: cal is a function value passed to h, invoked inside h
				for _, vs := range c.e.p.Via[cal] {
					if vs.Parent() == h && a.Idx < len(vs.Common().Args) {
						// argument inside h: its labels in h's context cannot be expressed here; be conservative:
						// union of all arguments of this call
						for _, x := range com.Args {
							out.union(c.labelsAt(x, call).masked(m))
						}
					}
				}
				continue
			}
			ai := a.Idx
			if com.IsInvoke() {
				if ai == 0 {
					arg = com.Value
				} else if ai-1 < len(com.Args) {
					arg = com.Args[ai-1]
				}
			} else if ai < len(com.Args) {
				arg = com.Args[ai]
			}
			if arg != nil {
				out.union(reorigin(c.labelsAt(arg, call).masked(m), a.Origin))
				if el, ok := sliceLitElems(arg); ok {
					for _, e := range el {
						out.union(reorigin(c.labelsAt(e, call).masked(m), a.Origin))
					}
				}
			}
		case 'F':
			// closure binding
			var mc *ssa.MakeClosure
			for _, rt := range valueRoots(com.Value) {
				if x, ok := rt.(*ssa.MakeClosure); ok && x.Fn == cal {
					mc = x
				}
			}
			if mc == nil {
				// closure created in this function (or a parent) and passed around
				for _, b := range c.fn.Blocks {
					for _, in := range b.Instrs {
						if x, ok := in.(*ssa.MakeClosure); ok && x.Fn == cal {
							mc = x
						}
					}
				}
			}
			if mc != nil && mc.Parent() == c.fn && a.Idx < len(mc.Bindings) {
				out.union(reorigin(c.labelsAt(mc.Bindings[a.Idx], call).masked(m), a.Origin))
			} else if mc == nil {
				// the callee's free variable is also a free variable here (nested closures)
				for i, fv := range c.fn.FreeVars {
					if a.Idx < len(cal.FreeVars) && fv.Name() == cal.FreeVars[a.Idx].Name() {
						out.union(lset{tAtom{Kind: 'F', Idx: i}: m})
					}
				}
			}
		}
	}
	return out
}

// reorigin: a symbolic atom that passed an origin-rewriting step (error created
// from a URL) hands that origin to whatever it resolves to.
func reorigin(l lset, org string) lset {
	if org == "" {
		return l
	}
	out := lset{}
	for a, m := range l {
		a.Origin = org
		out[a] = m
	}
	return out
}

func (e *taintEngine) calleesOf(fn *ssa.Function, call ssa.CallInstruction) []*ssa.Function {
	cs := &callSite{In: call, Fn: fn, Static: call.Common().StaticCallee()}
	if cs.Static != nil {
		// refined parameter call? add the functions passed
		out := []*ssa.Function{cs.Static}
		if n := e.p.CG().Nodes[fn]; n != nil {
			for _, ed := range n.Out {
				if ed.Site == call && ed.Callee.Func != cs.Static {
					out = append(out, ed.Callee.Func)
				}
			}
		}
		return out
	}
	if pcs := e.p.ParamCallees[call]; len(pcs) > 0 {
		return pcs
	}
	return calleesOfSite(e.p, cs)
}

// analyse one function: container taints, field stores, sinks, results.
func (e *taintEngine) analyse(fn *ssa.Function) {
	c := &fnCtx{e: e, fn: fn, memo: map[ssa.Value]lset{}, busy: map[ssa.Value]bool{}, cont: map[ssa.Value][]contTaint{}, marked: map[ssa.Value]lset{}}
	sum := e.sums[fn]
	// pre-pass: arguments of parseAPIKey are API-key material where they are defined
	for _, cs := range callsOf(fn) {
		if cs.calleeName() == "panos.parseAPIKey" {
			a := cs.In.Common().Args[0]
			c.marked[a] = lset{tAtom{Kind: 'C', Idx: int(lAPIKey), Origin: origin(fn, "keygen reply")}: 0}
			// and everything it was converted from/to in this function
			for _, rt := range valueRoots(a) {
				c.marked[rt] = c.marked[a]
			}
		}
	}
	// a module type used as http.RoundTripper sees every request of the client it is installed in:
	// the request (URL with login password / API key in the query, header with the session token)
	// carries all request-borne secrets
	if fn.Name() == "RoundTrip" && fn.Signature.Recv() != nil && len(fn.Params) == 2 &&
		typeShort(fn.Params[1].Type()) == "*net/http.Request" {
		req := fn.Params[1]
		c.marked[req] = lset{
			tAtom{Kind: 'C', Idx: int(lPassword), Origin: origin(fn, "request seen by a custom RoundTripper")}: 0,
			tAtom{Kind: 'C', Idx: int(lAPIKey), Origin: origin(fn, "request seen by a custom RoundTripper")}:   0,
			tAtom{Kind: 'C', Idx: int(lToken), Origin: origin(fn, "request seen by a custom RoundTripper")}:    0,
		}
	}
	// container taints (two rounds to let them feed each other)
	for round := 0; round < 2; round++ {
		c.memo = map[ssa.Value]lset{}
		for _, b := range fn.Blocks {
			for _, in := range b.Instrs {
				switch x := in.(type) {
				case *ssa.Store:
					l := c.labelsAt(x.Val, x)
					if len(l) == 0 {
						continue
					}
					if fa, ok := x.Addr.(*ssa.FieldAddr); ok {
						// object whose field is written becomes a carrier
						c.cont[fa.X] = append(c.cont[fa.X], contTaint{x, l})
					}
				case *ssa.MapUpdate:
					l := c.labelsAt(x.Value, x)
					if len(l) > 0 {
						c.cont[x.Map] = append(c.cont[x.Map], contTaint{x, l})
					}
				case ssa.CallInstruction:
					com := x.Common()
					f := com.StaticCallee()
					if f == nil || isModFunc(f) || len(com.Args) < 2 {
						continue
					}
					n := shortName(f)
					isMut := strings.HasSuffix(n, ").Set") || strings.HasSuffix(n, ").Add") || strings.HasSuffix(n, ").WriteString") || strings.HasSuffix(n, ").Write") ||
						strings.HasPrefix(n, "fmt.Fprint")
					if !isMut {
						continue
					}
					l := lset{}
					for _, a := range com.Args[1:] {
						l.union(c.labelsAt(a, x))
						if el, ok := sliceLitElems(a); ok {
							for _, e2 := range el {
								l.union(c.labelsAt(e2, x))
							}
						}
					}
					if len(l) > 0 {
						recv := com.Args[0]
						for _, al := range fieldLoadAliases(fn, recv) {
							c.cont[al] = append(c.cont[al], contTaint{x, l})
						}
						// a container kept in a variable: every load of that variable is the container.
						// When the variable lives longer than this invocation (captured, global) the
						// secret put in now is still there when the function is entered again: the
						// taint holds for every use, also those in front of the Set.
						if ld, ok := recv.(*ssa.UnOp); ok && ld.Op == token.MUL {
							var at ssa.Instruction = x
							switch ld.X.(type) {
							case *ssa.FreeVar, *ssa.Global:
								at = nil
							}
							for _, b2 := range fn.Blocks {
								for _, in2 := range b2.Instrs {
									if l2, ok := in2.(*ssa.UnOp); ok && l2.Op == token.MUL && l2.X == ld.X && l2 != ld {
										c.cont[l2] = append(c.cont[l2], contTaint{at, l})
									}
								}
							}
							if at == nil {
								c.cont[recv] = append(c.cont[recv], contTaint{nil, l})
							}
						}
						c.cont[recv] = append(c.cont[recv], contTaint{x, l})
						if mi, ok := recv.(*ssa.MakeInterface); ok {
							c.cont[mi.X] = append(c.cont[mi.X], contTaint{x, l})
						}
						if ct, ok := recv.(*ssa.ChangeType); ok {
							c.cont[ct.X] = append(c.cont[ct.X], contTaint{x, l})
						}
					}
				}
			}
		}
	}
	c.memo = map[ssa.Value]lset{}
	// field stores, sinks, returns
	for _, b := range fn.Blocks {
		for _, in := range b.Instrs {
			switch x := in.(type) {
			case *ssa.Store:
				if fa, ok := x.Addr.(*ssa.FieldAddr); ok {
					if fv := fieldVarOf(fa); fv != nil {
						l := c.labelsAt(x.Val, x)
						if len(l) > 0 {
							if sum.Fields[fv] == nil {
								sum.Fields[fv] = lset{}
							}
							if sum.Fields[fv].union(l) {
								e.changed = true
							}
							// concrete part goes to the global field map
							g := lset{}
							for a, m := range l {
								if a.Kind == 'C' {
									g[a] = m
								}
							}
							if len(g) > 0 {
								if e.fields[fv] == nil {
									e.fields[fv] = lset{}
								}
								if e.fields[fv].union(g) {
									e.changed = true
								}
							}
						}
					}
				}
			case ssa.CallInstruction:
				e.callEffects(c, x)
			case *ssa.Return:
				for i, rv := range x.Results {
					for len(sum.Results) <= i {
						sum.Results = append(sum.Results, lset{})
					}
					if sum.Results[i].union(c.labelsAt(rv, x)) {
						e.changed = true
					}
				}
			}
		}
	}
}

func (e *taintEngine) callEffects(c *fnCtx, call ssa.CallInstruction) {
	com := call.Common()
	if _, ok := com.Value.(*ssa.Builtin); ok {
		return
	}
	fn := c.fn
	sum := e.sums[fn]
	name := ""
	if f := com.StaticCallee(); f != nil {
		name = shortName(f)
	}
	record := func(sink string, l lset, in ssa.Instruction, sfn *ssa.Function) {
		if len(l) == 0 {
			return
		}
		for a, m := range l {
			id := fmt.Sprintf("%s@%s|%c%d|%s", sink, shortName(sfn), a.Kind, a.Idx, a.Origin)
			h, ok := sum.Sinks[id]
			if !ok {
				h = sinkHit{Sink: sink, Fn: sfn, In: in, Labels: lset{}}
			}
			if h.Labels.union(lset{a: m}) || !ok {
				sum.Sinks[id] = h
				e.changed = true
			}
		}
	}
	isSink := sinkFuncs[name] || (strings.HasPrefix(name, "fmt.Fprint") && len(com.Args) > 0 && !isBuilderWriter(com.Args[0]))
	if isSink && strings.HasPrefix(name, "regexp.MustCompile") && len(com.Args) == 1 && quotedPattern(com.Args[0], 0) {
		// every variable part of the pattern went through regexp.QuoteMeta: it cannot fail to compile
		isSink = false
	}
	if isSink {
		e.sinkSites[e.p.ipos(call)+" "+name] = true
		l := lset{}
		start := 0
		if strings.HasPrefix(name, "fmt.Fprint") || strings.HasPrefix(name, "(*os.File).") || name == "(*console.Conn).logString" || name == "errlog.DoLog" || name == "doapprove.logHistory" {
			start = 1
		}
		for _, a := range com.Args[start:] {
			l.union(c.labelsAt(a, call))
			if el, ok := sliceLitElems(a); ok {
				for _, e2 := range el {
					l.union(c.labelsAt(e2, call))
				}
			}
		}
		record(name, l, call, fn)
		return
	}
	// sinks reached inside module callees
	for _, cal := range e.calleesOf(fn, call) {
		cs := e.sums[cal]
		if cs == nil {
			continue
		}
		for _, h := range cs.Sinks {
			l := c.subst(h.Labels, call, cal)
			record(h.Sink, l, h.In, h.Fn)
		}
		// field stores in callees with symbolic labels
		for fv, fl := range cs.Fields {
			l := c.subst(fl, call, cal)
			g := lset{}
			for a, m := range l {
				if a.Kind == 'C' {
					g[a] = m
				}
			}
			if len(g) > 0 {
				if e.fields[fv] == nil {
					e.fields[fv] = lset{}
				}
				if e.fields[fv].union(g) {
					e.changed = true
				}
			}
			if len(l) > 0 {
				if sum.Fields[fv] == nil {
					sum.Fields[fv] = lset{}
				}
				if sum.Fields[fv].union(l) {
					e.changed = true
				}
			}
		}
	}
}

func runTaint(p *Prog) *taintEngine {
	e := &taintEngine{p: p, sums: map[*ssa.Function]*tSummary{}, fields: map[*types.Var]lset{},
		srcSites: map[string]bool{}, sinkSites: map[string]bool{}, sanSites: map[string]bool{}}
	fns := allModFuncs(p)
	for _, f := range fns {
		e.sums[f] = &tSummary{Sinks: map[string]sinkHit{}, Fields: map[*types.Var]lset{}}
	}
	for iter := 0; iter < 30; iter++ {
		e.changed = false
		for _, f := range fns {
			e.analyse(f)
		}
		if !e.changed {
			break
		}
	}
	return e
}

func checkC17(p *Prog, r *Report) {
	ruleRegexpConsts(p, r, "R-RX", "C17", 1)
	r.rule("R17.1", "No secret reaches a log/terminal sink. Sources: result 2 of (*program.Config).GetUserPass, term.ReadPassword, Config.Password (password); the keygen reply passed to panos.parseAPIKey and its result, hence panos.State.urlPrefix (apikey); the x-xsrf-token response header, hence nsx.State.token (token). Sinks: errlog.Info/Warning/Abort/DoLog/PrintWithMarker, regexp.MustCompile* (panics with a message quoting the pattern, printed by the runtime), fmt.Print*, fmt.Fprint* to anything but a local strings.Builder, (*os.File).Write*, os.WriteFile, console.logString, doapprove.logHistory, status.write and the front-ends' abort/warn helpers. Propagation: inter-procedural with label-polymorphic summaries (parameter -> result, parameter -> sink, parameter -> field), field-based for struct fields, flow-sensitive for mutable containers (url.Values, headers, builders: tainted only after the instruction that stores the secret), and the error of (*http.Client).Get/Do/PostForm carries the labels of the request URL. Sanitisers: (*regexp.Regexp).ReplaceAllString whose pattern names the label (password=, key=, <key>) and whose replacement contains xxx. What is sent to the device is not a sink.")
	e := runTaint(p)
	// every syntactic source site, whether or not anything downstream asked for it
	for _, fn := range allModFuncs(p) {
		for _, cs := range callsOf(fn) {
			switch cs.calleeName() {
			case "(*program.Config).GetUserPass", "golang.org/x/term.ReadPassword":
				e.srcSites[p.ipos(cs.In)+" password"] = true
			case "panos.parseAPIKey":
				e.srcSites[p.ipos(cs.In)+" apikey"] = true
			}
		}
	}
	r.floor("R17.1", "secret sources", len(e.srcSites), 7)
	r.floor("R17.1", "sink call sites", len(e.sinkSites), 60)
	r.floor("R17.1", "masking sanitisers", len(e.sanSites), 4)
	for s := range e.srcSites {
		r.note("source: %s", s)
	}
	for s := range e.sanSites {
		r.note("sanitiser: %s", s)
	}
	// leaks: concrete labels at sinks, collected from the summaries of all functions
	type leak struct {
		label  secLabel
		origin string
		sink   string
		in     ssa.Instruction
	}
	leaks := map[string]leak{}
	for _, fn := range allModFuncs(p) {
		for _, h := range e.sums[fn].Sinks {
			for _, a := range h.Labels.concrete() {
				k := fmt.Sprintf("leak|%s|origin=%s|sink=%s", secLabel(a.Idx), a.Origin, h.id())
				leaks[k] = leak{secLabel(a.Idx), a.Origin, h.id(), h.In}
			}
		}
	}
	var keys []string
	for k := range leaks {
		keys = append(keys, k)
	}
	sort.Strings(keys)
	for _, k := range keys {
		l := leaks[k]
		r.fail("R17.1", k, p.ipos(l.in), fmt.Sprintf("%s (entered at %s) reaches sink %s", l.label, l.origin, l.sink),
			"the secret can appear in a log file, the history, or on the terminal")
	}
	// per-source obligations: each source site is clean (for the evidence)
	clean := 0
	for s := range e.sinkSites {
		_ = s
		clean++
	}
	r.ok("R17.1", "sinks-examined", "", fmt.Sprintf("%d sink call sites examined against %d sources; %d distinct leaks (label, origin, sink)", clean, len(e.srcSites), len(leaks)))
	// the sanitisers' patterns really name their label: checked by construction in maskOfRegexp
	// fields that hold secrets
	var fl []string
	for fv, l := range e.fields {
		if len(l.concrete()) > 0 {
			var ls secLabel
			for _, a := range l.concrete() {
				ls |= secLabel(a.Idx)
			}
			fl = append(fl, fldName(fv)+":"+ls.String())
		}
	}
	sort.Strings(fl)
	r.note("fields holding secrets: %v", fl)
	r.add("R17.1", "secret-fields-found", "", fmt.Sprintf("struct fields that hold a secret: %v", fl), len(fl) >= 3, "the field-based propagation found fewer secret-carrying fields than confirmed by hand (urlPrefix, token, Password)")
	rulePasswordSends(p, r)
	ruleSecretQueryEscaped(p, r)
	rulePromptTestFresh(p, r, "R17.4", map[string]bool{"cisco": true, "asa": true, "ios": true, "linux": true}, 2)
	// R17.2: the tracing facilities of the libraries that carry the secrets
	r.rule("R17.2", "The libraries that carry the secrets are never switched to tracing: no call of goexpect.Verbose, VerboseWriter, Tee or DebugCheck (they print or copy everything that is sent to the device, the login and enable passwords included), of httputil.DumpRequest / DumpRequestOut / DumpResponse, or of httptrace.WithClientTrace anywhere in the module's production code. The taint rule R17.1 trusts that library functions do not log by themselves; these options are the way to make them do it.")
	forbidden := map[string]string{
		"github.com/tailscale/goexpect.Verbose": "logs every sent string", "github.com/tailscale/goexpect.VerboseWriter": "logs every sent string",
		"github.com/tailscale/goexpect.Tee": "copies the whole session incl. what is sent", "github.com/tailscale/goexpect.DebugCheck": "debug logger of the session",
		"net/http/httputil.DumpRequest": "renders URL and headers", "net/http/httputil.DumpRequestOut": "renders URL and headers", "net/http/httputil.DumpResponse": "renders the reply (keygen reply, token header)",
		"net/http/httptrace.WithClientTrace": "client trace hooks see the request",
	}
	nSpawn, nBad := 0, 0
	for _, fn := range allModFuncs(p) {
		for _, cs := range callsOf(fn) {
			n := cs.calleeName()
			if strings.HasPrefix(n, "github.com/tailscale/goexpect.Spawn") {
				nSpawn++
			}
			if why, bad := forbidden[n]; bad {
				nBad++
				r.fail("R17.2", "library-tracing|"+shortName(fn)+"|"+n, p.ipos(cs.In), n+" is called in "+shortName(fn)+": "+why, "passwords, API key or token can appear on stderr or in a file through the library's own logging")
			}
		}
	}
	r.add("R17.2", "library-tracing|none", "", fmt.Sprintf("%d session spawn site(s); no tracing option or dump helper of goexpect / net/http is used", nSpawn), nBad == 0 && nSpawn >= 1, "see the calls reported above (or the spawn site was not found)")
	r.Trusted = []string{"go/ssa, call graph", "library functions propagate taint from arguments to results and do not log by themselves", "*url.Error (returned by net/http client calls) contains the request URL and method, not headers or body"}
	r.NotDec = "a device echoing a secret back in its output; secrets in process arguments/environment"
}

// fieldLoadAliases: other loads of the same field of the same base object in
// fn (req.Header loaded twice is the same map).
func fieldLoadAliases(fn *ssa.Function, v ssa.Value) []ssa.Value {
	u, ok := v.(*ssa.UnOp)
	if !ok || u.Op != token.MUL {
		return nil
	}
	fa, ok := u.X.(*ssa.FieldAddr)
	if !ok {
		return nil
	}
	var out []ssa.Value
	for _, b := range fn.Blocks {
		for _, in := range b.Instrs {
			if u2, ok := in.(*ssa.UnOp); ok && u2 != u && u2.Op == token.MUL {
				if fa2, ok := u2.X.(*ssa.FieldAddr); ok && fa2.X == fa.X && fa2.Field == fa.Field {
					out = append(out, u2)
				}
			}
		}
	}
	return out
}

const credOrigin = "credentials file"

// dropCredField: the documented format of a credentials line is `pattern username password`;
// fields 0 and 1 of strings.Fields(line) are not secret.
func dropCredField(l lset, slice ssa.Value, index ssa.Value) lset {
	k, ok := constInt(index)
	if !ok || k >= 2 {
		return l
	}
	c, isCall := slice.(*ssa.Call)
	if !isCall || c.Common().StaticCallee() == nil || shortName(c.Common().StaticCallee()) != "strings.Fields" {
		return l
	}
	out := lset{}
	for a, m := range l {
		if a.Kind == 'C' && strings.HasSuffix(a.Origin, credOrigin) {
			continue
		}
		out[a] = m
	}
	return out
}
