package main

// R17.4 / R11.q: the password prompt test reads the latest answer.
//
// The login dialogue types the password when the device has asked for it: the text that
// is tested for a trailing `password:` / `word:` must be what the device answered to the
// LAST thing that was sent.  A test of an older answer (a variable the sending closure no
// longer updates) is satisfied by the login prompt of a minute ago; the password is then
// typed at a command prompt and echoed into the session log, or given as answer to
// another question.

import (
	"fmt"
	"go/token"
	"strings"

	"golang.org/x/tools/go/ssa"
)

var consoleRecvNames = map[string]bool{
	"(*console.Conn).WaitLogin": true, "(*console.Conn).WaitShort": true, "(*console.Conn).IssueCmd": true,
	"(*console.Conn).GetCmdOutput": true, "(*console.Conn).GetOutput": true,
}

func treeOf(fn *ssa.Function) []*ssa.Function {
	var out []*ssa.Function
	var visit func(f *ssa.Function)
	visit = func(f *ssa.Function) {
		out = append(out, f)
		for _, a := range f.AnonFuncs {
			visit(a)
		}
	}
	visit(fn)
	return out
}

func inTree(root, f *ssa.Function) bool {
	for ; f != nil; f = f.Parent() {
		if f == root {
			return true
		}
	}
	return false
}

// cellRootOf: the allocation a captured variable stands for.
func cellRootOf(v ssa.Value) ssa.Value {
	for i := 0; i < 8; i++ {
		fv, ok := v.(*ssa.FreeVar)
		if !ok {
			return v
		}
		fn := fv.Parent()
		idx := -1
		for k, x := range fn.FreeVars {
			if x == fv {
				idx = k
			}
		}
		par := fn.Parent()
		if par == nil || idx < 0 {
			return v
		}
		var bound ssa.Value
		for _, b := range par.Blocks {
			for _, in := range b.Instrs {
				if mc, ok := in.(*ssa.MakeClosure); ok && mc.Fn == fn && idx < len(mc.Bindings) {
					bound = mc.Bindings[idx]
				}
			}
		}
		if bound == nil {
			return v
		}
		v = bound
	}
	return v
}

func isDirectRecv(p *Prog, ci ssa.CallInstruction) bool {
	for _, cal := range calleesOfSite(p, &callSite{In: ci}) {
		if consoleRecvNames[shortName(cal)] {
			return true
		}
	}
	return false
}

// recvKind: 1 = the call itself returns the device's answer, 2 = it calls a module function or
// closure (returned in g) that receives an answer somewhere inside.
func recvKind(p *Prog, ci ssa.CallInstruction, memo map[*ssa.Function]bool) (int, *ssa.Function) {
	if isDirectRecv(p, ci) {
		return 1, nil
	}
	for _, cal := range calleesOfSite(p, &callSite{In: ci}) {
		if !isModFunc(cal) || pkgOfFunc(cal) == "console" {
			continue
		}
		if containsRecv(p, cal, memo, 0) {
			return 2, cal
		}
	}
	return 0, nil
}

func containsRecv(p *Prog, f *ssa.Function, memo map[*ssa.Function]bool, d int) bool {
	if v, ok := memo[f]; ok {
		return v
	}
	memo[f] = false
	if d > 4 {
		return false
	}
	for _, g := range treeOf(f) {
		for _, cs := range callsOf(g) {
			if isDirectRecv(p, cs.In) {
				memo[f] = true
				return true
			}
		}
	}
	return false
}

type promptTest struct {
	If   *ssa.If
	X    ssa.Value
	Text string
}

func promptTestsOf(fn *ssa.Function) []promptTest {
	var out []promptTest
	for _, b := range fn.Blocks {
		i := ifOf(b)
		if i == nil {
			continue
		}
		c, _ := stripNot(i.Cond)
		call, ok := c.(*ssa.Call)
		if !ok {
			continue
		}
		f := call.Common().StaticCallee()
		if f == nil || rawShortName(f) != "strings.HasSuffix" || len(call.Common().Args) != 2 {
			continue
		}
		s, ok := constString(call.Common().Args[1])
		if !ok || !strings.HasSuffix(strings.ToLower(s), "word:") {
			continue
		}
		out = append(out, promptTest{i, call.Common().Args[0], s})
	}
	return out
}

func rulePromptTestFresh(p *Prog, r *Report, rule string, pkgs map[string]bool, floor int) {
	r.rule(rule, "The password prompt test reads the latest answer: in the login code every test `strings.HasSuffix(x, \"…word:\")` is made on a value that derives from the device's answer to the last thing sent before the test — for each receiving call (WaitLogin, IssueCmd, …, or a closure that contains one) from which the test is reachable without another receiving call in between, x is computed from that call's answer (through locals, captured variables and the stores made inside the closure). A test of an older answer is satisfied by an earlier prompt: the password is typed where the device did not ask for it.")
	memo := map[*ssa.Function]bool{}
	n := 0
	for _, root := range allModFuncs(p) {
		if !pkgs[pkgOfFunc(root)] || root.Parent() != nil || root.Synthetic != "" {
			continue
		}
		tree := treeOf(root)
		for _, fn := range tree {
			for _, pt := range promptTestsOf(fn) {
				n++
				// what x derives from
				leaves := map[ssa.Instruction]bool{}
				seen := map[ssa.Value]bool{}
				var visit func(v ssa.Value, d int)
				visit = func(v ssa.Value, d int) {
					if v == nil || seen[v] || d > 20 {
						return
					}
					seen[v] = true
					switch x := v.(type) {
					case *ssa.Call:
						if isDirectRecv(p, x) {
							leaves[x] = true
							return
						}
						for _, a := range x.Common().Args {
							visit(a, d+1)
						}
					case *ssa.Phi:
						for _, e := range x.Edges {
							visit(e, d+1)
						}
					case *ssa.BinOp:
						visit(x.X, d+1)
						visit(x.Y, d+1)
					case *ssa.Extract:
						visit(x.Tuple, d+1)
					case *ssa.Slice:
						visit(x.X, d+1)
					case *ssa.UnOp:
						if x.Op != token.MUL {
							visit(x.X, d+1)
							return
						}
						cell := cellRootOf(x.X)
						for _, g := range tree {
							for _, b := range g.Blocks {
								for _, in := range b.Instrs {
									if st, ok := in.(*ssa.Store); ok && cellRootOf(st.Addr) == cell {
										visit(st.Val, d+1)
									}
								}
							}
						}
					}
				}
				visit(pt.X, 0)
				// the receiving calls that come last before the test
				type last struct {
					in   ssa.Instruction
					kind int
					g    *ssa.Function
				}
				var lasts []last
				seenB := map[*ssa.BasicBlock]bool{}
				var back func(b *ssa.BasicBlock, from int)
				back = func(b *ssa.BasicBlock, from int) {
					for i := from; i >= 0; i-- {
						if ci, ok := b.Instrs[i].(ssa.CallInstruction); ok {
							if _, isDefer := b.Instrs[i].(*ssa.Defer); isDefer {
								continue
							}
							if k, g := recvKind(p, ci, memo); k != 0 {
								lasts = append(lasts, last{b.Instrs[i], k, g})
								return
							}
						}
					}
					for _, pr := range b.Preds {
						if !seenB[pr] {
							seenB[pr] = true
							back(pr, len(pr.Instrs)-1)
						}
					}
				}
				ib := pt.If.Block()
				back(ib, len(ib.Instrs)-2)
				bad := ""
				for _, l := range lasts {
					ok := false
					if l.kind == 1 {
						ok = leaves[l.in]
					} else {
						for lf := range leaves {
							if inTree(l.g, lf.Parent()) {
								ok = true
							}
						}
					}
					if !ok {
						bad += " " + p.ipos(l.in)
					}
				}
				r.add(rule, fmt.Sprintf("prompt-test-fresh|%s|%q|%d", fnDisplay(fn), pt.Text, n), p.ipos(pt.If),
					fmt.Sprintf("the test for %q in %s reads the answer to the last thing sent (%d receiving call(s) in front of it)", pt.Text, fnDisplay(fn), len(lasts)), bad == "" && len(lasts) > 0,
					"the tested value does not derive from the device's answer received at"+bad+": the test looks at an older answer")
			}
		}
	}
	r.floor(rule, "password prompt tests in the login code", n, floor)
}
