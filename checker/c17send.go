package main

// R17.3: where a password is typed into a console session.  What is sent to the device is
// not a sink, but a device echoes what is typed at a command prompt and the session log
// records the echo.  A password may therefore be sent only where the device asks for one.
// The places that send a password are found by value flow; each is an audited site whose
// controlling conditions are rows of tables/guards.tsv.

import (
	"fmt"
	"sort"

	"golang.org/x/tools/go/ssa"
)

type fnParam struct {
	fn *ssa.Function
	i  int
}

var consoleSendCmdParam = map[string]int{
	"(*console.Conn).Send": 1, "(*console.Conn).SendCmd": 1, "(*console.Conn).IssueCmd": 1, "(*console.Conn).GetCmdOutput": 1,
}

func passwordSendSites(p *Prog) ([]guardSite, int) {
	fns := allModFuncs(p)
	paramIdx := func(fn *ssa.Function, v ssa.Value) int {
		for i, q := range fn.Params {
			if ssa.Value(q) == v {
				return i
			}
		}
		return -1
	}
	// pw: parameters that receive a password
	pw := map[fnParam]bool{}
	isPw := func(fn *ssa.Function, v ssa.Value) bool {
		for _, rt := range valueRoots(v) {
			switch x := rt.(type) {
			case *ssa.Parameter:
				if pw[fnParam{fn, paramIdx(x.Parent(), x)}] && x.Parent() == fn {
					return true
				}
				if x.Parent() != fn && pw[fnParam{x.Parent(), paramIdx(x.Parent(), x)}] {
					return true // parameter of the enclosing function, seen through a closure variable
				}
			case *ssa.Extract:
				if c, ok := x.Tuple.(*ssa.Call); ok {
					if f := c.Common().StaticCallee(); f != nil {
						n := shortName(f)
						if (n == "(*program.Config).GetUserPass" && x.Index == 1) || (n == "golang.org/x/term.ReadPassword" && x.Index == 0) {
							return true
						}
					}
				}
			case *ssa.UnOp:
				if fa, ok := x.X.(*ssa.FieldAddr); ok && fieldName(fa) == "program.Config.Password" {
					return true
				}
			}
		}
		return false
	}
	// sendParam: parameters whose value is typed into a console session
	sendParam := map[fnParam]bool{}
	for changed, round := true, 0; changed && round < 12; round++ {
		changed = false
		for _, fn := range fns {
			for _, cs := range callsOf(fn) {
				args := cs.In.Common().Args
				for _, cal := range calleesOfSite(p, cs) {
					for j, a := range args {
						// receiver is Args[0] for static method calls: parameter indices agree
						send := false
						if k, ok := consoleSendCmdParam[shortName(cal)]; ok && k == j {
							send = true
						}
						if sendParam[fnParam{cal, j}] {
							send = true
						}
						if isModFunc(cal) && isPw(fn, a) && !pw[fnParam{cal, j}] {
							pw[fnParam{cal, j}] = true
							changed = true
						}
						if !send {
							continue
						}
						for _, rt := range valueRoots(a) {
							if q, ok := rt.(*ssa.Parameter); ok {
								k := fnParam{q.Parent(), paramIdx(q.Parent(), q)}
								if !sendParam[k] {
									sendParam[k] = true
									changed = true
								}
							}
						}
					}
				}
			}
		}
	}
	var out []guardSite
	nSend := 0
	for _, fn := range fns {
		byIn := map[ssa.Instruction]guardSite{}
		for _, gs := range guardSitesOf(p, fn) {
			byIn[gs.In] = gs
		}
		for _, cs := range callsOf(fn) {
			args := cs.In.Common().Args
			for _, cal := range calleesOfSite(p, cs) {
				for j, a := range args {
					send := sendParam[fnParam{cal, j}]
					if k, ok := consoleSendCmdParam[shortName(cal)]; ok && k == j {
						send = true
						nSend++
					}
					if send && isPw(fn, a) {
						if gs, ok := byIn[cs.In]; ok {
							out = append(out, gs)
						} else {
							out = append(out, guardSite{fn, "call:" + cs.calleeName(), cs.In, "?"})
						}
					}
				}
			}
		}
	}
	sort.Slice(out, func(i, j int) bool { return p.ipos(out[i].In) < p.ipos(out[j].In) })
	return out, nSend
}

func rulePasswordSends(p *Prog, r *Report) {
	rulePasswordSendsFor(p, r, "R17.3", "C17", "A password is typed into a console session only at audited places: every call that passes a password (result of GetUserPass / ReadPassword, Config.Password, or a parameter that receives one) to a console send (Send, SendCmd, IssueCmd, GetCmdOutput; directly or through a function or closure whose parameter reaches one) lies at a function+site with rows in tables/guards.tsv, and its controlling conditions are the audited ones (the device has asked for a password: the login dialogue has just matched a password prompt, or the previous answer ends in `password:`). A password typed at a command prompt is echoed by the device and recorded in the session log.")
}

func rulePasswordSendsFor(p *Prog, r *Report, rule, prop, text string) {
	r.rule(rule, text)
	sites, nSend := passwordSendSites(p)
	have := map[string]bool{}
	for _, row := range readTable("guards.tsv", 5) {
		if propListed(row[3], prop) {
			have[row[0]+"|"+row[1]] = true
		}
	}
	seen := map[string]bool{}
	for _, gs := range sites {
		k := fnDisplay(gs.Fn) + "|" + gs.Name
		if seen[k] {
			continue
		}
		seen[k] = true
		r.add(rule, "password-send-audited|"+k, p.ipos(gs.In), "the conditions under which "+fnDisplay(gs.Fn)+" types a password into the session ("+gs.Name+") are audited", have[k],
			"a password is sent to the device at a place that was never audited: if the device is not at a password prompt it echoes the password into the session log")
	}
	r.floor(rule, "places that type a password into a console session", len(sites), 3)
	r.note(rule+": %d console send sites examined, %d pass a password", nSend, len(sites))
	ruleGuardTable(p, r, rule, prop)
	_ = fmt.Sprint
}

func init() {
	dumpers["pwsends"] = func(p *Prog, m *Model) {
		sites, n := passwordSendSites(p)
		for _, gs := range sites {
			fmt.Printf("%s\t%s\t%s\tC17\tREASON\t# %s\n", fnDisplay(gs.Fn), gs.Name, gs.Sig, p.ipos(gs.In))
		}
		fmt.Println("# console sends", n)
	}
}
