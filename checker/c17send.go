package main

// R17.3: where a password is typed into a console session.  What is sent to the device is
// not a sink, but a device echoes what is typed at a command prompt and the session log
// records the echo.  A password may therefore be sent only where the device asks for one.
// The places that send a password are found by value flow; each is an audited site whose
// controlling conditions are rows of tables/guards.tsv.

import (
	"fmt"
	"go/constant"
	"go/token"
	"go/types"
	"sort"
	"strings"

	"golang.org/x/tools/go/ssa"
)

type fnParam struct {
	fn *ssa.Function
	i  int
}

var consoleSendCmdParam = map[string]int{
	"(*console.Conn).Send": 1, "(*console.Conn).SendCmd": 1, "(*console.Conn).IssueCmd": 1, "(*console.Conn).GetCmdOutput": 1,
}

func passwordSendSites(p *Prog) ([]guardSite, int) {
	fns := allModFuncs(p)
	paramIdx := func(fn *ssa.Function, v ssa.Value) int {
		for i, q := range fn.Params {
			if ssa.Value(q) == v {
				return i
			}
		}
		return -1
	}
	// pw: parameters that receive a password
	pw := map[fnParam]bool{}
	isPw := func(fn *ssa.Function, v ssa.Value) bool {
		for _, rt := range valueRoots(v) {
			switch x := rt.(type) {
			case *ssa.Parameter:
				if pw[fnParam{fn, paramIdx(x.Parent(), x)}] && x.Parent() == fn {
					return true
				}
				if x.Parent() != fn && pw[fnParam{x.Parent(), paramIdx(x.Parent(), x)}] {
					return true // parameter of the enclosing function, seen through a closure variable
				}
			case *ssa.Extract:
				if c, ok := x.Tuple.(*ssa.Call); ok {
					if f := c.Common().StaticCallee(); f != nil {
						n := shortName(f)
						if (n == "(*program.Config).GetUserPass" && x.Index == 1) || (n == "golang.org/x/term.ReadPassword" && x.Index == 0) {
							return true
						}
					}
				}
			case *ssa.UnOp:
				if fa, ok := x.X.(*ssa.FieldAddr); ok && fieldName(fa) == "program.Config.Password" {
					return true
				}
			}
		}
		return false
	}
	// sendParam: parameters whose value is typed into a console session
	sendParam := map[fnParam]bool{}
	for changed, round := true, 0; changed && round < 12; round++ {
		changed = false
		for _, fn := range fns {
			for _, cs := range callsOf(fn) {
				args := cs.In.Common().Args
				for _, cal := range calleesOfSite(p, cs) {
					for j, a := range args {
						// receiver is Args[0] for static method calls: parameter indices agree
						send := false
						if k, ok := consoleSendCmdParam[shortName(cal)]; ok && k == j {
							send = true
						}
						if sendParam[fnParam{cal, j}] {
							send = true
						}
						if isModFunc(cal) && isPw(fn, a) && !pw[fnParam{cal, j}] {
							pw[fnParam{cal, j}] = true
							changed = true
						}
						if !send {
							continue
						}
						for _, rt := range valueRoots(a) {
							if q, ok := rt.(*ssa.Parameter); ok {
								k := fnParam{q.Parent(), paramIdx(q.Parent(), q)}
								if !sendParam[k] {
									sendParam[k] = true
									changed = true
								}
							}
						}
					}
				}
			}
		}
	}
	var out []guardSite
	nSend := 0
	for _, fn := range fns {
		byIn := map[ssa.Instruction]guardSite{}
		for _, gs := range guardSitesOf(p, fn) {
			byIn[gs.In] = gs
		}
		for _, cs := range callsOf(fn) {
			args := cs.In.Common().Args
			for _, cal := range calleesOfSite(p, cs) {
				for j, a := range args {
					send := sendParam[fnParam{cal, j}]
					if k, ok := consoleSendCmdParam[shortName(cal)]; ok && k == j {
						send = true
						nSend++
					}
					if send && isPw(fn, a) {
						if gs, ok := byIn[cs.In]; ok {
							out = append(out, gs)
						} else {
							out = append(out, guardSite{fn, "call:" + cs.calleeName(), cs.In, "?"})
						}
					}
				}
			}
		}
	}
	sort.Slice(out, func(i, j int) bool { return p.ipos(out[i].In) < p.ipos(out[j].In) })
	return out, nSend
}

func rulePasswordSends(p *Prog, r *Report) {
	rulePasswordSendsFor(p, r, "R17.3", "C17", "A password is typed into a console session only at audited places: every call that passes a password (result of GetUserPass / ReadPassword, Config.Password, or a parameter that receives one) to a console send (Send, SendCmd, IssueCmd, GetCmdOutput; directly or through a function or closure whose parameter reaches one) lies at a function+site with rows in tables/guards.tsv, and its controlling conditions are the audited ones (the device has asked for a password: the login dialogue has just matched a password prompt, or the previous answer ends in `password:`). A password typed at a command prompt is echoed by the device and recorded in the session log.")
}

func rulePasswordSendsFor(p *Prog, r *Report, rule, prop, text string) {
	r.rule(rule, text)
	sites, nSend := passwordSendSites(p)
	have := map[string]bool{}
	for _, row := range readTable("guards.tsv", 5) {
		if propListed(row[3], prop) {
			have[row[0]+"|"+row[1]] = true
		}
	}
	seen := map[string]bool{}
	for _, gs := range sites {
		k := fnDisplay(gs.Fn) + "|" + gs.Name
		if seen[k] {
			continue
		}
		seen[k] = true
		r.add(rule, "password-send-audited|"+k, p.ipos(gs.In), "the conditions under which "+fnDisplay(gs.Fn)+" types a password into the session ("+gs.Name+") are audited", have[k],
			"a password is sent to the device at a place that was never audited: if the device is not at a password prompt it echoes the password into the session log")
	}
	r.floor(rule, "places that type a password into a console session", len(sites), 3)
	r.note(rule+": %d console send sites examined, %d pass a password", nSend, len(sites))
	ruleGuardTable(p, r, rule, prop)
	_ = fmt.Sprint
}

func init() {
	dumpers["pwsends"] = func(p *Prog, m *Model) {
		sites, n := passwordSendSites(p)
		for _, gs := range sites {
			fmt.Printf("%s\t%s\t%s\tC17\tREASON\t# %s\n", fnDisplay(gs.Fn), gs.Name, gs.Sig, p.ipos(gs.In))
		}
		fmt.Println("# console sends", n)
	}
}

// R17.5: a secret written into a query string by hand is query-escaped.
// The masks stop at the next `&` (`(password=).*?(&|$)`, `[?]key=.*?&`).  url.Values.Encode and
// url.QueryEscape turn `&` into %26; url.PathEscape and a raw value do not, so a secret that
// contains `&` is cut by the mask and its tail is logged.
func ruleSecretQueryEscaped(p *Prog, r *Report) {
	r.rule("R17.5", "A secret placed behind `password=`, `key=`, `token=` in a string built by hand (concatenation or a plain Sprintf) is the result of url.QueryEscape, or an audited exception (tables/secret_query_audit.tsv). The masks that hide these values in logs stop at the next `&`; a value that may contain `&` (raw, or url.PathEscape) is masked only up to there.")
	audited := map[string]string{}
	for _, row := range readTable("secret_query_audit.tsv", 3) {
		audited[row[0]+"|"+row[1]] = row[2]
	}
	markers := []string{"password=", "passwd=", "key=", "token="}
	n := 0
	check := func(fn *ssa.Function, in ssa.Instruction, ops []ssa.Value) {
		for i, o := range ops {
			s, ok := constString(o)
			if !ok || i+1 >= len(ops) {
				continue
			}
			for _, m := range markers {
				if !strings.HasSuffix(s, m) {
					continue
				}
				v := ops[i+1]
				if mi, ok := v.(*ssa.MakeInterface); ok {
					v = mi.X
				}
				if _, isC := v.(*ssa.Const); isC {
					continue
				}
				n++
				esc := false
				if c, ok := v.(*ssa.Call); ok {
					if f := c.Common().StaticCallee(); f != nil && rawShortName(f) == "net/url.QueryEscape" {
						esc = true
					}
				}
				k := fnDisplay(fn) + "|" + m
				why, ok := audited[k]
				r.add("R17.5", "secret-escaped|"+k, p.ipos(in), "the value behind `"+m+"` in "+fnDisplay(fn)+" is query-escaped ("+why+")", esc || ok,
					"the value is put into the query as it is (or path-escaped): when it contains `&` the mask ends there and the rest of the secret is logged")
			}
		}
	}
	for _, fn := range allModFuncs(p) {
		if fn.Synthetic != "" {
			continue
		}
		for _, b := range fn.Blocks {
			for _, in := range b.Instrs {
				switch x := in.(type) {
				case *ssa.BinOp:
					if x.Op != token.ADD || !isStringType(x.Type()) {
						continue
					}
					root := true
					for _, ref := range *x.Referrers() {
						if bo, ok := ref.(*ssa.BinOp); ok && bo.Op == token.ADD && isStringType(bo.Type()) {
							root = false
						}
					}
					if !root {
						continue
					}
					var ops []ssa.Value
					concatLeaves(x, &ops)
					check(fn, x, ops)
				case *ssa.Call:
					f := x.Common().StaticCallee()
					if f == nil || rawShortName(f) != "fmt.Sprintf" || len(x.Common().Args) != 2 {
						continue
					}
					format, ok := constString(x.Common().Args[0])
					el, isLit := sliceLitElems(x.Common().Args[1])
					if !ok || !isLit {
						continue
					}
					pieces, verbs, plain := splitFormat(format)
					if !plain || verbs != len(el) {
						continue
					}
					var ops []ssa.Value
					for i, pc := range pieces {
						ops = append(ops, ssa.NewConst(constant.MakeString(pc), types.Typ[types.String]))
						if i < len(el) {
							ops = append(ops, el[i])
						}
					}
					check(fn, x, ops)
				}
			}
		}
	}
	r.add("R17.5", "secret-query-sites", "", fmt.Sprintf("%d hand-built query values behind a secret's name examined", n), true, "")
}
