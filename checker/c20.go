package main

// C20: malformed input ends in a diagnostic, never in a crash.
// E5: panic audit, compiler-BCE obligations against an audit table, nil-guard
// rule, type-assertion audit, acyclic reference graph.

import (
	"os"
	"fmt"
	"go/ast"
	"go/token"
	"go/types"
	"os/exec"
	"sort"
	"strings"

	"golang.org/x/tools/go/ssa"
)

func init() { register("C20", "other", true, checkC20) }

// packages whose code handles input files (drc FILE1 FILE2, missing-approve,
// the non-session half of do-approve).  Session code is audited too but
// reported as SESSION class.
var fileInputPkgs = map[string]bool{"cisco": true, "linux": true, "nsx": true, "panos": true, "codefiles": true, "program": true,
	"status": true, "cmd/missing-approve": true, "device": true, "asa": true, "ios": true, "errlog": true, "deviceconf": true}

func checkC20(p *Prog, r *Report) {
	ruleIndexCalls(p, r)
	ruleMustOnConstants(p, r)
	rulePanicAudit(p, r)
	ruleBounds(p, r)
	ruleGoroutineAborts(p, r)
	ruleNilMapWrites(p, r)
	ruleNilGuards(p, r)
	ruleTypeAsserts(p, r)
	ruleRefGraphAcyclic(p, r)
	ruleUnboundedLoops(p, r)
	r.Trusted = []string{"the Go compiler's prove pass (bounds-check elimination) is sound", "go/ssa, call graph",
		"the written invariants I1..I6 of tables/bounds_audit.tsv (each row carries its reason; classes I5 and K have their own machine checks)"}
	r.NotDec = "crash-freedom is NOT proved: the check claims that every potential crash site is compiler-proved, covered by a written invariant, or a listed finding, and that no new one can appear unnoticed. Hangs (termination) are only covered for the recursive walkers via R20.5."
}

// ---- R20.1 ----

func rulePanicAudit(p *Prog, r *Report) {
	r.rule("R20.1", "Every explicit panic in production code is enumerated (go/ssa Panic instructions). Allowed without a row: errlog.Abort's bail-out and errlog.HandleAbort's re-panic. Every other one needs a row in tables/panic_audit.tsv keyed by function (class K: depends only on the compile-time cmdInfo literal — with the who-calls check that these functions are reached only from SetupParser; ENV: environment fault; INV: internal invariant) or is a finding.")
	rows := map[string][]string{}
	for _, row := range readTable("panic_audit.tsv", 3) {
		rows[row[0]] = row
	}
	n := 0
	cnt := map[string]int{}
	for _, fn := range allModFuncs(p) {
		for _, b := range fn.Blocks {
			for _, in := range b.Instrs {
				pn, ok := in.(*ssa.Panic)
				if !ok {
					continue
				}
				n++
				cnt[fnDisplay(fn)]++
				name := fmt.Sprintf("%s#%d", fnDisplay(fn), cnt[fnDisplay(fn)])
				switch {
				case shortName(fn) == "errlog.Abort":
					r.ok("R20.1", "panic|errlog.Abort", p.ipos(pn), "bail-out panic of errlog.Abort (converted to exit status 1 by HandleAbort)")
				case strings.HasPrefix(shortName(fn), "errlog.HandleAbort"):
					r.ok("R20.1", "panic|errlog.HandleAbort", p.ipos(pn), "re-panic of a foreign panic value")
				default:
					row, ok := rows[name]
					if !ok {
						r.fail("R20.1", "panic|"+name, p.ipos(pn), "explicit panic in "+name+" is not audited", "a new panic site: input reaching it kills the program with a stack trace instead of a diagnostic")
						continue
					}
					if row[1] == "FINDING" {
						r.fail("R20.1", "panic|"+name, p.ipos(pn), "explicit panic reachable from input: "+row[2], "malformed input ends in a Go panic (exit status 2)")
					} else {
						r.ok("R20.1", "panic|"+name, p.ipos(pn), "audited ("+row[1]+"): "+row[2])
					}
				}
			}
		}
	}
	r.floor("R20.1", "explicit panic sites", n, 14)
	// class K who-calls: the table-building functions are reachable only from SetupParser
	sp := p.Fn("(*cisco.State).SetupParser")
	if sp != nil {
		for _, name := range []string{"(*cisco.parser).setupCmdDescr", "(*cisco.parser).setupLookup", "cisco.parseHeader"} {
			fn := p.Fn(name)
			if fn == nil {
				continue
			}
			ok := true
			var callers []string
			for _, e := range callersOf(p.CG(), fn) {
				if e.Caller.Func.Synthetic != "" {
					continue // promoted-method wrapper
				}
				cn := shortName(e.Caller.Func)
				callers = append(callers, cn)
				if cn != "(*cisco.State).SetupParser" && cn != "(*cisco.parser).setupCmdDescr" {
					ok = false
				}
			}
			r.add("R20.1", "table-builder-callers|"+name, p.pos(fn.Pos()), fmt.Sprintf("%s is called only while building the parser tables from the cmdInfo literal: %v", name, callers), ok && len(callers) > 0,
				"a table-building function with compile-time-only panics is reachable with run-time data")
		}
		checkCmdInfoUse(p, r, "R20.1")
	}
}

// ---- R20.2 ----

func ruleBounds(p *Prog, r *Report) {
	r.rule("R20.2", "Bounds obligations = the IsInBounds/IsSliceInBounds checks that the Go compiler's prove pass cannot eliminate (go build -gcflags=-d=ssa/check_bce/debug=1 -l on /repo's current tree, errlog.Abort patched through a build overlay to be visibly non-returning). Each site is mapped through the AST to (function, expression text) and compared as a multiset with tables/bounds_audit.tsv: an unproven index/slice expression that is not audited, or more occurrences than audited, is undecided and fails; rows of class FINDING fail unless listed in known_findings.txt. In the thorough tier both installed toolchains are used and a site proved by either is discharged.")
	gobins := []string{"go"}
	if r.Tier == "thorough" {
		if _, err := exec.LookPath("go1.26.8"); err == nil {
			gobins = append(gobins, "go1.26.8")
		}
	}
	type key struct{ fn, ex string }
	var counts map[key]int
	var firstPos map[key]string
	unmapped := 0
	var sites0 []*bceSite
	for gi, gb := range gobins {
		sites, nAbort, err := bceSites(p, gb)
		if err != nil {
			r.fail("R20.2", "compiler-run|"+gb, "", "cannot obtain the compiler's bounds-check list", err.Error())
			return
		}
		c := map[key]int{}
		fp := map[key]string{}
		um := 0
		for _, s := range sites {
			if s.Node == nil {
				um++
				continue
			}
			k := key{s.Func, s.Expr}
			c[k]++
			if fp[k] == "" {
				fp[k] = fmt.Sprintf("go/%s:%d", s.File, s.Line)
			}
		}
		r.note("R20.2: %s reports %d unproven bounds checks in module files (%d not attributable to an index/slice expression: string comparisons etc.), %d Abort statements patched", gb, len(sites), um, nAbort)
		r.floor("R20.2", "unproven bounds checks reported by "+gb, len(sites), 150)
		if gi == 0 {
			counts, firstPos, unmapped = c, fp, um
			sites0 = sites
		} else {
			// a site proved by either toolchain is discharged: keep the minimum
			for k, n := range counts {
				if c[k] < n {
					r.note("R20.2: %s|%s: %d with go, %d with %s", k.fn, k.ex, n, c[k], gb)
					counts[k] = c[k]
				}
			}
			for k := range counts {
				if counts[k] == 0 {
					delete(counts, k)
				}
			}
		}
	}
	_ = unmapped
	audit := map[key][]string{}
	for _, row := range readTable("bounds_audit.tsv", 5) {
		audit[key{row[0], row[1]}] = row
	}
	var keys []key
	for k := range counts {
		keys = append(keys, k)
	}
	sort.Slice(keys, func(i, j int) bool { return keys[i].fn+keys[i].ex < keys[j].fn+keys[j].ex })
	classCount := map[string]int{}
	for _, k := range keys {
		row, ok := audit[k]
		okey := "bounds|" + k.fn + "|" + k.ex
		if !ok {
			r.fail("R20.2", okey, firstPos[k], fmt.Sprintf("%d unproven bounds check(s) on `%s` in %s are not audited", counts[k], k.ex, k.fn),
				"a new index/slice expression the compiler cannot prove: may panic on malformed input; audit it (tables/bounds_audit.tsv) or guard it")
			continue
		}
		var audited int
		fmt.Sscan(row[2], &audited)
		classCount[row[3]] += counts[k]
		if counts[k] > audited {
			r.fail("R20.2", okey, firstPos[k], fmt.Sprintf("%d unproven occurrences of `%s` in %s, only %d audited", counts[k], k.ex, k.fn, audited),
				"more unproven occurrences than were audited: a guard was removed or a new use added")
			continue
		}
		if row[3] == "FINDING" {
			r.fail("R20.2", okey, firstPos[k], fmt.Sprintf("`%s` in %s can be out of range: %s", k.ex, k.fn, row[4]), "malformed input ends in a Go panic (exit status 2) instead of a diagnostic")
			continue
		}
		r.ok("R20.2", okey, firstPos[k], fmt.Sprintf("%d× `%s` in %s — %s: %s", counts[k], k.ex, k.fn, row[3], row[4]))
	}
	r.note("R20.2 classes: %v", classCount)
	ruleBoundsShapes(p, r, sites0, audit2class(audit))
	ruleCapturedGuards(p, r)
	// stale rows are only noted
	for k := range audit {
		if _, ok := counts[k]; !ok {
			r.note("R20.2: audited row no longer reported by the compiler (stale, harmless): %s | %s", k.fn, k.ex)
		}
	}
	// I5 machine check: checkConfigValidity on every successful nsx.ParseConfig
	r.rule("R20.2b", "Invariant I5 is established for every NSX configuration: checkConfigValidity is called on every path of nsx.(*State).ParseConfig that returns without error and its error is the returned error.")
	if pc := p.Fn("(*nsx.State).ParseConfig"); pc != nil {
		// every success return that the decoding call can reach is dominated by the validity check
		sites := callsTo(pc, "nsx.checkConfigValidity")
		var dec []*callSite
		for _, cs := range callsOf(pc) {
			if strings.HasSuffix(cs.calleeName(), ".Unmarshal") || strings.HasSuffix(cs.calleeName(), ".Decode") {
				dec = append(dec, cs)
			}
		}
		ok := len(sites) > 0 && len(dec) > 0
		for _, ret := range successReturns(pc) {
			reached := false
			for _, d := range dec {
				if ireach(d.In, ret) {
					reached = true
				}
			}
			if !reached {
				continue // returned before anything was decoded (empty input)
			}
			dom := false
			for _, cs := range sites {
				if idom(cs.In, ret) {
					// and its error is what is returned
					for _, rt := range valueRoots(ret.Results[len(ret.Results)-1]) {
						if rt == cs.In.Value() {
							dom = true
						}
					}
				}
			}
			if !dom {
				ok = false
			}
		}
		r.add("R20.2b", "nsx-validity-on-every-parse", p.pos(pc.Pos()), "checkConfigValidity guards every non-empty successfully parsed NSX configuration", ok,
			"the NSX planner indexes [0] of rule/group lists that were never validated")
	} else {
		r.fail("R20.2b", "anchor|nsx ParseConfig", "", "not found", "")
	}
	ruleLookupListsNonEmpty(p, r)
	ruleLoopProgress(p, r)
	r.rule("R20.3b", "The pairing invariant behind an audited nil residual is established by code whose decisions are frozen: the return sites of (*panos.addrListPair).Equal keep their audited controlling conditions and values (tables/guards.tsv rows for C20): a device address-group is paired only with a name that is an address-group in the target, so the target-side group lookup in hasEqualizedLists cannot miss.")
	ruleGuardTable(p, r, "R20.3b", "C20")
	ruleNSXSingletons(p, r, []string{"nsx.nsxRule.SourceGroups", "nsx.nsxRule.DestinationGroups", "nsx.nsxRule.Services", "nsx.nsxGroup.Expression"})
}

// ---- R20.3 ----

type nilUse struct {
	Fn   *ssa.Function
	In   ssa.Instruction
	Src  string
	Desc string
}

// mayReturnNil: module functions with a pointer/interface result that is the
// constant nil on some path.
func mayReturnNilFuncs(p *Prog) map[*ssa.Function]map[int]bool {
	out := map[*ssa.Function]map[int]bool{}
	for _, fn := range allModFuncs(p) {
		for _, ret := range returnsOf(fn) {
			for i, rv := range ret.Results {
				if _, isPtr := rv.Type().Underlying().(*types.Pointer); !isPtr {
					continue
				}
				for _, rt := range valueRoots(rv) {
					if isNilConst(rt) {
						if out[fn] == nil {
							out[fn] = map[int]bool{}
						}
						out[fn][i] = true
					}
				}
				// a pointer variable handed by address to a JSON/XML decoder: the document `null`
				// sets it to nil
				if u, ok := rv.(*ssa.UnOp); ok && u.Op == token.MUL {
					if al, ok := u.X.(*ssa.Alloc); ok && decodedByAddress(al) {
						if out[fn] == nil {
							out[fn] = map[int]bool{}
						}
						out[fn][i] = true
					}
				}
			}
		}
	}
	return out
}

func hasTag(st *types.Struct) bool {
	for i := 0; i < st.NumFields(); i++ {
		if st.Tag(i) != "" {
			return true
		}
	}
	return false
}

func nilGuarded(v ssa.Value, use ssa.Instruction) bool {
	fn := use.Parent()
	same := func(x ssa.Value) bool {
		if x == v {
			return true
		}
		// a second load of the same field/element address
		u1, ok1 := x.(*ssa.UnOp)
		u2, ok2 := v.(*ssa.UnOp)
		if ok1 && ok2 && u1.Op == token.MUL && u2.Op == token.MUL {
			f1, a1 := u1.X.(*ssa.FieldAddr)
			f2, a2 := u2.X.(*ssa.FieldAddr)
			if a1 && a2 && f1.Field == f2.Field && (f1.X == f2.X || sameLoad(f1.X, f2.X)) {
				return true
			}
		}
		return false
	}
	for _, b := range fn.Blocks {
		i := ifOf(b)
		if i == nil {
			continue
		}
		if x, nonNilWhenTrue, ok := nilTest(i.Cond); ok && same(x) {
			succ := 0
			if !nonNilWhenTrue {
				succ = 1
			}
			if edgeDominatesNA(b, succ, use.Block()) {
				return true
			}
		}
		// comma-ok of the lookup that produced v
		if ex, ok := v.(*ssa.Extract); ok && ex.Index == 0 {
			c, neg := stripNot(i.Cond)
			if e2, ok := c.(*ssa.Extract); ok && e2.Tuple == ex.Tuple && e2.Index == 1 {
				succ := 0
				if neg {
					succ = 1
				}
				if edgeDominatesNA(b, succ, use.Block()) {
					return true
				}
			}
		}
	}
	return false
}

func sameLoad(a, b ssa.Value) bool {
	ua, ok1 := a.(*ssa.UnOp)
	ub, ok2 := b.(*ssa.UnOp)
	if !ok1 || !ok2 {
		return false
	}
	return ua.X == ub.X
}

func nilResiduals(p *Prog) []nilUse {
	mrn := mayReturnNilFuncs(p)
	var out []nilUse
	for _, fn := range allModFuncs(p) {
		if !fileInputPkgs[pkgOfFunc(fn)] {
			continue
		}
		for _, b := range fn.Blocks {
			for _, in := range b.Instrs {
				fa, ok := in.(*ssa.FieldAddr)
				if !ok {
					continue
				}
				v := fa.X
				src := ""
				switch x := v.(type) {
				case *ssa.Lookup:
					if _, isPtr := x.Type().Underlying().(*types.Pointer); isPtr && !x.CommaOk {
						src = "map lookup"
					}
				case *ssa.Extract:
					switch t := x.Tuple.(type) {
					case *ssa.Lookup:
						if x.Index == 0 {
							if _, isPtr := x.Type().Underlying().(*types.Pointer); isPtr {
								src = "map lookup"
							}
						}
					case *ssa.Call:
						if f := t.Common().StaticCallee(); f != nil && mrn[f][x.Index] {
							src = "result of " + shortName(f) + " (may be nil)"
						}
					}
				case *ssa.Call:
					if f := x.Common().StaticCallee(); f != nil && mrn[f][0] {
						src = "result of " + shortName(f) + " (may be nil)"
					}
				case *ssa.UnOp:
					if x.Op == token.MUL {
						switch a := x.X.(type) {
						case *ssa.FieldAddr:
							// pointer-typed field of a decoded struct
							if _, isPtr := x.Type().Underlying().(*types.Pointer); isPtr {
								bt := a.X.Type()
								if pt, ok := bt.Underlying().(*types.Pointer); ok {
									bt = pt.Elem()
								}
								if st, ok := bt.Underlying().(*types.Struct); ok && hasTag(st) && st.Tag(a.Field) != "" {
									src = "decoded optional field " + fieldName(a)
								}
							}
						case *ssa.IndexAddr:
							// element of a decoded []*T in package nsx (JSON null)
							if pt, isPtr := x.Type().Underlying().(*types.Pointer); isPtr && pkgOfFunc(fn) == "nsx" {
								if st, ok := pt.Elem().Underlying().(*types.Struct); ok && hasTag(st) {
									src = "element of a JSON-decoded list of " + typeShort(pt.Elem())
								}
							}
						}
					}
				}
				if src == "" {
					continue
				}
				if nilGuarded(v, in) {
					continue
				}
				if strings.HasPrefix(src, "element of a JSON-decoded list of ") {
					// one root cause per element type: the decoder accepts null list elements
					out = append(out, nilUse{nil, in, "json-null", strings.TrimPrefix(src, "element of a JSON-decoded list of ")})
					continue
				}
				out = append(out, nilUse{fn, in, src, fieldName(fa)})
			}
		}
		// a pointer variable decoded by address (json `null` -> nil) and dereferenced in the same function
		for _, b := range fn.Blocks {
			for _, in := range b.Instrs {
				fa, ok := in.(*ssa.FieldAddr)
				if !ok {
					continue
				}
				ld, ok := fa.X.(*ssa.UnOp)
				if !ok || ld.Op != token.MUL {
					continue
				}
				al, ok := ld.X.(*ssa.Alloc)
				if !ok || !decodedByAddress(al) || nilGuarded(ld, in) {
					continue
				}
				out = append(out, nilUse{fn, in, "pointer decoded by address (document `null`)", fieldName(fa)})
			}
		}
		// pointer fields that the module itself resets to nil (x.f = nil): a dereference of a
		// value loaded from such a field needs a nil test
		for _, b := range fn.Blocks {
			for _, in := range b.Instrs {
				fa, ok := in.(*ssa.FieldAddr)
				if !ok {
					continue
				}
				ld, ok := fa.X.(*ssa.UnOp)
				if !ok || ld.Op != token.MUL {
					continue
				}
				src, ok := ld.X.(*ssa.FieldAddr)
				if !ok || !nilResetFields(p)[fieldName(src)] {
					continue
				}
				if nilGuarded(ld, in) {
					continue
				}
				// the object comes in as a parameter: accept a nil test of the field at every call
				// site (followed through callers that merely pass their own parameter on)
				if par, isPar := src.X.(*ssa.Parameter); isPar && par.Parent() == fn {
					var guardedAtSites func(g *ssa.Function, par *ssa.Parameter, depth int) bool
					guardedAtSites = func(g *ssa.Function, par *ssa.Parameter, depth int) bool {
						if depth > 3 {
							return false
						}
						idx := -1
						for i, q := range g.Params {
							if q == par {
								idx = i
							}
						}
						sites := 0
						for _, e := range callersOf(p.CG(), g) {
							if e.Site == nil {
								continue
							}
							sites++
							ci := e.Site
							caller := e.Caller.Func
							if idx < 0 || idx >= len(ci.Common().Args) {
								return false
							}
							arg := ci.Common().Args[idx]
							ok := false
							for _, cb := range caller.Blocks {
								for _, cin := range cb.Instrs {
									u, isU := cin.(*ssa.UnOp)
									if !isU || u.Op != token.MUL {
										continue
									}
									cfa, isF := u.X.(*ssa.FieldAddr)
									if !isF || cfa.Field != src.Field || !(cfa.X == arg || sameLoad(cfa.X, arg)) {
										continue
									}
									if nilGuarded(u, ci) {
										ok = true
									}
								}
							}
							if !ok {
								// the caller passes on its own parameter (possibly spilled into a cell
								// because a nested closure captures it)
								rts := valueRoots(arg)
								if len(rts) == 1 {
									if ap, isP := rts[0].(*ssa.Parameter); isP && ap.Parent() == caller {
										ok = guardedAtSites(caller, ap, depth+1)
									}
								}
							}
							if !ok {
								return false
							}
						}
						return sites > 0
					}
					if guardedAtSites(fn, par, 0) {
						continue
					}
				}
				out = append(out, nilUse{fn, in, "field " + fieldName(src) + " (reset to nil elsewhere)", fieldName(fa)})
			}
		}
		// one level inter-procedural: an unguarded map lookup handed to a module function
		// (or local closure) that dereferences the parameter without testing it
		for _, b := range fn.Blocks {
			for _, in := range b.Instrs {
				ci, ok := in.(ssa.CallInstruction)
				if !ok {
					continue
				}
				var callees []*ssa.Function
				if g := ci.Common().StaticCallee(); g != nil {
					callees = append(callees, g)
				} else {
					callees = calleesOfSite(p, &callSite{In: ci, Fn: fn})
				}
				for ai, v := range ci.Common().Args {
					isLookup := false
					switch x := v.(type) {
					case *ssa.Lookup:
						if _, isPtr := x.Type().Underlying().(*types.Pointer); isPtr && !x.CommaOk {
							isLookup = true
						}
					case *ssa.Extract:
						if lk, ok := x.Tuple.(*ssa.Lookup); ok && x.Index == 0 {
							if _, isPtr := x.Type().Underlying().(*types.Pointer); isPtr && lk.CommaOk {
								isLookup = true
							}
						}
					}
					if !isLookup || nilGuarded(v, in) {
						continue
					}
					for _, g := range callees {
						if g == nil || !isModFunc(g) || len(g.Blocks) == 0 {
							continue
						}
						// parameter index: receiver included in Params for methods; closures: same order
						if ai >= len(g.Params) {
							continue
						}
						par := g.Params[ai]
						if par.Referrers() == nil {
							continue
						}
						for _, ref := range *par.Referrers() {
							fa, ok := ref.(*ssa.FieldAddr)
							if !ok || nilGuarded(par, fa) {
								continue
							}
							out = append(out, nilUse{fn, in, "map lookup passed to " + fnDisplay(g), fieldName(fa)})
							break
						}
					}
				}
			}
		}
	}
	return out
}

func ruleNilGuards(p *Prog, r *Report) {
	r.rule("R20.3", "Nil-guard rule in the file-input packages: a field access through a pointer that may be nil — a map lookup with pointer elements, the result of a module function that returns a literal nil on some path, a pointer-typed field of a struct decoded from XML/JSON, an element of a JSON-decoded []*T (null) — must be dominated by a `!= nil` test (or the lookup's comma-ok) of that value. Residuals are compared as a multiset (function, source, field) with tables/nil_audit.tsv; class FINDING rows fail unless listed in known_findings.txt.")
	type key struct{ fn, src, fld string }
	res := nilResiduals(p)
	counts := map[key]int{}
	pos := map[key]string{}
	for _, u := range res {
		fnn := "nsx"
		if u.Fn != nil {
			fnn = fnDisplay(u.Fn)
		}
		k := key{fnn, u.Src, u.Desc}
		counts[k]++
		if pos[k] == "" {
			pos[k] = p.ipos(u.In)
		}
	}
	audit := map[key][]string{}
	for _, row := range readTable("nil_audit.tsv", 6) {
		audit[key{row[0], row[1], row[2]}] = row
	}
	var keys []key
	for k := range counts {
		keys = append(keys, k)
	}
	sort.Slice(keys, func(i, j int) bool { return keys[i].fn+keys[i].src+keys[i].fld < keys[j].fn+keys[j].src+keys[j].fld })
	for _, k := range keys {
		okey := "nil|" + k.fn + "|" + k.src + "|" + k.fld
		row, ok := audit[k]
		if !ok {
			r.fail("R20.3", okey, pos[k], fmt.Sprintf("%d unguarded access(es) to .%s through %s in %s", counts[k], k.fld, k.src, k.fn),
				"possible nil pointer dereference on malformed input; guard it or audit it in tables/nil_audit.tsv")
			continue
		}
		var audited int
		fmt.Sscan(row[3], &audited)
		if counts[k] > audited {
			r.fail("R20.3", okey, pos[k], fmt.Sprintf("%d unguarded accesses, only %d audited", counts[k], audited), "a guard was removed or a new access added")
			continue
		}
		if row[4] == "FINDING" {
			r.fail("R20.3", okey, pos[k], fmt.Sprintf("nil dereference possible: %s", row[5]), "malformed input ends in SIGSEGV / panic")
			continue
		}
		r.ok("R20.3", okey, pos[k], fmt.Sprintf("%d× .%s through %s in %s — %s: %s", counts[k], k.fld, k.src, k.fn, row[4], row[5]))
	}
	r.note("R20.3: %d unguarded nillable accesses in %d groups", len(res), len(keys))
}

// ---- R20.4 ----

func ruleTypeAsserts(p *Prog, r *Report) {
	r.rule("R20.4", "Unchecked type assertions (x.(T) without comma-ok) in production code are enumerated; each must assert a deviceconf.Config to the configuration type of its own package (which that package's ParseConfig/LoadDevice/MergeSpoc return exclusively, and device.getRealDevice fixes the implementation per run) or errlog's bailout.")
	n := 0
	for _, fn := range allModFuncs(p) {
		for _, b := range fn.Blocks {
			for _, in := range b.Instrs {
				ta, ok := in.(*ssa.TypeAssert)
				if !ok || ta.CommaOk {
					continue
				}
				n++
				pkg := pkgOfFunc(fn)
				tgt := typeShort(ta.AssertedType)
				src := typeShort(ta.X.Type())
				okA := src == "deviceconf.Config" && (strings.HasPrefix(tgt, "*"+pkg+".") || (pkg == "cisco" && tgt == "*cisco.Config"))
				// the package's ParseConfig returns only that type
				r.add("R20.4", "type-assert|"+fnDisplay(fn)+"|"+tgt, p.ipos(ta), fmt.Sprintf("%s asserted to %s in %s", src, tgt, fnDisplay(fn)), okA,
					"an unchecked type assertion that is not the package's own configuration type can panic")
			}
		}
	}
	r.floor("R20.4", "unchecked type assertions", n, 8)
	// each implementation's ParseConfig returns only its own config type
	m, err := p.model()
	if err == nil {
		for _, t := range m.Impls {
			pc := m.implMethod(t, "ParseConfig")
			if pc == nil {
				continue
			}
			kinds := map[string]bool{}
			var visit func(f *ssa.Function, d int)
			visit = func(f *ssa.Function, d int) {
				for _, ret := range returnsOf(f) {
					for _, rt := range valueRoots(ret.Results[0]) {
						switch x := rt.(type) {
						case *ssa.MakeInterface:
							kinds[typeShort(x.X.Type())] = true
						case *ssa.Call:
							if cf := x.Common().StaticCallee(); cf != nil && isModFunc(cf) && d < 3 {
								visit(cf, d+1)
							}
						case *ssa.Extract:
							if c, ok := x.Tuple.(*ssa.Call); ok {
								if cf := c.Common().StaticCallee(); cf != nil && isModFunc(cf) && d < 3 {
									visit(cf, d+1)
								}
							}
						case *ssa.Const:
						default:
							kinds[typeShort(rt.Type())] = true
						}
					}
				}
			}
			visit(pc, 0)
			var l []string
			for k := range kinds {
				l = append(l, k)
			}
			sort.Strings(l)
			pkg := pkgOfFunc(pc)
			ok := len(l) >= 1
			for _, k := range l {
				if !strings.HasPrefix(k, "*"+pkg+".") && !((pkg == "asa" || pkg == "ios") && k == "*cisco.Config") {
					ok = false
				}
			}
			r.add("R20.4", "parseconfig-type|"+typeShort(t), p.pos(pc.Pos()), fmt.Sprintf("%s.ParseConfig returns only %v", typeShort(t), l), ok, "ParseConfig can return a foreign configuration type")
		}
	}
}

// ---- R20.5 ----

func ruleRefGraphAcyclic(p *Prog, r *Report) {
	r.rule("R20.5", "The reference-type graph read from the cmdInfo literals (prefix -> prefixes named by its $references, including those of sub-commands, plus the references added in postprocessParsed: access-list -> object-group, crypto [dynamic-]map -> crypto ipsec transform-set/proposal) is acyclic; hence the recursive walkers without visit marks (markNeeded, deleteUnused.follow, mergeRefs, addCmds.follow) terminate on every input.")
	for _, pkg := range []string{"asa", "ios"} {
		t, err := readCmdInfo(p, pkg)
		if err != nil {
			r.fail("R20.5", "cmdinfo|"+pkg, "", "cannot read cmdInfo", err.Error())
			continue
		}
		g := map[string]map[string]bool{}
		addE := func(a, b string) {
			if g[a] == nil {
				g[a] = map[string]bool{}
			}
			g[a][b] = true
		}
		for _, c := range t.Types {
			for _, rf := range c.Ref {
				addE(c.lookupPrefix(), rf)
			}
			for _, s := range c.Sub {
				for _, rf := range s.Ref {
					addE(c.lookupPrefix(), rf)
				}
			}
		}
		addE("access-list", "object-group")
		addE("crypto map", "crypto ipsec ikev1 transform-set")
		addE("crypto map", "crypto ipsec ikev2 ipsec-proposal")
		addE("crypto dynamic-map", "crypto ipsec ikev1 transform-set")
		addE("crypto dynamic-map", "crypto ipsec ikev2 ipsec-proposal")
		// cycle detection
		state := map[string]int{}
		var cyc []string
		var dfs func(n string, path []string)
		dfs = func(n string, path []string) {
			if cyc != nil {
				return
			}
			state[n] = 1
			for m := range g[n] {
				if state[m] == 1 {
					cyc = append(append([]string{}, path...), n, m)
					return
				}
				if state[m] == 0 {
					dfs(m, append(path, n))
				}
			}
			state[n] = 2
		}
		var nodes []string
		for n := range g {
			nodes = append(nodes, n)
		}
		sort.Strings(nodes)
		for _, n := range nodes {
			if state[n] == 0 {
				dfs(n, nil)
			}
		}
		ne := 0
		for _, m := range g {
			ne += len(m)
		}
		r.add("R20.5", "ref-graph-acyclic|"+pkg, p.pos(t.Pos), fmt.Sprintf("%s: reference graph with %d prefixes and %d edges is acyclic", pkg, len(g), ne), cyc == nil,
			fmt.Sprintf("reference cycle %v: the recursive walkers do not terminate", cyc))
	}
}

// ruleCapturedGuards: R20.2c.  Index expressions on a variable captured by a
// closure stay "unproven" for the compiler whether or not they are guarded, so
// removing the guard would not change the compiler's list.  For the audited
// class-L sites inside the closures of cisco.postprocessACLParts (and
// cisco.matchCmd) the guard itself is therefore checked: every index/slice
// instruction on the captured token slice that the audit table classifies as L
// is controlled by a condition on len(<that slice>).
func ruleCapturedGuards(p *Prog, r *Report) {
	r.rule("R20.2c", "Guards on captured variables: in the closures of cisco.postprocessACLParts every index/slice of the captured token slice `parts` that the audit table lists as guarded (class L) is controlled by a test of len(parts); removing such a guard is invisible to the compiler's list, so it is checked here on go/ssa.")
	par := p.Fn("cisco.postprocessACLParts")
	if par == nil {
		r.fail("R20.2c", "anchor|postprocessACLParts", "", "not found", "")
		return
	}
	audit := map[string]string{}
	for _, row := range readTable("bounds_audit.tsv", 5) {
		audit[row[0]+"|"+row[1]] = row[3]
	}
	n := 0
	for _, cl := range par.AnonFuncs {
		name := "cisco.postprocessACLParts." + closureName(cl)
		for _, b := range cl.Blocks {
			for _, in := range b.Instrs {
				var base ssa.Value
				var what string
				switch x := in.(type) {
				case *ssa.IndexAddr:
					base = x.X
					what = "index"
				case *ssa.Slice:
					base = x.X
					what = "slice"
				default:
					continue
				}
				// only the captured slice: load of a free variable
				u, ok := base.(*ssa.UnOp)
				if !ok || u.Op != token.MUL {
					continue
				}
				if _, isFV := u.X.(*ssa.FreeVar); !isFV {
					continue
				}
				// controlling conditions including loop conditions
				guarded := false
				for _, bb := range cl.Blocks {
					i := ifOf(bb)
					if i == nil {
						continue
					}
					for k := range bb.Succs {
						if edgeDominates(bb, k, in.Block()) && strings.Contains(descCond(i.Cond, k == 0), "len(") {
							guarded = true
						}
					}
				}
				// rows of class FINDING are the unguarded ones
				isFinding := false
				for k, cls := range audit {
					if strings.HasPrefix(k, name+"|") && cls == "FINDING" {
						isFinding = true
					}
				}
				if isFinding {
					continue // the closure has known unguarded accesses; recorded as findings
				}
				n++
				r.add("R20.2c", "captured-guard|"+name+"|"+what, p.ipos(in), what+" of the captured slice in "+name+" is controlled by a len() test", guarded,
					"the guard on a captured slice was removed: the compiler's list does not change, but the access can now be out of range")
			}
		}
	}
	r.floor("R20.2c", "guarded accesses to the captured slice", n, 8)
}

// ruleUnboundedLoops: R20.6.
func ruleUnboundedLoops(p *Prog, r *Report) {
	r.rule("R20.6", "Termination of loops without a loop condition (`for { ... }`, `for i := 1; ; i++`) in the packages that handle input files: each one is enumerated from the AST and must be audited in tables/loops_audit.tsv (function, count, progress argument); a new unbounded loop form is undecided. Bounded range loops and condition loops over shrinking slices are not listed (their conditions are visible); recursion is covered by R20.5.")
	audit := map[string][]string{}
	for _, row := range readTable("loops_audit.tsv", 3) {
		audit[row[0]] = row
	}
	counts := map[string]int{}
	pos := map[string]string{}
	for _, pk := range p.prodPkgs() {
		if !fileInputPkgs[shortPath(pk.PkgPath)] {
			continue
		}
		for _, f := range pk.Syntax {
			ast.Inspect(f, func(n ast.Node) bool {
				fs, ok := n.(*ast.ForStmt)
				if !ok || fs.Cond != nil {
					return true
				}
				name := enclosingFuncDisplay(pk, f, fs.Pos())
				counts[name]++
				if pos[name] == "" {
					pos[name] = p.pos(fs.Pos())
				}
				return true
			})
		}
	}
	var names []string
	for n := range counts {
		names = append(names, n)
	}
	sort.Strings(names)
	for _, n := range names {
		row, ok := audit[n]
		if !ok {
			r.fail("R20.6", "unbounded-loop|"+n, pos[n], fmt.Sprintf("%d loop(s) without condition in %s are not audited", counts[n], n), "a loop that may not terminate on some input: the program hangs instead of ending with a diagnostic")
			continue
		}
		var a int
		fmt.Sscan(row[1], &a)
		r.add("R20.6", "unbounded-loop|"+n, pos[n], fmt.Sprintf("%d loop(s) without condition in %s: %s", counts[n], n, row[2]), counts[n] <= a, "more unbounded loops than audited")
	}
	r.floor("R20.6", "functions with condition-less loops", len(names), 4)
}

// ruleNSXSingletons: R20.2d.  The content of invariant I5: for every struct
// field that the NSX planner indexes with [0] on the strength of I5,
// checkConfigValidity rejects a value with no element.
func ruleNSXSingletons(p *Prog, r *Report, fields []string) {
	r.rule("R20.2d", "Invariant I5 has the content the audit relies on: for each field indexed with [0] in an I5 row of tables/bounds_audit.tsv (nsxRule.SourceGroups, .DestinationGroups, .Services, nsxGroup.Expression) nsx.checkConfigValidity contains a test of len(<field>) whose outcome for length 0 leads straight to a return of a non-nil error, and every other condition that controls that test also ends in an error return on its other edge (so the test is evaluated for every element that passed the earlier tests).")
	fn := p.Fn("nsx.checkConfigValidity")
	if fn == nil {
		r.fail("R20.2d", "anchor|nsx.checkConfigValidity", "", "not found", "")
		return
	}
	// the block reached by following unconditional jumps returns a non-nil error
	var errorExit func(b *ssa.BasicBlock, d int) bool
	errorExit = func(b *ssa.BasicBlock, d int) bool {
		if d > 4 {
			return false
		}
		last := b.Instrs[len(b.Instrs)-1]
		switch x := last.(type) {
		case *ssa.Return:
			return len(x.Results) > 0 && errProvablyNonNil(x.Results[len(x.Results)-1], b, 0)
		case *ssa.Jump:
			return errorExit(b.Succs[0], d+1)
		}
		return false
	}
	lenOfField := func(v ssa.Value) string {
		c, ok := v.(*ssa.Call)
		if !ok {
			return ""
		}
		if b, ok := c.Common().Value.(*ssa.Builtin); !ok || b.Name() != "len" {
			return ""
		}
		for _, rt := range valueRoots(c.Common().Args[0]) {
			if u, ok := rt.(*ssa.UnOp); ok {
				if fa, ok := u.X.(*ssa.FieldAddr); ok {
					return fieldName(fa)
				}
			}
			if f, ok := rt.(*ssa.Field); ok {
				return typeShort(f.X.Type()) + "." + f.X.Type().Underlying().(*types.Struct).Field(f.Field).Name()
			}
		}
		return ""
	}
	// edge of `i` taken when the tested length is n; -1 if i is not a length test of a field
	edgeFor := func(i *ssa.If, n int64) (string, int) {
		cond, neg := stripNot(i.Cond)
		bo, ok := cond.(*ssa.BinOp)
		if !ok {
			return "", -1
		}
		fld, k, flip := lenOfField(bo.X), int64(0), false
		if fld != "" {
			kk, ok := constInt(bo.Y)
			if !ok {
				return "", -1
			}
			k = kk
		} else if fld = lenOfField(bo.Y); fld != "" {
			kk, ok := constInt(bo.X)
			if !ok {
				return "", -1
			}
			k, flip = kk, true
		} else {
			return "", -1
		}
		a, b := n, k
		if flip {
			a, b = k, n
		}
		var val bool
		switch bo.Op {
		case token.EQL:
			val = a == b
		case token.NEQ:
			val = a != b
		case token.LSS:
			val = a < b
		case token.LEQ:
			val = a <= b
		case token.GTR:
			val = a > b
		case token.GEQ:
			val = a >= b
		default:
			return "", -1
		}
		if neg {
			val = !val
		}
		if val {
			return fld, 0
		}
		return fld, 1
	}
	found := map[string]string{}
	for _, b := range fn.Blocks {
		i := ifOf(b)
		if i == nil {
			continue
		}
		fld, e := edgeFor(i, 0)
		if e < 0 {
			continue
		}
		if !errorExit(b.Succs[e], 0) {
			if _, ok := found[fld]; !ok {
				found[fld] = "len(" + fld + ") is tested at " + p.ipos(i) + ", but a value without elements passes the test"
			}
			continue
		}
		// every other controlling condition: its other edge is an error exit too (or it is a loop condition)
		okCtl := ""
		for _, jb := range fn.Blocks {
			j := ifOf(jb)
			if j == nil || j == i || naturalLoopBody(jb) != nil {
				continue
			}
			for k := range jb.Succs {
				if edgeDominates(jb, k, b) && !errorExit(jb.Succs[1-k], 0) {
					okCtl = "the test at " + p.ipos(i) + " is only reached under the condition at " + p.ipos(j)
				}
			}
		}
		if okCtl != "" {
			if _, ok := found[fld]; !ok {
				found[fld] = okCtl
			}
			continue
		}
		found[fld] = "ok"
	}
	for _, f := range fields {
		st, seen := found[f]
		if !seen {
			st = "checkConfigValidity has no test of len(" + f + ")"
		}
		r.add("R20.2d", "singleton-checked|"+f, p.pos(fn.Pos()), "a "+f+" without elements is rejected by checkConfigValidity", st == "ok",
			"the planner's "+f+"[0] (class I5 of the bounds audit) panics on such input: "+st)
	}
}

// ---- R20.2e: invariant I1 (lists stored in an objLookup are non-empty) ----

type lookupStore struct {
	Fn    *ssa.Function
	In    *ssa.MapUpdate
	Class string // APPEND>=1 | LITERAL>=1 | RESLICE[0:k] | FROM-LOOKUP | OTHER:<desc>
}

func lookupStores(p *Prog) []lookupStore {
	var out []lookupStore
	for _, fn := range allModFuncs(p) {
		if pkgOfFunc(fn) != "cisco" || fn.Synthetic != "" {
			continue
		}
		for _, b := range fn.Blocks {
			for _, in := range b.Instrs {
				mu, ok := in.(*ssa.MapUpdate)
				if !ok {
					continue
				}
				mt, ok := mu.Map.Type().Underlying().(*types.Map)
				if !ok || typeShort(mt.Elem()) != "[]*cisco.cmd" || typeShort(mt.Key()) != "string" {
					continue
				}
				out = append(out, lookupStore{fn, mu, classifyListValue(mu.Value, 0)})
			}
		}
	}
	return out
}

func classifyListValue(v ssa.Value, d int) string {
	if d > 4 {
		return "OTHER:deep"
	}
	switch x := v.(type) {
	case *ssa.Call:
		if b, ok := x.Common().Value.(*ssa.Builtin); ok && b.Name() == "append" {
			args := x.Common().Args
			// append(x, e...) : second arg is a slice; literal with >= 1 element is explicit growth
			if len(args) == 2 {
				if el, ok := sliceLitElems(args[1]); ok && len(el) >= 1 {
					return "APPEND>=1"
				}
			}
			if el, ok := sliceLitElems(args[0]); ok && len(el) >= 1 {
				return "APPEND>=1"
			}
			// append(a, b...) of two lists: non-empty if either is
			ca := classifyListValue(args[0], d+1)
			if !strings.HasPrefix(ca, "OTHER") {
				return ca
			}
			if len(args) == 2 {
				cb := classifyListValue(args[1], d+1)
				if !strings.HasPrefix(cb, "OTHER") {
					return cb
				}
			}
			return "OTHER:append(" + descValue(args[0], 0) + ", ...)"
		}
	case *ssa.Slice:
		if el, ok := sliceLitElems(x); ok {
			if len(el) >= 1 {
				return "LITERAL>=1"
			}
			return "OTHER:empty literal"
		}
		if x.High != nil {
			if k, ok := constInt(x.High); ok && k >= 1 {
				lo := int64(0)
				if x.Low != nil {
					lo, _ = constInt(x.Low)
				}
				if k-lo >= 1 {
					return fmt.Sprintf("RESLICE[%d:%d]", lo, k)
				}
			}
		}
	case *ssa.Lookup:
		if mt, ok := x.X.Type().Underlying().(*types.Map); ok && typeShort(mt.Elem()) == "[]*cisco.cmd" && !x.CommaOk {
			return "OTHER:lookup (may be missing)"
		}
	}
	return "OTHER:" + descValue(v, 0)
}

func init() {
	dumpers["lookupstores"] = func(p *Prog, m *Model) {
		for _, s := range lookupStores(p) {
			fmt.Printf("%s\t%s\t# %s\n", fnDisplay(s.Fn), s.Class, p.ipos(s.In))
		}
	}
}

func ruleLookupListsNonEmpty(p *Prog, r *Report) {
	r.rule("R20.2e", "Invariant I1 (lists stored under a name in a Cisco objLookup are non-empty — 33 audited bounds obligations index [0] on its strength): every store into a map[string][]*cmd in package cisco stores a value that is non-empty by its form (append with at least one explicit element, slice literal with elements, constant re-slice [0:k]) or is an audited row of tables/nonempty_audit.tsv (function, value form and controlling conditions, compared as a multiset).")
	want := map[string][]string{}
	why := map[string]string{}
	for _, row := range readTable("nonempty_audit.tsv", 3) {
		want[row[0]] = append(want[row[0]], row[1])
		why[row[0]+"|"+row[1]] = row[2]
	}
	n := 0
	for _, s := range lookupStores(p) {
		n++
		name := fnDisplay(s.Fn)
		if !strings.HasPrefix(s.Class, "OTHER") {
			r.ok("R20.2e", "lookup-store|"+name+"|"+s.Class, p.ipos(s.In), "stored list is non-empty by its form: "+s.Class)
			continue
		}
		sig := s.Class + " @ " + strings.Join(guardSet(s.In), " && ")
		idx := -1
		for i, w := range want[name] {
			if w == sig {
				idx = i
			}
		}
		if idx >= 0 {
			want[name] = append(want[name][:idx], want[name][idx+1:]...)
			r.ok("R20.2e", "lookup-store|"+name+"|"+sig, p.ipos(s.In), "audited: "+why[name+"|"+sig])
		} else {
			r.fail("R20.2e", "lookup-store|"+name+"|"+sig, p.ipos(s.In), "a list whose non-emptiness is neither evident from its form nor audited is stored into a lookup map",
				"an empty list under a name breaks invariant I1: every later l[0] on that name panics (not in tables/nonempty_audit.tsv)")
		}
	}
	r.floor("R20.2e", "stores into map[string][]*cmd in package cisco", n, 12)
}

func init() {
	dumpers["nonemptyrows"] = func(p *Prog, m *Model) {
		for _, s := range lookupStores(p) {
			if strings.HasPrefix(s.Class, "OTHER") {
				fmt.Printf("%s\t%s @ %s\tREASON\t# %s\n", fnDisplay(s.Fn), s.Class, strings.Join(guardSet(s.In), " && "), p.ipos(s.In))
			}
		}
	}
}

// ruleLoopProgress: R20.6b.  A cycle through a loop that changes none of the
// loop's variables and performs no call that could change anything repeats
// forever.
func ruleLoopProgress(p *Prog, r *Report) {
	r.rule("R20.6b", "Every cycle of a loop makes progress: for each natural loop in the packages that handle input files and for each back edge into its header, some variable that lives across iterations (phi at the header) receives, over that edge, a value other than its own — or the cycle contains a call that is not a pure string/byte/slice helper (I/O, module functions). A cycle that changes nothing (`continue` without consuming input) hangs the program on the input that reaches it.")
	pure := func(name string) bool {
		for _, pre := range []string{"strings.", "bytes.", "slices.", "strconv.", "unicode.", "len", "cap", "min", "max", "regexp.", "(*regexp.Regexp).", "path.", "fmt.Sprint", "net/netip.", "maps."} {
			if strings.HasPrefix(name, pre) {
				return true
			}
		}
		return false
	}
	n := 0
	for _, fn := range allModFuncs(p) {
		if fn.Synthetic != "" || !fileInputPkgs[pkgOfFunc(fn)] {
			continue
		}
		for _, h := range fn.Blocks {
			body := naturalLoopBody(h)
			if body == nil {
				continue
			}
			var phis []*ssa.Phi
			for _, in := range h.Instrs {
				if ph, ok := in.(*ssa.Phi); ok {
					phis = append(phis, ph)
				} else {
					break
				}
			}
			// range-over-map / range-over-string loops advance an iterator: Next in the header region
			iter := false
			for b := range body {
				for _, in := range b.Instrs {
					if _, ok := in.(*ssa.Next); ok {
						iter = true
					}
				}
			}
			if iter {
				continue
			}
			for pi, pr := range h.Preds {
				if !body[pr] {
					continue
				}
				n++
				changed := false
				for _, ph := range phis {
					v := ph.Edges[pi]
					// flatten phis inside the body along any edge: unchanged only if every source is ph itself
					seen := map[ssa.Value]bool{}
					var same func(x ssa.Value) bool
					same = func(x ssa.Value) bool {
						if x == ssa.Value(ph) {
							return true
						}
						if seen[x] {
							return true
						}
						seen[x] = true
						if q, ok := x.(*ssa.Phi); ok && body[q.Block()] && q.Block() != h {
							for _, e := range q.Edges {
								if !same(e) {
									return false
								}
							}
							return true
						}
						return false
					}
					if !same(v) {
						changed = true
					}
				}
				if changed {
					continue
				}
				// blocks on paths header -> pr inside the body that can reach pr: look for an effectful call
				reachesPr := map[*ssa.BasicBlock]bool{}
				var back func(b *ssa.BasicBlock)
				back = func(b *ssa.BasicBlock) {
					if reachesPr[b] || !body[b] {
						return
					}
					reachesPr[b] = true
					if b == h {
						return
					}
					for _, q := range b.Preds {
						back(q)
					}
				}
				back(pr)
				call := ""
				for b := range reachesPr {
					for _, in := range b.Instrs {
						if ci, ok := in.(ssa.CallInstruction); ok {
							name := (&callSite{In: ci, Fn: fn, Static: ci.Common().StaticCallee()}).calleeName()
							if bi, isB := ci.Common().Value.(*ssa.Builtin); isB {
								name = bi.Name()
								if name == "delete" || name == "copy" || name == "append" {
									call = name
								}
								continue
							}
							if !pure(name) {
								call = name
							}
						}
						if _, ok := in.(*ssa.Store); ok {
							call = "store"
						}
						if _, ok := in.(*ssa.MapUpdate); ok {
							call = "map update"
						}
					}
				}
				// a conservative path-insensitive excuse: any effect on some path to this back edge.
				// The precise question "on the path that changes nothing" is asked below for the
				// immediate predecessor chain that has no branching.
				straight := pr
				noEffect := true
				for {
					for _, in := range straight.Instrs {
						switch x := in.(type) {
						case ssa.CallInstruction:
							name := (&callSite{In: x, Fn: fn, Static: x.Common().StaticCallee()}).calleeName()
							if _, isB := x.Common().Value.(*ssa.Builtin); isB || !pure(name) {
								noEffect = false
							}
						case *ssa.Store, *ssa.MapUpdate:
							noEffect = false
						}
					}
					if straight == h || len(straight.Preds) != 1 || !body[straight.Preds[0]] {
						break
					}
					straight = straight.Preds[0]
				}
				ok := call != "" && !noEffect || call != "" && straight == h
				_ = ok
				key := "cycle-makes-progress|" + fnDisplay(fn) + "|back edge from block " + fmt.Sprint(pr.Index)
				desc := "no loop variable changes over this back edge"
				if call != "" {
					r.ok("R20.6b", "cycle-makes-progress|"+fnDisplay(fn), p.pos(h.Instrs[0].Pos()), desc+", but the cycle performs "+call)
					continue
				}
				where := p.pos(fn.Pos())
				for _, in := range pr.Instrs {
					if in.Pos().IsValid() {
						where = p.pos(in.Pos())
					}
				}
				for _, q := range pr.Preds {
					if i := ifOf(q); i != nil && i.Pos().IsValid() && where == p.pos(fn.Pos()) {
						where = p.pos(i.Pos())
					}
				}
				r.fail("R20.6b", key, where, desc+" and the cycle performs nothing that could change the state", "the same cycle is taken again and again: the program hangs")
			}
		}
	}
	r.floor("R20.6b", "back edges examined", n, 20)
}

var nilResetCache map[string]bool

// nilResetFields: pointer-typed struct fields of module types into which some
// module function stores the constant nil (outside composite literals).
func nilResetFields(p *Prog) map[string]bool {
	if nilResetCache != nil {
		return nilResetCache
	}
	nilResetCache = map[string]bool{}
	for _, fn := range allModFuncs(p) {
		if !fileInputPkgs[pkgOfFunc(fn)] {
			continue
		}
		for _, b := range fn.Blocks {
			for _, in := range b.Instrs {
				st, ok := in.(*ssa.Store)
				if !ok || !isNilConst(st.Val) {
					continue
				}
				fa, ok := st.Addr.(*ssa.FieldAddr)
				if !ok {
					continue
				}
				if _, isPtr := st.Val.Type().Underlying().(*types.Pointer); !isPtr {
					continue
				}
				// not the initialisation of a fresh literal
				if _, fresh := fa.X.(*ssa.Alloc); fresh {
					continue
				}
				nilResetCache[fieldName(fa)] = true
			}
		}
	}
	return nilResetCache
}

// decodedByAddress: the address of the pointer-typed local al (a **T) is passed
// to encoding/json or encoding/xml Unmarshal / Decode.
func decodedByAddress(al *ssa.Alloc) bool {
	if _, isPtr := al.Type().Underlying().(*types.Pointer).Elem().Underlying().(*types.Pointer); !isPtr {
		return false
	}
	if al.Referrers() == nil {
		return false
	}
	for _, ref := range *al.Referrers() {
		var v ssa.Value
		switch x := ref.(type) {
		case *ssa.MakeInterface:
			v = x
		default:
			continue
		}
		if v.Referrers() == nil {
			continue
		}
		for _, r2 := range *v.Referrers() {
			if c, ok := r2.(ssa.CallInstruction); ok {
				n := (&callSite{In: c, Static: c.Common().StaticCallee()}).calleeName()
				if strings.HasSuffix(n, ".Unmarshal") || strings.HasSuffix(n, ".Decode") || strings.HasSuffix(n, ".DecodeElement") {
					return true
				}
			}
		}
	}
	return false
}

func audit2class[K comparable](audit map[K][]string) map[string]string {
	out := map[string]string{}
	for _, row := range audit {
		out[row[0]+"|"+row[1]] = row[3]
	}
	return out
}

// boundsShape: what is indexed, with what, under which conditions (go/ssa instruction at the
// position of the bracket).
func boundsShape(p *Prog, fn *ssa.Function, node ast.Expr) (string, bool) {
	var lbrack token.Pos
	switch e := node.(type) {
	case *ast.IndexExpr:
		lbrack = e.Lbrack
	case *ast.SliceExpr:
		lbrack = e.Lbrack
	default:
		return "", false
	}
	for _, b := range fn.Blocks {
		for _, in := range b.Instrs {
			if in.Pos() != lbrack {
				continue
			}
			d := ""
			switch x := in.(type) {
			case *ssa.IndexAddr:
				d = descOperand(x.X) + "[" + descOperand(x.Index) + "]"
			case *ssa.Index:
				d = descOperand(x.X) + "[" + descOperand(x.Index) + "]"
			case *ssa.Lookup:
				d = descOperand(x.X) + "[" + descOperand(x.Index) + "]"
			case *ssa.Slice:
				lo, hi := "", ""
				if x.Low != nil {
					lo = descOperand(x.Low)
				}
				if x.High != nil {
					hi = descOperand(x.High)
				}
				d = descOperand(x.X) + "[" + lo + ":" + hi + "]"
			default:
				continue
			}
			// only the conditions that can bear on an index: lengths, emptiness, element tests
			var gs []string
			for _, g := range guardSet(in) {
				if strings.Contains(g, "len(") || strings.Contains(g, `"" `) || strings.Contains(g, "[]") || strings.Contains(g, "ok(") {
					gs = append(gs, g)
				}
			}
			return d + " if " + strings.Join(gs, " && "), true
		}
	}
	return "", false
}

// ruleBoundsShapes: rows of class L ("the guard is visible in the source") were audited by
// reading the function; the shape of the site is frozen so that the audit is redone when the
// indexed value, the index or the guarding conditions change.
func ruleBoundsShapes(p *Prog, r *Report, sites []*bceSite, class map[string]string) {
	r.rule("R20.2f", "Audited residuals of class L (a guard in the same function makes the index safe) keep the shape that was audited: for each such site the go/ssa instruction at the bracket gives what is indexed, with which index or bounds, under which controlling conditions; the multiset per function and expression is compared with tables/bounds_shape.tsv. (The row `line[indent:]` of the Cisco parser is safe because the line was trimmed and is not empty; a change that makes the trimming conditional leaves the expression and its count as they are.)")
	byName := fnDisplayIndex(p)
	got := map[string][]string{}
	pos := map[string]string{}
	for _, s := range sites {
		k := s.Func + "|" + s.Expr
		if class[k] != "L" || s.Node == nil {
			continue
		}
		fn := byName[s.Func]
		if fn == nil {
			continue
		}
		if sh, ok := boundsShape(p, fn, s.Node); ok {
			got[k] = append(got[k], sh)
			if pos[k] == "" {
				pos[k] = fmt.Sprintf("go/%s:%d", s.File, s.Line)
			}
		}
	}
	if os.Getenv("DUMP_BOUNDS_SHAPES") != "" {
		var ks []string
		for k := range got {
			ks = append(ks, k)
		}
		sort.Strings(ks)
		for _, k := range ks {
			f, e, _ := strings.Cut(k, "|")
			l := append([]string{}, got[k]...)
			sort.Strings(l)
			for _, sh := range l {
				fmt.Printf("SHAPE\t%s\t%s\t%s\n", f, e, sh)
			}
		}
	}
	want := map[string][]string{}
	for _, row := range readTable("bounds_shape.tsv", 3) {
		want[row[0]+"|"+row[1]] = append(want[row[0]+"|"+row[1]], row[2])
	}
	var ks []string
	for k := range got {
		ks = append(ks, k)
	}
	sort.Strings(ks)
	n := 0
	for _, k := range ks {
		n++
		g, w := append([]string{}, got[k]...), append([]string{}, want[k]...)
		sort.Strings(g)
		sort.Strings(w)
		// every present shape must be an audited one (fewer occurrences are fine: the compiler proved some)
		ok := true
		wi := map[string]int{}
		for _, x := range w {
			wi[x]++
		}
		for _, x := range g {
			if wi[x] == 0 {
				ok = false
			} else {
				wi[x]--
			}
		}
		r.add("R20.2f", "bounds-shape|"+k, pos[k], fmt.Sprintf("%d class-L site(s) `%s` keep their audited shape", len(g), k), ok,
			fmt.Sprintf("what is indexed, the index or the guarding conditions changed since the audit.\n   audited: %q\n   now:     %q", w, g))
	}
	r.floor("R20.2f", "class-L sites with a shape", n, 30)
}

// descOperand: descValue, but a variable that lives in a cell (captured by a closure, or its
// address taken) is described by what is stored into it and under which conditions.
func descOperand(v ssa.Value) string {
	u, ok := v.(*ssa.UnOp)
	if !ok || u.Op != token.MUL {
		return descValue(v, 1)
	}
	var cell *ssa.Alloc
	switch a := u.X.(type) {
	case *ssa.Alloc:
		cell = a
	case *ssa.FreeVar:
		// the binding in the enclosing function
		fn := a.Parent()
		for i, fv := range fn.FreeVars {
			if fv != a || fn.Parent() == nil {
				continue
			}
			for _, b := range fn.Parent().Blocks {
				for _, in := range b.Instrs {
					if mc, ok := in.(*ssa.MakeClosure); ok && mc.Fn == fn && i < len(mc.Bindings) {
						if al, ok := mc.Bindings[i].(*ssa.Alloc); ok {
							cell = al
						}
					}
				}
			}
		}
	}
	if cell == nil {
		return descValue(v, 1)
	}
	var l []string
	for _, st := range cellStores(cell) {
		var gs []string
		for _, g := range guardSet(st) {
			gs = append(gs, g) // a store that became conditional is what matters here: all conditions
		}
		l = append(l, descValue(st.Val, 2)+" when ["+strings.Join(gs, " && ")+"]")
	}
	sort.Strings(l)
	l = uniqStrings(l)
	return "cell{" + strings.Join(l, " | ") + "}"
}
