package main

// E7: reader for the cmdInfo tables of packages asa and ios.  The tables are
// package-level string variables initialised from a literal; the reader
// follows cisco.(*parser).setupCmdDescr line by line.

import (
	"fmt"
	"go/ast"
	"go/token"
	"go/types"
	"sort"
	"strconv"
	"strings"

	"golang.org/x/tools/go/callgraph"
	"golang.org/x/tools/go/ssa"
)

type ciType struct {
	Prefix    string
	Template  []string
	Ref       []string
	Ignore    bool
	Sub       []*ciType
	ClearConf bool
	SimpleObj bool
	Anchor    bool
	FixedName bool
	Line      string
}

type ciTable struct {
	Pkg   string
	Pos   token.Pos
	Types []*ciType
}

func readCmdInfo(p *Prog, pkg string) (*ciTable, error) {
	pk := p.Mod[pkg]
	if pk == nil {
		return nil, fmt.Errorf("package %s not loaded", pkg)
	}
	var lit *ast.BasicLit
	for _, f := range pk.Syntax {
		for _, d := range f.Decls {
			gd, ok := d.(*ast.GenDecl)
			if !ok || (gd.Tok != token.VAR && gd.Tok != token.CONST) {
				continue
			}
			for _, sp := range gd.Specs {
				vs := sp.(*ast.ValueSpec)
				for i, n := range vs.Names {
					if n.Name == "cmdInfo" && i < len(vs.Values) {
						if bl, ok := vs.Values[i].(*ast.BasicLit); ok && bl.Kind == token.STRING {
							lit = bl
						}
					}
				}
			}
		}
	}
	if lit == nil {
		return nil, fmt.Errorf("%s.cmdInfo is not a package-level variable initialised from a string literal", pkg)
	}
	// never assigned elsewhere
	if sp := p.SSAPkg[pkg]; sp != nil {
		if g, ok := sp.Members["cmdInfo"].(*ssa.Global); ok {
			for _, fn := range allModFuncs(p) {
				if fn.Name() == "init" && fn.Pkg == sp {
					continue
				}
				for _, b := range fn.Blocks {
					for _, in := range b.Instrs {
						if st, ok := in.(*ssa.Store); ok && st.Addr == ssa.Value(g) {
							return nil, fmt.Errorf("%s.cmdInfo is assigned in %s", pkg, shortName(fn))
						}
					}
				}
			}
		}
	}
	info, err := strconv.Unquote(lit.Value)
	if err != nil {
		return nil, err
	}
	t := &ciTable{Pkg: pkg, Pos: lit.Pos()}
	type header struct{ anchor, fixedName, clearConf, simpleObj bool }
	sect := header{}
	toParse := info
	for toParse != "" {
		store := &t.Types
		line, rest, _ := strings.Cut(toParse, "\n")
		toParse = rest
		line = strings.TrimRight(line, " \t\r")
		if line == "" {
			sect = header{}
			continue
		}
		isSub := false
		ignore := false
		switch line[0] {
		case '#':
			continue
		case '[':
			sect = header{}
			for _, w := range strings.Split(strings.Trim(line, "[]"), ",") {
				switch strings.TrimSpace(w) {
				case "ANCHOR":
					sect.anchor = true
				case "FIXED_NAME":
					sect.fixedName = true
				case "SIMPLE_OBJ":
					sect.simpleObj = true
				case "CLEAR_CONF":
					sect.clearConf = true
				default:
					return nil, fmt.Errorf("%s.cmdInfo: invalid header token %q", pkg, w)
				}
			}
			continue
		case ' ':
			line = line[1:]
			if len(*store) == 0 || line == "" || line[0] == ' ' {
				return nil, fmt.Errorf("%s.cmdInfo: bad indentation", pkg)
			}
			prev := (*store)[len(*store)-1]
			store = &prev.Sub
			isSub = true
		}
		if line[0] == '!' {
			line = line[1:]
			ignore = true
			if line == "" {
				return nil, fmt.Errorf("%s.cmdInfo: lone '!'", pkg)
			}
		}
		parts := strings.Fields(line)
		prefix := ""
		if !isSub {
			prefix = strings.ReplaceAll(parts[0], "_", " ")
			parts = parts[1:]
		}
		var ref []string
		tmpl := append([]string{}, parts...)
		for i, val := range tmpl {
			if !(val[0] == '$' && len(val) > 1) {
				continue
			}
			switch v := val[1:]; v {
			case "NAME", "SEQ":
			default:
				ref = append(ref, strings.ReplaceAll(v, "_", " "))
				tmpl[i] = "$REF"
			}
		}
		*store = append(*store, &ciType{Prefix: prefix, Template: tmpl, Ref: ref, Ignore: ignore,
			Anchor: sect.anchor, FixedName: sect.fixedName, ClearConf: sect.clearConf, SimpleObj: sect.simpleObj, Line: line})
	}
	return t, nil
}

// lookupPrefix: the key of objLookup under which commands of this template are
// filed after postprocessParsed ("crypto map" templates without $NAME are
// re-filed under "crypto map interface").
func (c *ciType) lookupPrefix() string {
	if c.Prefix == "crypto map" {
		hasName := false
		for _, w := range c.Template {
			if w == "$NAME" {
				hasName = true
			}
		}
		if !hasName {
			return "crypto map interface"
		}
	}
	return c.Prefix
}

// cmdInfoUsers: the tables are consumed only through cisco.(*State).SetupParser
// called with the package's own cmdInfo.
func checkCmdInfoUse(p *Prog, r *Report, rule string) []*ciTable {
	var out []*ciTable
	for _, pkg := range []string{"asa", "ios"} {
		t, err := readCmdInfo(p, pkg)
		if err != nil {
			r.fail(rule, "cmdinfo-readable|"+pkg, "", "cmdInfo table of "+pkg+" cannot be read statically", err.Error())
			continue
		}
		r.ok(rule, "cmdinfo-readable|"+pkg, p.pos(t.Pos), fmt.Sprintf("%s.cmdInfo: %d toplevel templates read from the literal; never reassigned", pkg, len(t.Types)))
		out = append(out, t)
	}
	// SetupParser callers pass a load of <pkg>.cmdInfo
	sp := p.Fn("(*cisco.State).SetupParser")
	if sp == nil {
		r.fail(rule, "anchor|(*cisco.State).SetupParser", "", "not found", "")
		return out
	}
	n := 0
	var edges []*callgraph.Edge
	for _, e := range callersOf(p.CG(), sp) {
		if e.Caller.Func.Synthetic != "" {
			edges = append(edges, callersOf(p.CG(), e.Caller.Func)...) // promoted-method wrapper
		} else {
			edges = append(edges, e)
		}
	}
	for _, e := range edges {
		if e.Site == nil {
			continue
		}
		n++
		args := e.Site.Common().Args
		arg := args[len(args)-1]
		ok := false
		if u, isU := arg.(*ssa.UnOp); isU && u.Op == token.MUL {
			if g, isG := u.X.(*ssa.Global); isG && g.Name() == "cmdInfo" {
				ok = true
			}
		}
		r.add(rule, "setupparser-arg|"+shortName(e.Caller.Func), p.ipos(e.Site), "SetupParser is called with the package's cmdInfo literal", ok,
			"the parser tables are not the statically read ones")
	}
	r.floor(rule, "callers of SetupParser", n, 2)
	return out
}

func ruleAnchorUniform(p *Prog, r *Report) {
	r.rule("R16.4", "For every lookup prefix of the cmdInfo tables (asa, ios) all templates carry the same ANCHOR flag. (diffConfig reads the flag from an arbitrary entry of the prefix — a map range with early exit — which is order-insensitive exactly under this table invariant.) The re-filing of 'crypto map' templates without $NAME under 'crypto map interface' in postprocessParsed is checked to exist.")
	tabs := checkCmdInfoUse(p, r, "R16.4")
	for _, t := range tabs {
		by := map[string][]*ciType{}
		for _, c := range t.Types {
			by[c.lookupPrefix()] = append(by[c.lookupPrefix()], c)
		}
		for prefix, l := range by {
			same := true
			for _, c := range l {
				if c.Anchor != l[0].Anchor {
					same = false
				}
			}
			r.add("R16.4", "anchor-uniform|"+t.Pkg+"|"+prefix, p.pos(t.Pos), fmt.Sprintf("%d templates of prefix %q agree on ANCHOR=%v", len(l), prefix, l[0].Anchor), same,
				"templates of one prefix disagree on ANCHOR: diffConfig's choice between diffAnchors and diffSomeAnchors depends on map iteration order")
		}
	}
	// re-filing exists
	pp := p.Fn("cisco.postprocessParsed")
	found := false
	if pp != nil {
		for _, b := range pp.Blocks {
			for _, in := range b.Instrs {
				if mu, ok := in.(*ssa.MapUpdate); ok {
					if s, ok := constString(mu.Key); ok && s == "crypto map interface" {
						found = true
					}
				}
			}
		}
	}
	r.add("R16.4", "refile|crypto map interface", "", "postprocessParsed files unnamed 'crypto map' commands under 'crypto map interface'", found,
		"the table model used by this rule no longer matches the parser")
}

var _ = types.Typ

// ---- order of templates (first match wins in cisco.matchCmd) ----

func ciNumeric(w string) bool {
	if w == "" {
		return false
	}
	for _, c := range w {
		if c < '0' || c > '9' {
			return false
		}
	}
	return true
}

// ciTokSubsumes: every word matched by token b is matched by token a (single word tokens).
func ciTokSubsumes(a, b string) bool {
	switch a {
	case "$NAME", "$REF":
		return b != `"` && b != "*"
	case "$SEQ":
		return b == "$SEQ" || (b[0] != '$' && ciNumeric(b))
	case `"`:
		return b == `"` || (b[0] != '$' && b != "*")
	}
	return a == b
}

// ciTokOverlap: some word is matched by both tokens.
func ciTokOverlap(a, b string) bool {
	lit := func(s string) bool { return s[0] != '$' && s != `"` && s != "*" }
	if lit(a) && lit(b) {
		return a == b
	}
	if a == "$SEQ" && lit(b) {
		return ciNumeric(b)
	}
	if b == "$SEQ" && lit(a) {
		return ciNumeric(a)
	}
	return true
}

// ciSubsumes: every line matched by template b is matched by template a.
func ciSubsumes(a, b []string) bool {
	for k := 0; ; k++ {
		if k == len(a) {
			return k == len(b)
		}
		if k == len(b) {
			return false
		}
		if a[k] == "*" {
			return true // b has at least one more token, each token needs at least one word
		}
		if b[k] == "*" || !ciTokSubsumes(a[k], b[k]) {
			return false
		}
	}
}

func ciOverlap(a, b []string) bool {
	for k := 0; ; k++ {
		if k == len(a) || k == len(b) {
			return len(a) == len(b)
		}
		if a[k] == "*" || b[k] == "*" {
			return true
		}
		if !ciTokOverlap(a[k], b[k]) {
			return false
		}
	}
}

type ciPair struct {
	Where          string // parent line or lookup prefix
	Early, Late    *ciType
	Shadowed, Spec bool // late is dead; early is the more specific one
}

// ciOrderedLists: the lists cisco.matchCmd walks in order: per lookup prefix the
// top-level templates, per template its sub-commands.
func ciOrderedLists(t *ciTable) map[string][]*ciType {
	out := map[string][]*ciType{}
	for _, c := range t.Types {
		out["prefix "+c.Prefix] = append(out["prefix "+c.Prefix], c)
		if len(c.Sub) > 0 {
			out["sub of "+c.Prefix+" "+strings.Join(c.Template, " ")] = c.Sub
		}
	}
	return out
}

func ciPairs(t *ciTable) []ciPair {
	var out []ciPair
	lists := ciOrderedLists(t)
	var names []string
	for n := range lists {
		names = append(names, n)
	}
	sort.Strings(names)
	for _, n := range names {
		l := lists[n]
		for j := range l {
			for i := 0; i < j; i++ {
				if !ciOverlap(l[i].Template, l[j].Template) {
					continue
				}
				out = append(out, ciPair{n, l[i], l[j], ciSubsumes(l[i].Template, l[j].Template), ciSubsumes(l[j].Template, l[i].Template)})
			}
		}
	}
	return out
}

func ruleTemplateOrder(p *Prog, r *Report, rule string) {
	r.rule(rule, "Order of the cmdInfo templates (asa, ios): cisco.matchCmd takes the first template of a list that matches. No template is shadowed by an earlier one of its list (it would be dead: an ignore entry `!x` behind ` *` turns the ignored line into a modelled one that is deleted when the target lacks it); where two templates of a list match a common line the earlier one is the more specific; the ignore entries are the audited ones (tables/cmdinfo_ignore.tsv).")
	rows := readTable("cmdinfo_ignore.tsv", 4)
	want := map[string]string{}
	for _, row := range rows {
		want[row[0]+"|"+row[1]+"|"+row[2]] = row[3]
	}
	nIgn := 0
	for _, pkg := range []string{"asa", "ios"} {
		t, err := readCmdInfo(p, pkg)
		if err != nil {
			r.fail(rule, "cmdinfo-readable|"+pkg, "", "cmdInfo table of "+pkg+" cannot be read statically", err.Error())
			continue
		}
		pairs := ciPairs(t)
		n := 0
		for _, pr := range pairs {
			n++
			key := "order|" + pkg + "|" + pr.Where + "|" + pr.Late.Line
			switch {
			case pr.Shadowed:
				r.add(rule, key, p.pos(t.Pos), "template `"+pr.Late.Line+"` ("+pr.Where+") can match", false,
					"every line it matches is taken by the earlier template `"+pr.Early.Line+"`: the entry is dead (ignore="+fmt.Sprint(pr.Late.Ignore)+")")
			case !pr.Spec:
				r.add(rule, key+"|"+pr.Early.Line, p.pos(t.Pos), "templates `"+pr.Early.Line+"` and `"+pr.Late.Line+"` ("+pr.Where+") match a common line", false,
					"neither is the more specific one; which one takes the line depends on their order")
			default:
				r.ok(rule, key+"|"+pr.Early.Line, p.pos(t.Pos), "`"+pr.Early.Line+"` comes before the more general `"+pr.Late.Line+"` ("+pr.Where+")")
			}
		}
		got := map[string]bool{}
		for where, l := range ciOrderedLists(t) {
			for _, c := range l {
				if c.Ignore {
					got[pkg+"|"+where+"|"+c.Line] = true
				}
			}
		}
		for k := range got {
			nIgn++
			_, ok := want[k]
			r.add(rule, "ignore|"+k, p.pos(t.Pos), "ignore entry "+k+" ("+want[k]+")", ok, "an ignore entry that is not audited: lines it matches are dropped from both configurations and never compared")
		}
		for k, why := range want {
			if strings.HasPrefix(k, pkg+"|") && !got[k] {
				r.add(rule, "ignore|"+k, p.pos(t.Pos), "ignore entry "+k+" ("+why+")", false, "the audited ignore entry is gone: the line is parsed as a modelled command now and deleted from the device when the target lacks it")
			}
		}
		r.ok(rule, "pairs|"+pkg, p.pos(t.Pos), fmt.Sprintf("%s.cmdInfo: %d overlapping template pairs examined", pkg, n))
	}
	r.floor(rule, "ignore entries", nIgn, 5)
}
