package main

// E7: reader for the cmdInfo tables of packages asa and ios.  The tables are
// package-level string variables initialised from a literal; the reader
// follows cisco.(*parser).setupCmdDescr line by line.

import (
	"fmt"
	"go/ast"
	"go/token"
	"go/types"
	"strconv"
	"strings"

	"golang.org/x/tools/go/callgraph"
	"golang.org/x/tools/go/ssa"
)

type ciType struct {
	Prefix    string
	Template  []string
	Ref       []string
	Ignore    bool
	Sub       []*ciType
	ClearConf bool
	SimpleObj bool
	Anchor    bool
	FixedName bool
	Line      string
}

type ciTable struct {
	Pkg   string
	Pos   token.Pos
	Types []*ciType
}

func readCmdInfo(p *Prog, pkg string) (*ciTable, error) {
	pk := p.Mod[pkg]
	if pk == nil {
		return nil, fmt.Errorf("package %s not loaded", pkg)
	}
	var lit *ast.BasicLit
	for _, f := range pk.Syntax {
		for _, d := range f.Decls {
			gd, ok := d.(*ast.GenDecl)
			if !ok || (gd.Tok != token.VAR && gd.Tok != token.CONST) {
				continue
			}
			for _, sp := range gd.Specs {
				vs := sp.(*ast.ValueSpec)
				for i, n := range vs.Names {
					if n.Name == "cmdInfo" && i < len(vs.Values) {
						if bl, ok := vs.Values[i].(*ast.BasicLit); ok && bl.Kind == token.STRING {
							lit = bl
						}
					}
				}
			}
		}
	}
	if lit == nil {
		return nil, fmt.Errorf("%s.cmdInfo is not a package-level variable initialised from a string literal", pkg)
	}
	// never assigned elsewhere
	if sp := p.SSAPkg[pkg]; sp != nil {
		if g, ok := sp.Members["cmdInfo"].(*ssa.Global); ok {
			for _, fn := range allModFuncs(p) {
				if fn.Name() == "init" && fn.Pkg == sp {
					continue
				}
				for _, b := range fn.Blocks {
					for _, in := range b.Instrs {
						if st, ok := in.(*ssa.Store); ok && st.Addr == ssa.Value(g) {
							return nil, fmt.Errorf("%s.cmdInfo is assigned in %s", pkg, shortName(fn))
						}
					}
				}
			}
		}
	}
	info, err := strconv.Unquote(lit.Value)
	if err != nil {
		return nil, err
	}
	t := &ciTable{Pkg: pkg, Pos: lit.Pos()}
	type header struct{ anchor, fixedName, clearConf, simpleObj bool }
	sect := header{}
	toParse := info
	for toParse != "" {
		store := &t.Types
		line, rest, _ := strings.Cut(toParse, "\n")
		toParse = rest
		line = strings.TrimRight(line, " \t\r")
		if line == "" {
			sect = header{}
			continue
		}
		isSub := false
		ignore := false
		switch line[0] {
		case '#':
			continue
		case '[':
			sect = header{}
			for _, w := range strings.Split(strings.Trim(line, "[]"), ",") {
				switch strings.TrimSpace(w) {
				case "ANCHOR":
					sect.anchor = true
				case "FIXED_NAME":
					sect.fixedName = true
				case "SIMPLE_OBJ":
					sect.simpleObj = true
				case "CLEAR_CONF":
					sect.clearConf = true
				default:
					return nil, fmt.Errorf("%s.cmdInfo: invalid header token %q", pkg, w)
				}
			}
			continue
		case ' ':
			line = line[1:]
			if len(*store) == 0 || line == "" || line[0] == ' ' {
				return nil, fmt.Errorf("%s.cmdInfo: bad indentation", pkg)
			}
			prev := (*store)[len(*store)-1]
			store = &prev.Sub
			isSub = true
		}
		if line[0] == '!' {
			line = line[1:]
			ignore = true
			if line == "" {
				return nil, fmt.Errorf("%s.cmdInfo: lone '!'", pkg)
			}
		}
		parts := strings.Fields(line)
		prefix := ""
		if !isSub {
			prefix = strings.ReplaceAll(parts[0], "_", " ")
			parts = parts[1:]
		}
		var ref []string
		tmpl := append([]string{}, parts...)
		for i, val := range tmpl {
			if !(val[0] == '$' && len(val) > 1) {
				continue
			}
			switch v := val[1:]; v {
			case "NAME", "SEQ":
			default:
				ref = append(ref, strings.ReplaceAll(v, "_", " "))
				tmpl[i] = "$REF"
			}
		}
		*store = append(*store, &ciType{Prefix: prefix, Template: tmpl, Ref: ref, Ignore: ignore,
			Anchor: sect.anchor, FixedName: sect.fixedName, ClearConf: sect.clearConf, SimpleObj: sect.simpleObj, Line: line})
	}
	return t, nil
}

// lookupPrefix: the key of objLookup under which commands of this template are
// filed after postprocessParsed ("crypto map" templates without $NAME are
// re-filed under "crypto map interface").
func (c *ciType) lookupPrefix() string {
	if c.Prefix == "crypto map" {
		hasName := false
		for _, w := range c.Template {
			if w == "$NAME" {
				hasName = true
			}
		}
		if !hasName {
			return "crypto map interface"
		}
	}
	return c.Prefix
}

// cmdInfoUsers: the tables are consumed only through cisco.(*State).SetupParser
// called with the package's own cmdInfo.
func checkCmdInfoUse(p *Prog, r *Report, rule string) []*ciTable {
	var out []*ciTable
	for _, pkg := range []string{"asa", "ios"} {
		t, err := readCmdInfo(p, pkg)
		if err != nil {
			r.fail(rule, "cmdinfo-readable|"+pkg, "", "cmdInfo table of "+pkg+" cannot be read statically", err.Error())
			continue
		}
		r.ok(rule, "cmdinfo-readable|"+pkg, p.pos(t.Pos), fmt.Sprintf("%s.cmdInfo: %d toplevel templates read from the literal; never reassigned", pkg, len(t.Types)))
		out = append(out, t)
	}
	// SetupParser callers pass a load of <pkg>.cmdInfo
	sp := p.Fn("(*cisco.State).SetupParser")
	if sp == nil {
		r.fail(rule, "anchor|(*cisco.State).SetupParser", "", "not found", "")
		return out
	}
	n := 0
	var edges []*callgraph.Edge
	for _, e := range callersOf(p.CG(), sp) {
		if e.Caller.Func.Synthetic != "" {
			edges = append(edges, callersOf(p.CG(), e.Caller.Func)...) // promoted-method wrapper
		} else {
			edges = append(edges, e)
		}
	}
	for _, e := range edges {
		if e.Site == nil {
			continue
		}
		n++
		args := e.Site.Common().Args
		arg := args[len(args)-1]
		ok := false
		if u, isU := arg.(*ssa.UnOp); isU && u.Op == token.MUL {
			if g, isG := u.X.(*ssa.Global); isG && g.Name() == "cmdInfo" {
				ok = true
			}
		}
		r.add(rule, "setupparser-arg|"+shortName(e.Caller.Func), p.ipos(e.Site), "SetupParser is called with the package's cmdInfo literal", ok,
			"the parser tables are not the statically read ones")
	}
	r.floor(rule, "callers of SetupParser", n, 2)
	return out
}

func ruleAnchorUniform(p *Prog, r *Report) {
	r.rule("R16.4", "For every lookup prefix of the cmdInfo tables (asa, ios) all templates carry the same ANCHOR flag. (diffConfig reads the flag from an arbitrary entry of the prefix — a map range with early exit — which is order-insensitive exactly under this table invariant.) The re-filing of 'crypto map' templates without $NAME under 'crypto map interface' in postprocessParsed is checked to exist.")
	tabs := checkCmdInfoUse(p, r, "R16.4")
	for _, t := range tabs {
		by := map[string][]*ciType{}
		for _, c := range t.Types {
			by[c.lookupPrefix()] = append(by[c.lookupPrefix()], c)
		}
		for prefix, l := range by {
			same := true
			for _, c := range l {
				if c.Anchor != l[0].Anchor {
					same = false
				}
			}
			r.add("R16.4", "anchor-uniform|"+t.Pkg+"|"+prefix, p.pos(t.Pos), fmt.Sprintf("%d templates of prefix %q agree on ANCHOR=%v", len(l), prefix, l[0].Anchor), same,
				"templates of one prefix disagree on ANCHOR: diffConfig's choice between diffAnchors and diffSomeAnchors depends on map iteration order")
		}
	}
	// re-filing exists
	pp := p.Fn("cisco.postprocessParsed")
	found := false
	if pp != nil {
		for _, b := range pp.Blocks {
			for _, in := range b.Instrs {
				if mu, ok := in.(*ssa.MapUpdate); ok {
					if s, ok := constString(mu.Key); ok && s == "crypto map interface" {
						found = true
					}
				}
			}
		}
	}
	r.add("R16.4", "refile|crypto map interface", "", "postprocessParsed files unnamed 'crypto map' commands under 'crypto map interface'", found,
		"the table model used by this rule no longer matches the parser")
}

var _ = types.Typ
