package main

// Command provenance: for every call site of a device primitive (a function
// that puts bytes on the wire towards the device), compute the set of string
// patterns its command argument can take, following parameters to callers,
// closure cells to their stores and concatenations to their parts.  Shared by
// C06 (R06.6) and C11.

import (
	"fmt"
	"go/token"
	"go/types"
	"sort"
	"strings"

	"golang.org/x/tools/go/callgraph"
	"golang.org/x/tools/go/ssa"
)

type atom struct {
	Kind string // const | password | user | field | regexp | opaque
	S    string
}

type pattern []atom

func (p pattern) String() string {
	var sb strings.Builder
	for i, a := range p {
		if i > 0 {
			sb.WriteString(" + ")
		}
		switch a.Kind {
		case "const":
			fmt.Fprintf(&sb, "%q", a.S)
		default:
			fmt.Fprintf(&sb, "<%s:%s>", a.Kind, a.S)
		}
	}
	return sb.String()
}

// normalise: merge adjacent constants.
func (p pattern) norm() pattern {
	var out pattern
	for _, a := range p {
		if a.Kind == "const" && len(out) > 0 && out[len(out)-1].Kind == "const" {
			out[len(out)-1].S += a.S
			continue
		}
		if a.Kind == "const" && a.S == "" {
			continue
		}
		out = append(out, a)
	}
	if len(out) == 0 {
		out = pattern{{Kind: "const", S: ""}}
	}
	return out
}

type provCtx struct {
	p      *Prog
	cg     *callgraph.Graph
	region map[*ssa.Function]bool // callers outside this region are ignored when resolving parameters
	seen   map[ssa.Value]bool
	depth  int
	// skipped callers (outside region), for evidence
	Skipped map[string]bool
	// resolve loads of struct fields (other than device state / configuration)
	// to the union of all values stored into that field anywhere in the module
	resolveLocalFields bool
}

const maxPatterns = 64

func (c *provCtx) eval(v ssa.Value) []pattern {
	if c.depth > 40 {
		return []pattern{{{Kind: "opaque", S: "depth"}}}
	}
	if c.seen[v] {
		return nil // cycle (phi loop): contributes nothing new
	}
	c.seen[v] = true
	c.depth++
	defer func() { c.depth--; delete(c.seen, v) }()

	if s, ok := constString(v); ok {
		return []pattern{{{Kind: "const", S: s}}}
	}
	switch x := v.(type) {
	case *ssa.BinOp:
		if x.Op == token.ADD {
			l := c.eval(x.X)
			r := c.eval(x.Y)
			var out []pattern
			for _, a := range l {
				for _, b := range r {
					out = append(out, append(append(pattern{}, a...), b...).norm())
					if len(out) > maxPatterns {
						return []pattern{{{Kind: "opaque", S: "too-many-patterns"}}}
					}
				}
			}
			return out
		}
	case *ssa.Phi:
		var out []pattern
		for _, e := range x.Edges {
			out = append(out, c.eval(e)...)
		}
		return dedupPatterns(out)
	case *ssa.Parameter:
		return c.evalParam(x)
	case *ssa.FreeVar:
		// a captured value (not a cell): resolve through MakeClosure bindings
		var out []pattern
		for _, b := range freeVarBindings(x) {
			out = append(out, c.eval(b)...)
		}
		if out == nil {
			return []pattern{{{Kind: "opaque", S: "freevar " + x.Name()}}}
		}
		return dedupPatterns(out)
	case *ssa.UnOp:
		if x.Op == token.MUL { // load
			return c.evalLoad(x.X)
		}
	case *ssa.Extract:
		if call, ok := x.Tuple.(*ssa.Call); ok {
			if f := call.Common().StaticCallee(); f != nil {
				switch shortName(f) {
				case "(*program.Config).GetUserPass":
					if x.Index == 1 {
						return []pattern{{{Kind: "password", S: "GetUserPass"}}}
					}
					if x.Index == 0 {
						return []pattern{{{Kind: "user", S: "GetUserPass"}}}
					}
				case "strings.Cut":
					// parts of a value: inherit (used by cmd(): c1, c2 of the command)
					if x.Index <= 1 {
						return c.eval(call.Common().Args[0])
					}
				}
				return []pattern{{{Kind: "opaque", S: fmt.Sprintf("result %d of %s", x.Index, shortName(f))}}}
			}
		}
	case *ssa.Call:
		com := x.Common()
		if f := com.StaticCallee(); f != nil {
			n := shortName(f)
			switch n {
			case "(*strings.Builder).String":
				// a string collected piece by piece: like `s += piece` in a loop
				out := []pattern{{{Kind: "const", S: ""}}}
				for _, w := range builderWrites(com.Args[0]) {
					out = append(out, c.eval(w)...)
				}
				return dedupPatterns(out)
			case "(*regexp.Regexp).String":
				return []pattern{{{Kind: "regexp", S: c.describe(com.Args[0])}}}
			case "(*net/url.URL).String":
				if q, ok := c.urlQuery(x); ok {
					return []pattern{{{Kind: "urlquery", S: q}}}
				}
			case "fmt.Sprintf":
				if s, ok := constString(com.Args[0]); ok {
					// a format of plain %s / %d / %v verbs is a concatenation of its constant pieces and
					// its arguments
					if len(com.Args) == 2 {
						if el, isLit := sliceLitElems(com.Args[1]); isLit {
							pieces, verbs, plain := splitFormat(s)
							if plain && verbs == len(el) {
								out := []pattern{{}}
								for i, pc := range pieces {
									if pc != "" {
										for k := range out {
											out[k] = append(out[k], atom{Kind: "const", S: pc})
										}
									}
									if i < len(el) {
										arg := el[i]
										if mi, ok := arg.(*ssa.MakeInterface); ok {
											arg = mi.X
										}
										var next []pattern
										for _, a := range out {
											for _, b := range c.eval(arg) {
												next = append(next, append(append(pattern{}, a...), b...))
												if len(next) > maxPatterns {
													return []pattern{{{Kind: "opaque", S: "too-many-patterns"}}}
												}
											}
										}
										out = next
									}
								}
								for k := range out {
									out[k] = out[k].norm()
								}
								return out
							}
						}
					}
					return []pattern{{{Kind: "opaque", S: "Sprintf " + fmt.Sprintf("%q", s)}}}
				}
			}
			return []pattern{{{Kind: "opaque", S: "call " + n}}}
		}
		if com.IsInvoke() {
			return []pattern{{{Kind: "opaque", S: "invoke " + com.Method.Name()}}}
		}
		return []pattern{{{Kind: "opaque", S: "dynamic call"}}}
	case *ssa.Index, *ssa.Lookup:
		return []pattern{{{Kind: "opaque", S: "element"}}}
	case *ssa.Next, *ssa.Range:
		return []pattern{{{Kind: "opaque", S: "range element"}}}
	case *ssa.Convert, *ssa.ChangeType:
		var in ssa.Value
		if cv, ok := x.(*ssa.Convert); ok {
			in = cv.X
		} else {
			in = x.(*ssa.ChangeType).X
		}
		return c.eval(in)
	}
	return []pattern{{{Kind: "opaque", S: fmt.Sprintf("%T", v)}}}
}

// urlQuery: for u.String() where, in the same function, u.RawQuery was assigned
// params.Encode() and params was filled with params.Set(k, v) calls only:
// returns "k1=<pattern>&k2=<pattern>" with keys sorted.
func (c *provCtx) urlQuery(call *ssa.Call) (string, bool) {
	fn := call.Parent()
	u := call.Common().Args[0]
	var params ssa.Value
	for _, b := range fn.Blocks {
		for _, in := range b.Instrs {
			st, ok := in.(*ssa.Store)
			if !ok {
				continue
			}
			fa, ok := st.Addr.(*ssa.FieldAddr)
			if !ok || fa.X != u || fieldName(fa) != "net/url.URL.RawQuery" {
				continue
			}
			enc, ok := st.Val.(*ssa.Call)
			if !ok || enc.Common().StaticCallee() == nil || shortName(enc.Common().StaticCallee()) != "(net/url.Values).Encode" {
				return "", false
			}
			if params != nil {
				return "", false // assigned twice
			}
			params = enc.Common().Args[0]
		}
	}
	if params == nil {
		return "", false
	}
	var kv []string
	for _, cs := range callsOf(fn) {
		if cs.Static == nil {
			continue
		}
		n := shortName(cs.Static)
		if !strings.HasPrefix(n, "(net/url.Values).") {
			continue
		}
		args := cs.In.Common().Args
		if args[0] != params {
			continue
		}
		switch n {
		case "(net/url.Values).Set", "(net/url.Values).Add":
			k, ok := constString(args[1])
			if !ok {
				return "", false
			}
			var vs []string
			for _, pt := range c.eval(args[2]) {
				vs = append(vs, pt.String())
			}
			kv = append(kv, k+"="+strings.Join(vs, "|"))
		case "(net/url.Values).Encode", "(net/url.Values).Get":
		default:
			return "", false
		}
	}
	sort.Strings(kv)
	return strings.Join(kv, "&"), true
}

func (c *provCtx) describe(v ssa.Value) string {
	if u, ok := v.(*ssa.UnOp); ok && u.Op == token.MUL {
		if fa, ok := u.X.(*ssa.FieldAddr); ok {
			return fieldName(fa)
		}
	}
	return v.Name()
}

func fieldName(fa *ssa.FieldAddr) string {
	t := fa.X.Type()
	if pt, ok := t.Underlying().(*types.Pointer); ok {
		t = pt.Elem()
	}
	st, ok := t.Underlying().(*types.Struct)
	if !ok {
		return "?"
	}
	return typeShort(t) + "." + fldName(st.Field(fa.Field))
}

func (c *provCtx) evalLoad(addr ssa.Value) []pattern {
	switch a := addr.(type) {
	case *ssa.FieldAddr:
		fnm := fieldName(a)
		if c.resolveLocalFields && !strings.Contains(fnm, ".State.") && !strings.HasPrefix(fnm, "program.Config.") {
			if fv := fieldVarOf(a); fv != nil {
				var out []pattern
				for _, st := range storesToField(c.p, fv) {
					out = append(out, c.eval(st.Val)...)
				}
				if len(out) > 0 {
					return dedupPatterns(out)
				}
			}
		}
		return []pattern{{{Kind: "field", S: fnm}}}
	case *ssa.Alloc:
		return c.evalCell(a)
	case *ssa.FreeVar:
		// captured cell: the bindings are Allocs (or FreeVars) in the parent
		var out []pattern
		for _, b := range freeVarBindings(a) {
			switch bb := b.(type) {
			case *ssa.Alloc:
				out = append(out, c.evalCell(bb)...)
			case *ssa.FreeVar:
				out = append(out, c.evalLoad(bb)...)
			default:
				out = append(out, pattern{{Kind: "opaque", S: "captured " + a.Name()}})
			}
		}
		return dedupPatterns(out)
	case *ssa.Global:
		return []pattern{{{Kind: "opaque", S: "global " + a.Name()}}}
	case *ssa.IndexAddr:
		return []pattern{{{Kind: "opaque", S: "element"}}}
	}
	return []pattern{{{Kind: "opaque", S: fmt.Sprintf("load %T", addr)}}}
}

// evalCell: union over every store into the cell, in the allocating function
// and all closures nested in it (flow-insensitive).
func (c *provCtx) evalCell(a *ssa.Alloc) []pattern {
	var out []pattern
	for _, st := range cellStores(a) {
		out = append(out, c.eval(st.Val)...)
	}
	if out == nil {
		return []pattern{{{Kind: "const", S: ""}}} // zero value
	}
	return dedupPatterns(out)
}

// cellStores finds stores to alloc a in its function and in closures that
// capture it.
func cellStores(a *ssa.Alloc) []*ssa.Store {
	var out []*ssa.Store
	var visit func(fn *ssa.Function, addr ssa.Value)
	visit = func(fn *ssa.Function, addr ssa.Value) {
		for _, b := range fn.Blocks {
			for _, in := range b.Instrs {
				switch x := in.(type) {
				case *ssa.Store:
					if x.Addr == addr {
						out = append(out, x)
					}
				case *ssa.MakeClosure:
					for i, bv := range x.Bindings {
						if bv == addr {
							cf := x.Fn.(*ssa.Function)
							visit(cf, cf.FreeVars[i])
						}
					}
				}
			}
		}
	}
	visit(a.Parent(), a)
	return out
}

// freeVarBindings returns the values bound to free variable fv at every
// MakeClosure of its function in the parent.
func freeVarBindings(fv *ssa.FreeVar) []ssa.Value {
	fn := fv.Parent()
	idx := -1
	for i, x := range fn.FreeVars {
		if x == fv {
			idx = i
		}
	}
	par := fn.Parent()
	if idx < 0 || par == nil {
		return nil
	}
	var out []ssa.Value
	for _, b := range par.Blocks {
		for _, in := range b.Instrs {
			if mc, ok := in.(*ssa.MakeClosure); ok && mc.Fn == fn {
				out = append(out, mc.Bindings[idx])
			}
		}
	}
	return out
}

func (c *provCtx) evalParam(par *ssa.Parameter) []pattern {
	fn := par.Parent()
	idx := -1
	for i, x := range fn.Params {
		if x == par {
			idx = i
		}
	}
	n := c.cg.Nodes[fn]
	if idx < 0 || n == nil || len(n.In) == 0 {
		return []pattern{{{Kind: "opaque", S: "param " + par.Name() + " of " + shortName(fn)}}}
	}
	var out []pattern
	used := 0
	for _, e := range n.In {
		caller := e.Caller.Func
		if c.region != nil && !c.region[caller] {
			if c.Skipped != nil {
				c.Skipped[shortName(caller)+" -> "+shortName(fn)] = true
			}
			continue
		}
		if e.Site == nil {
			continue
		}
		com := e.Site.Common()
		if h := com.StaticCallee(); h != nil && h != fn && !com.IsInvoke() {
			// refined edge caller -> fn for a function value passed to h, which calls it
			n := 0
			for _, vs := range c.p.Via[fn] {
				if vs.Parent() == h && idx < len(vs.Common().Args) {
					out = append(out, c.eval(vs.Common().Args[idx])...)
					n++
				}
			}
			if n > 0 {
				used++
				continue
			}
		}
		ai := idx
		if com.IsInvoke() {
			ai = idx - 1
		}
		if ai < 0 || ai >= len(com.Args) {
			out = append(out, pattern{{Kind: "opaque", S: "arg mismatch at " + shortName(caller)}})
			continue
		}
		used++
		out = append(out, c.eval(com.Args[ai])...)
	}
	if used == 0 && out == nil {
		// no caller inside the region: the parameter takes no value there
		return nil
	}
	return dedupPatterns(out)
}

func dedupPatterns(l []pattern) []pattern {
	seen := map[string]bool{}
	var out []pattern
	for _, p := range l {
		p = p.norm()
		k := p.String()
		if !seen[k] {
			seen[k] = true
			out = append(out, p)
		}
	}
	sort.Slice(out, func(i, j int) bool { return out[i].String() < out[j].String() })
	return out
}

// ---- device primitives ----

type primitive struct {
	Name string // short go/ssa name of the callee
	Kind string // console | http | exec
	Arg  int    // index of the command argument in Common().Args (static call: receiver is Args[0])
}

// Low-level primitives: everything in the module that reaches the device goes
// through one of these library calls.
var primitives = []primitive{
	{"(*github.com/tailscale/goexpect.GExpect).Send", "console", 1},
	{"(*net/http.Client).Get", "http-get", 1},
	{"(*net/http.Client).Head", "http-get", 1},
	{"(*net/http.Client).PostForm", "http-post", 1},
	{"(*net/http.Client).Post", "http-post", 1},
	{"(*net/http.Client).Do", "http-do", 1},
	{"os/exec.Command", "exec", 0},
}

// Library packages through which a device could be reached.  Every function of
// these packages that the module calls must be classified below; an
// unclassified one is undecided (violation).
var wirePkgs = []string{"net/http", "net", "os/exec", "github.com/tailscale/goexpect", "golang.org/x/crypto/ssh", "net/rpc", "net/smtp", "crypto/tls"}

var harmlessWire = map[string]string{
	"(*github.com/tailscale/goexpect.GExpect).Expect": "reads from the session",
	"github.com/tailscale/goexpect.SpawnWithArgs":     "starts the ssh client (session establishment, not a device command)",
	"github.com/tailscale/goexpect.PartialMatch":      "option constructor",
	"net/http.NewRequest":                             "builds a request object; sent only by (*Client).Do",
	"(net/http.Header).Set":                           "request header",
	"(net/http.Header).Get":                           "response header",
	"net/http/cookiejar.New":                          "cookie jar",
	"(*net.Dialer).Dial":                              "method value stored as Transport.Dial; connection establishment",
	"(net.IP).String":                                 "formatting",
	"(net.IPMask).Size":                               "arithmetic on a mask",
	"net.ParseIP":                                     "parsing",
	"(*os/exec.Cmd).String":                           "formatting",
	"(*os/exec.Cmd).Run":                              "runs the command built by exec.Command (classified there)",
}

type primSite struct {
	Site     *callSite
	Prim     primitive
	Patterns []pattern
	Method   []pattern // for http-do: method patterns
	InPre    bool      // enclosing function is in the pre-apply region
}

func (s *primSite) key() string {
	return fmt.Sprintf("%s|%s", shortName(s.Site.Fn), s.Prim.Name)
}

// findPrimSites enumerates all call sites of primitives in module functions
// and evaluates their command patterns, restricted to callers in region.
func findPrimSites(p *Prog, m *Model, region map[*ssa.Function]bool) (sites []*primSite, unknown []*callSite) {
	cg := p.CG()
	prim := map[string]primitive{}
	for _, pr := range primitives {
		prim[pr.Name] = pr
	}
	for _, fn := range allModFuncs(p) {
		for _, cs := range callsOf(fn) {
			name := cs.calleeName()
			pr, isPrim := prim[name]
			if !isPrim {
				if cs.Static != nil && cs.Static.Pkg != nil && cs.Static.Pkg.Pkg != nil {
					pp := cs.Static.Pkg.Pkg.Path()
					for _, w := range wirePkgs {
						if (pp == w || (w != "net" && strings.HasPrefix(pp, w+"/"))) && cs.Static.Name() != "init" {
							if _, ok := harmlessWire[name]; !ok {
								unknown = append(unknown, cs)
							}
						}
					}
				}
				continue
			}
			ps := &primSite{Site: cs, Prim: pr, InPre: region[fn]}
			ctx := &provCtx{p: p, cg: cg, region: region, seen: map[ssa.Value]bool{}, Skipped: map[string]bool{}}
			args := cs.In.Common().Args
			switch pr.Kind {
			case "http-do":
				// request object: find http.NewRequest feeding it
				req := args[1]
				if ex, ok := req.(*ssa.Extract); ok {
					if call, ok := ex.Tuple.(*ssa.Call); ok {
						if f := call.Common().StaticCallee(); f != nil && shortName(f) == "net/http.NewRequest" {
							ps.Method = ctx.eval(call.Common().Args[0])
							ps.Patterns = ctx.eval(call.Common().Args[1])
							break
						}
					}
				}
				ps.Method = []pattern{{{Kind: "opaque", S: "request not built by http.NewRequest here"}}}
			case "exec":
				ps.Patterns = ctx.eval(args[0])
			default:
				ps.Patterns = ctx.eval(args[pr.Arg])
			}
			sites = append(sites, ps)
		}
	}
	sort.Slice(sites, func(i, j int) bool { return sites[i].key() < sites[j].key() })
	return
}

// allModFuncs: module functions including closures (recursively).
func allModFuncs(p *Prog) []*ssa.Function {
	var out []*ssa.Function
	seen := map[*ssa.Function]bool{}
	var add func(f *ssa.Function)
	add = func(f *ssa.Function) {
		if seen[f] {
			return
		}
		seen[f] = true
		out = append(out, f)
		for _, a := range f.AnonFuncs {
			add(a)
		}
	}
	for _, f := range p.ModFuncs {
		add(f)
	}
	sort.Slice(out, func(i, j int) bool { return shortName(out[i]) < shortName(out[j]) })
	return out
}

// splitFormat: the constant pieces around the verbs of a format string; plain is false when a
// verb other than %s %d %v (or a flag / width) occurs.  "%%" is a literal percent sign.
func splitFormat(f string) (pieces []string, verbs int, plain bool) {
	cur := ""
	plain = true
	for i := 0; i < len(f); i++ {
		if f[i] != '%' {
			cur += string(f[i])
			continue
		}
		if i+1 >= len(f) {
			return nil, 0, false
		}
		switch f[i+1] {
		case '%':
			cur += "%"
		case 's', 'd', 'v':
			pieces = append(pieces, cur)
			cur = ""
			verbs++
		default:
			plain = false
		}
		i++
	}
	pieces = append(pieces, cur)
	return pieces, verbs, plain
}

// builderWrites: the values written into the strings.Builder that v points to (WriteString,
// WriteByte/WriteRune are ignored), anywhere in the function tree that can see the builder.
func builderWrites(v ssa.Value) []ssa.Value {
	root := cellRootOf(v)
	var top *ssa.Function
	switch x := root.(type) {
	case *ssa.Alloc:
		top = x.Parent()
	case *ssa.Parameter:
		top = x.Parent()
	default:
		return nil
	}
	var out []ssa.Value
	for _, g := range treeOf(top) {
		for _, b := range g.Blocks {
			for _, in := range b.Instrs {
				c, ok := in.(*ssa.Call)
				if !ok {
					continue
				}
				f := c.Common().StaticCallee()
				if f == nil || rawShortName(f) != "(*strings.Builder).WriteString" || len(c.Common().Args) != 2 {
					continue
				}
				if cellRootOf(c.Common().Args[0]) == root {
					out = append(out, c.Common().Args[1])
				}
			}
		}
	}
	return out
}
