package main

// Reference for R-X: what stands under each test of a function of the audited tree.
//
// `if c { body }` written as `if !c { return }; body` adds a return but no decision -- only
// as long as everything behind the new return stood under the same test before.  A return
// under a test the function already makes, moved in front of work that did not depend on
// that test, skips that work.  tables/fn_cond_sites.tsv (regenerated with the
// fingerprints) lists per function and test the calls of module functions / closures in
// the region that the test's edge dominates; behind a new early return only such calls
// may stand.

import (
	"fmt"
	"sort"

	"golang.org/x/tools/go/ssa"
)

func siteNamesOfBlock(p *Prog, fn *ssa.Function, b *ssa.BasicBlock, into map[string]bool) {
	for _, in := range b.Instrs {
		ci, ok := in.(ssa.CallInstruction)
		if !ok {
			continue
		}
		cs := &callSite{In: ci, Fn: fn, Static: ci.Common().StaticCallee()}
		for _, cal := range calleesOfSite(p, cs) {
			if !isModFunc(cal) {
				continue
			}
			if cn := closureName(cal); cn != "" {
				into["closure "+cn] = true
			} else {
				into[shortName(cal)] = true
			}
		}
	}
}

// regionSites: calls in the blocks dominated by edge k of the If block d.
func regionSites(p *Prog, fn *ssa.Function, d *ssa.BasicBlock, k int) map[string]bool {
	out := map[string]bool{}
	for _, b := range fn.Blocks {
		if edgeDominates(d, k, b) {
			siteNamesOfBlock(p, fn, b, out)
		}
	}
	return out
}

func condSiteRows(p *Prog, fn *ssa.Function) []string {
	var rows []string
	for _, d := range fn.Blocks {
		i := ifOf(d)
		if i == nil || isLoopCond(d) {
			continue
		}
		for k := 0; k < 2; k++ {
			c := descCond(i.Cond, k == 0)
			for s := range regionSites(p, fn, d, k) {
				rows = append(rows, fnDisplay(fn)+"\t"+c+"\t"+s)
			}
		}
	}
	return rows
}

var condSitesRef map[string]map[string]map[string]bool

func auditedCondSites() map[string]map[string]map[string]bool {
	if condSitesRef != nil {
		return condSitesRef
	}
	out := map[string]map[string]map[string]bool{}
	for _, row := range readTable("fn_cond_sites.tsv", 3) {
		if out[row[0]] == nil {
			out[row[0]] = map[string]map[string]bool{}
		}
		if out[row[0]][row[1]] == nil {
			out[row[0]][row[1]] = map[string]bool{}
		}
		out[row[0]][row[1]][row[2]] = true
	}
	condSitesRef = out
	return out
}

// skippedByExit: calls behind the early return `ret` (in the region dominated by the other
// edge of the innermost test that leads to it) that did not stand under that test in the
// audited function.
func skippedByExit(p *Prog, fn *ssa.Function, ret ssa.Instruction) []string {
	ref := auditedCondSites()[fnDisplay(fn)]
	rb := ret.Block()
	var d *ssa.BasicBlock
	dk := -1
	for _, b := range fn.Blocks {
		if ifOf(b) == nil || isLoopCond(b) {
			continue
		}
		for k := 0; k < 2; k++ {
			if edgeDominates(b, k, rb) && (d == nil || d.Dominates(b)) {
				d, dk = b, k
			}
		}
	}
	if d == nil {
		return nil
	}
	if blockReaches(d, d) {
		// the test stands in a loop: the return also skips the remaining passes, which a
		// `continue` or a skipped body under the same test did not
		return []string{"the remaining passes of the loop the test stands in"}
	}
	other := 1 - dk
	c := descCond(ifOf(d).Cond, other == 0)
	var missing []string
	for s := range regionSites(p, fn, d, other) {
		if ref == nil || !ref[c][s] {
			missing = append(missing, fmt.Sprintf("%s (now only under %s)", s, c))
		}
	}
	sort.Strings(missing)
	return missing
}

func init() {
	dumpers["fncondsites"] = func(p *Prog, m *Model) {
		fmt.Println("# function\ttest (normalised)\tcall of a module function / closure in the region the test's edge dominates; regenerate with bin/nscheck -dump fncondsites after every audited change of /repo")
		var lines []string
		for _, fn := range allModFuncs(p) {
			if fn.Synthetic != "" || fn.Signature.Results().Len() != 0 {
				continue
			}
			switch pkgOfFunc(fn) {
			case "cisco", "asa", "ios", "nxos", "panos", "nsx", "linux":
			default:
				continue
			}
			lines = append(lines, condSiteRows(p, fn)...)
		}
		sort.Strings(lines)
		prev := ""
		for _, l := range lines {
			if l != prev {
				fmt.Println(l)
			}
			prev = l
		}
	}
}
