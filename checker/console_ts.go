package main

// Typestate of the console stream.  After a wait the device's output has been
// consumed up to the end of the awaited pattern.  When that pattern is a prompt
// or a question the device now waits for input (READY); when it is anything else
// (an asynchronous banner) the prompt that follows is still unread (MIDLINE) and a
// command sent now is answered one prompt behind: every later answer is matched
// against the output of the command before it.

import (
	"os"
	"strings"
	"strconv"
	"fmt"
	"regexp"
	"regexp/syntax"
	"sort"

	"golang.org/x/tools/go/ssa"
)

const (
	tsReady   = 1
	tsMidline = 2
)

var promptSamples = []string{"router#", "router# ", "router(config)#", "router(config-if)# ", "router>", "router> ", "fw/ctx# ", "router:~# ", "router$ "}
var questionSamples = []string{"Proceed with reload? [confirm]", "System configuration has been modified. Save? [yes/no]: ", "Password:", "password: ", "Password: ",
	"Are you sure you want to continue connecting (yes/no)? ", "(yes/no/[fingerprint])? ", "Username: ", "login: "}

// patternClass: READY when the constant pattern can end at a prompt or a question,
// MIDLINE when it matches none of them, READY (trusted) when it is not a constant or
// does not compile.
func patternClass(v ssa.Value) (int, string) {
	s, ok := constString(v)
	if !ok {
		return tsReady, "non-constant pattern"
	}
	if _, err := regexp.Compile(s); err != nil {
		return tsReady, "pattern does not compile"
	}
	// every alternative of the pattern is judged: the wait ends at whichever matches first
	alts := []string{s}
	if tree, err := syntax.Parse(s, syntax.Perl); err == nil && tree.Op == syntax.OpAlternate {
		alts = nil
		for _, sub := range tree.Sub {
			alts = append(alts, sub.String())
		}
	}
	st := 0
	why := ""
	for _, a := range alts {
		re, err := regexp.Compile(a)
		if err != nil {
			st |= tsReady
			continue
		}
		hit := false
		for _, smp := range append(append([]string{}, promptSamples...), questionSamples...) {
			if loc := re.FindStringIndex(smp); loc != nil && loc[1] >= len(smp)-1 {
				hit = true
				break
			}
		}
		if hit {
			st |= tsReady
		} else {
			st |= tsMidline
			why = fmt.Sprintf("%q is neither a prompt nor a question", a)
		}
	}
	return st, why
}

type tsEvent struct {
	send  bool // sends a command first (needs READY)
	after int  // state after the call; 0: unchanged
	why   string
}

func consoleEvent(call ssa.CallInstruction) (tsEvent, bool) {
	f := call.Common().StaticCallee()
	if f == nil {
		return tsEvent{}, false
	}
	args := call.Common().Args
	switch shortName(f) {
	case "(*console.Conn).Send":
		return tsEvent{send: true}, true
	case "(*console.Conn).SendCmd", "(*console.Conn).GetCmdOutput":
		return tsEvent{send: true, after: tsReady, why: "waits for the standard prompt"}, true
	case "(*console.Conn).GetOutput":
		return tsEvent{after: tsReady, why: "waits for the standard prompt"}, true
	case "(*console.Conn).IssueCmd":
		st, why := patternClass(args[2])
		return tsEvent{send: true, after: st, why: why}, true
	case "(*console.Conn).WaitShort", "(*console.Conn).WaitLogin":
		st, why := patternClass(args[1])
		return tsEvent{after: st, why: why}, true
	}
	return tsEvent{}, false
}

func ruleConsoleTypestate(p *Prog, r *Report, rule string, pkgs map[string]bool, floor int) {
	r.rule(rule, "Typestate of the console stream in the session code: after a wait for a constant pattern that can end neither at a prompt nor at a question (decided by running the pattern over sample prompts and questions with Go's regexp package; e.g. the asynchronous SHUTDOWN ABORTED banner) the prompt behind it is still unread; on every path a wait that ends at a prompt must come before the next command is sent (Send, SendCmd, IssueCmd, GetCmdOutput). Otherwise the dialogue runs one prompt behind and every later answer is checked against the output of the command before it. Forward may-analysis over the CFG of each function; functions start at a prompt; non-constant patterns are trusted.")
	sends, waits := 0, 0
	for _, fn := range allModFuncs(p) {
		if !pkgs[pkgOfFunc(fn)] || fn.Synthetic != "" || len(fn.Blocks) == 0 {
			continue
		}
		has := false
		for _, cs := range callsOf(fn) {
			if _, ok := consoleEvent(cs.In); ok {
				has = true
			}
		}
		if !has {
			continue
		}
		in := make([]int, len(fn.Blocks))
		in[0] = tsReady
		type bad struct {
			pos, what string
		}
		var bads []bad
		midWhy := map[*ssa.BasicBlock]string{}
		changed := true
		for iter := 0; changed && iter < 50; iter++ {
			changed = false
			bads = nil
			for _, b := range fn.Blocks {
				st := in[b.Index]
				if st == 0 {
					continue
				}
				why := midWhy[b]
				for _, ins := range b.Instrs {
					ci, ok := ins.(ssa.CallInstruction)
					if !ok {
						continue
					}
					if _, isDefer := ins.(*ssa.Defer); isDefer {
						continue
					}
					ev, ok := consoleEvent(ci)
					if !ok {
						continue
					}
					if ev.send && st&tsMidline != 0 {
						bads = append(bads, bad{p.ipos(ins), fmt.Sprintf("`%s` sends a command while the prompt behind the last awaited text may be unread (%s)", shortName(ci.Common().StaticCallee()), why)})
					}
					if ev.after != 0 {
						st = ev.after
						if ev.after&tsMidline != 0 {
							why = ev.why + " at " + p.ipos(ins)
						}
					}
				}
				for _, s := range b.Succs {
					if in[s.Index]|st != in[s.Index] {
						in[s.Index] |= st
						changed = true
					}
					if st&tsMidline != 0 && midWhy[s] == "" {
						midWhy[s] = why
					}
				}
			}
		}
		for _, cs := range callsOf(fn) {
			if ev, ok := consoleEvent(cs.In); ok {
				if ev.send {
					sends++
				}
				if ev.after != 0 {
					waits++
				}
			}
		}
		sort.Slice(bads, func(i, j int) bool { return bads[i].pos < bads[j].pos })
		if len(bads) == 0 {
			r.ok(rule, "console-typestate|"+fnDisplay(fn), p.pos(fn.Pos()), "every command of "+fnDisplay(fn)+" is sent at a prompt or a question")
		} else {
			r.fail(rule, "console-typestate|"+fnDisplay(fn), bads[0].pos, bads[0].what, "the dialogue with the device runs one prompt behind from here on")
		}
	}
	r.floor(rule, "console sends examined", sends, floor)
	r.floor(rule, "console waits examined", waits, floor)
}

// dialogueConsts: the string constants that a function types into or waits for on the console
// (arguments of Conn.IssueCmd / WaitShort / WaitLogin / Send / SendCmd / GetCmdOutput, followed
// through concatenation, Sprintf and local variables), with multiplicity, sorted.
func dialogueConsts(fn *ssa.Function) []string {
	var out []string
	for _, cs := range callsOf(fn) {
		switch cs.calleeName() {
		case "(*console.Conn).IssueCmd", "(*console.Conn).WaitShort", "(*console.Conn).WaitLogin", "(*console.Conn).Send", "(*console.Conn).SendCmd", "(*console.Conn).GetCmdOutput":
			for _, a := range cs.In.Common().Args[1:] {
				for _, s := range pathConstants(a, 0, map[ssa.Value]bool{}) {
					out = append(out, strconv.Quote(s))
				}
			}
		}
	}
	sort.Strings(out)
	return out
}

// ruleDialogueConsts: the commands and patterns of the audited dialogue functions.
func ruleDialogueConsts(p *Prog, r *Report, rule, prop string) {
	r.rule(rule, "The reload dialogue uses its audited commands and patterns: for the functions of tables/dialogue_consts.tsv the string constants typed into or waited for on the console (arguments of the Conn methods, followed through concatenation, Sprintf and variables) are among the audited ones (multiset inclusion). `[#] ?$` waits for a prompt at the end of the buffer; without the anchor the wait ends at a `#` inside the echo of the next command.")
	n := 0
	for _, row := range readTable("dialogue_consts.tsv", 4) {
		if !propListed(row[1], prop) {
			continue
		}
		n++
		fn := p.Funcs[row[0]]
		if fn == nil {
			r.fail(rule, "dialogue|"+row[0], "", "function "+row[0]+" not found", "re-audit")
			continue
		}
		gl := dialogueConsts(fn)
		got := strings.Join(gl, " | ")
		// every command and pattern in use is an audited one (dropping one in favour of the
		// standard-prompt helpers is judged by the typestate rule, not here)
		left := map[string]int{}
		for _, x := range strings.Split(row[2], " | ") {
			left[x]++
		}
		var extra []string
		for _, x := range gl {
			if left[x] > 0 {
				left[x]--
			} else {
				extra = append(extra, x)
			}
		}
		r.add(rule, "dialogue|"+row[0], p.pos(fn.Pos()), "the commands and patterns of "+row[0]+" are audited ones ("+row[3]+")", len(extra) == 0,
			fmt.Sprintf("the dialogue with the device uses a command or pattern that was not audited: %v\n   audited: %s\n   now:     %s", extra, row[2], got))
	}
	r.floor(rule, "audited dialogue functions for "+prop, n, 4)
}

func init() {
	dumpers["dialogueconsts"] = func(p *Prog, m *Model) {
		for _, n := range strings.Split(os.Getenv("FN"), ";") {
			if fn := p.Funcs[n]; fn != nil {
				fmt.Printf("%s\tPROPS\t%s\tREASON\n", n, strings.Join(dialogueConsts(fn), " | "))
			}
		}
	}
}
