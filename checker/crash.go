package main

// E5: crash obligations for C20.  The bounds obligations are exactly the
// IsInBounds / IsSliceInBounds checks that the Go compiler's prove pass could
// not eliminate (-d=ssa/check_bce), mapped back to the AST.

import (
	"encoding/json"
	"fmt"
	"go/ast"
	"go/token"
	"go/types"
	"os"
	"os/exec"
	"path/filepath"
	"regexp"
	"sort"
	"strconv"
	"strings"

	"golang.org/x/tools/go/packages"
)

type bceSite struct {
	File string // relative to GoDir
	Line int
	Col  int
	Kind string // IsInBounds | IsSliceInBounds
	Pkg  *packages.Package
	Node ast.Expr
	Func string // display name of the enclosing declaration (closures: Decl.var)
	Expr string
}

// abortOverlay writes copies of the files that call errlog.Abort as a
// statement, with `; panic(0)` appended to each such statement (same line
// layout), so that with inlining disabled the compiler still sees that the
// call does not return.  Returns the overlay JSON path and a cleanup.
func abortOverlay(p *Prog) (string, func(), int, error) {
	dir, err := os.MkdirTemp("", "nscheck-overlay")
	if err != nil {
		return "", nil, 0, err
	}
	cleanup := func() { os.RemoveAll(dir) }
	repl := map[string]string{}
	n := 0
	for _, pk := range p.prodPkgs() {
		for _, f := range pk.Syntax {
			fname := p.Fset.Position(f.Pos()).Filename
			var offs []int
			ast.Inspect(f, func(nd ast.Node) bool {
				es, ok := nd.(*ast.ExprStmt)
				if !ok {
					return true
				}
				call, ok := es.X.(*ast.CallExpr)
				if !ok {
					return true
				}
				if obj := calleeObj(pk, call); obj != nil && obj.Pkg() != nil && shortPath(obj.Pkg().Path()) == "errlog" && obj.Name() == "Abort" {
					offs = append(offs, p.Fset.Position(es.End()).Offset)
				}
				return true
			})
			if len(offs) == 0 {
				continue
			}
			src, err := os.ReadFile(fname)
			if err != nil {
				cleanup()
				return "", nil, 0, err
			}
			sort.Sort(sort.Reverse(sort.IntSlice(offs)))
			for _, o := range offs {
				src = append(src[:o], append([]byte("; panic(0)"), src[o:]...)...)
				n++
			}
			tmp := filepath.Join(dir, fmt.Sprintf("%d_%s", len(repl), filepath.Base(fname)))
			if err := os.WriteFile(tmp, src, 0o644); err != nil {
				cleanup()
				return "", nil, 0, err
			}
			repl[fname] = tmp
		}
	}
	ov := filepath.Join(dir, "overlay.json")
	b, _ := json.Marshal(map[string]any{"Replace": repl})
	if err := os.WriteFile(ov, b, 0o644); err != nil {
		cleanup()
		return "", nil, 0, err
	}
	return ov, cleanup, n, nil
}

func calleeObj(pk *packages.Package, call *ast.CallExpr) types.Object {
	switch f := call.Fun.(type) {
	case *ast.SelectorExpr:
		return pk.TypesInfo.Uses[f.Sel]
	case *ast.Ident:
		return pk.TypesInfo.Uses[f]
	}
	return nil
}

var bceRe = regexp.MustCompile(`^(.+\.go):(\d+):(\d+): Found (IsInBounds|IsSliceInBounds)`)

// bceSites runs the compiler (goBin: "go" or "go1.26.8") and returns the
// unproven bounds checks in module files.
func bceSites(p *Prog, goBin string) ([]*bceSite, int, error) {
	ov, cleanup, nAbort, err := abortOverlay(p)
	if err != nil {
		return nil, 0, err
	}
	defer cleanup()
	cmd := exec.Command(goBin, "build", "-overlay", ov,
		"-gcflags="+modPath+"/...=-d=ssa/check_bce/debug=1 -l", "./pkg/...", "./cmd/...")
	cmd.Dir = p.GoDir
	env := []string{}
	for _, e := range os.Environ() {
		if strings.HasPrefix(e, "GOWORK=") || strings.HasPrefix(e, "GOFLAGS=") {
			continue
		}
		env = append(env, e)
	}
	cmd.Env = append(env, "GOWORK=off", "GOFLAGS=", "GOPROXY=off", "GOSUMDB=off", "GOTOOLCHAIN=local")
	out, err := cmd.CombinedOutput()
	// go build exits 0; diagnostics are on stderr.  A compile error is fatal.
	if err != nil {
		return nil, 0, fmt.Errorf("%s build failed: %v\n%s", goBin, err, lastLines(string(out), 15))
	}
	// index files
	type fileInfo struct {
		pk *packages.Package
		f  *ast.File
	}
	files := map[string]fileInfo{}
	for _, pk := range p.prodPkgs() {
		for _, f := range pk.Syntax {
			fn := p.Fset.Position(f.Pos()).Filename
			rel, _ := filepath.Rel(p.GoDir, fn)
			files[rel] = fileInfo{pk, f}
		}
	}
	var sites []*bceSite
	for _, line := range strings.Split(string(out), "\n") {
		m := bceRe.FindStringSubmatch(strings.TrimSpace(line))
		if m == nil {
			continue
		}
		fi, ok := files[filepath.Clean(m[1])]
		if !ok {
			continue // standard library instantiation
		}
		ln, _ := strconv.Atoi(m[2])
		col, _ := strconv.Atoi(m[3])
		s := &bceSite{File: filepath.Clean(m[1]), Line: ln, Col: col, Kind: m[4], Pkg: fi.pk}
		// find the index/slice expression whose '[' is at this position
		ast.Inspect(fi.f, func(nd ast.Node) bool {
			var lb token.Pos
			var e ast.Expr
			switch x := nd.(type) {
			case *ast.IndexExpr:
				lb, e = x.Lbrack, x
			case *ast.SliceExpr:
				lb, e = x.Lbrack, x
			default:
				return true
			}
			ps := p.Fset.Position(lb)
			if ps.Line == ln && ps.Column == col {
				s.Node = e
			}
			return true
		})
		if s.Node == nil {
			s.Expr = "<unmapped>"
			s.Func = "<unmapped>"
		} else {
			s.Expr = types.ExprString(s.Node)
			s.Func = enclosingFuncDisplay(fi.pk, fi.f, s.Node.Pos())
		}
		sites = append(sites, s)
	}
	sort.Slice(sites, func(i, j int) bool {
		a, b := sites[i], sites[j]
		if a.File != b.File {
			return a.File < b.File
		}
		if a.Line != b.Line {
			return a.Line < b.Line
		}
		return a.Col < b.Col
	})
	return sites, nAbort, nil
}

func lastLines(s string, n int) string {
	l := strings.Split(strings.TrimSpace(s), "\n")
	if len(l) > n {
		l = l[len(l)-n:]
	}
	return strings.Join(l, "\n")
}

// enclosingFuncDisplay: "pkg.Func" / "(*pkg.T).M", with ".name" appended for
// each enclosing function literal bound to a variable (".func" otherwise).
func enclosingFuncDisplay(pk *packages.Package, f *ast.File, pos token.Pos) string {
	fd := enclosingDecl(f, pos)
	name := declName(pk, fd)
	if fd == nil || fd.Body == nil {
		return name
	}
	// walk down through nested function literals containing pos
	var path []string
	var walk func(n ast.Node)
	walk = func(n ast.Node) {
		ast.Inspect(n, func(nd ast.Node) bool {
			if nd == nil || nd == n {
				return true
			}
			switch x := nd.(type) {
			case *ast.AssignStmt:
				for i, rhs := range x.Rhs {
					if lit, ok := rhs.(*ast.FuncLit); ok && lit.Pos() <= pos && pos <= lit.End() {
						nm := "func"
						if i < len(x.Lhs) {
							if id, ok := x.Lhs[i].(*ast.Ident); ok {
								nm = id.Name
							}
						}
						path = append(path, nm)
						walk(lit.Body)
						return false
					}
				}
			case *ast.FuncLit:
				if x.Pos() <= pos && pos <= x.End() {
					path = append(path, "func")
					walk(x.Body)
					return false
				}
			}
			return true
		})
	}
	walk(fd.Body)
	for _, pth := range path {
		name += "." + pth
	}
	return name
}
