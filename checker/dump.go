package main

import (
	"fmt"
	"go/ast"
	"go/types"
	"os"
	"sort"
	"strings"

	"golang.org/x/tools/go/ssa"
)

var dumpers = map[string]func(p *Prog, m *Model){}

func doDump(p *Prog, what string) {
	m, err := p.model()
	if err != nil {
		fmt.Println("error:", err)
		return
	}
	if d := dumpers[what]; d != nil {
		d(p, m)
		return
	}
	switch what {
	case "model":
		for _, t := range m.Impls {
			fmt.Println("impl", typeShort(t))
		}
		fmt.Println("all", len(m.All), "pre", len(m.PreApply), "applyonly", len(m.ApplyOnly))
		for _, n := range sortedFuncNames(m.ApplyOnly) {
			fmt.Println("  apply-only:", n)
		}
	case "prims":
		sites, unk := findPrimSites(p, m, m.PreApply)
		for _, s := range sites {
			fmt.Printf("%s %s pre=%v %s\n", p.ipos(s.Site.In), s.key(), s.InPre, s.Prim.Kind)
			for _, pt := range s.Method {
				fmt.Println("     method:", pt)
			}
			for _, pt := range s.Patterns {
				fmt.Println("     ", pt)
			}
		}
		for _, u := range unk {
			fmt.Println("UNKNOWN", p.ipos(u.In), shortName(u.Fn), u.calleeName())
		}
	}
}

func init() {
	dumpers["libcalls"] = func(p *Prog, m *Model) {
		cnt := map[string][]string{}
		for _, fn := range allModFuncs(p) {
			for _, cs := range callsOf(fn) {
				if cs.Static != nil && !isModFunc(cs.Static) {
					n := shortName(cs.Static)
					cnt[n] = append(cnt[n], shortName(fn))
				}
			}
		}
		var keys []string
		for k := range cnt {
			keys = append(keys, k)
		}
		sort.Strings(keys)
		for _, k := range keys {
			fmt.Println(k, len(cnt[k]), cnt[k][0])
		}
	}
}

func init() {
	dumpers["mapranges"] = func(p *Prog, m *Model) {
		for _, pk := range p.prodPkgs() {
			for _, f := range pk.Syntax {
				ast.Inspect(f, func(n ast.Node) bool {
					rs, ok := n.(*ast.RangeStmt)
					if !ok {
						return true
					}
					t := pk.TypesInfo.TypeOf(rs.X)
					if t == nil {
						return true
					}
					if _, ok := t.Underlying().(*types.Map); ok {
						fd := enclosingDecl(f, rs.Pos())
						fmt.Printf("%s %s range %s : %s\n", p.pos(rs.Pos()), declName(pk, fd), types.ExprString(rs.X), typeShort(t))
					}
					return true
				})
			}
		}
	}
}

func init() {
	dumpers["droppederrs"] = func(p *Prog, m *Model) {
		for _, d := range droppedErrors(p) {
			fmt.Printf("%s\t%s\t%s\t%s\n", p.ipos(d.Site.In), shortName(d.Site.Fn), d.Site.calleeName(), d.How)
		}
	}
}

func init() {
	dumpers["guards"] = func(p *Prog, m *Model) {
		fnName := os.Getenv("FN")
		var fns []*ssa.Function
		for _, f := range allModFuncs(p) {
			if shortName(f) == fnName || strings.HasPrefix(shortName(f), fnName+"$") {
				fns = append(fns, f)
			}
		}
		for _, fn := range fns {
			fmt.Println("==", shortName(fn), "closure-var:", closureName(fn))
			for _, b := range fn.Blocks {
				for _, in := range b.Instrs {
					switch x := in.(type) {
					case ssa.CallInstruction:
						cs := &callSite{In: x, Fn: fn, Static: x.Common().StaticCallee()}
						name := cs.calleeName()
						for _, c := range calleesOfSite(p, cs) {
							if cn := closureName(c); cn != "" {
								name = "closure " + cn
							}
						}
						if strings.HasPrefix(name, "builtin.len") || strings.HasPrefix(name, "strings.") {
							continue
						}
						fmt.Printf("  %s call %s  guards=%v  or=%q\n", p.ipos(in), name, guardSet(in), orGuardSet(in))
					case *ssa.Store:
						if fa, ok := x.Addr.(*ssa.FieldAddr); ok {
							fmt.Printf("  %s store %s  guards=%v or=%q\n", p.ipos(in), fieldName(fa), guardSet(in), orGuardSet(in))
						}
					case *ssa.MapUpdate:
						fmt.Printf("  %s mapupdate %s  guards=%v\n", p.ipos(in), descValue(x.Map, 0), guardSet(in))
					}
				}
			}
		}
	}
}

func init() {
	dumpers["guardrows"] = func(p *Prog, m *Model) {
		// FN="fn1|site1;fn2|site2" -> TSV rows for tables/guards.tsv
		byName := fnDisplayIndex(p)
		for _, spec := range strings.Split(os.Getenv("FN"), ";") {
			f, site, _ := strings.Cut(spec, "|")
			fn := byName[f]
			if fn == nil {
				fmt.Println("# NOT FOUND", f)
				continue
			}
			for _, gs := range guardSitesOf(p, fn) {
				if site == "*" || gs.Name == site {
					fmt.Printf("%s\t%s\t%s\tPROPS\tREASON\n", f, gs.Name, gs.Sig)
				}
			}
		}
	}
}

func init() {
	dumpers["markrows"] = func(p *Prog, m *Model) {
		// PKG=nsx FIELDS=.needed,.nameOnDevice -> TSV rows
		byFn := map[*ssa.Function]string{}
		for n, fn := range fnDisplayIndex(p) {
			byFn[fn] = n
		}
		for _, gs := range markSites(p, os.Getenv("PKG"), strings.Split(os.Getenv("FIELDS"), ",")) {
			fmt.Printf("%s\t%s\t%s\tPROPS\tREASON\t# %s\n", byFn[gs.Fn], gs.Name, gs.Sig, p.ipos(gs.In))
		}
	}
}

func init() {
	dumpers["order"] = func(p *Prog, m *Model) {
		par := p.Fn("(*cisco.State).addCmds")
		fn := closureByName(par, "add")
		fmt.Println("closure:", shortName(fn))
		fo := sitesIn(p, fn, byCallee(p, "follow"))
		ac := sitesIn(p, fn, byCallee(p, "(*cisco.State).addCmd"))
		for _, x := range fo {
			fmt.Println(" follow site", p.ipos(x.In), x.In.Block().Index)
		}
		for _, y := range ac {
			fmt.Println(" addCmd site", p.ipos(y.In), y.In.Block().Index)
		}
		for _, x := range fo {
			for _, y := range ac {
				fmt.Println(p.ipos(x.In), "->", p.ipos(y.In), orderedInIteration(x.In, y.In))
			}
		}
	}
}

func init() {
	dumpers["bce"] = func(p *Prog, m *Model) {
		gobin := os.Getenv("GOBIN_BCE")
		if gobin == "" {
			gobin = "go"
		}
		sites, nAbort, err := bceSites(p, gobin)
		if err != nil {
			fmt.Println("error:", err)
			return
		}
		fmt.Println("# sites:", len(sites), "abort statements patched:", nAbort)
		type k struct{ f, e, file string }
		cnt := map[k]int{}
		first := map[k]int{}
		for _, s := range sites {
			kk := k{s.Func, s.Expr, s.File}
			cnt[kk]++
			if first[kk] == 0 {
				first[kk] = s.Line
			}
		}
		var keys []k
		for kk := range cnt {
			keys = append(keys, kk)
		}
		sort.Slice(keys, func(i, j int) bool {
			if keys[i].file != keys[j].file {
				return keys[i].file < keys[j].file
			}
			return first[keys[i]] < first[keys[j]]
		})
		for _, kk := range keys {
			fmt.Printf("%s:%d\t%s\t%s\t%d\n", kk.file, first[kk], kk.f, kk.e, cnt[kk])
		}
	}
}

func init() {
	dumpers["summary"] = func(p *Prog, m *Model) {
		sm := newSummarizer(p)
		for _, fn := range allModFuncs(p) {
			if fnDisplay(fn) == os.Getenv("FN") || shortName(fn) == os.Getenv("FN") {
				fmt.Println(fnDisplay(fn), sm.sums[fn].String())
				rc := &rootCtx{}
				for _, b := range fn.Blocks {
					for _, in := range b.Instrs {
						if ci, ok := in.(ssa.CallInstruction); ok {
							if bi, ok := ci.Common().Value.(*ssa.Builtin); ok && bi.Name() == "delete" {
								fmt.Println("  delete at", p.ipos(in), "roots:", rc.roots(ci.Common().Args[0]), descValue(ci.Common().Args[0], 0))
							}
						}
					}
				}
			}
		}
	}
}

func init() {
	dumpers["normconsts"] = func(p *Prog, m *Model) {
		// FN=linux.normalizeIPTables
		fn := p.Funcs[os.Getenv("FN")]
		if fn == nil {
			fmt.Println("not found")
			return
		}
		fmt.Printf("%s\tPROPS\t%s\tREASON\n", os.Getenv("FN"), strings.Join(normaliserConsts(fn), " | "))
	}
}

func init() {
	dumpers["exitrows"] = func(p *Prog, m *Model) {
		pk := map[string]bool{}
		for _, s := range strings.Split(os.Getenv("PKG"), ",") {
			pk[s] = true
		}
		for _, fn := range allModFuncs(p) {
			if !pk[pkgOfFunc(fn)] || fn.Synthetic != "" {
				continue
			}
			for _, s := range exitSitesOf(fn) {
				fmt.Printf("%s\t%s\tPROPS\tREASON\t# %s\n", fnDisplay(fn), s.Sig, p.ipos(s.In))
			}
		}
	}
	dumpers["fnconds"] = func(p *Prog, m *Model) {
		fmt.Println("# function (closures by variable name)\ttest it makes, normalised, both polarities; regenerate with bin/nscheck -dump fnconds after every audited change of /repo")
		var lines []string
		for _, fn := range allModFuncs(p) {
			if fn.Synthetic != "" {
				continue
			}
			switch pkgOfFunc(fn) {
			case "cisco", "asa", "ios", "nxos", "panos", "nsx", "linux":
			default:
				continue
			}
			for _, c := range fnConditions(fn) {
				lines = append(lines, fnDisplay(fn)+"\t"+c)
			}
		}
		sort.Strings(lines)
		prev := ""
		for _, l := range lines {
			if l != prev {
				fmt.Println(l)
			}
			prev = l
		}
	}
	dumpers["lookuprows"] = func(p *Prog, m *Model) {
		pk := map[string]bool{}
		for _, s := range strings.Split(os.Getenv("PKG"), ",") {
			pk[s] = true
		}
		for _, fn := range allModFuncs(p) {
			if !pk[pkgOfFunc(fn)] || fn.Synthetic != "" {
				continue
			}
			var l []string
			for d := range lookupsOf(p, fn, 0, map[*ssa.Function]bool{}) {
				l = append(l, d)
			}
			sort.Strings(l)
			for _, d := range l {
				fmt.Printf("%s\t%s\tPROPS\tREASON\n", fnDisplay(fn), d)
			}
		}
	}
	dumpers["memorows"] = func(p *Prog, m *Model) {
		for _, fn := range allModFuncs(p) {
			if fn.Synthetic != "" {
				continue
			}
			seen := map[string]bool{}
			for _, s := range memoSitesOf(fn) {
				if seen[s.Field] {
					continue
				}
				seen[s.Field] = true
				fmt.Printf("%s\t%s\tPROPS\tREASON\t# %s %s\n", fnDisplay(fn), s.Field, pkgOfFunc(fn), p.ipos(s.In))
			}
		}
	}
	dumpers["siderows"] = func(p *Prog, m *Model) {
		// PKG=nsx,panos -> TSV rows for tables/sides_audit.tsv
		pk := map[string]bool{}
		for _, s := range strings.Split(os.Getenv("PKG"), ",") {
			pk[s] = true
		}
		for _, fn := range allModFuncs(p) {
			if !pk[pkgOfFunc(fn)] || fn.Synthetic != "" {
				continue
			}
			for _, s := range sideSitesOf(p, fn) {
				fmt.Printf("%s\t%s\t%s\tPROPS\tREASON\t# %s\n", fnDisplay(fn), s.Name, s.Sig, p.ipos(s.In))
			}
		}
	}
}

func init() {
	dumpers["fnfps"] = func(p *Prog, m *Model) {
		fmt.Println("# function (raw short name)\tfingerprint of its body (see fnFingerprint); regenerate with bin/nscheck -dump fnfps after every audited change of /repo")
		var names []string
		fps := map[string]string{}
		for _, f := range p.ModFuncs {
			if f.Parent() == nil && len(f.Blocks) > 0 && f.Synthetic == "" {
				n := shortName(f)
				names = append(names, n)
				fps[n] = fnFingerprint(f)
			}
		}
		sort.Strings(names)
		for _, n := range names {
			fmt.Printf("%s\t%s\n", n, fps[n])
		}
	}
}

func init() {
	dumpers["rewrites"] = func(p *Prog, m *Model) {
		pk := map[string]bool{}
		for _, s := range strings.Split(os.Getenv("PKG"), ",") {
			pk[s] = true
		}
		for _, fn := range allModFuncs(p) {
			if !pk[pkgOfFunc(fn)] || fn.Synthetic != "" {
				continue
			}
			for _, rs := range rewriteSitesOf(p, fn) {
				fmt.Printf("%s\t%s\t%s\tPROPS\tREASON\t# %s\n", fnDisplay(fn), rs.Name, rs.Sig, p.ipos(rs.In))
			}
		}
	}
}

func init() {
	dumpers["symsig"] = func(p *Prog, m *Model) {
		fn := p.Funcs[os.Getenv("FN")]
		if fn == nil {
			fmt.Println("not found")
			return
		}
		ps := fn.Params
		if fn.Signature.Recv() != nil {
			ps = ps[1:]
		}
		for _, l := range symmetrySig(fn, ps[0], ps[1], "A", "B") {
			fmt.Println(l)
		}
	}
}

func init() {
	dumpers["cmprows"] = func(p *Prog, m *Model) {
		pk := map[string]bool{}
		for _, s := range strings.Split(os.Getenv("PKG"), ",") {
			pk[s] = true
		}
		for _, fn := range allModFuncs(p) {
			if !pk[pkgOfFunc(fn)] || fn.Synthetic != "" || !isCmpFunc(fn) {
				continue
			}
			for _, gs := range guardSitesOf(p, fn) {
				if strings.HasPrefix(gs.Name, "return:") {
					fmt.Printf("%s\t%s\t%s\tPROPS\tREASON\t# %s\n", fnDisplay(fn), gs.Name, gs.Sig, p.ipos(gs.In))
				}
			}
		}
	}
}

func init() {
	dumpers["structfields"] = func(p *Prog, m *Model) {
		fmt.Println("# struct type\tfield index\tname\ttype — regenerate with bin/nscheck -dump structfields after every audited change of /repo (bin/refresh-evidence does)")
		for _, l := range structFieldRows(p) {
			fmt.Println(l)
		}
	}
}

func init() {
	dumpers["fieldalias"] = func(p *Prog, m *Model) {
		for k, v := range fieldAlias {
			fmt.Println(k, "->", v)
		}
	}
}
