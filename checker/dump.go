package main

import "fmt"

func doDump(p *Prog, what string) {
	m, err := p.model()
	if err != nil {
		fmt.Println("error:", err)
		return
	}
	switch what {
	case "model":
		for _, t := range m.Impls {
			fmt.Println("impl", typeShort(t))
		}
		fmt.Println("all", len(m.All), "pre", len(m.PreApply), "applyonly", len(m.ApplyOnly))
		for _, n := range sortedFuncNames(m.ApplyOnly) {
			fmt.Println("  apply-only:", n)
		}
	case "prims":
		sites, unk := findPrimSites(p, m, m.PreApply)
		for _, s := range sites {
			fmt.Printf("%s %s pre=%v %s\n", p.ipos(s.Site.In), s.key(), s.InPre, s.Prim.Kind)
			for _, pt := range s.Method {
				fmt.Println("     method:", pt)
			}
			for _, pt := range s.Patterns {
				fmt.Println("     ", pt)
			}
		}
		for _, u := range unk {
			fmt.Println("UNKNOWN", p.ipos(u.In), shortName(u.Fn), u.calleeName())
		}
	}
}
