package main

import (
	"fmt"
	"go/ast"
	"go/types"
	"sort"
)

var dumpers = map[string]func(p *Prog, m *Model){}

func doDump(p *Prog, what string) {
	m, err := p.model()
	if err != nil {
		fmt.Println("error:", err)
		return
	}
	if d := dumpers[what]; d != nil {
		d(p, m)
		return
	}
	switch what {
	case "model":
		for _, t := range m.Impls {
			fmt.Println("impl", typeShort(t))
		}
		fmt.Println("all", len(m.All), "pre", len(m.PreApply), "applyonly", len(m.ApplyOnly))
		for _, n := range sortedFuncNames(m.ApplyOnly) {
			fmt.Println("  apply-only:", n)
		}
	case "prims":
		sites, unk := findPrimSites(p, m, m.PreApply)
		for _, s := range sites {
			fmt.Printf("%s %s pre=%v %s\n", p.ipos(s.Site.In), s.key(), s.InPre, s.Prim.Kind)
			for _, pt := range s.Method {
				fmt.Println("     method:", pt)
			}
			for _, pt := range s.Patterns {
				fmt.Println("     ", pt)
			}
		}
		for _, u := range unk {
			fmt.Println("UNKNOWN", p.ipos(u.In), shortName(u.Fn), u.calleeName())
		}
	}
}

func init() {
	dumpers["libcalls"] = func(p *Prog, m *Model) {
		cnt := map[string][]string{}
		for _, fn := range allModFuncs(p) {
			for _, cs := range callsOf(fn) {
				if cs.Static != nil && !isModFunc(cs.Static) {
					n := shortName(cs.Static)
					cnt[n] = append(cnt[n], shortName(fn))
				}
			}
		}
		var keys []string
		for k := range cnt {
			keys = append(keys, k)
		}
		sort.Strings(keys)
		for _, k := range keys {
			fmt.Println(k, len(cnt[k]), cnt[k][0])
		}
	}
}

func init() {
	dumpers["mapranges"] = func(p *Prog, m *Model) {
		for _, pk := range p.prodPkgs() {
			for _, f := range pk.Syntax {
				ast.Inspect(f, func(n ast.Node) bool {
					rs, ok := n.(*ast.RangeStmt)
					if !ok {
						return true
					}
					t := pk.TypesInfo.TypeOf(rs.X)
					if t == nil {
						return true
					}
					if _, ok := t.Underlying().(*types.Map); ok {
						fd := enclosingDecl(f, rs.Pos())
						fmt.Printf("%s %s range %s : %s\n", p.pos(rs.Pos()), declName(pk, fd), types.ExprString(rs.X), typeShort(t))
					}
					return true
				})
			}
		}
	}
}

func init() {
	dumpers["droppederrs"] = func(p *Prog, m *Model) {
		for _, d := range droppedErrors(p) {
			fmt.Printf("%s\t%s\t%s\t%s\n", p.ipos(d.Site.In), shortName(d.Site.Fn), d.Site.calleeName(), d.How)
		}
	}
}
