package main

// Effect summaries of functions (what memory outside the function they write,
// what they emit), used by the map-range classifier (C16) and others.

import (
	"fmt"
	"go/token"
	"go/types"
	"sort"
	"strings"

	"golang.org/x/tools/go/ssa"
)

// A root describes where a pointer-like value comes from, relative to the
// function that contains it.
type root struct {
	Kind string // param | freevar | global | fresh | unknown
	Idx  int
	Name string
}

func (r root) String() string {
	switch r.Kind {
	case "param", "freevar":
		return fmt.Sprintf("%s%d", r.Kind, r.Idx)
	case "global":
		return "global:" + r.Name
	}
	return r.Kind
}

type rootSet map[root]bool

func (s rootSet) add(o rootSet) {
	for k := range o {
		s[k] = true
	}
}

// rootsOf computes the function-relative roots of value v.  stop, if non-nil,
// is consulted first: it may return a synthetic root for v (used by the loop
// analysis to recognise element-rooted and loop-local values).
type rootCtx struct {
	stop func(v ssa.Value) (root, bool)
	seen map[ssa.Value]bool
}

func (c *rootCtx) roots(v ssa.Value) rootSet {
	out := rootSet{}
	if c.seen == nil {
		c.seen = map[ssa.Value]bool{}
	}
	c.walk(v, out)
	return out
}

func isPointerLike(v ssa.Value) bool {
	return true
}

func (c *rootCtx) walk(v ssa.Value, out rootSet) {
	if v == nil || c.seen[v] {
		return
	}
	c.seen[v] = true
	defer delete(c.seen, v)
	if c.stop != nil {
		if r, ok := c.stop(v); ok {
			out[r] = true
			return
		}
	}
	switch x := v.(type) {
	case *ssa.Parameter:
		for i, p := range x.Parent().Params {
			if p == x {
				out[root{Kind: "param", Idx: i}] = true
			}
		}
	case *ssa.FreeVar:
		for i, p := range x.Parent().FreeVars {
			if p == x {
				out[root{Kind: "freevar", Idx: i}] = true
			}
		}
	case *ssa.Global:
		out[root{Kind: "global", Name: x.Name()}] = true
	case *ssa.Const, *ssa.Function, *ssa.Builtin:
	case *ssa.Alloc:
		// the variable itself: local memory.  A composite value built in it may
		// hold pointers to other memory (ab := &pair{a: outer}); a callee writing
		// "through" it can reach those, so the stored pointers are roots too.
		out[root{Kind: "fresh"}] = true
		// a struct VALUE copied into the variable (range element, `x := *p`) carries
		// its reference fields (maps, slices, pointers) along: memory reached through
		// them is the memory of the original
		if _, isStruct := x.Type().Underlying().(*types.Pointer).Elem().Underlying().(*types.Struct); isStruct {
			for _, st := range cellStores(x) {
				c.walk(st.Val, out)
			}
		}
	case *ssa.MakeSlice, *ssa.MakeMap, *ssa.MakeChan, *ssa.MakeClosure:
		out[root{Kind: "fresh"}] = true
	case *ssa.UnOp:
		if x.Op == token.MUL {
			switch a := x.X.(type) {
			case *ssa.Alloc:
				// load of a local variable: whatever was stored
				sts := cellStores(a)
				for _, st := range sts {
					c.walk(st.Val, out)
				}
				if len(sts) == 0 {
					out[root{Kind: "fresh"}] = true
				}
				return
			}
			c.walk(x.X, out)
		}
	case *ssa.FieldAddr:
		c.walk(x.X, out)
	case *ssa.IndexAddr:
		c.walk(x.X, out)
	case *ssa.Field:
		c.walk(x.X, out)
	case *ssa.Index:
		c.walk(x.X, out)
	case *ssa.Lookup:
		c.walk(x.X, out)
	case *ssa.Slice:
		c.walk(x.X, out)
	case *ssa.ChangeType:
		c.walk(x.X, out)
	case *ssa.Convert:
		c.walk(x.X, out)
	case *ssa.MakeInterface:
		c.walk(x.X, out)
	case *ssa.ChangeInterface:
		c.walk(x.X, out)
	case *ssa.TypeAssert:
		c.walk(x.X, out)
	case *ssa.SliceToArrayPointer:
		c.walk(x.X, out)
	case *ssa.Extract:
		c.walk(x.Tuple, out)
	case *ssa.Next:
		c.walk(x.Iter, out)
	case *ssa.Range:
		c.walk(x.X, out)
	case *ssa.Phi:
		for _, e := range x.Edges {
			c.walk(e, out)
		}
	case *ssa.BinOp:
		// arithmetic / string concatenation: no memory identity
	case *ssa.Call:
		com := x.Common()
		if b, ok := com.Value.(*ssa.Builtin); ok {
			switch b.Name() {
			case "append":
				for _, a := range com.Args {
					c.walk(a, out)
				}
				out[root{Kind: "fresh"}] = true
			case "len", "cap", "min", "max":
			default:
				out[root{Kind: "fresh"}] = true
			}
			return
		}
		// result may alias any argument (and for method values the receiver)
		out[root{Kind: "fresh"}] = true
		for _, a := range com.Args {
			c.walk(a, out)
		}
		if com.IsInvoke() {
			c.walk(com.Value, out)
		}
	default:
		out[root{Kind: "unknown"}] = true
	}
}

// ---- function summaries ----

type summary struct {
	Writes rootSet // param/freevar/global roots of memory written (transitively)
	// CWrites: roots of maps that only receive inserts of constant values
	// (set insertion: idempotent and commutative)
	CWrites map[root]string
	Emits   map[string]bool // Warning | Info | Abort | print | log
}

type summarizer struct {
	p    *Prog
	sums map[*ssa.Function]*summary
}

// Library functions that write through an argument (index) or emit.
var libWrites = map[string][]int{
	"sort.Strings": {0}, "sort.Slice": {0}, "sort.SliceStable": {0}, "sort.Sort": {0}, "sort.Stable": {0}, "sort.Ints": {0},
	"slices.Reverse": {0}, "slices.Sort": {0}, "slices.SortFunc": {0}, "slices.SortStableFunc": {0},
	"(*strings.Builder).WriteString": {0}, "(*strings.Builder).WriteByte": {0}, "(*strings.Builder).WriteRune": {0}, "(*strings.Builder).Write": {0},
	"(*bytes.Buffer).WriteString": {0}, "(*bytes.Buffer).Write": {0},
	"maps.Copy": {0}, "copy": {0},
	"encoding/json.Unmarshal": {1}, "encoding/xml.Unmarshal": {1}, "(*encoding/json.Decoder).Decode": {1}, "(*encoding/xml.Decoder).DecodeElement": {1},
}

func libEmits(name string) string {
	switch {
	case strings.HasPrefix(name, "fmt.Print"):
		return "print"
	case strings.HasPrefix(name, "fmt.Fprint"):
		return "print"
	case strings.HasPrefix(name, "(*os.File).Write"), name == "os.WriteFile":
		return "print"
	case strings.HasPrefix(name, "log."):
		return "print"
	}
	return ""
}

func newSummarizer(p *Prog) *summarizer {
	s := &summarizer{p: p, sums: map[*ssa.Function]*summary{}}
	fns := allModFuncs(p)
	for _, f := range fns {
		s.sums[f] = &summary{Writes: rootSet{}, CWrites: map[root]string{}, Emits: map[string]bool{}}
	}
	// seed emitters
	for changed := true; changed; {
		changed = false
		for _, f := range fns {
			before := len(s.sums[f].Writes)*10000 + len(s.sums[f].CWrites)*100 + len(s.sums[f].Emits)
			s.step(f)
			if len(s.sums[f].Writes)*10000+len(s.sums[f].CWrites)*100+len(s.sums[f].Emits) != before {
				changed = true
			}
		}
	}
	return s
}

func emitKindOfModFunc(name string) string {
	switch name {
	case "errlog.Warning":
		return "Warning"
	case "errlog.Info":
		return "Info"
	case "errlog.Abort":
		return "Abort"
	case "errlog.PrintWithMarker":
		return "Warning"
	case "errlog.DoLog":
		return "log"
	}
	return ""
}

func (s *summarizer) step(f *ssa.Function) {
	sum := s.sums[f]
	rc := &rootCtx{}
	addRoots := func(v ssa.Value) {
		for r := range rc.roots(v) {
			if r.Kind == "param" || r.Kind == "freevar" || r.Kind == "global" || r.Kind == "unknown" {
				sum.Writes[r] = true
			}
		}
	}
	for _, b := range f.Blocks {
		for _, in := range b.Instrs {
			switch x := in.(type) {
			case *ssa.Store:
				// a store into a local variable is not an outside write
				if _, isAlloc := x.Addr.(*ssa.Alloc); isAlloc {
					continue
				}
				addRoots(x.Addr)
			case *ssa.MapUpdate:
				if cv, isConst := x.Value.(*ssa.Const); isConst {
					for r := range rc.roots(x.Map) {
						if r.Kind == "param" || r.Kind == "freevar" || r.Kind == "global" || r.Kind == "unknown" {
							sum.addCWrite(r, cv.String())
						}
					}
				} else {
					addRoots(x.Map)
				}
			case ssa.CallInstruction:
				s.applyCall(f, x, func(v ssa.Value, callee string, constSet string) {
					if constSet != "" {
						for r := range rc.roots(v) {
							if r.Kind == "param" || r.Kind == "freevar" || r.Kind == "global" || r.Kind == "unknown" {
								sum.addCWrite(r, constSet)
							}
						}
						return
					}
					addRoots(v)
				}, func(k string) { sum.Emits[k] = true }, func(g string) {
					sum.Writes[root{Kind: "global", Name: g}] = true
				})
			}
		}
	}
}

// applyCall reports the effects of one call instruction in terms of the
// caller's values: write(v) for every value whose memory the callee may write,
// emit(kind), global(name).
func (s *summarizer) applyCall(caller *ssa.Function, ci ssa.CallInstruction, write0 func(v ssa.Value, callee string, constSet string), emit func(string), global func(string)) {
	curCallee := "builtin"
	inner := write0
	// A callee that writes memory "rooted at" an argument may write through
	// pointers stored inside a composite value built locally (ab := &pair{a:
	// outer}; f(ab) writes ab.a.x): report those stored pointers as written too.
	write0 = func(v ssa.Value, callee string, constSet string) {
		inner(v, callee, constSet)
		for _, sv := range storedPointers(v, 0) {
			inner(sv, callee, constSet)
		}
	}
	write := func(v ssa.Value) { write0(v, curCallee, "") }
	com := ci.Common()
	if b, ok := com.Value.(*ssa.Builtin); ok {
		switch b.Name() {
		case "delete":
			write(com.Args[0])
		case "copy":
			write(com.Args[0])
		case "clear":
			write(com.Args[0])
		}
		return
	}
	var callees []*ssa.Function
	var closure *ssa.MakeClosure
	if f := com.StaticCallee(); f != nil {
		callees = []*ssa.Function{f}
		if mc, ok := com.Value.(*ssa.MakeClosure); ok {
			closure = mc
		}
	} else {
		// dynamic: closure value loaded from a cell, function parameter, or interface method
		for _, rt := range valueRoots(com.Value) {
			if mc, ok := rt.(*ssa.MakeClosure); ok {
				callees = append(callees, mc.Fn.(*ssa.Function))
				closure = mc
			} else if fn, ok := rt.(*ssa.Function); ok {
				callees = append(callees, fn)
			}
		}
		if len(callees) == 0 {
			if n := s.p.CG().Nodes[caller]; n != nil {
				for _, e := range n.Out {
					if e.Site == ci {
						callees = append(callees, e.Callee.Func)
					}
				}
			}
		}
	}
	for _, cal := range callees {
		name := shortName(cal)
		curCallee = name
		if k := emitKindOfModFunc(name); k != "" {
			emit(k)
			continue
		}
		if !isModFunc(cal) {
			if k := libEmits(name); k != "" {
				emit(k)
				if strings.HasPrefix(name, "fmt.Fprint") {
					write(com.Args[0])
				}
			}
			if idxs, ok := libWrites[name]; ok {
				for _, i := range idxs {
					if i < len(com.Args) {
						write(com.Args[i])
					}
				}
			}
			continue
		}
		cs := s.sums[cal]
		if cs == nil {
			continue
		}
		for k := range cs.Emits {
			emit(k)
		}
		apply := func(r root, w func(ssa.Value)) {
			switch r.Kind {
			case "param":
				ai := r.Idx
				if com.IsInvoke() {
					if ai == 0 {
						w(com.Value)
						return
					}
					ai--
				}
				if ai < len(com.Args) {
					w(com.Args[ai])
				}
			case "freevar":
				if closure != nil && closure.Fn == cal && r.Idx < len(closure.Bindings) {
					w(closure.Bindings[r.Idx])
					return
				}
				// find a MakeClosure of cal in the caller chain
				for p := caller; p != nil; p = p.Parent() {
					for _, b := range p.Blocks {
						for _, in := range b.Instrs {
							if mc, ok := in.(*ssa.MakeClosure); ok && mc.Fn == cal && r.Idx < len(mc.Bindings) {
								bind := mc.Bindings[r.Idx]
								if p == caller {
									w(bind)
									return
								}
								// created in an enclosing function: the binding is a cell of that
								// function; if the caller captures the same cell, use its freevar
								for _, fv := range caller.FreeVars {
									for _, bb := range freeVarBindings(fv) {
										if bb == bind {
											w(fv)
											return
										}
									}
								}
								global("captured:" + shortName(cal))
								return
							}
						}
					}
				}
				global("captured:" + shortName(cal))
			case "global":
				global(r.Name)
			case "unknown":
				global("unknown:" + shortName(cal))
			}
		}
		for r := range cs.Writes {
			apply(r, write)
		}
		for r, cv := range cs.CWrites {
			if cs.Writes[r] {
				continue
			}
			if r.Kind == "global" || r.Kind == "unknown" {
				global("constset:" + r.Name + "=" + cv)
				continue
			}
			cv := cv
			apply(r, func(v ssa.Value) { write0(v, name, cv) })
		}
	}
}

// addCWrite records a constant-valued map insert; two different constants for
// the same root do not commute and become an ordinary write.
func (s *summary) addCWrite(r root, cv string) {
	if s.Writes[r] {
		return
	}
	if old, ok := s.CWrites[r]; ok && old != cv {
		delete(s.CWrites, r)
		s.Writes[r] = true
		return
	}
	s.CWrites[r] = cv
}

func (s *summary) String() string {
	var l []string
	for r := range s.Writes {
		l = append(l, "w:"+r.String())
	}
	for e := range s.Emits {
		l = append(l, "emit:"+e)
	}
	sort.Strings(l)
	return strings.Join(l, " ")
}

// storedPointers: v is (an address inside) a locally allocated composite; the
// pointer-like values stored into its fields/elements, two levels deep.
func storedPointers(v ssa.Value, depth int) []ssa.Value {
	if depth > 2 {
		return nil
	}
	base := v
	for {
		switch x := base.(type) {
		case *ssa.FieldAddr:
			base = x.X
			continue
		case *ssa.IndexAddr:
			base = x.X
			continue
		case *ssa.Slice:
			base = x.X
			continue
		}
		break
	}
	al, ok := base.(*ssa.Alloc)
	if !ok {
		return nil
	}
	var out []ssa.Value
	for _, ref := range *al.Referrers() {
		var addr ssa.Value
		switch y := ref.(type) {
		case *ssa.FieldAddr:
			addr = y
		case *ssa.IndexAddr:
			addr = y
		default:
			continue
		}
		for _, r2 := range *addr.Referrers() {
			if st, ok := r2.(*ssa.Store); ok && st.Addr == addr {
				switch st.Val.Type().Underlying().(type) {
				case *types.Pointer, *types.Map, *types.Slice, *types.Interface:
					out = append(out, st.Val)
					out = append(out, storedPointers(st.Val, depth+1)...)
				}
			}
		}
	}
	return out
}
