package main

// Comparator field completeness (R-EQ): a function that decides whether two
// values of one struct type are "equal" must look at every exported field of
// that type on both operands, or the field is listed in tables/eq_fields.tsv
// with the reason why it does not take part.

import (
	"fmt"
	"go/token"
	"go/types"
	"os"
	"sort"
	"strings"

	"golang.org/x/tools/go/ssa"
)

type eqFunc struct {
	Fn      *ssa.Function
	T       *types.Named
	Missing []string // exported fields not read on A or not read on B
}

func structOf(t types.Type) (*types.Named, *types.Struct) {
	if p, ok := t.Underlying().(*types.Pointer); ok {
		t = p.Elem()
	}
	n, ok := t.(*types.Named)
	if !ok {
		return nil, nil
	}
	st, ok := n.Underlying().(*types.Struct)
	if !ok {
		return nil, nil
	}
	return n, st
}

// exportedLeaves: exported fields of st, embedded structs flattened.
func exportedLeaves(st *types.Struct) []string {
	var out []string
	for i := 0; i < st.NumFields(); i++ {
		f := st.Field(i)
		if f.Embedded() {
			if _, es := structOf(f.Type()); es != nil {
				out = append(out, exportedLeaves(es)...)
				continue
			}
		}
		if f.Exported() {
			out = append(out, fldName(f))
		}
	}
	return out
}

// fieldsReadFrom: names of the (flattened) fields of the struct that v (a
// struct value or pointer) is read at; "*" if v is handed on as a whole.
func fieldsReadFrom(v ssa.Value, st *types.Struct) map[string]bool {
	m := map[string]bool{}
	seen := map[ssa.Value]bool{}
	var walk func(v ssa.Value, st *types.Struct)
	field := func(x ssa.Value, idx int, st *types.Struct) {
		f := st.Field(idx)
		if f.Embedded() {
			if _, es := structOf(f.Type()); es != nil {
				walk(x, es)
				return
			}
		}
		m[fldName(f)] = true
	}
	walk = func(v ssa.Value, st *types.Struct) {
		if seen[v] || v.Referrers() == nil {
			return
		}
		seen[v] = true
		for _, ref := range *v.Referrers() {
			switch x := ref.(type) {
			case *ssa.FieldAddr:
				field(x, x.Field, st)
			case *ssa.Field:
				field(x, x.Field, st)
			case *ssa.Phi:
				walk(x, st)
			case *ssa.Call:
				for _, arg := range x.Common().Args {
					if arg == v {
						m["*"] = true
					}
				}
			case *ssa.Store:
				if x.Val == v {
					if al, ok := x.Addr.(*ssa.Alloc); ok {
						walk(al, st)
					}
				}
			case *ssa.UnOp:
				walk(x, st)
			}
		}
	}
	walk(v, st)
	return m
}

func eqFuncs(p *Prog, pkgs map[string]bool) []*eqFunc {
	var out []*eqFunc
	for _, fn := range allModFuncs(p) {
		if fn.Synthetic != "" || !pkgs[pkgOfFunc(fn)] || fn.Signature.Results().Len() != 1 {
			continue
		}
		if b, ok := fn.Signature.Results().At(0).Type().Underlying().(*types.Basic); !ok || b.Kind() != types.Bool {
			continue
		}
		var a, b ssa.Value
		ps := fn.Params
		if len(ps) >= 2 && types.Identical(ps[len(ps)-2].Type(), ps[len(ps)-1].Type()) {
			if n, _ := structOf(ps[len(ps)-1].Type()); n != nil {
				a, b = ps[len(ps)-2], ps[len(ps)-1]
			}
		}
		if a == nil && fn.Name() == "Equal" {
			// Myers pair interface: Equal(ai, bi int): the two compared elements are
			// loaded from slices by index
			var elems []ssa.Value
			for _, blk := range fn.Blocks {
				for _, in := range blk.Instrs {
					if u, ok := in.(*ssa.UnOp); ok {
						if _, isIdx := u.X.(*ssa.IndexAddr); isIdx {
							if n, _ := structOf(u.Type()); n != nil {
								elems = append(elems, u)
							}
						}
					}
				}
			}
			if len(elems) == 2 && types.Identical(elems[0].Type(), elems[1].Type()) {
				a, b = elems[0], elems[1]
			}
		}
		if a == nil {
			continue
		}
		n, st := structOf(a.Type())
		if n == nil || n.Obj().Pkg() == nil || !strings.HasPrefix(n.Obj().Pkg().Path(), modPath) {
			continue
		}
		ra, rb := fieldsReadFrom(a, st), fieldsReadFrom(b, st)
		e := &eqFunc{Fn: fn, T: n}
		for _, f := range exportedLeaves(st) {
			if (ra[f] || ra["*"]) && (rb[f] || rb["*"]) {
				continue
			}
			e.Missing = append(e.Missing, f)
		}
		sort.Strings(e.Missing)
		out = append(out, e)
	}
	return out
}

func init() {
	dumpers["eqfuncs"] = func(p *Prog, m *Model) {
		for _, e := range eqFuncs(p, map[string]bool{"panos": true, "nsx": true, "linux": true, "cisco": true}) {
			fmt.Printf("%s\t%s\t%v\n", fnDisplay(e.Fn), typeShort(e.T), e.Missing)
		}
	}
}

func ruleComparatorsComplete(p *Prog, r *Report, pkgs map[string]bool, floor int) {
	r.rule("R-EQ", "Comparators are field-complete: every bool function of this property's packages that compares two values of one module struct type (two parameters of that type, or the two elements a Myers pair's Equal(ai, bi) loads) reads every exported field of the type (embedded structs flattened) on both operands — likewise a function that projects such a value onto a comparison key (a struct literal filled from three or more of its fields) —, or the field is listed with its reason in tables/eq_fields.tsv. A field added to a parsed type but not to its comparator makes a difference in that field invisible: 'no change' is reported for a device that differs.")
	ex := map[string]bool{}
	for _, row := range readTable("eq_fields.tsv", 3) {
		ex[row[0]+"|"+row[1]] = true
	}
	n := 0
	for _, e := range eqFuncs(p, pkgs) {
		n++
		name := fnDisplay(e.Fn)
		var bad []string
		for _, f := range e.Missing {
			if !ex[name+"|"+f] {
				bad = append(bad, f)
			}
		}
		r.add("R-EQ", "comparator|"+name+"|"+typeShort(e.T), p.pos(e.Fn.Pos()), "comparator of "+typeShort(e.T)+" looks at every exported field (or the field is exempt with a reason)", len(bad) == 0,
			fmt.Sprintf("field(s) %v of %s are not compared: two values that differ only there are treated as equal", bad, typeShort(e.T)))
	}
	// projections onto comparable keys (zero today: reported when one appears)
	for _, e := range keyBuilders(p, pkgs) {
		n++
		name := fnDisplay(e.Fn)
		var bad []string
		for _, f := range e.Missing {
			if !ex[name+"|"+f] {
				bad = append(bad, f)
			}
		}
		r.add("R-EQ", "key-builder|"+name+"|"+typeShort(e.T), p.pos(e.Fn.Pos()), "the comparison key built from "+typeShort(e.T)+" takes every exported field into account (or the field is exempt with a reason)", len(bad) == 0,
			fmt.Sprintf("field(s) %v of %s do not enter the key: two values that differ only there are treated as equal", bad, typeShort(e.T)))
	}
	r.floor("R-EQ", "comparator functions", n, floor)
}

// keyBuilders: functions that project a module struct value onto a comparable
// key: a struct literal of a module-local type K at least three of whose
// fields are filled from fields of one value v of module struct type T.  The
// projection stands in for a comparator, so it has to read every exported
// field of T as well.
func keyBuilders(p *Prog, pkgs map[string]bool) []*eqFunc {
	var out []*eqFunc
	for _, fn := range allModFuncs(p) {
		if fn.Synthetic != "" || !pkgs[pkgOfFunc(fn)] {
			continue
		}
		for _, b := range fn.Blocks {
			for _, in := range b.Instrs {
				al, ok := in.(*ssa.Alloc)
				if !ok {
					continue
				}
				kn, kst := structOf(al.Type().Underlying().(*types.Pointer).Elem())
				if kn == nil || kn.Obj().Pkg() == nil || !strings.HasPrefix(kn.Obj().Pkg().Path(), modPath) {
					continue
				}
				_ = kst
				// values stored into fields of the literal
				srcCount := map[ssa.Value]int{}
				for _, ref := range *al.Referrers() {
					fa, ok := ref.(*ssa.FieldAddr)
					if !ok {
						continue
					}
					for _, r2 := range *fa.Referrers() {
						st, ok := r2.(*ssa.Store)
						if !ok || st.Addr != ssa.Value(fa) {
							continue
						}
						// base struct values the stored value is loaded from
						seen := map[ssa.Value]bool{}
						var bases func(v ssa.Value, d int)
						bases = func(v ssa.Value, d int) {
							if d > 5 || seen[v] {
								return
							}
							seen[v] = true
							switch x := v.(type) {
							case *ssa.UnOp:
								if fa2, ok := x.X.(*ssa.FieldAddr); ok {
									if n, _ := structOf(fa2.X.Type()); n != nil && n != kn {
										srcCount[fa2.X]++
										return
									}
								}
								bases(x.X, d+1)
							case *ssa.Call:
								for _, a := range x.Common().Args {
									bases(a, d+1)
								}
							case *ssa.Convert:
								bases(x.X, d+1)
							case *ssa.IndexAddr:
								bases(x.X, d+1)
							case *ssa.Slice:
								bases(x.X, d+1)
							}
						}
						bases(st.Val, 0)
					}
				}
				for base, cnt := range srcCount {
					if cnt < 3 {
						continue
					}
					n, st := structOf(base.Type())
					if n == nil || n.Obj().Pkg() == nil || !strings.HasPrefix(n.Obj().Pkg().Path(), modPath) {
						continue
					}
					rd := fieldsReadFrom(base, st)
					e := &eqFunc{Fn: fn, T: n}
					for _, f := range exportedLeaves(st) {
						if !rd[f] && !rd["*"] {
							e.Missing = append(e.Missing, f)
						}
					}
					sort.Strings(e.Missing)
					out = append(out, e)
				}
			}
		}
	}
	return out
}

// ruleMapComparisonSymmetric: R-EQm.  A loop that walks the keys of map A and
// looks the key up in map B of the same type without the comma-ok form treats
// a key missing in B like a key with the zero value; the comparison is only
// sound behind a check that both maps have the same key set.
func ruleMapComparisonSymmetric(p *Prog, r *Report, pkgs map[string]bool, floor int) {
	r.rule("R-EQm", "Map comparisons are symmetric: wherever a function of this property's packages looks up, without comma-ok, a key taken from the keys of map A in another map B of the same type, a call of the key-set helper checkExtra on exactly A and B dominates the lookup and its result decides over a return; checkExtra itself applies its one-directional closure in both argument orders. (Otherwise an option that exists on one side only, or whose value is empty, goes unnoticed: 'no change' for a device that differs.)")
	n := 0
	for _, fn := range allModFuncs(p) {
		if fn.Synthetic != "" || !pkgs[pkgOfFunc(fn)] {
			continue
		}
		for _, b := range fn.Blocks {
			for _, in := range b.Instrs {
				lk, ok := in.(*ssa.Lookup)
				if !ok || lk.CommaOk {
					continue
				}
				mt, isMap := lk.X.Type().Underlying().(*types.Map)
				if !isMap {
					continue
				}
				// the key comes from the keys of another map of the same type
				var other ssa.Value
				for _, rt := range keyOrigins(lk.Index) {
					if !types.Identical(rt.Type().Underlying(), mt) || sameSlice(rt, lk.X) {
						continue
					}
					other = rt
				}
				if other == nil {
					continue
				}
				// a missing key is handled explicitly when the (nillable) result is tested for nil
				nilTested := false
				for _, ref := range *lk.Referrers() {
					if bo, ok := ref.(*ssa.BinOp); ok && (isNilConst(bo.X) || isNilConst(bo.Y)) {
						nilTested = true
					}
				}
				if nilTested {
					continue
				}
				n++
				okDom := false
				for _, cs := range callsOf(fn) {
					name := cs.calleeName()
					if i := strings.Index(name, "["); i >= 0 {
						name = name[:i]
					}
					if !strings.HasSuffix(name, ".checkExtra") || cs.In.Value() == nil || !idom(cs.In, lk) {
						continue
					}
					args := cs.In.Common().Args
					if len(args) != 2 {
						continue
					}
					if !(sameSlice(args[0], other) && sameSlice(args[1], lk.X) || sameSlice(args[1], other) && sameSlice(args[0], lk.X)) {
						continue
					}
					// result decides over a return
					t := taintFrom(fn, []ssa.Value{cs.In.Value()})
					for _, bb := range fn.Blocks {
						if i := ifOf(bb); i != nil && t[i.Cond] {
							for k := range bb.Succs {
								if _, isRet := bb.Succs[k].Instrs[len(bb.Succs[k].Instrs)-1].(*ssa.Return); isRet {
									okDom = true
								}
							}
						}
					}
				}
				r.add("R-EQm", "symmetric-lookup|"+fnDisplay(fn)+"|"+descValue(lk.X, 0), p.ipos(lk), "lookup of a key of one map in the other map is preceded by the key-set check of exactly these two maps", okDom,
					"keys that exist on one side only (or carry an empty value) are not noticed: the two maps compare equal although they differ")
			}
		}
	}
	if floor > 0 {
		r.floor("R-EQm", "cross lookups between two maps of one type", n, floor)
	} else {
		// the shape may legitimately disappear (comma-ok lookups need no key-set check)
		r.note("R-EQm: %d cross lookups without comma-ok between two maps of one type", n)
	}
	// checkExtra applies its closure in both orders
	for _, fn := range allModFuncs(p) {
		base := shortName(fn)
		if i := strings.Index(base, "["); i >= 0 {
			base = base[:i]
		}
		if !pkgs[pkgOfFunc(fn)] || !strings.HasSuffix(base, ".checkExtra") || fn.Parent() != nil || len(fn.Params) != 2 {
			continue
		}
		ab, ba := false, false
		for _, cs := range callsOf(fn) {
			args := cs.In.Common().Args
			if len(args) == 2 {
				if args[0] == ssa.Value(fn.Params[0]) && args[1] == ssa.Value(fn.Params[1]) {
					ab = true
				}
				if args[0] == ssa.Value(fn.Params[1]) && args[1] == ssa.Value(fn.Params[0]) {
					ba = true
				}
			}
		}
		r.add("R-EQm", "checkExtra-both-directions|"+base, p.pos(fn.Pos()), "checkExtra looks for extra keys in both directions", ab && ba, "the key-set check is one-directional")
		break // instantiations share the body
	}
}

// keyOrigins: maps whose key set a value is drawn from: range over the map,
// or range over slices.Sorted(maps.Keys(m)) / maps.Keys(m).
func keyOrigins(v ssa.Value) []ssa.Value {
	var out []ssa.Value
	seen := map[ssa.Value]bool{}
	var walk func(x ssa.Value, d int)
	walk = func(x ssa.Value, d int) {
		if x == nil || seen[x] || d > 8 {
			return
		}
		seen[x] = true
		switch y := x.(type) {
		case *ssa.Extract:
			walk(y.Tuple, d+1)
		case *ssa.Next:
			walk(y.Iter, d+1)
		case *ssa.Range:
			if _, ok := y.X.Type().Underlying().(*types.Map); ok {
				out = append(out, y.X)
			}
		case *ssa.UnOp:
			walk(y.X, d+1)
		case *ssa.IndexAddr:
			walk(y.X, d+1)
		case *ssa.Index:
			walk(y.X, d+1)
		case *ssa.Phi:
			for _, e := range y.Edges {
				walk(e, d+1)
			}
		case *ssa.Call:
			name := ""
			if f := y.Common().StaticCallee(); f != nil {
				name = shortName(f)
				if i := strings.Index(name, "["); i >= 0 {
					name = name[:i]
				}
			}
			switch name {
			case "slices.Sorted", "slices.Collect", "maps.Keys":
				for _, a := range y.Common().Args {
					if _, ok := a.Type().Underlying().(*types.Map); ok {
						out = append(out, a)
					} else {
						walk(a, d+1)
					}
				}
			}
		}
	}
	walk(v, 0)
	return out
}

// ruleComparatorsPure: R-EQp.  Comparators only look: they neither modify
// their operands nor any other non-local state.
func ruleComparatorsPure(p *Prog, r *Report, pkgs map[string]bool, sm *summarizer, extra []string) {
	r.rule("R-EQp", "Comparators are pure: the functions that decide whether two values are equal (the Equal methods of the Myers pairs, the *Eq helpers, and the whole-configuration comparators named for this property) write no memory reachable from their parameters, receivers, captured variables or globals. A comparator that removes or rewrites part of an operand before comparing it ('ignore unused tables') changes what 'equal' means and what later phases see.")
	var fns []*ssa.Function
	for _, e := range eqFuncs(p, pkgs) {
		if !strings.Contains(strings.ToLower(fnDisplay(e.Fn)), "equaliz") {
			fns = append(fns, e.Fn)
		}
	}
	for _, fn := range allModFuncs(p) {
		if !pkgs[pkgOfFunc(fn)] || fn.Synthetic != "" {
			continue
		}
		base := shortName(fn)
		if i := strings.Index(base, "["); i >= 0 {
			base = base[:i]
		}
		for _, x := range extra {
			if base == x {
				fns = append(fns, fn)
			}
		}
	}
	seen := map[string]bool{}
	n := 0
	for _, fn := range fns {
		name := fnDisplay(fn)
		if i := strings.Index(name, "["); i >= 0 {
			name = name[:i]
		}
		if seen[name] {
			continue
		}
		seen[name] = true
		n++
		sum := sm.sums[fn]
		var w []string
		if sum != nil {
			for rt := range sum.Writes {
				w = append(w, rt.String())
			}
		}
		sort.Strings(w)
		r.add("R-EQp", "pure-comparator|"+name, p.pos(fn.Pos()), "the comparator writes no non-local memory", len(w) == 0,
			"the comparator modifies "+strings.Join(w, ", ")+": its operands are no longer what was loaded / what later phases expect")
	}
	r.floor("R-EQp", "comparators examined", n, 1)
}

// ---- R-EQs: comparators treat their two operands alike

// symmetrySig: what the function tests, stores and returns, with the two operands
// labelled la / lb.
func symmetrySig(fn *ssa.Function, pa, pb *ssa.Parameter, la, lb string) []string {
	descParamLabel = map[*ssa.Parameter]string{pa: la, pb: lb}
	descSwapSides = la == "B"
	defer func() { descParamLabel = nil; descSwapSides = false }()
	var out []string
	// a loop over one operand says nothing when the lengths are compared as well
	lenCompared := false
	for _, b := range fn.Blocks {
		if i := ifOf(b); i != nil {
			if bo, ok := i.Cond.(*ssa.BinOp); ok && (bo.Op == token.EQL || bo.Op == token.NEQ) && isLenCall(bo.X) && isLenCall(bo.Y) {
				lenCompared = true
			}
		}
	}
	for _, b := range fn.Blocks {
		if i := ifOf(b); i != nil && !(isLoopCond(b) && lenCompared) {
			// one spelling per test, whichever way it is written
			t, f := descCond(i.Cond, true), descCond(i.Cond, false)
			if f < t {
				t = f
			}
			out = append(out, "if "+t)
		}
		for _, in := range b.Instrs {
			switch x := in.(type) {
			case *ssa.MapUpdate:
				out = append(out, "set "+descValue(x.Map, 0)+"["+descValue(x.Key, 0)+"] = "+descValue(x.Value, 0))
			case *ssa.Return:
				for _, rv := range x.Results {
					if _, isBin := rv.(*ssa.BinOp); isBin {
						out = append(out, "return "+descCond(rv, true))
					} else {
						out = append(out, "return "+descValue(rv, 0))
					}
				}
			case *ssa.Call:
				if _, isB := x.Common().Value.(*ssa.Builtin); isB {
					continue
				}
				if x.Referrers() == nil || len(*x.Referrers()) == 0 {
					out = append(out, "call "+descCall(x, 0))
				}
			}
		}
	}
	sort.Strings(out)
	return out
}

type symCand struct {
	Fn     *ssa.Function
	A, B   *ssa.Parameter
	Sym    bool
	Detail string
}

// comparatorCandidates: functions with a single bool result and exactly two parameters of one
// (non-bool, non-int) type, that write nothing outside their locals.
func comparatorCandidates(p *Prog, pkgs map[string]bool, sm *summarizer) []symCand {
	// two rounds: calls of predicates found symmetric in the first are order-free in the second
	descSymCallees = nil
	defer func() { descSymCallees = nil }()
	var res []symCand
	for round := 0; round < 6; round++ {
		res = comparatorCandidates1(p, pkgs)
		next := map[*ssa.Function]bool{}
		for _, c := range res {
			if c.Sym {
				next[c.Fn] = true
			}
		}
		if len(next) == len(descSymCallees) {
			break
		}
		descSymCallees = next
	}
	return res
}

func comparatorCandidates1(p *Prog, pkgs map[string]bool) []symCand {
	var out []symCand
	for _, fn := range allModFuncs(p) {
		if !pkgs[pkgOfFunc(fn)] || fn.Synthetic != "" || len(fn.Blocks) == 0 {
			continue
		}
		res := fn.Signature.Results()
		if res.Len() != 1 {
			continue
		}
		if b, ok := res.At(0).Type().Underlying().(*types.Basic); !ok || b.Kind() != types.Bool {
			continue
		}
		params := fn.Params
		if fn.Signature.Recv() != nil {
			params = params[1:]
		}
		if len(params) != 2 || !types.Identical(params[0].Type(), params[1].Type()) {
			continue
		}
		if b, ok := params[0].Type().Underlying().(*types.Basic); ok && b.Info()&(types.IsBoolean|types.IsNumeric) != 0 {
			continue
		}
		s1 := symmetrySig(fn, params[0], params[1], "A", "B")
		s2 := symmetrySig(fn, params[0], params[1], "B", "A")
		sym := len(s1) == len(s2)
		detail := ""
		if sym {
			for i := range s1 {
				if s1[i] != s2[i] {
					sym = false
				}
			}
		}
		if !sym {
			in2 := map[string]int{}
			for _, x := range s2 {
				in2[x]++
			}
			for _, x := range s1 {
				if in2[x] > 0 {
					in2[x]--
				} else {
					detail += "\n   only one way round: " + x
				}
			}
		}
		out = append(out, symCand{fn, params[0], params[1], sym, detail})
	}
	return out
}

func ruleComparatorsSymmetric(p *Prog, r *Report, pkgs map[string]bool, floor int) {
	r.rule("R-EQs", "Equality predicates treat their two operands alike: for every function in the planner packages with one bool result and exactly two parameters of one type (string, slice, pointer or struct), the tests, map stores and returned values described with the operands labelled A/B are the same multiset when the labels are swapped (symmetric operators in one spelling). A predicate that tests `every element of a is in b` without the converse reports a subset as equal. Orderings (less functions) and the directed pairing helpers are listed in tables/asym_audit.tsv with the reason.")
	audited := map[string]string{}
	for _, row := range readTable("asym_audit.tsv", 2) {
		audited[row[0]] = row[1]
	}
	n := 0
	for _, c := range comparatorCandidates(p, pkgs, nil) {
		n++
		name := fnDisplay(c.Fn)
		if why, ok := audited[name]; ok {
			r.add("R-EQs", "symmetric|"+name, p.pos(c.Fn.Pos()), name+" is a directed predicate by design: "+why, !c.Sym,
				"listed as directed in tables/asym_audit.tsv but it treats both operands alike now: remove the row")
			continue
		}
		r.add("R-EQs", "symmetric|"+name, p.pos(c.Fn.Pos()), name+" treats its two operands alike", c.Sym,
			"the predicate is not symmetric in its operands: a device value and a target value that differ can be reported equal in one direction"+c.Detail)
	}
	r.floor("R-EQs", "two-operand predicates examined", n, floor)
	ruleComparatorsRaw(p, r, pkgs)
}

func init() {
	dumpers["symcands"] = func(p *Prog, m *Model) {
		pk := map[string]bool{}
		for _, s := range strings.Split(os.Getenv("PKG"), ",") {
			pk[s] = true
		}
		for _, c := range comparatorCandidates(p, pk, nil) {
			fmt.Printf("%s\t%v\t%s\n", fnDisplay(c.Fn), c.Sym, strings.ReplaceAll(c.Detail, "\n", " ;; "))
		}
	}
}

// ---- R-EQn: equality predicates compare the values themselves

// normalisedCompares: comparisons (== / !=) inside a two-operand predicate one of whose operands
// is the result of a call that takes a string (a normaliser: TrimSuffix, ToLower, a module helper).
func normalisedCompares(p *Prog, fn *ssa.Function) []string {
	var out []string
	for _, b := range fn.Blocks {
		for _, in := range b.Instrs {
			bo, ok := in.(*ssa.BinOp)
			if !ok || (bo.Op != token.EQL && bo.Op != token.NEQ) {
				continue
			}
			for _, op := range []ssa.Value{bo.X, bo.Y} {
				v := op
				if ex, ok := v.(*ssa.Extract); ok {
					v = ex.Tuple
				}
				c, ok := v.(*ssa.Call)
				if !ok || !isStringType(op.Type()) {
					continue
				}
				if _, isB := c.Common().Value.(*ssa.Builtin); isB {
					continue
				}
				takesString := false
				for _, a := range c.Common().Args {
					if isStringType(a.Type()) {
						takesString = true
					}
				}
				if takesString {
					out = append(out, descCall(c, 1))
				}
			}
		}
	}
	sort.Strings(out)
	return out
}

func ruleComparatorsRaw(p *Prog, r *Report, pkgs map[string]bool) {
	r.rule("R-EQn", "Equality predicates compare the values themselves: inside a two-operand predicate of the planner packages no == / != has an operand that is the result of a call taking a string (strings.TrimSuffix, ToLower, a module helper): a normalisation inside the comparator equates spellings that the device treats as different objects (a /32 cut from an IPv6 network). Normalisation belongs to the parser, where it is audited (R05.n, R01.n); exceptions are rows of tables/eq_norm_audit.tsv.")
	audited := map[string]bool{}
	for _, row := range readTable("eq_norm_audit.tsv", 3) {
		audited[row[0]+"|"+row[1]] = true
	}
	n := 0
	for _, c := range comparatorCandidates(p, pkgs, nil) {
		n++
		var bad []string
		for _, d := range normalisedCompares(p, c.Fn) {
			if !audited[fnDisplay(c.Fn)+"|"+d] {
				bad = append(bad, d)
			}
		}
		r.add("R-EQn", "raw-compare|"+fnDisplay(c.Fn), p.pos(c.Fn.Pos()), fnDisplay(c.Fn)+" compares its operands' values, not normalised copies", len(bad) == 0,
			"compares the results of "+strings.Join(bad, ", ")+": two values that differ in that spelling are reported equal")
	}
	r.floor("R-EQn", "two-operand predicates examined", n, 1)
}
