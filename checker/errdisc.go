package main

// E6: repository-specific error discipline.

import (
	"go/types"
	"sort"

	"golang.org/x/tools/go/ssa"
)

type droppedErr struct {
	Site *callSite
	How  string // "result unused" | "error result blank"
}

func errorResultIndex(sig *types.Signature) int {
	res := sig.Results()
	for i := res.Len() - 1; i >= 0; i-- {
		if types.TypeString(res.At(i).Type(), nil) == "error" {
			return i
		}
	}
	return -1
}

func hasRealReferrer(v ssa.Value) bool {
	if v.Referrers() == nil {
		return false
	}
	for _, ref := range *v.Referrers() {
		if _, ok := ref.(*ssa.DebugRef); ok {
			continue
		}
		return true
	}
	return false
}

// droppedErrors lists every call in production code whose error result is
// never looked at.
func droppedErrors(p *Prog) []droppedErr {
	var out []droppedErr
	for _, fn := range allModFuncs(p) {
		for _, cs := range callsOf(fn) {
			sig := cs.In.Common().Signature()
			if sig == nil {
				continue
			}
			if _, isBuiltin := cs.In.Common().Value.(*ssa.Builtin); isBuiltin {
				continue
			}
			ei := errorResultIndex(sig)
			if ei < 0 {
				continue
			}
			v := cs.In.Value()
			if v == nil {
				// defer / go: result discarded
				out = append(out, droppedErr{cs, "deferred: result discarded"})
				continue
			}
			if sig.Results().Len() == 1 {
				if !hasRealReferrer(v) {
					out = append(out, droppedErr{cs, "result unused"})
				}
				continue
			}
			found := false
			for _, ref := range *v.Referrers() {
				if ex, ok := ref.(*ssa.Extract); ok && ex.Index == ei {
					if hasRealReferrer(ex) {
						found = true
					}
				}
			}
			if !found {
				out = append(out, droppedErr{cs, "error result blank"})
			}
		}
	}
	sort.Slice(out, func(i, j int) bool {
		a, b := out[i], out[j]
		if shortName(a.Site.Fn) != shortName(b.Site.Fn) {
			return shortName(a.Site.Fn) < shortName(b.Site.Fn)
		}
		return a.Site.In.Pos() < b.Site.In.Pos()
	})
	return out
}
