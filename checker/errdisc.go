package main

// E6: repository-specific error discipline.

import (
	"go/types"
	"sort"

	"golang.org/x/tools/go/ssa"
)

type droppedErr struct {
	Site *callSite
	How  string // "result unused" | "error result blank"
}

func errorResultIndex(sig *types.Signature) int {
	res := sig.Results()
	for i := res.Len() - 1; i >= 0; i-- {
		if types.TypeString(res.At(i).Type(), nil) == "error" {
			return i
		}
	}
	return -1
}

func hasRealReferrer(v ssa.Value) bool {
	if v.Referrers() == nil {
		return false
	}
	for _, ref := range *v.Referrers() {
		if _, ok := ref.(*ssa.DebugRef); ok {
			continue
		}
		return true
	}
	return false
}

// droppedErrors lists every call in production code whose error result is
// never looked at.
func droppedErrors(p *Prog) []droppedErr {
	var out []droppedErr
	for _, fn := range allModFuncs(p) {
		for _, cs := range callsOf(fn) {
			sig := cs.In.Common().Signature()
			if sig == nil {
				continue
			}
			if _, isBuiltin := cs.In.Common().Value.(*ssa.Builtin); isBuiltin {
				continue
			}
			ei := errorResultIndex(sig)
			if ei < 0 {
				continue
			}
			v := cs.In.Value()
			if v == nil {
				// defer / go: result discarded
				out = append(out, droppedErr{cs, "deferred: result discarded"})
				continue
			}
			if sig.Results().Len() == 1 {
				if !hasRealReferrer(v) {
					out = append(out, droppedErr{cs, "result unused"})
				}
				continue
			}
			found := false
			for _, ref := range *v.Referrers() {
				if ex, ok := ref.(*ssa.Extract); ok && ex.Index == ei {
					if hasRealReferrer(ex) {
						found = true
					}
				}
			}
			if !found {
				out = append(out, droppedErr{cs, "error result blank"})
			}
		}
	}
	sort.Slice(out, func(i, j int) bool {
		a, b := out[i], out[j]
		if shortName(a.Site.Fn) != shortName(b.Site.Fn) {
			return shortName(a.Site.Fn) < shortName(b.Site.Fn)
		}
		return a.Site.In.Pos() < b.Site.In.Pos()
	})
	return out
}

// ruleScannerErr: a bufio.Scanner stops silently at the first token longer than its buffer
// (64 KB by default) or at a read error; only Err() tells.  A Scan loop whose scanner is never
// asked for Err() treats a truncated input as complete.
func ruleScannerErr(p *Prog, r *Report, rule string, pkgs map[string]bool) {
	r.rule(rule, "Truncated input is not taken for complete: every function that calls (*bufio.Scanner).Scan also calls Err on the same scanner and uses the result (bufio.Scanner ends silently at a line longer than 64 KB or at a read error). The tree has no Scanner today; the rule keeps a line-by-line rewrite of a whole-file read from dropping the rest of the file unnoticed.")
	n := 0
	for _, fn := range allModFuncs(p) {
		if pkgs != nil && !pkgs[pkgOfFunc(fn)] {
			continue
		}
		scans := map[ssa.Value]ssa.Instruction{}
		errs := map[ssa.Value]bool{}
		for _, cs := range callsOf(fn) {
			switch cs.calleeName() {
			case "(*bufio.Scanner).Scan":
				scans[cs.In.Common().Args[0]] = cs.In
			case "(*bufio.Scanner).Err":
				if v := cs.In.Value(); v != nil && v.Referrers() != nil && len(*v.Referrers()) > 0 {
					errs[cs.In.Common().Args[0]] = true
				}
			}
		}
		for sc, in := range scans {
			n++
			r.add(rule, "scanner-err|"+fnDisplay(fn), p.ipos(in), "the scanner read in "+fnDisplay(fn)+" is asked for its error", errs[sc],
				"the Scan loop ends silently at an over-long line or a read error; the rest of the input is never looked at")
		}
	}
	r.note("%s: %d Scan loops examined", rule, n)
}
