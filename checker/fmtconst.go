package main

// R-FMT: format strings are constants.
//
// A text that is data (a rule of the target, an answer of the device) handed to a
// printf-like function as its format is rewritten wherever it contains `%`:
// `100% of traffic` becomes `100%!o(MISSING)f traffic`.  The start-up file written to a
// Linux device, a command sent to a device or a line of a log is then not the text that
// was computed.  Every call of a printf-like function (variadic ...any behind a string
// parameter: fmt.*printf, fmt.Errorf, the errlog functions, the front-ends' abort / warn)
// has a constant format, or passes on the format parameter of a function that is
// printf-like itself.

import (
	"fmt"
	"go/token"
	"go/types"

	"golang.org/x/tools/go/ssa"
)

// formatParamIndex: fn is printf-like: (..., format string, args ...any); returns the index
// of the format parameter in the signature (receiver not counted), or -1.
func formatParamIndex(sig *types.Signature) int {
	if sig == nil || !sig.Variadic() || sig.Params().Len() < 2 {
		return -1
	}
	n := sig.Params().Len()
	last, ok := sig.Params().At(n - 1).Type().(*types.Slice)
	if !ok {
		return -1
	}
	if it, ok := last.Elem().Underlying().(*types.Interface); !ok || it.NumMethods() != 0 {
		return -1
	}
	if b, ok := sig.Params().At(n - 2).Type().Underlying().(*types.Basic); !ok || b.Kind() != types.String {
		return -1
	}
	return n - 2
}

func ruleConstantFormats(p *Prog, r *Report, rule string) {
	r.rule(rule, "Format strings are constants: every call of a printing primitive of package fmt with a format (Fprintf, Sprintf, Printf, Errorf, Appendf) in production code has a constant format argument, or one built from constants and the format parameter of the enclosing function when that is printf-like itself (errlog.Info adds a newline to its format). Data used as a format (a rule of the target written to the start-up file, an answer of the device) is rewritten wherever it contains `%`.")
	n := 0
	for _, fn := range allModFuncs(p) {
		for _, cs := range callsOf(fn) {
			com := cs.In.Common()
			sig := com.Signature()
			idx := formatParamIndex(sig)
			if idx < 0 {
				continue
			}
			name := cs.calleeName()
			// the printing primitives themselves; what a message function of the module is handed is
			// judged where that function calls the primitive (a garbled warning text is not the
			// concern here, a garbled file or command is)
			if cs.Static == nil || cs.Static.Pkg == nil || cs.Static.Pkg.Pkg.Path() != "fmt" {
				continue
			}
			// Print / Println style functions take ...any only; Sprint(a ...any) has no string parameter in front
			args := com.Args
			if !com.IsInvoke() && sig.Recv() != nil {
				args = args[1:]
			}
			if idx >= len(args) {
				continue
			}
			// fmt.Fprint(w, a ...any): the parameter in front of ...any is not a string -> idx < 0 above
			n++
			a := args[idx]
			how := "constant"
			var fmtPar *ssa.Parameter
			if fi := formatParamIndex(fn.Signature); fi >= 0 {
				off := 0
				if fn.Signature.Recv() != nil {
					off = 1
				}
				if fi+off < len(fn.Params) {
					fmtPar = fn.Params[fi+off]
				}
			}
			// constants, the forwarded format parameter of a printf-like function, and concatenations of those
			var constish func(v ssa.Value, d int) bool
			constish = func(v ssa.Value, d int) bool {
				if d > 6 {
					return false
				}
				switch x := v.(type) {
				case *ssa.Const:
					return true
				case *ssa.Parameter:
					if fmtPar != nil && x == fmtPar {
						how = "built from constants and the format parameter of " + shortName(fn)
						return true
					}
				case *ssa.BinOp:
					return x.Op == token.ADD && constish(x.X, d+1) && constish(x.Y, d+1)
				}
				return false
			}
			ok := constish(a, 0)
			if ok {
				continue // counted, not listed: several hundred sites
			}
			r.add(rule, fmt.Sprintf("format|%s|%s", fnDisplay(fn), name), p.ipos(cs.In), "format argument of "+name+" is "+how, false,
				"the format argument is computed ("+descValue(a, 0)+"): a `%` in the data is taken for a verb and the text that is written, sent or logged is not the text that was computed")
		}
	}
	r.ok(rule, "formats-constant", "", fmt.Sprintf("%d calls of printf-like functions examined", n))
	r.floor(rule, "calls of printf-like functions", n, 100)
}
