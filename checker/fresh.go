package main

// R08.f: numbers handed out from a running counter are handed out once.
// An integer that lives across the iterations of a loop (a cell allocated outside
// the loop, or a phi at the loop header) and whose value is stored into an object
// field inside the loop is a counter handing out identifiers (sequence numbers).
// Before the loop comes round again the counter must have moved past the value
// it handed out; otherwise two objects get the same number.

import (
	"go/types"
	"fmt"
	"go/token"
	"strings"

	"golang.org/x/tools/go/ssa"
)

// loopsOf: header -> body of every natural loop of fn.
func loopsOf(fn *ssa.Function) map[*ssa.BasicBlock]map[*ssa.BasicBlock]bool {
	out := map[*ssa.BasicBlock]map[*ssa.BasicBlock]bool{}
	for _, b := range fn.Blocks {
		if body := naturalLoopBody(b); body != nil {
			out[b] = body
		}
	}
	return out
}

// cellsOf: the allocs an address value can denote (through phis).
func cellsOf(a ssa.Value, seen map[ssa.Value]bool) []*ssa.Alloc {
	if seen[a] {
		return nil
	}
	seen[a] = true
	switch x := a.(type) {
	case *ssa.Alloc:
		return []*ssa.Alloc{x}
	case *ssa.Phi:
		var out []*ssa.Alloc
		for _, e := range x.Edges {
			out = append(out, cellsOf(e, seen)...)
		}
		return out
	}
	return nil
}

type freshSite struct {
	Fn     *ssa.Function
	Store  *ssa.Store
	Field  string
	Form   string
	Ok     bool
	Detail string
}

func freshCounterSites(p *Prog, fn *ssa.Function) []freshSite {
	var out []freshSite
	loops := loopsOf(fn)
	if len(loops) == 0 {
		return nil
	}
	for _, b := range fn.Blocks {
		for _, in := range b.Instrs {
			st, ok := in.(*ssa.Store)
			if !ok {
				continue
			}
			if !isIntType(st.Val.Type()) {
				continue
			}
			target := ""
			switch a := st.Addr.(type) {
			case *ssa.FieldAddr:
				target = fieldName(a)
			case *ssa.IndexAddr:
				// an element of a slice of numbers (block ids per line)
				if _, isAlloc := a.X.(*ssa.Alloc); isAlloc {
					continue // a local array literal
				}
				target = "elem:" + typeShort(a.X.Type())
			default:
				continue
			}
			// alternatives of the handed-out value: per predecessor when it is a phi of this block or a dominating join
			type alt struct {
				pred *ssa.BasicBlock
				v    ssa.Value
			}
			alts := []alt{{nil, st.Val}}
			if ph, ok := st.Val.(*ssa.Phi); ok {
				alts = nil
				for i, e := range ph.Edges {
					alts = append(alts, alt{ph.Block().Preds[i], e})
				}
			}
			for _, a := range alts {
				// form B: a load from a cell that lives outside a loop around the store
				if ld, ok := a.v.(*ssa.UnOp); ok && ld.Op == token.MUL {
					cells := cellsOf(ld.X, map[ssa.Value]bool{})
					if len(cells) == 0 {
						continue
					}
					for h, body := range loops {
						if !body[b] {
							continue
						}
						outside := true
						for _, c := range cells {
							if body[c.Block()] {
								outside = false
							}
						}
						if !outside {
							continue
						}
						// is the cell written at all inside this loop?  (otherwise it is a constant, not a counter)
						isUpdate := func(x ssa.Instruction) bool {
							s2, ok := x.(*ssa.Store)
							if !ok || s2 == st {
								return false
							}
							same := s2.Addr == ld.X
							if !same {
								if al, ok := s2.Addr.(*ssa.Alloc); ok && len(cells) == 1 && cells[0] == al {
									same = true
								}
							}
							if !same {
								return false
							}
							// derived from a load of the same address by arithmetic
							bo, ok := s2.Val.(*ssa.BinOp)
							if !ok || (bo.Op != token.ADD && bo.Op != token.SUB) {
								return false
							}
							l2, ok := bo.X.(*ssa.UnOp)
							return ok && l2.Op == token.MUL && (l2.X == ld.X || l2.X == s2.Addr)
						}
						written := false
						for bb := range body {
							for _, x := range bb.Instrs {
								if isUpdate(x) {
									written = true
								}
							}
						}
						if !written {
							continue
						}
						// every path from the store to the header passes an update
						ok2 := !reachesHeaderAvoiding(st, h, body, isUpdate)
						out = append(out, freshSite{fn, st, target, "cell", ok2,
							"the counter cell is not advanced on some path from the store to the next iteration of the loop at " + p.pos(h.Instrs[0].Pos())})
					}
					continue
				}
				// form A: derives from a header phi
				for h, body := range loops {
					if !body[b] {
						continue
					}
					for _, hi := range h.Instrs {
						H, ok := hi.(*ssa.Phi)
						if !ok {
							break
						}
						if !isIntType(H.Type()) {
							continue
						}
						derives, viaCall := chainFrom(a.v, H, body, map[ssa.Value]bool{})
						if !derives {
							continue
						}
						for i, pr := range h.Preds {
							if !body[pr] {
								continue
							}
							E := H.Edges[i]
							// the value that comes round along the path through a.pred
							for k := 0; k < 4; k++ {
								ep, ok := E.(*ssa.Phi)
								if !ok || a.pred == nil || !body[ep.Block()] {
									break
								}
								found := false
								for j, pp := range ep.Block().Preds {
									if pp == a.pred {
										E = ep.Edges[j]
										found = true
									}
								}
								if !found {
									break
								}
							}
							if ep, isPhi := E.(*ssa.Phi); isPhi && ep != H && body[ep.Block()] {
								continue // an unresolved merge: not judged
							}
							bad := false
							if viaCall {
								// a searched value (first free number): the counter must be past it
								past, _ := chainFrom(E, a.v, body, map[ssa.Value]bool{ssa.Value(H): true})
								bad = E == a.v || !past
							} else {
								bad = E == ssa.Value(H)
							}
							if strings.HasPrefix(target, "elem:") {
								// a label taken from a running counter (block ids): several elements
								// share one value by design; only its being a counter is recorded
								bad = false
							}
							out = append(out, freshSite{fn, st, target, "phi", !bad,
								fmt.Sprintf("the value that reaches the next iteration of the loop at %s (%s) is not past the value handed out (%s)", p.pos(h.Instrs[0].Pos()), descValue(E, 0), descValue(a.v, 0))})
						}
					}
				}
			}
		}
	}
	return out
}

// chainFrom: v is computed from base inside the loop body (not looking through the
// values in stop); viaCall: a call lies on the way (the value was searched, not counted).
func chainFrom(v, base ssa.Value, body map[*ssa.BasicBlock]bool, stop map[ssa.Value]bool) (bool, bool) {
	if v == base {
		return true, false
	}
	if stop[v] {
		return false, false
	}
	stop[v] = true
	in, ok := v.(ssa.Instruction)
	if !ok || !body[in.Block()] {
		return false, false
	}
	derives, viaCall := false, false
	switch x := v.(type) {
	case *ssa.Phi:
		for _, e := range x.Edges {
			d, c := chainFrom(e, base, body, stop)
			derives = derives || d
			viaCall = viaCall || (d && c)
		}
		return derives, viaCall
	case *ssa.Call:
		// a search starting at the counter: an integer argument is the counter (plus/minus something)
		for _, a := range x.Common().Args {
			if !isIntType(a.Type()) {
				continue
			}
			if d, _ := chainFrom(a, base, body, stop); d {
				return true, true
			}
		}
		return false, false
	case *ssa.BinOp:
		if x.Op != token.ADD && x.Op != token.SUB {
			return false, false
		}
		for _, op := range []ssa.Value{x.X, x.Y} {
			d, c := chainFrom(op, base, body, stop)
			derives = derives || d
			viaCall = viaCall || (d && c)
		}
		return derives, viaCall
	case *ssa.Convert:
		return chainFrom(x.X, base, body, stop)
	}
	// anything else (a lookup, an index, a field) is not the counter itself
	return false, false
}

// reachesHeaderAvoiding: from the instruction after `from`, can the loop header be
// reached inside body without executing an instruction satisfying stop?
func reachesHeaderAvoiding(from ssa.Instruction, h *ssa.BasicBlock, body map[*ssa.BasicBlock]bool, stop func(ssa.Instruction) bool) bool {
	seen := map[*ssa.BasicBlock]bool{}
	var walk func(b *ssa.BasicBlock, start int) bool
	walk = func(b *ssa.BasicBlock, start int) bool {
		for _, x := range b.Instrs[start:] {
			if stop(x) {
				return false
			}
		}
		for _, s := range b.Succs {
			if s == h {
				return true
			}
			if !body[s] || seen[s] {
				continue
			}
			seen[s] = true
			if walk(s, 0) {
				return true
			}
		}
		return false
	}
	fb := from.Block()
	idx := 0
	for i, x := range fb.Instrs {
		if x == from {
			idx = i + 1
		}
	}
	return walk(fb, idx)
}

func ruleFreshCounters(p *Prog, r *Report, rule string, pkgs map[string]bool, floor int) {
	r.rule(rule, "Numbers handed out from a running counter are handed out once: an integer that lives across the iterations of a loop (a cell allocated outside the loop and updated in it, also when reached through a pointer; or a phi at the loop header) and whose value is stored into an object field inside the loop must be advanced on every path from that store to the next iteration (cell form: a store of `*c ± k` into the same cell on every path; phi form: the value coming round the back edge, taken along the path of the hand-out, is not the handed-out value or an earlier one). Otherwise two new objects (crypto map entries) get the same sequence number and the second command overwrites the first.")
	n := 0
	found := map[string]bool{}
	for _, fn := range allModFuncs(p) {
		if !pkgs[pkgOfFunc(fn)] || fn.Synthetic != "" {
			continue
		}
		seen := map[string]bool{}
		for _, s := range freshCounterSites(p, fn) {
			n++
			k := fmt.Sprintf("fresh|%s|%s|%s", fnDisplay(fn), s.Field, s.Form)
			found[fmt.Sprintf("fresh|%s|%s", fnDisplay(fn), s.Field)] = true
			if seen[k] && s.Ok {
				continue
			}
			seen[k] = true
			r.add(rule, k, p.ipos(s.Store), "the counter whose value is stored into "+s.Field+" in "+fnDisplay(fn)+" moves on before the loop comes round", s.Ok, s.Detail)
		}
	}
	r.floor(rule, "hand-outs of a running counter", n, floor)
	// two-sided: the audited hand-outs are still hand-outs of a running counter
	byName := fnDisplayIndex(p)
	for _, row := range readTable("fresh_audit.tsv", 4) {
		k := fmt.Sprintf("fresh|%s|%s", row[0], row[1]) // whichever form (cell or phi) the counter has today
		pk := row[0]
		if i := strings.LastIndex(pk, "."); i >= 0 {
			pk = pk[:i]
		}
		pk = strings.Trim(pk, "(*)")
		if i := strings.Index(pk, ")"); i >= 0 {
			pk = pk[:i]
		}
		if i := strings.Index(pk, "."); i >= 0 {
			pk = pk[:i]
		}
		if !pkgs[pk] {
			continue
		}
		pos := ""
		if fn := byName[row[0]]; fn != nil {
			pos = p.pos(fn.Pos())
		}
		r.add(rule, "fresh-kept|"+row[0]+"|"+row[1], pos, "the value stored into "+row[1]+" in "+row[0]+" still comes from a counter that lives across the loop's iterations ("+row[3]+")", found[k],
			"the audited numbering no longer takes its numbers from a running counter: every object numbered in one run gets the same number")
	}
}

// R08.f2: a fresh number is tested against the numbers in use in the pass that hands it out.
// For the audited hand-outs (tables/fresh_used_audit.tsv) the loop that contains the store
// also contains a map lookup whose key is the counter that is stored: `for used[n] != nil { n++ }`
// in front of `x.seq = n`, inside the loop over the new entries.  With the search in front of
// that loop only the first number is tested; the next one can be a number the device uses.
func ruleFreshTestedAgainstUsed(p *Prog, r *Report, rule string) {
	r.rule(rule, "A fresh sequence number is tested against the numbers in use each time one is handed out: for the audited hand-outs (tables/fresh_used_audit.tsv) the innermost loop around the store into the number field contains a map lookup keyed by the counter being stored (`for used[*seq] != nil { *seq += incr }`). A search hoisted in front of the loop tests the first number only; the second new entry can land on a number the device already uses and overwrite that entry.")
	n := 0
	for _, row := range readTable("fresh_used_audit.tsv", 3) {
		fn := p.Fn(row[0])
		if fn == nil {
			r.fail(rule, "anchor|"+row[0], "", "function not found", "")
			continue
		}
		loops := loopsOf(fn)
		found := 0
		okAll := true
		for _, b := range fn.Blocks {
			for _, in := range b.Instrs {
				st, ok := in.(*ssa.Store)
				if !ok {
					continue
				}
				fa, ok := st.Addr.(*ssa.FieldAddr)
				if !ok || fieldName(fa) != row[1] {
					continue
				}
				// innermost loop (by size) that contains the store
				var body map[*ssa.BasicBlock]bool
				for _, bd := range loops {
					if bd[b] && (body == nil || len(bd) < len(body)) {
						body = bd
					}
				}
				if body == nil {
					continue
				}
				// the store's value: a load of a counter cell (possibly through a pointer phi)
				cells := map[ssa.Value]bool{}
				var collect func(v ssa.Value, d int)
				collect = func(v ssa.Value, d int) {
					if v == nil || d > 6 {
						return
					}
					switch x := v.(type) {
					case *ssa.UnOp:
						if x.Op == token.MUL {
							cells[x.X] = true
							if ph, ok := x.X.(*ssa.Phi); ok {
								for _, e := range ph.Edges {
									cells[e] = true
								}
							}
						}
					case *ssa.Phi:
						for _, e := range x.Edges {
							collect(e, d+1)
						}
					case *ssa.BinOp:
						collect(x.X, d+1)
						collect(x.Y, d+1)
					}
				}
				collect(st.Val, 0)
				// or the number comes out of a search helper called in the loop: a function or closure
				// that looks its argument up in a map (`nextFree(seq, incr)`)
				viaHelper := false
				{
					seen := map[ssa.Value]bool{}
					var walk func(v ssa.Value, d int)
					walk = func(v ssa.Value, d int) {
						if v == nil || seen[v] || d > 8 {
							return
						}
						seen[v] = true
						switch x := v.(type) {
						case *ssa.Phi:
							for _, e := range x.Edges {
								walk(e, d+1)
							}
						case *ssa.BinOp:
							walk(x.X, d+1)
							walk(x.Y, d+1)
						case *ssa.Call:
							inLoop := false
							for _, bd := range loops {
								if bd[b] && bd[x.Block()] {
									inLoop = true
								}
							}
							if !inLoop {
								return
							}
							for _, cal := range calleesOfSite(p, &callSite{In: x, Fn: fn, Static: x.Common().StaticCallee()}) {
								if !isModFunc(cal) {
									continue
								}
								for _, g := range treeOf(cal) {
									for _, gb := range g.Blocks {
										for _, gi := range gb.Instrs {
											if lk, ok := gi.(*ssa.Lookup); ok {
												if _, isMap := lk.X.Type().Underlying().(*types.Map); isMap {
													viaHelper = true
												}
											}
										}
									}
								}
							}
						}
					}
					walk(st.Val, 0)
				}
				if len(cells) == 0 && !viaHelper {
					continue
				}
				found++
				tested := viaHelper
				// an enclosing loop of the same hand-out pass counts too: take the innermost loop
				// that contains the store AND a back edge reached after it (the per-entry loop)
				for _, bd := range loops {
					if !bd[b] {
						continue
					}
					for blk := range bd {
						for _, in2 := range blk.Instrs {
							lk, ok := in2.(*ssa.Lookup)
							if !ok {
								continue
							}
							if _, isMap := lk.X.Type().Underlying().(*types.Map); !isMap {
								continue
							}
							if u, ok := lk.Index.(*ssa.UnOp); ok && u.Op == token.MUL && cells[u.X] {
								tested = true
							}
						}
					}
				}
				if !tested {
					okAll = false
				}
			}
		}
		n++
		r.add(rule, "fresh-tested|"+row[0]+"|"+row[1], p.pos(fn.Pos()), fmt.Sprintf("%d hand-out(s) of %s in %s are tested against the numbers in use inside the hand-out loop (%s)", found, row[1], row[0], row[2]), found > 0 && okAll,
			"no lookup of the counter in the map of used numbers inside the loop that hands the numbers out: only the first number is known to be free")
	}
	r.floor(rule, "audited hand-outs tested against used numbers", n, 1)
}
