package main

// Guard sets: the normalised set of conditions that control an instruction
// (every If edge that dominates it), and helpers to address closures by the
// variable they are bound to.  Used by the ordered-phase / protection rules of
// C07, C08, C14, C18.

import (
	"fmt"
	"go/ast"
	"go/token"
	"go/types"
	"sort"
	"strings"

	"golang.org/x/tools/go/ssa"
)

// closureName: the local variable an anonymous function is assigned to
// (`name := func(...)` / `var name func...; name = func...`), or "".
func closureName(fn *ssa.Function) string {
	lit, ok := fn.Syntax().(*ast.FuncLit)
	if !ok || fn.Parent() == nil {
		return ""
	}
	par := fn.Parent().Syntax()
	if par == nil {
		return ""
	}
	name := ""
	ast.Inspect(par, func(n ast.Node) bool {
		switch x := n.(type) {
		case *ast.AssignStmt:
			for i, rhs := range x.Rhs {
				if rhs == ast.Expr(lit) && i < len(x.Lhs) {
					if id, ok := x.Lhs[i].(*ast.Ident); ok {
						name = id.Name
					}
				}
			}
		case *ast.ValueSpec:
			for i, rhs := range x.Values {
				if rhs == ast.Expr(lit) && i < len(x.Names) {
					name = x.Names[i].Name
				}
			}
		}
		return name == ""
	})
	return name
}

// closureByName finds the closure of parent bound to variable name (searching
// nested closures too).
func closureByName(parent *ssa.Function, name string) *ssa.Function {
	for _, a := range parent.AnonFuncs {
		if closureName(a) == name {
			return a
		}
	}
	for _, a := range parent.AnonFuncs {
		if f := closureByName(a, name); f != nil {
			return f
		}
	}
	return nil
}

// calleesOfSite resolves the possible module callees of a call instruction:
// static callee, closures reaching the call through cells, interface methods
// via the call graph.
func calleesOfSite(p *Prog, cs *callSite) []*ssa.Function {
	if cs.Static != nil {
		return []*ssa.Function{cs.Static}
	}
	var out []*ssa.Function
	if !cs.In.Common().IsInvoke() {
		for _, rt := range valueRoots(cs.In.Common().Value) {
			switch x := rt.(type) {
			case *ssa.MakeClosure:
				out = append(out, x.Fn.(*ssa.Function))
			case *ssa.Function:
				out = append(out, x)
			}
		}
	}
	if len(out) == 0 {
		if n := p.CG().Nodes[cs.Fn]; n != nil {
			for _, e := range n.Out {
				if e.Site == cs.In {
					out = append(out, e.Callee.Func)
				}
			}
		}
	}
	return out
}

// callSitesOf: call sites inside `in` (not descending into closures) that may
// call target.
func callSitesOf(p *Prog, in *ssa.Function, target *ssa.Function) []*callSite {
	var out []*callSite
	for _, cs := range callsOf(in) {
		for _, c := range calleesOfSite(p, cs) {
			if c == target {
				out = append(out, cs)
			}
		}
	}
	return out
}

// ---- value description ----

func descValue(v ssa.Value, depth int) string {
	if depth > 4 {
		return typeShort(v.Type())
	}
	switch x := v.(type) {
	case *ssa.Const:
		if x.Value == nil {
			return "nil"
		}
		return x.Value.ExactString()
	case *ssa.Parameter:
		return "param:" + typeDesc(x.Type())
	case *ssa.UnOp:
		if x.Op == token.MUL {
			if fa, ok := x.X.(*ssa.FieldAddr); ok {
				return "field " + fieldPathDesc(fa, 0)
			}
			if g, ok := x.X.(*ssa.Global); ok {
				return "global " + g.Name()
			}
			if ia, ok := x.X.(*ssa.IndexAddr); ok {
				return descValue(ia.X, depth+1) + "[]"
			}
			return "var:" + typeDesc(x.Type())
		}
		if x.Op == token.NOT {
			return "!" + descValue(x.X, depth+1)
		}
	case *ssa.Field:
		return "field#" + fmt.Sprint(x.Field)
	case *ssa.Lookup:
		return descValue(x.X, depth+1) + "[" + descValue(x.Index, depth+1) + "]"
	case *ssa.Extract:
		switch t := x.Tuple.(type) {
		case *ssa.Lookup:
			if x.Index == 1 {
				return "ok(" + descValue(t.X, depth+1) + "[" + descValue(t.Index, depth+1) + "])"
			}
			return descValue(t.X, depth+1) + "[" + descValue(t.Index, depth+1) + "]"
		case *ssa.TypeAssert:
			return "ok(type-assert)"
		case *ssa.Next:
			return "range-elem:" + typeShort(x.Type())
		case *ssa.Call:
			return fmt.Sprintf("result%d(%s)", x.Index, descCall(t, depth+1))
		}
	case *ssa.Call:
		return descCall(x, depth+1)
	case *ssa.BinOp:
		return "(" + descValue(x.X, depth+1) + " " + x.Op.String() + " " + descValue(x.Y, depth+1) + ")"
	case *ssa.Phi:
		return "var:" + typeDesc(x.Type())
	case *ssa.FreeVar:
		return "captured:" + typeDesc(x.Type())
	case *ssa.Index:
		return descValue(x.X, depth+1) + "[]"
	case *ssa.Slice:
		lo, hi := "", ""
		if x.Low != nil {
			lo = descValue(x.Low, depth+2)
		}
		if x.High != nil {
			hi = descValue(x.High, depth+2)
		}
		return descValue(x.X, depth+1) + "[" + lo + ":" + hi + "]"
	case *ssa.MakeInterface:
		return descValue(x.X, depth+1)
	case *ssa.ChangeType:
		return descValue(x.X, depth+1)
	case *ssa.Convert:
		return descValue(x.X, depth+1)
	}
	return "val:" + typeDesc(v.Type())
}

func descCall(c *ssa.Call, depth int) string {
	com := c.Common()
	name := "dyn"
	if b, ok := com.Value.(*ssa.Builtin); ok {
		name = b.Name()
	} else if f := com.StaticCallee(); f != nil {
		name = shortName(f)
		if cn := closureName(f); cn != "" {
			name = "closure:" + cn
		} else if f.Parent() != nil {
			name = "closure"
		}
	} else if com.IsInvoke() {
		name = "invoke " + com.Method.Name()
	}
	var args []string
	for _, a := range com.Args {
		args = append(args, descValue(a, depth+1))
	}
	return name + "(" + strings.Join(args, ",") + ")"
}

func negOp(op token.Token) token.Token {
	switch op {
	case token.EQL:
		return token.NEQ
	case token.NEQ:
		return token.EQL
	case token.LSS:
		return token.GEQ
	case token.GEQ:
		return token.LSS
	case token.GTR:
		return token.LEQ
	case token.LEQ:
		return token.GTR
	}
	return op
}

// descCond: normalised text of "cond is <val>".
func descCond(cond ssa.Value, val bool) string {
	c, neg := stripNot(cond)
	if neg {
		val = !val
	}
	if bo, ok := c.(*ssa.BinOp); ok {
		switch bo.Op {
		case token.EQL, token.NEQ, token.LSS, token.GEQ, token.GTR, token.LEQ:
			op := bo.Op
			if !val {
				op = negOp(op)
			}
			x, y := descValue(bo.X, 0), descValue(bo.Y, 0)
			// canonical operand order for symmetric operators
			if (op == token.EQL || op == token.NEQ) && x > y {
				x, y = y, x
			}
			return x + " " + op.String() + " " + y
		}
	}
	d := descValue(c, 0)
	if !val {
		return "!" + d
	}
	return d
}

// isLoopCond: the If is the condition of a range/for loop (its block is a loop
// header: one of its predecessors is dominated by it).
func isLoopCond(b *ssa.BasicBlock) bool {
	for _, p := range b.Preds {
		if b.Dominates(p) {
			return true
		}
	}
	// rangeindex / range-next conditions
	if i := ifOf(b); i != nil {
		if ex, ok := i.Cond.(*ssa.Extract); ok {
			if _, ok := ex.Tuple.(*ssa.Next); ok {
				return true
			}
		}
	}
	return false
}

// guardSet: normalised controlling conditions of instruction in (conditions of
// loops excluded), sorted.
func guardSet(in ssa.Instruction) []string {
	fn := in.Parent()
	set := map[string]bool{}
	for _, b := range fn.Blocks {
		i := ifOf(b)
		if i == nil || isLoopCond(b) {
			continue
		}
		for k := range b.Succs {
			if edgeDominates(b, k, in.Block()) {
				set[descCond(i.Cond, k == 0)] = true
			}
		}
	}
	var out []string
	for k := range set {
		out = append(out, k)
	}
	sort.Strings(out)
	return out
}

// orGuards: short-circuit `a || b` makes the target block reachable over two
// edges; neither dominates.  orGuardSet additionally reports, for a block with
// several non-loop predecessors that are all conditional edges, the
// disjunction of those edges.
func orGuardSet(in ssa.Instruction) string {
	b := in.Block()
	var alts []string
	for _, e := range controllingEdges(b) {
		if isLoopCond(e.b) {
			continue
		}
		alts = append(alts, descCond(ifOf(e.b).Cond, e.k == 0))
	}
	sort.Strings(alts)
	return strings.Join(alts, " || ")
}

var _ = types.Typ


// fieldPathDesc: the field with the fields it is reached through, outermost
// first: ab.a.groups -> "panos.rulesPair.a>panos.vsysInfo.groups".  The path
// distinguishes the device side from the target side of a pair (a vs b).
func fieldPathDesc(fa *ssa.FieldAddr, d int) string {
	name := fieldName(fa)
	if d > 2 {
		return name
	}
	switch x := fa.X.(type) {
	case *ssa.FieldAddr:
		return fieldPathDesc(x, d+1) + ">" + name
	case *ssa.UnOp:
		if x.Op == token.MUL {
			if fa2, ok := x.X.(*ssa.FieldAddr); ok {
				return fieldPathDesc(fa2, d+1) + ">" + name
			}
		}
	}
	return name
}


// typeDesc: typeShort, but a map whose key is a struct type of the module is
// written with the key's field names, map[cisco.routeDst{vrf,prefix}]...: what
// counts as "the same key" is part of the decision a lookup in that map makes.
func typeDesc(t types.Type) string {
	m, ok := t.Underlying().(*types.Map)
	if !ok {
		return typeShort(t)
	}
	kn, kst := structOf(m.Key())
	if kn == nil || kn.Obj().Pkg() == nil || !strings.HasPrefix(kn.Obj().Pkg().Path(), modPath) {
		return typeShort(t)
	}
	var fl func(st *types.Struct) []string
	fl = func(st *types.Struct) []string {
		var out []string
		for i := 0; i < st.NumFields(); i++ {
			f := st.Field(i)
			if f.Embedded() {
				if _, es := structOf(f.Type()); es != nil {
					out = append(out, fl(es)...)
					continue
				}
			}
			out = append(out, f.Name())
		}
		return out
	}
	return "map[" + typeShort(m.Key()) + "{" + strings.Join(fl(kst), ",") + "}]" + typeShort(m.Elem())
}
