package main

// Guard sets: the normalised set of conditions that control an instruction
// (every If edge that dominates it), and helpers to address closures by the
// variable they are bound to.  Used by the ordered-phase / protection rules of
// C07, C08, C14, C18.

import (
	"fmt"
	"go/ast"
	"go/constant"
	"go/token"
	"go/types"
	"regexp"
	"sort"
	"strings"

	"golang.org/x/tools/go/ssa"
)

// closureName: the local variable an anonymous function is assigned to
// (`name := func(...)` / `var name func...; name = func...`), or "".
func closureName(fn *ssa.Function) string {
	lit, ok := fn.Syntax().(*ast.FuncLit)
	if !ok || fn.Parent() == nil {
		return ""
	}
	par := fn.Parent().Syntax()
	if par == nil {
		return ""
	}
	name := ""
	ast.Inspect(par, func(n ast.Node) bool {
		switch x := n.(type) {
		case *ast.AssignStmt:
			for i, rhs := range x.Rhs {
				if rhs == ast.Expr(lit) && i < len(x.Lhs) {
					if id, ok := x.Lhs[i].(*ast.Ident); ok {
						name = id.Name
					}
				}
			}
		case *ast.ValueSpec:
			for i, rhs := range x.Values {
				if rhs == ast.Expr(lit) && i < len(x.Names) {
					name = x.Names[i].Name
				}
			}
		}
		return name == ""
	})
	return name
}

// closureByName finds the closure of parent bound to variable name (searching
// nested closures too).
func closureByName(parent *ssa.Function, name string) *ssa.Function {
	for _, a := range parent.AnonFuncs {
		if closureName(a) == name {
			return a
		}
	}
	for _, a := range parent.AnonFuncs {
		if f := closureByName(a, name); f != nil {
			return f
		}
	}
	return nil
}

// calleesOfSite resolves the possible module callees of a call instruction:
// static callee, closures reaching the call through cells, interface methods
// via the call graph.
func calleesOfSite(p *Prog, cs *callSite) []*ssa.Function {
	if cs.Static != nil {
		return []*ssa.Function{cs.Static}
	}
	var out []*ssa.Function
	if !cs.In.Common().IsInvoke() {
		for _, rt := range valueRoots(cs.In.Common().Value) {
			switch x := rt.(type) {
			case *ssa.MakeClosure:
				out = append(out, x.Fn.(*ssa.Function))
			case *ssa.Function:
				out = append(out, x)
			}
		}
	}
	if len(out) == 0 {
		p.CG()
		// a call of the function's own function-typed parameter: what the callers pass
		out = append(out, p.ParamCallees[cs.In]...)
	}
	if len(out) == 0 {
		if n := p.CG().Nodes[cs.Fn]; n != nil {
			for _, e := range n.Out {
				if e.Site == cs.In {
					out = append(out, e.Callee.Func)
				}
			}
		}
	}
	return out
}

// callSitesOf: call sites inside `in` (not descending into closures) that may
// call target.
func callSitesOf(p *Prog, in *ssa.Function, target *ssa.Function) []*callSite {
	var out []*callSite
	for _, cs := range callsOf(in) {
		for _, c := range calleesOfSite(p, cs) {
			if c == target {
				out = append(out, cs)
			}
		}
	}
	return out
}

// ---- value description ----

// descParamLabel: when set, parameters are described by these labels (symmetry check of
// comparators: the two operands are told apart) and range elements name what is ranged over.
var descParamLabel map[*ssa.Parameter]string

// descSwapSides: fields a and b of pair structs change places (symmetry check only).
var descSwapSides bool

var pairSideRE = regexp.MustCompile(`[A-Za-z]+(Pair|State)\.(a|b)$`)

// keysOfMap: v is the list of keys of a map, in whatever way it was made:
// slices.Sorted(maps.Keys(m)), slices.Collect(maps.Keys(m)), or a local slice that collects the
// keys in a `for k := range m` loop (and is sorted afterwards).  Returns m.
func keysOfMap(v ssa.Value, d int) ssa.Value {
	if d > 6 {
		return nil
	}
	switch x := v.(type) {
	case *ssa.Call:
		f := x.Common().StaticCallee()
		if f == nil || len(x.Common().Args) == 0 {
			return nil
		}
		n := rawShortName(f)
		if i := strings.Index(n, "["); i > 0 {
			n = n[:i]
		}
		switch n {
		case "slices.Sorted", "slices.Collect":
			return keysOfMap(x.Common().Args[0], d+1)
		case "maps.Keys":
			return x.Common().Args[0]
		}
	case *ssa.Slice:
		return keysOfMap(x.X, d+1)
	case *ssa.Phi:
		// every edge is an empty list or an append of a range key of one map to the same variable
		var m ssa.Value
		seen := map[ssa.Value]bool{}
		var visit func(e ssa.Value, d int) bool
		visit = func(e ssa.Value, d int) bool {
			if seen[e] || d > 8 {
				return true
			}
			seen[e] = true
			switch y := e.(type) {
			case *ssa.Const, *ssa.MakeSlice:
				return true
			case *ssa.Slice:
				return visit(y.X, d+1)
			case *ssa.Alloc:
				return true // make([]T, 0, n) spelled as new array + slice
			case *ssa.Phi:
				for _, e2 := range y.Edges {
					if !visit(e2, d+1) {
						return false
					}
				}
				return true
			case *ssa.Call:
				if c, ok := isAppendCall(y); ok && len(c.Common().Args) == 2 {
					if !visit(c.Common().Args[0], d+1) {
						return false
					}
					el, ok := sliceLitElems(c.Common().Args[1])
					if !ok || len(el) != 1 {
						return false
					}
					ex, ok := el[0].(*ssa.Extract)
					if !ok || ex.Index != 1 {
						return false
					}
					nx, ok := ex.Tuple.(*ssa.Next)
					if !ok {
						return false
					}
					rg, ok := nx.Iter.(*ssa.Range)
					if !ok {
						return false
					}
					if _, isMap := rg.X.Type().Underlying().(*types.Map); !isMap {
						return false
					}
					if m != nil && m != rg.X {
						return false
					}
					m = rg.X
					return true
				}
			}
			return false
		}
		if visit(x, 0) {
			return m
		}
	}
	return nil
}

// descParamSubst: while the truth conditions of a predicate helper are described for one of
// its call sites, its parameters are described by the arguments of that call.
var descParamSubst = map[*ssa.Parameter]string{}

// stdEqualFuncs: library predicates that treat their first two operands alike and hold only
// for operands of equal length.
func stdEqualName(f *ssa.Function) (name string, sameLen bool) {
	if f == nil {
		return "", false
	}
	n := rawShortName(f)
	if i := strings.Index(n, "["); i > 0 {
		n = n[:i]
	}
	switch n {
	case "slices.Equal", "slices.EqualFunc", "bytes.Equal", "maps.Equal", "maps.EqualFunc":
		return n, true
	case "reflect.DeepEqual", "strings.EqualFold":
		return n, false
	}
	return "", false
}

// descSymCallees: predicates already found symmetric (symmetry check only).
var descSymCallees map[*ssa.Function]bool

func descValue(v ssa.Value, depth int) string {
	if depth > 4 {
		return typeShort(v.Type())
	}
	switch x := v.(type) {
	case *ssa.Const:
		if x.Value == nil {
			return "nil"
		}
		return x.Value.ExactString()
	case *ssa.Parameter:
		if sub, ok := descParamSubst[x]; ok {
			return sub
		}
		if l, ok := descParamLabel[x]; ok {
			return l
		}
		return "param:" + typeDesc(x.Type())
	case *ssa.UnOp:
		if x.Op == token.MUL {
			if fa, ok := x.X.(*ssa.FieldAddr); ok {
				return "field " + fieldPathDesc(fa, 0)
			}
			if g, ok := x.X.(*ssa.Global); ok {
				return "global " + g.Name()
			}
			if ia, ok := x.X.(*ssa.IndexAddr); ok {
				// an element of a list built on the spot (sorted keys, a collected slice): how the
				// list was built is not part of the description
				if m := keysOfMap(ia.X, 0); m != nil {
					return "key-of(" + descValue(m, depth+1) + ")"
				}
				return descValue(ia.X, depth+1) + "[]"
			}
			return "var:" + typeDesc(x.Type())
		}
		if x.Op == token.NOT {
			return "!" + descValue(x.X, depth+1)
		}
	case *ssa.Field:
		return "field#" + fmt.Sprint(x.Field)
	case *ssa.Lookup:
		return descValue(x.X, depth+1) + "[" + descValue(x.Index, depth+1) + "]"
	case *ssa.Extract:
		switch t := x.Tuple.(type) {
		case *ssa.Lookup:
			if x.Index == 1 {
				return "ok(" + descValue(t.X, depth+1) + "[" + descValue(t.Index, depth+1) + "])"
			}
			return descValue(t.X, depth+1) + "[" + descValue(t.Index, depth+1) + "]"
		case *ssa.TypeAssert:
			return "ok(type-assert)"
		case *ssa.Next:
			if descParamLabel != nil {
				if rg, ok := t.Iter.(*ssa.Range); ok {
					return fmt.Sprintf("range-elem#%d(%s)", x.Index, descValue(rg.X, depth+1))
				}
			}
			return "range-elem:" + typeShort(x.Type())
		case *ssa.Call:
			return fmt.Sprintf("result%d(%s)", x.Index, descCall(t, depth+1))
		}
	case *ssa.Call:
		return descCall(x, depth+1)
	case *ssa.BinOp:
		return "(" + descValue(x.X, depth+1) + " " + x.Op.String() + " " + descValue(x.Y, depth+1) + ")"
	case *ssa.Phi:
		return "var:" + typeDesc(x.Type())
	case *ssa.FreeVar:
		return "captured:" + typeDesc(x.Type())
	case *ssa.Index:
		return descValue(x.X, depth+1) + "[]"
	case *ssa.Slice:
		lo, hi := "", ""
		if x.Low != nil {
			lo = descValue(x.Low, depth+2)
		}
		if x.High != nil {
			hi = descValue(x.High, depth+2)
		}
		return descValue(x.X, depth+1) + "[" + lo + ":" + hi + "]"
	case *ssa.MakeInterface:
		return descValue(x.X, depth+1)
	case *ssa.ChangeType:
		return descValue(x.X, depth+1)
	case *ssa.Convert:
		return descValue(x.X, depth+1)
	}
	return "val:" + typeDesc(v.Type())
}

// wrapperInner: fn does nothing but hand its parameters (or fields of them) to one other
// call and return that call's results: `func (s *State) printNetspocCmd(c *cmd) string {
// return getPrintableCmd(c, s.b) }`.  Such a wrapper is described as the call it makes.
func wrapperInner(fn *ssa.Function) *ssa.Call {
	if fn == nil || len(fn.Blocks) != 1 || fn.Synthetic != "" || !isModFunc(fn) || fn.Parent() != nil {
		return nil
	}
	var inner *ssa.Call
	for _, in := range fn.Blocks[0].Instrs {
		switch x := in.(type) {
		case *ssa.Call:
			if inner != nil {
				return nil
			}
			if _, isB := x.Common().Value.(*ssa.Builtin); isB {
				return nil
			}
			inner = x
		case *ssa.Return:
			if inner == nil || len(x.Results) != 1 || x.Results[0] != ssa.Value(inner) {
				return nil
			}
		case *ssa.FieldAddr, *ssa.UnOp, *ssa.Field:
		default:
			return nil
		}
	}
	if inner == nil || inner.Common().StaticCallee() == nil || inner.Common().StaticCallee() == fn {
		return nil
	}
	return inner
}

func descCall(c *ssa.Call, depth int) string {
	com := c.Common()
	// a helper the audited tree does not have cannot be named in an audited row: what it
	// returns is described like a value built on the spot, by its type
	if f := com.StaticCallee(); f != nil && descParamLabel == nil && auditedFnNames != nil && isModFunc(f) && f.Parent() == nil && f.Synthetic == "" &&
		!auditedFnNames[shortName(f)] && wrapperInner(f) == nil {
		return "val:" + typeDesc(c.Type())
	}
	if f := com.StaticCallee(); f != nil && descParamLabel == nil && len(f.Params) == len(com.Args) && depth < 6 {
		if inner := wrapperInner(f); inner != nil {
			saved := map[*ssa.Parameter]string{}
			for i, pa := range f.Params {
				if old, had := descParamSubst[pa]; had {
					saved[pa] = old
				}
				descParamSubst[pa] = descValue(com.Args[i], depth+1)
			}
			out := descCall(inner, depth+1)
			for _, pa := range f.Params {
				if old, had := saved[pa]; had {
					descParamSubst[pa] = old
				} else {
					delete(descParamSubst, pa)
				}
			}
			return out
		}
	}
	name := "dyn"
	if b, ok := com.Value.(*ssa.Builtin); ok {
		name = b.Name()
	} else if f := com.StaticCallee(); f != nil {
		name = shortName(f)
		if cn := closureName(f); cn != "" {
			name = "closure:" + cn
		} else if f.Parent() != nil {
			name = "closure"
		}
	} else if com.IsInvoke() {
		name = "invoke " + com.Method.Name()
	}
	var args []string
	for _, a := range com.Args {
		args = append(args, descValue(a, depth+1))
	}
	// the compiled pattern a method of *regexp.Regexp works with: compiled on the spot, kept in a
	// variable or in a field of the session -- all one spelling (which patterns a package has is R-RX's matter)
	if strings.HasPrefix(name, "(*regexp.Regexp).") && len(args) > 0 {
		args[0] = "rx"
	}
	// a constant pattern is described in its parsed and simplified form (\d and [0-9] are one spelling)
	if strings.HasPrefix(name, "regexp.") && len(com.Args) > 0 {
		if s, ok := constString(com.Args[0]); ok && strings.HasPrefix(args[0], "\"") {
			args[0] = fmt.Sprintf("%q", rxNormal(s))
		}
	}
	if n, _ := stdEqualName(com.StaticCallee()); n != "" && descParamLabel != nil && len(args) >= 2 {
		if args[0] > args[1] {
			args[0], args[1] = args[1], args[0]
		}
	}
	if f := com.StaticCallee(); f != nil && descSymCallees[f] && len(args) >= 2 {
		// a predicate known to treat its two operands alike: one spelling of the call
		n := len(args)
		if args[n-2] > args[n-1] {
			args[n-2], args[n-1] = args[n-1], args[n-2]
		}
	}
	return name + "(" + strings.Join(args, ",") + ")"
}

func negOp(op token.Token) token.Token {
	switch op {
	case token.EQL:
		return token.NEQ
	case token.NEQ:
		return token.EQL
	case token.LSS:
		return token.GEQ
	case token.GEQ:
		return token.LSS
	case token.GTR:
		return token.LEQ
	case token.LEQ:
		return token.GTR
	}
	return op
}

// indexAsContains: `strings.Index(s, sub) >= 0` (also `!= -1`, `> -1`; and `< 0`, `== -1`,
// `<= -1` for the negation) is strings.Contains(s, sub).  Returns the Index call and whether
// the condition being true means "contained".
func indexAsContains(c ssa.Value) (*ssa.Call, bool, bool) {
	bo, ok := c.(*ssa.BinOp)
	if !ok {
		return nil, false, false
	}
	call, ok := bo.X.(*ssa.Call)
	k, ok2 := bo.Y.(*ssa.Const)
	op := bo.Op
	if !ok || !ok2 {
		call, ok = bo.Y.(*ssa.Call)
		k, ok2 = bo.X.(*ssa.Const)
		if !ok || !ok2 {
			return nil, false, false
		}
		switch op { // const OP call  ->  call OP' const
		case token.LSS:
			op = token.GTR
		case token.GTR:
			op = token.LSS
		case token.LEQ:
			op = token.GEQ
		case token.GEQ:
			op = token.LEQ
		}
	}
	f := call.Common().StaticCallee()
	if f == nil || k.Value == nil {
		return nil, false, false
	}
	switch rawShortName(f) {
	case "strings.Index", "bytes.Index":
	default:
		return nil, false, false
	}
	n, isInt := constant.Int64Val(constant.ToInt(k.Value))
	if !isInt {
		return nil, false, false
	}
	switch {
	case op == token.GEQ && n == 0, op == token.GTR && n == -1, op == token.NEQ && n == -1:
		return call, true, true
	case op == token.LSS && n == 0, op == token.LEQ && n == -1, op == token.EQL && n == -1:
		return call, false, true
	}
	return nil, false, false
}

// descCond: normalised text of "cond is <val>".
func descCond(cond ssa.Value, val bool) string {
	c, neg := stripNot(cond)
	if neg {
		val = !val
	}
	if call, contained, ok := indexAsContains(c); ok {
		name := "strings.Contains"
		if rawShortName(call.Common().StaticCallee()) == "bytes.Index" {
			name = "bytes.Contains"
		}
		d := name + "(" + descValue(call.Common().Args[0], 2) + "," + descValue(call.Common().Args[1], 2) + ")"
		if contained != val {
			return "!" + d
		}
		return d
	}
	if bo, ok := c.(*ssa.BinOp); ok {
		switch bo.Op {
		case token.EQL, token.NEQ, token.LSS, token.GEQ, token.GTR, token.LEQ:
			op := bo.Op
			if !val {
				op = negOp(op)
			}
			bx, by := bo.X, bo.Y
			// one spelling for emptiness tests: constant on the right, len(e) < 1 / <= 0 as == 0,
			// len(e) >= 1 / > 0 as != 0, and len(s) ==/!= 0 of a string as a comparison with ""
			if _, ok := bx.(*ssa.Const); ok && isLenCall(by) {
				bx, by = by, bx
				switch op {
				case token.LSS:
					op = token.GTR
				case token.GTR:
					op = token.LSS
				case token.LEQ:
					op = token.GEQ
				case token.GEQ:
					op = token.LEQ
				}
			}
			strEmpty, zero := "", false
			// b.Len() of a strings.Builder / bytes.Buffer compared with 0 or 1: the text collected so
			// far is (not) empty, like s == "" for `s += piece`
			if k, ok := by.(*ssa.Const); ok && isBufferLen(bx) && k.Value != nil {
				if n, isInt := constant.Int64Val(constant.ToInt(k.Value)); isInt {
					switch {
					case n == 1 && op == token.LSS, n == 0 && op == token.LEQ, n == 0 && op == token.EQL:
						return `"" == var:string`
					case n == 1 && op == token.GEQ, n == 0 && op == token.GTR, n == 0 && op == token.NEQ:
						return `"" != var:string`
					}
				}
			}
			if k, ok := by.(*ssa.Const); ok && isLenCall(bx) && k.Value != nil {
				if n, isInt := constant.Int64Val(constant.ToInt(k.Value)); isInt {
					switch {
					case n == 1 && op == token.LSS, n == 0 && op == token.LEQ:
						op, n, zero = token.EQL, 0, true
					case n == 1 && op == token.GEQ, n == 0 && op == token.GTR:
						op, n, zero = token.NEQ, 0, true
					}
					if (op == token.EQL || op == token.NEQ) && n == 0 {
						arg := bx.(*ssa.Call).Common().Args[0]
						if bt, ok := arg.Type().Underlying().(*types.Basic); ok && bt.Info()&types.IsString != 0 {
							strEmpty = descValue(arg, 0)
						}
					}
				}
			}
			x, y := descValue(bx, 0), descValue(by, 0)
			if zero {
				y = "0"
			}
			if strEmpty != "" {
				x, y = `""`, strEmpty
			}
			// canonical operand order for symmetric operators
			if (op == token.EQL || op == token.NEQ) && x > y {
				x, y = y, x
			}
			return x + " " + op.String() + " " + y
		}
	}
	d := descValue(c, 0)
	if !val {
		return "!" + d
	}
	return d
}

// isBufferLen: b.Len() of a strings.Builder or bytes.Buffer.
func isBufferLen(v ssa.Value) bool {
	c, ok := v.(*ssa.Call)
	if !ok {
		return false
	}
	f := c.Common().StaticCallee()
	if f == nil {
		return false
	}
	switch rawShortName(f) {
	case "(*strings.Builder).Len", "(*bytes.Buffer).Len":
		return true
	}
	return false
}

func isLenCall(v ssa.Value) bool {
	c, ok := v.(*ssa.Call)
	if !ok {
		return false
	}
	b, ok := c.Common().Value.(*ssa.Builtin)
	return ok && b.Name() == "len" && len(c.Common().Args) == 1
}

// isLoopCond: the If is the condition of a range/for loop (its block is a loop
// header: one of its predecessors is dominated by it).
func isLoopCond(b *ssa.BasicBlock) bool {
	for _, p := range b.Preds {
		if b.Dominates(p) {
			return true
		}
	}
	// rangeindex / range-next conditions
	if i := ifOf(b); i != nil {
		if ex, ok := i.Cond.(*ssa.Extract); ok {
			if _, ok := ex.Tuple.(*ssa.Next); ok {
				return true
			}
		}
	}
	return false
}

// guardSet: normalised controlling conditions of instruction in (conditions of
// loops excluded), sorted.
func guardSet(in ssa.Instruction) []string {
	return guardSetWithin(in, nil)
}

// guardSetWithin: only the conditions tested in the given blocks (nil: all).
func guardSetWithin(in ssa.Instruction, within map[*ssa.BasicBlock]bool) []string {
	fn := in.Parent()
	set := map[string]bool{}
	cmp := map[string]constCmp{}
	for _, b := range fn.Blocks {
		i := ifOf(b)
		if i == nil || isLoopCond(b) || (within != nil && !within[b]) {
			continue
		}
		for k := range b.Succs {
			if edgeDominates(b, k, in.Block()) {
				if ex, ok := expandCond(i.Cond, k == 0); ok {
					for _, d := range ex {
						set[d] = true
					}
					continue
				}
				d := descCond(i.Cond, k == 0)
				set[d] = true
				if other, c, eq, ok := constCompare(i.Cond, k == 0); ok {
					cmp[d] = constCmp{other, c, eq}
				}
			}
		}
	}
	// `X == c1` implies `X != c2` for every other constant: the disequalities a switch
	// collects from the cases in front of the matching one say nothing (case order is free)
	eqOf := map[ssa.Value]map[string]bool{}
	for _, cc := range cmp {
		if cc.eq {
			eqOf[cc.other] = map[string]bool{cc.c: true}
		}
	}
	// the same for `case c1, c2:`: the block is entered over edges that all say X == ci
	for d := in.Block(); d != nil; d = d.Idom() {
		var altOther ssa.Value
		alts := map[string]bool{}
		allEq := true
		for _, e := range controllingEdges(d) {
			if isLoopCond(e.b) {
				allEq = false
				break
			}
			other, c, eq, ok := constCompare(ifOf(e.b).Cond, e.k == 0)
			if !ok || !eq || (altOther != nil && other != altOther) {
				allEq = false
				break
			}
			altOther = other
			alts[c] = true
		}
		if allEq && altOther != nil && len(alts) > 1 && eqOf[altOther] == nil {
			eqOf[altOther] = alts
		}
	}
	var out []string
	for k := range set {
		if cc, ok := cmp[k]; ok && !cc.eq {
			if cs, has := eqOf[cc.other]; has && !cs[cc.c] {
				continue
			}
		}
		out = append(out, k)
	}
	sort.Strings(out)
	return out
}

type constCmp struct {
	other ssa.Value
	c     string
	eq    bool
}

// constCompare: cond (taken as val) is `other == const` or `other != const`.
func constCompare(cond ssa.Value, val bool) (other ssa.Value, c string, eq bool, ok bool) {
	cnd, neg := stripNot(cond)
	if neg {
		val = !val
	}
	bo, isB := cnd.(*ssa.BinOp)
	if !isB || (bo.Op != token.EQL && bo.Op != token.NEQ) {
		return nil, "", false, false
	}
	x, y := bo.X, bo.Y
	if _, isC := x.(*ssa.Const); isC {
		x, y = y, x
	}
	k, isC := y.(*ssa.Const)
	if !isC || k.Value == nil {
		return nil, "", false, false
	}
	if _, both := x.(*ssa.Const); both {
		return nil, "", false, false
	}
	return x, k.Value.ExactString(), (bo.Op == token.EQL) == val, true
}

// orGuards: short-circuit `a || b` makes the target block reachable over two
// edges; neither dominates.  orGuardSet additionally reports, for a block with
// several non-loop predecessors that are all conditional edges, the
// disjunction of those edges.
// orGuardSet: the alternatives under which the instruction's block is entered, and those
// of the blocks that dominate it (what stands behind `if a && b { return }` is reached
// when !a or !b holds, also where it is nested in further tests).
func orGuardSet(in ssa.Instruction) string {
	own := orGuardOfBlock(in.Block())
	if own == "*" {
		return own
	}
	parts := map[string]bool{}
	if own != "" {
		parts[own] = true
	}
	for a := in.Block().Idom(); a != nil; a = a.Idom() {
		// not for a block that is entered from blocks it dominates (the head of a loop, reached by
		// its `continue` edges): those alternatives say how the passes of the loop end, not under
		// which decisions the code behind an early return runs
		fromInside := false
		for _, e := range controllingEdges(a) {
			if a.Dominates(e.b) {
				fromInside = true
			}
		}
		if fromInside {
			continue
		}
		if o := orGuardOfBlock(a); o != "" && o != "*" && strings.Contains(o, " || ") {
			parts[o] = true
		}
	}
	var l []string
	for x := range parts {
		l = append(l, x)
	}
	sort.Strings(l)
	return strings.Join(l, " & ")
}

func orGuardOfBlock(b *ssa.BasicBlock) string {
	var alts []string
	sides := map[*ssa.BasicBlock]int{}
	for _, e := range controllingEdges(b) {
		if isLoopCond(e.b) {
			continue
		}
		alts = append(alts, descCond(ifOf(e.b).Cond, e.k == 0))
		sides[e.b] |= 1 << e.k
		if sides[e.b] == 3 {
			// reached over both edges of one test: a join behind an if/switch, entered
			// whatever the tests say; the list of edges would only spell the case order
			return "*"
		}
	}
	if len(alts) == 1 {
		// one conditional edge that dominates the block: already part of the guard set
		for _, e := range controllingEdges(b) {
			if !isLoopCond(e.b) && edgeDominates(e.b, e.k, b) {
				return ""
			}
		}
	}
	sort.Strings(alts)
	return strings.Join(alts, " || ")
}

var _ = types.Typ

// fieldPathDesc: the field with the fields it is reached through, outermost
// first: ab.a.groups -> "panos.rulesPair.a>panos.vsysInfo.groups".  The path
// distinguishes the device side from the target side of a pair (a vs b).
func fieldPathDesc(fa *ssa.FieldAddr, d int) string {
	name := fieldName(fa)
	if descSwapSides {
		name = pairSideRE.ReplaceAllStringFunc(name, func(m string) string {
			if strings.HasSuffix(m, ".a") {
				return m[:len(m)-1] + "b"
			}
			return m[:len(m)-1] + "a"
		})
	}
	if d > 2 {
		return name
	}
	switch x := fa.X.(type) {
	case *ssa.FieldAddr:
		return fieldPathDesc(x, d+1) + ">" + name
	case *ssa.UnOp:
		if x.Op == token.MUL {
			if fa2, ok := x.X.(*ssa.FieldAddr); ok {
				return fieldPathDesc(fa2, d+1) + ">" + name
			}
		}
	}
	if descParamLabel != nil {
		// symmetry check: which operand the object was taken from (a[0].sub vs b[0].sub)
		v := fa.X
		for i := 0; i < 14; i++ {
			switch y := v.(type) {
			case *ssa.FieldAddr:
				v = y.X
				continue
			case *ssa.UnOp:
				v = y.X
				continue
			case *ssa.IndexAddr:
				v = y.X
				continue
			case *ssa.Index:
				v = y.X
				continue
			case *ssa.Parameter:
				if l, ok := descParamLabel[y]; ok {
					return l + ">" + name
				}
			}
			break
		}
	}
	return name
}

// typeDesc: typeShort, but a map whose key is a struct type of the module is
// written with the key's field names, map[cisco.routeDst{vrf,prefix}]...: what
// counts as "the same key" is part of the decision a lookup in that map makes.
func typeDesc(t types.Type) string {
	m, ok := t.Underlying().(*types.Map)
	if !ok {
		return typeShort(t)
	}
	kn, kst := structOf(m.Key())
	if kn == nil || kn.Obj().Pkg() == nil || !strings.HasPrefix(kn.Obj().Pkg().Path(), modPath) {
		return typeShort(t)
	}
	var fl func(st *types.Struct) []string
	fl = func(st *types.Struct) []string {
		var out []string
		for i := 0; i < st.NumFields(); i++ {
			f := st.Field(i)
			if f.Embedded() {
				if _, es := structOf(f.Type()); es != nil {
					out = append(out, fl(es)...)
					continue
				}
			}
			out = append(out, fldName(f))
		}
		return out
	}
	return "map[" + typeShort(m.Key()) + "{" + strings.Join(fl(kst), ",") + "}]" + typeShort(m.Elem())
}

// ---- predicate helpers seen through ----
//
// `if same(a, b) {` with a NEW module function same (one the audited tree does not have) is
// the same decision as the tests of same written out at the call site.  For the taken-as-true edge of such a call the
// controlling conditions are those under which the helper returns true (the
// intersection over its true-capable returns), described with the call's arguments
// in place of the parameters.  slices.Equal / EqualFunc / bytes.Equal / maps.Equal
// hold only for operands of equal length; that is the part a written-out loop
// shows too (the element tests inside a loop do not dominate what follows it).

var expandDepth int

func expandCond(cond ssa.Value, val bool) ([]string, bool) {
	c, neg := stripNot(cond)
	if neg {
		val = !val
	}
	call, ok := c.(*ssa.Call)
	if !ok || !val || expandDepth >= 2 || descParamLabel != nil {
		return nil, false
	}
	f := call.Common().StaticCallee()
	if f == nil {
		return nil, false
	}
	if _, sameLen := stdEqualName(f); sameLen && len(call.Common().Args) >= 2 {
		x, y := descValue(call.Common().Args[0], 1), descValue(call.Common().Args[1], 1)
		if x > y {
			x, y = y, x
		}
		return []string{"len(" + x + ") == len(" + y + ")"}, true
	}
	if !isModFunc(f) || f.Parent() != nil || f.Synthetic != "" || len(f.Blocks) == 0 || len(f.Blocks) > 40 {
		return nil, false
	}
	// a function of the audited tree is a named decision of its own (the rows name it);
	// only a helper that did not exist there is looked through
	if auditedFnNames == nil || auditedFnNames[shortName(f)] {
		return nil, false
	}
	res := f.Signature.Results()
	if res.Len() != 1 {
		return nil, false
	}
	if b, ok := res.At(0).Type().Underlying().(*types.Basic); !ok || b.Kind() != types.Bool {
		return nil, false
	}
	if len(f.Params) != len(call.Common().Args) {
		return nil, false
	}
	// only pure tests: a helper that calls module functions with effects is a decision of its own
	for _, b := range f.Blocks {
		for _, in := range b.Instrs {
			switch in.(type) {
			case *ssa.Store, *ssa.MapUpdate, *ssa.Send, *ssa.Go, *ssa.Defer, *ssa.Panic:
				return nil, false
			}
		}
	}
	saved := map[*ssa.Parameter]string{}
	for i, pa := range f.Params {
		if old, had := descParamSubst[pa]; had {
			saved[pa] = old
		}
		descParamSubst[pa] = descValue(call.Common().Args[i], 1)
	}
	expandDepth++
	defer func() {
		expandDepth--
		for _, pa := range f.Params {
			if old, had := saved[pa]; had {
				descParamSubst[pa] = old
			} else {
				delete(descParamSubst, pa)
			}
		}
	}()
	var common map[string]bool
	n := 0
	for _, b := range f.Blocks {
		if len(b.Instrs) == 0 {
			continue
		}
		ret, ok := b.Instrs[len(b.Instrs)-1].(*ssa.Return)
		if !ok {
			continue
		}
		v := ret.Results[0]
		if bv, isC := constBool(v); isC && !bv {
			continue
		}
		cs := map[string]bool{}
		for _, d := range guardSetWithin(ret, nil) {
			cs[d] = true
		}
		if _, isC := constBool(v); !isC {
			if ex, ok := expandCond(v, true); ok {
				for _, d := range ex {
					cs[d] = true
				}
			} else {
				cs[descCond(v, true)] = true
			}
		}
		n++
		if common == nil {
			common = cs
		} else {
			for d := range common {
				if !cs[d] {
					delete(common, d)
				}
			}
		}
	}
	if n == 0 {
		return nil, false
	}
	var out []string
	for d := range common {
		out = append(out, d)
	}
	sort.Strings(out)
	return out, true
}
