package main

// Guard-table rule: the controlling conditions of protection / emission sites
// must equal the audited sets in tables/guards.tsv (compared as multisets per
// function+site, so the order of sites does not matter).

import (
	"regexp"
	"os"
	"fmt"
	"go/constant"
	"go/types"
	"sort"
	"strings"

	"golang.org/x/tools/go/ssa"
)

type guardSite struct {
	Fn   *ssa.Function
	Name string // call:<callee> | mapupdate | store:<field> | append | delete
	In   ssa.Instruction
	Sig  string // guards && ... ## or-guards
}

func fnDisplay(fn *ssa.Function) string {
	// closures are addressed by the variable they are bound to: Parent.name
	if cn := closureName(fn); cn != "" && fn.Parent() != nil {
		return fnDisplay(fn.Parent()) + "." + cn
	}
	return shortName(fn)
}

// isNewHelper: a top-level module function that the audited tree does not have.
func isNewHelper(f *ssa.Function) bool {
	return f != nil && auditedFnNames != nil && isModFunc(f) && f.Parent() == nil && f.Synthetic == "" && len(f.Blocks) > 0 &&
		!auditedFnNames[shortName(f)]
}

var guardInlineDepth int

func guardSitesOf(p *Prog, fn *ssa.Function) []guardSite {
	var out []guardSite
	for _, b := range fn.Blocks {
		for _, in := range b.Instrs {
			name := ""
			switch x := in.(type) {
			case ssa.CallInstruction:
				// a helper the audited tree does not have is looked through: what it does counts as
				// done here, under the conditions of this call and its own (arguments for parameters)
				if h := x.Common().StaticCallee(); isNewHelper(h) && guardInlineDepth < 2 && len(h.Params) == len(x.Common().Args) && len(h.AnonFuncs) == 0 {
					if _, isGo := in.(*ssa.Go); !isGo {
						outer := guardSet(in)
						saved := map[*ssa.Parameter]string{}
						for i, pa := range h.Params {
							if old, had := descParamSubst[pa]; had {
								saved[pa] = old
							}
							descParamSubst[pa] = descValue(x.Common().Args[i], 1)
						}
						guardInlineDepth++
						inner := guardSitesOf(p, h)
						guardInlineDepth--
						for _, pa := range h.Params {
							if old, had := saved[pa]; had {
								descParamSubst[pa] = old
							} else {
								delete(descParamSubst, pa)
							}
						}
						for _, gs := range inner {
							a, _, _ := strings.Cut(gs.Sig, " ## ")
							set := map[string]bool{}
							for _, c := range outer {
								set[c] = true
							}
							for _, c := range strings.Split(a, " && ") {
								if c != "" {
									set[c] = true
								}
							}
							var all []string
							for c := range set {
								all = append(all, c)
							}
							sort.Strings(all)
							out = append(out, guardSite{fn, gs.Name, in, strings.Join(all, " && ") + " ## " + orGuardSet(in)})
						}
						continue
					}
				}
				cs := &callSite{In: x, Fn: fn, Static: x.Common().StaticCallee()}
				if bi, ok := x.Common().Value.(*ssa.Builtin); ok {
					if bi.Name() == "append" || bi.Name() == "delete" {
						name = bi.Name()
					}
					break
				}
				name = "call:" + cs.calleeName()
				for _, c := range calleesOfSite(p, cs) {
					if cn := closureName(c); cn != "" {
						name = "call:" + cn
					} else if cs.Static == nil {
						name = "call:" + shortName(c)
					}
				}
			case *ssa.Store:
				if fa, ok := x.Addr.(*ssa.FieldAddr); ok {
					name = "store:" + fieldName(fa)
				} else if ia, ok := x.Addr.(*ssa.IndexAddr); ok {
					// `l[j] = x; j++`: which elements a filter keeps
					if _, isSlice := ia.X.Type().Underlying().(*types.Slice); isSlice {
						name = "elemstore:" + typeDesc(x.Val.Type())
					}
				}
			case *ssa.MapUpdate:
				name = "mapupdate"
			case *ssa.Return:
				// verdicts of predicates: `return false` / `return true`
				if len(x.Results) == 1 {
					if bv, isC := constBool(x.Results[0]); isC {
						name = fmt.Sprintf("return:%v", bv)
					} else if b, isB := x.Results[0].Type().Underlying().(*types.Basic); isB && b.Kind() == types.Bool {
						name = "return:" + descValue(x.Results[0], 0)
					} else if isB && b.Info()&types.IsInteger != 0 && isCmpFunc(fn) {
						// verdicts of ordering functions (negative / zero / positive)
						name = "return:" + descValue(x.Results[0], 0)
					}
				}
			}
			if name == "" {
				continue
			}
			out = append(out, guardSite{fn, name, in, strings.Join(guardSet(in), " && ") + " ## " + orGuardSet(in)})
		}
	}
	out = append(out, rewriteSitesOf(p, fn)...)
	return out
}

func ruleGuardTable(p *Prog, r *Report, rule, prop string) {
	rows := readTable("guards.tsv", 5)
	type key struct{ fn, site string }
	want := map[key][]string{}
	reason := map[key]string{}
	for _, row := range rows {
		if !propListed(row[3], prop) {
			continue
		}
		k := key{row[0], row[1]}
		want[k] = append(want[k], row[2])
		reason[k] = row[4]
	}
	byName := fnDisplayIndex(p)
	var keys []key
	for k := range want {
		keys = append(keys, k)
	}
	sort.Slice(keys, func(i, j int) bool { return keys[i].fn+keys[i].site < keys[j].fn+keys[j].site })
	for _, k := range keys {
		fn := byName[k.fn]
		if fn == nil {
			// the audited function was merged into / replaced by a function the audited tree does not
			// have: if exactly one such function of the same package has sites of this kind, the row is
			// judged there
			fn = successorOf(p, k.fn, k.site)
		}
		if fn == nil {
			r.fail(rule, "guards|"+k.fn+"|"+k.site, "", "function "+k.fn+" not found", "the audited protection site no longer exists under this name: re-audit")
			continue
		}
		var got []string
		pos := p.pos(fn.Pos())
		for _, gs := range guardSitesOf(p, fn) {
			if gs.Name == k.site {
				got = append(got, gs.Sig)
				pos = p.ipos(gs.In)
			}
		}
		w := append([]string{}, want[k]...)
		if k.site == "append" {
			// how many appends build a list is a matter of spelling (`append(l, a, b)` for two appends);
			// what counts is under which conditions the list grows
			// ... nor whether a growing step stands behind a join (`## *`: entered whatever an
			// earlier if/else decided) or in a helper of its own
			for i := range got {
				got[i] = strings.TrimSuffix(got[i], "*")
			}
			for i := range w {
				w[i] = strings.TrimSuffix(w[i], "*")
			}
			got, w = dedupStrings(got), dedupStrings(w)
			if len(got) == 0 {
				// the list is built without append now (slices.Concat, a literal): nothing to compare here
				r.add(rule, "guards|"+k.fn+"|"+k.site, pos, fmt.Sprintf("%s builds its list without append (audited: %d condition set(s))", k.fn, len(w)), true, "")
				continue
			}
		}
		sort.Strings(got)
		sort.Strings(w)
		ok := len(got) == len(w)
		if ok {
			for i := range got {
				if got[i] != w[i] {
					ok = false
				}
			}
		}
		r.add(rule, "guards|"+k.fn+"|"+k.site, pos,
			fmt.Sprintf("%d site(s) `%s` in %s are controlled exactly by the audited conditions (%s)", len(w), k.site, k.fn, reason[k]), ok,
			fmt.Sprintf("controlling conditions changed.\n   audited: %q\n   now:     %q", w, got))
	}
	r.floor(rule, "audited guard rows for "+prop, len(keys), 1)
}

// successorOf: the only new function (not in the audited tree) of the package of `name`
// that has guard sites called `site`.
func successorOf(p *Prog, name, site string) *ssa.Function {
	m := regexp.MustCompile(`^\(?\*?(\w+)\.`).FindStringSubmatch(name)
	if m == nil {
		return nil
	}
	var found *ssa.Function
	for _, f := range allModFuncs(p) {
		if !isNewHelper(f) || pkgOfFunc(f) != m[1] {
			continue
		}
		for _, gs := range guardSitesOf(p, f) {
			if gs.Name == site {
				if found != nil && found != f {
					return nil
				}
				found = f
			}
		}
	}
	return found
}

// fnDisplayIndex: display name -> function; a second closure bound to the same
// variable name in one function gets the suffix #2 (source order).
func fnDisplayIndex(p *Prog) map[string]*ssa.Function {
	byName := map[string]*ssa.Function{}
	fns := allModFuncs(p)
	sort.Slice(fns, func(i, j int) bool { return fns[i].Pos() < fns[j].Pos() })
	for _, fn := range fns {
		n := fnDisplay(fn)
		if _, dup := byName[n]; dup {
			for k := 2; ; k++ {
				n2 := fmt.Sprintf("%s#%d", n, k)
				if _, d2 := byName[n2]; !d2 {
					n = n2
					break
				}
			}
		}
		byName[n] = fn
	}
	return byName
}

// markSites: stores into mark fields (names given by suffix, e.g. ".needed",
// ".nameOnDevice") in the non-test functions of package pkg.
func markSites(p *Prog, pkg string, fields []string) []guardSite {
	var out []guardSite
	for _, fn := range allModFuncs(p) {
		if pkgOfFunc(fn) != pkg || fn.Synthetic != "" || isNewHelper(rootOf(fn)) {
			continue
		}
		for _, gs := range guardSitesOf(p, fn) {
			if !strings.HasPrefix(gs.Name, "store:") {
				continue
			}
			for _, f := range fields {
				if strings.HasSuffix(gs.Name, f) {
					out = append(out, gs)
				}
			}
		}
	}
	return out
}

// ruleMarkDiscipline: every store into a planner mark field of the package is
// covered by audited guard rows (the rows themselves are compared by
// ruleGuardTable); a mark store in a function+site without rows is new,
// unaudited planner state.
func ruleMarkDiscipline(p *Prog, r *Report, rule, prop, pkg string, fields []string, floor int) {
	rows := readTable("guards.tsv", 5)
	// a site is audited when it has rows at all; their content is compared by the guard-table
	// rule of every property the rows list (device-specific functions are listed for their device only)
	have := map[string]bool{}
	for _, row := range rows {
		have[row[0]+"|"+row[1]] = true
	}
	byFn := map[*ssa.Function]string{}
	for n, fn := range fnDisplayIndex(p) {
		byFn[fn] = n
	}
	seen := map[string]bool{}
	n := 0
	for _, gs := range markSites(p, pkg, fields) {
		n++
		k := byFn[gs.Fn] + "|" + gs.Name
		if seen[k] {
			continue
		}
		seen[k] = true
		r.add(rule, "mark-audited|"+k, p.ipos(gs.In), "the conditions under which "+gs.Name[len("store:"):]+" is set in "+byFn[gs.Fn]+" are audited (rows in tables/guards.tsv)", have[k],
			"a planner mark (which device object is kept / which target object is already on the device) is set at a place that was never audited: the planner can keep, reuse or drop an object under unchecked conditions")
	}
	r.floor(rule, "stores into mark fields of package "+pkg, n, floor)
}

// normaliserConsts: the constants (strings and integers other than 0/1) a function's
// instructions use as operands, with multiplicity, sorted.
func normaliserConsts(fn *ssa.Function) []string {
	var out []string
	var visit func(f *ssa.Function)
	visit = func(f *ssa.Function) {
		for _, b := range f.Blocks {
			for _, in := range b.Instrs {
				if isLogCall(in) {
					continue // message texts are not part of what is equated
				}
				for _, op := range in.Operands(nil) {
					if op == nil || *op == nil {
						continue
					}
					c, ok := (*op).(*ssa.Const)
					if !ok || c.Value == nil {
						continue
					}
					switch c.Value.Kind() {
					case constant.String:
						out = append(out, c.Value.ExactString())
					case constant.Int:
						if n, exact := constant.Int64Val(c.Value); exact && n != 0 && n != 1 && n != -1 {
							out = append(out, c.Value.ExactString())
						}
					}
				}
			}
		}
		for _, a := range f.AnonFuncs {
			visit(a)
		}
	}
	visit(fn)
	sort.Strings(out)
	return out
}

// ruleNormaliserConsts: a normaliser rewrites compare operands; which spellings it
// equates is in its conditions (guard rows) and in the constants it cuts, trims and
// substitutes.  The constants are compared, as a multiset, with tables/normaliser_consts.tsv.
func ruleNormaliserConsts(p *Prog, r *Report, rule, prop string) {
	ruleNormaliserAudit(p, r, rule, prop, true)
}

// ruleNormaliserAudit: sites = false checks the constants only (large normalisers whose stores
// into the compared text are audited by the mark discipline instead).
func ruleNormaliserAudit(p *Prog, r *Report, rule, prop string, sites bool) {
	n := 0
	for _, row := range readTable("normaliser_consts.tsv", 4) {
		if !propListed(row[1], prop) {
			continue
		}
		n++
		fn := p.Funcs[row[0]]
		if fn == nil {
			r.fail(rule, "consts|"+row[0], "", "function "+row[0]+" not found", "the audited normaliser no longer exists under this name: re-audit")
			continue
		}
		got := strings.Join(normaliserConsts(fn), " | ")
		r.add(rule, "consts|"+row[0], p.pos(fn.Pos()), fmt.Sprintf("the constants %s works with are the audited ones (%s)", row[0], row[3]), got == row[2],
			fmt.Sprintf("the normaliser cuts, trims or substitutes other constants than audited: two device spellings that are not equivalent may compare equal.\n   audited: %s\n   now:     %s", row[2], got))
	}
	r.floor(rule, "audited normalisers for "+prop, n, 1)
	if !sites {
		return
	}
	// every operation of a normaliser is at an audited site
	have := map[string]bool{}
	for _, row := range readTable("guards.tsv", 5) {
		if propListed(row[3], prop) {
			have[row[0]+"|"+row[1]] = true
		}
	}
	for _, row := range readTable("normaliser_consts.tsv", 4) {
		fn := p.Funcs[row[0]]
		if fn == nil || !propListed(row[1], prop) {
			continue
		}
		seen := map[string]bool{}
		sites := 0
		for _, gs := range guardSitesOf(p, fn) {
			if isLogCall(gs.In) {
				continue
			}
			sites++
			k := fnDisplay(fn) + "|" + gs.Name
			if seen[k] {
				continue
			}
			seen[k] = true
			r.add(rule, "site-audited|"+k, p.ipos(gs.In), "the conditions of `"+gs.Name+"` in "+row[0]+" are audited (rows in tables/guards.tsv)", have[k],
				"the normaliser got an operation that was never audited: it may equate spellings that are not equivalent")
		}
		r.floor(rule, "operations of "+row[0], sites, 10)
	}
	// every conditional replacement of a parsed value by a constant, anywhere in the package
	pk := map[string]bool{}
	for _, row := range readTable("normaliser_consts.tsv", 4) {
		if fn := p.Funcs[row[0]]; fn != nil && propListed(row[1], prop) {
			pk[pkgOfFunc(fn)] = true
		}
	}
	nrw := 0
	for _, fn := range allModFuncs(p) {
		if !pk[pkgOfFunc(fn)] || fn.Synthetic != "" {
			continue
		}
		seen := map[string]bool{}
		for _, gs := range rewriteSitesOf(p, fn) {
			nrw++
			k := fnDisplay(fn) + "|" + gs.Name
			if seen[k] {
				continue
			}
			seen[k] = true
			r.add(rule, "rewrite-audited|"+k, p.ipos(gs.In), "the conditions under which a parsed value becomes "+gs.Name[len("rewrite:"):]+" in "+fnDisplay(fn)+" are audited (rows in tables/guards.tsv)", have[k],
				"a parsed value is replaced by a constant under conditions that were never audited: two different device spellings can end up equal")
		}
	}
	r.floor(rule, "conditional constant rewrites in the package", nrw, 7)
}

// isLogCall: errlog.Info / errlog.Warning / errlog.DoLog (messages; they neither end the run nor change data).
func isLogCall(in ssa.Instruction) bool {
	c, ok := in.(ssa.CallInstruction)
	if !ok {
		return false
	}
	f := c.Common().StaticCallee()
	if f == nil {
		return false
	}
	switch shortName(f) {
	case "errlog.Info", "errlog.Warning", "errlog.DoLog":
		return true
	}
	return false
}

// rewriteSitesOf: places where a value is conditionally replaced by a string constant: a phi
// (not at a loop header) that merges a string constant with other values.  Name "rewrite:<const>",
// Sig = the conditions under which the constant is taken.
// rewriteBools: also report bool flags (dump / flag audit only).
var rewriteBools = true

// rewriteComputed: also report string variables that are conditionally replaced by a computed value.
var rewriteComputed = true

func rewriteSitesOf(p *Prog, fn *ssa.Function) []guardSite {
	var out []guardSite
	// the session layer (device.go: dialogue, requests, message texts) is not planner or parser code
	if strings.HasSuffix(p.Fset.Position(fn.Pos()).Filename, "/device.go") {
		return nil
	}
	for _, b := range fn.Blocks {
		if naturalLoopBody(b) != nil {
			continue
		}
		for _, in := range b.Instrs {
			ph, ok := in.(*ssa.Phi)
			if !ok {
				break
			}
			isBoolT := false
			if bt, ok := ph.Type().Underlying().(*types.Basic); ok && bt.Kind() == types.Bool {
				isBoolT = true
				if ph.Comment == "&&" || ph.Comment == "||" {
					continue // the value of a short-circuit expression, not an assignment
				}
			}
			if !isStringType(ph.Type()) && !(isBoolT && rewriteBools) {
				continue
			}
			distinct := map[string]bool{}
			for _, e := range ph.Edges {
				if c, isC := e.(*ssa.Const); isC && c.Value != nil {
					distinct["c"+c.Value.ExactString()] = true
				} else {
					distinct[fmt.Sprintf("v%p", e)] = true
				}
			}
			if len(distinct) < 2 {
				continue
			}
			for i, e := range ph.Edges {
				c, isC := e.(*ssa.Const)
				cname := ""
				if isC && c.Value != nil {
					cname = c.Value.ExactString()
				} else if rewriteComputed && isStringType(ph.Type()) {
					// a computed replacement: concatenation or call result (not a plain variable / phi)
					switch e.(type) {
					case *ssa.BinOp, *ssa.Call:
						cname = descValue(e, 2)
					case *ssa.Extract:
						cname = descValue(e, 2)
					}
				}
				if cname == "" {
					continue
				}
				pr := b.Preds[i]
				var gl []string
				if n := len(pr.Instrs); n > 0 {
					gl = guardSet(pr.Instrs[n-1])
				}
				// the edge itself may be the deciding one
				if iff := ifOf(pr); iff != nil {
					k := 0
					if pr.Succs[1] == b {
						k = 1
					}
					if pr.Succs[0] != pr.Succs[1] {
						gl = append(gl, descCond(iff.Cond, k == 0))
					}
				}
				sort.Strings(gl)
				g := strings.Join(uniqStrings(gl), " && ")
				out = append(out, guardSite{fn, "rewrite:" + cname, ph, g})
			}
		}
	}
	return out
}

// ruleRewriteDiscipline: every conditional assignment of a constant to a string or bool variable
// (a phi that merges a constant with other values) in the packages lies at an audited site.
func ruleRewriteDiscipline(p *Prog, r *Report, rule, prop string, pkgs map[string]bool, floor int) {
	r.rule(rule, "Flag discipline: in the planner and parser packages of this property every place where a string or bool variable is conditionally given a constant (a phi outside loop headers that merges a constant with other values; short-circuit expressions excluded) is a row of tables/guards.tsv with the conditions under which the constant is taken (compared by the guard-table rule). A flag that is additionally cleared or set under a new condition (`not worthwhile, replace everything`, a special case widened to the un-negated spelling) changes which branch the planner takes without touching any call site.")
	have := map[string]bool{}
	for _, row := range readTable("guards.tsv", 5) {
		have[row[0]+"|"+row[1]] = true
	}
	n := 0
	for _, fn := range allModFuncs(p) {
		if !pkgs[pkgOfFunc(fn)] || fn.Synthetic != "" {
			continue
		}
		seen := map[string]bool{}
		for _, gs := range rewriteSitesOf(p, fn) {
			n++
			k := fnDisplay(fn) + "|" + gs.Name
			if seen[k] {
				continue
			}
			seen[k] = true
			r.add(rule, "rewrite-audited|"+k, p.ipos(gs.In), "the conditions under which a variable becomes "+gs.Name[len("rewrite:"):]+" in "+fnDisplay(fn)+" are audited (rows in tables/guards.tsv)", have[k],
				"a flag or value is set to a constant under conditions that were never audited")
		}
	}
	r.floor(rule, "conditional constant assignments", n, floor)
}

// isCmpFunc: an ordering function: two parameters of one type (after a receiver), one int result.
func isCmpFunc(fn *ssa.Function) bool {
	res := fn.Signature.Results()
	if res.Len() != 1 {
		return false
	}
	if b, ok := res.At(0).Type().Underlying().(*types.Basic); !ok || b.Info()&types.IsInteger == 0 {
		return false
	}
	ps := fn.Params
	if fn.Signature.Recv() != nil && len(ps) > 0 {
		ps = ps[1:]
	}
	if len(ps) != 2 || !types.Identical(ps[0].Type(), ps[1].Type()) {
		return false
	}
	// named functions and closures bound to a variable (the helpers that decide how two elements
	// compare); an inline literal that chains field comparisons is content by construction
	return fn.Parent() == nil || closureName(fn) != ""
}

// ruleOrderingAudited: the ordering functions that bring device and target into one canonical
// order before they are compared.
func ruleOrderingAudited(p *Prog, r *Report, rule, prop string, pkgs map[string]bool, floor int) {
	r.rule(rule, "Both sides are brought into one canonical order by content only: every ordering function of the package (two parameters of one type, int result: the functions given to slices.SortFunc and their helpers) has its verdicts audited — what is returned under which conditions (rows `return:...` of tables/guards.tsv). An ordering that falls back to names or ids, which are generated and differ between device and target, sorts equal content differently on the two sides and makes the diff report changes for ever.")
	have := map[string]bool{}
	for _, row := range readTable("guards.tsv", 5) {
		have[row[0]+"|"+row[1]] = true
	}
	n := 0
	for _, fn := range allModFuncs(p) {
		if !pkgs[pkgOfFunc(fn)] || fn.Synthetic != "" || !isCmpFunc(fn) || len(fn.Blocks) == 0 {
			continue
		}
		n++
		seen := map[string]bool{}
		for _, gs := range guardSitesOf(p, fn) {
			if !strings.HasPrefix(gs.Name, "return:") {
				continue
			}
			k := fnDisplay(fn) + "|" + gs.Name
			if seen[k] {
				continue
			}
			seen[k] = true
			r.add(rule, "ordering-audited|"+k, p.ipos(gs.In), "the verdict "+gs.Name[len("return:"):]+" of the ordering function "+fnDisplay(fn)+" is audited", have[k],
				"an ordering function returns a verdict that was never audited")
		}
	}
	r.floor(rule, "ordering functions", n, floor)
}

// emitSites: the call sites of the emitting helpers in package pkg.
func emitSites(p *Prog, pkg string, emitters map[string]bool) []guardSite {
	var out []guardSite
	for _, fn := range allModFuncs(p) {
		if pkgOfFunc(fn) != pkg || fn.Synthetic != "" || isNewHelper(rootOf(fn)) {
			continue
		}
		for _, gs := range guardSitesOf(p, fn) {
			if strings.HasPrefix(gs.Name, "call:") && emitters[gs.Name[len("call:"):]] {
				out = append(out, gs)
			}
		}
	}
	return out
}

// ruleEmitDiscipline: every call of an emitting helper lies at an audited function+site.
func ruleEmitDiscipline(p *Prog, r *Report, rule, prop, pkg string, emitters []string, floor int) {
	em := map[string]bool{}
	for _, e := range emitters {
		em[e] = true
	}
	have := map[string]bool{}
	for _, row := range readTable("guards.tsv", 5) {
		have[row[0]+"|"+row[1]] = true
	}
	seen := map[string]bool{}
	n := 0
	for _, gs := range emitSites(p, pkg, em) {
		n++
		k := fnDisplay(gs.Fn) + "|" + gs.Name
		if seen[k] {
			continue
		}
		seen[k] = true
		r.add(rule, "emit-audited|"+k, p.ipos(gs.In), "the conditions under which "+fnDisplay(gs.Fn)+" emits through "+gs.Name[len("call:"):]+" are audited (rows in tables/guards.tsv)", have[k],
			"a command is emitted at a place whose conditions were never audited")
	}
	r.floor(rule, "emitting calls of package "+pkg, n, floor)
}

func init() {
	dumpers["emitrows"] = func(p *Prog, m *Model) {
		em := map[string]bool{}
		for _, e := range strings.Split(os.Getenv("EMIT"), ",") {
			em[e] = true
		}
		have := map[string]bool{}
		for _, row := range readTable("guards.tsv", 5) {
			have[row[0]+"|"+row[1]] = true
		}
		for _, gs := range emitSites(p, os.Getenv("PKG"), em) {
			if !have[fnDisplay(gs.Fn)+"|"+gs.Name] {
				fmt.Printf("%s\t%s\t%s\tPROPS\tREASON\t# %s\n", fnDisplay(gs.Fn), gs.Name, gs.Sig, p.ipos(gs.In))
			}
		}
	}
}

func init() {
	dumpers["appendrows"] = func(p *Prog, m *Model) {
		have := map[string]bool{}
		for _, row := range readTable("guards.tsv", 5) {
			have[row[0]+"|"+row[1]] = true
		}
		for _, fn := range allModFuncs(p) {
			if pkgOfFunc(fn) != os.Getenv("PKG") || fn.Synthetic != "" {
				continue
			}
			if f := os.Getenv("FILE"); f != "" && !strings.HasSuffix(p.Fset.Position(fn.Pos()).Filename, f) {
				continue
			}
			for _, gs := range guardSitesOf(p, fn) {
				if gs.Name == "append" && !have[fnDisplay(fn)+"|append"] {
					fmt.Printf("%s\t%s\t%s\tPROPS\tREASON\t# %s\n", fnDisplay(fn), gs.Name, gs.Sig, p.ipos(gs.In))
				}
			}
		}
	}
}

// ruleAppendDiscipline: in the planner file of a package every append lies at an audited
// function (rows of kind `append`; their conditions are compared by the guard-table rule).
func ruleAppendDiscipline(p *Prog, r *Report, rule, pkg, file string, floor int) {
	r.rule(rule, "Emission discipline ("+pkg+"): the planner builds its list of commands / requests with append; every append in "+pkg+"/"+file+" lies in a function whose append sites are audited rows of tables/guards.tsv (conditions compared by R-G): what is written, deleted or moved under which conditions.")
	have := map[string]bool{}
	for _, row := range readTable("guards.tsv", 5) {
		have[row[0]+"|"+row[1]] = true
	}
	n := 0
	seen := map[string]bool{}
	for _, fn := range allModFuncs(p) {
		if pkgOfFunc(fn) != pkg || fn.Synthetic != "" || isNewHelper(rootOf(fn)) || !strings.HasSuffix(p.Fset.Position(fn.Pos()).Filename, "/"+file) {
			continue
		}
		for _, gs := range guardSitesOf(p, fn) {
			if gs.Name != "append" {
				continue
			}
			n++
			k := fnDisplay(fn) + "|append"
			if seen[k] {
				continue
			}
			seen[k] = true
			r.add(rule, "append-audited|"+fnDisplay(fn), p.ipos(gs.In), "the appends of "+fnDisplay(fn)+" are audited", have[k],
				"a list is extended at a place whose conditions were never audited (a new command, or a command under new conditions)")
		}
	}
	r.floor(rule, "appends in "+pkg+"/"+file, n, floor)
}

func dedupStrings(l []string) []string {
	seen := map[string]bool{}
	var out []string
	for _, x := range l {
		if !seen[x] {
			seen[x] = true
			out = append(out, x)
		}
	}
	return out
}
