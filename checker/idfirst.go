package main

// R-IDF: identity before emission.
//
// The Cisco planner prints a command from the object it was parsed into: the name and
// the sequence number in the printed line are the fields cmd.name / cmd.seq at the
// moment of printing.  Where a target command takes over the identity of a device
// command (b.name = a.name, b.seq = a.seq) this has to happen before anything is
// emitted for it or below it in the same pass: sub-commands are printed under their
// parent's line.  A store into an identity field that can be reached from an emitting
// call of the same function without going round a loop is reported unless audited.

import (
	"fmt"
	"sort"
	"strings"

	"golang.org/x/tools/go/ssa"
)

type lateIdentity struct {
	Fn    *ssa.Function
	Store *ssa.Store
	Field string
	After ssa.Instruction
}

// forwardReachNoBackEdge: instruction `to` can be reached from the instruction after
// `from` without taking a back edge (an edge into a block that dominates its source).
func forwardReachNoBackEdge(from, to ssa.Instruction) bool {
	fb, tb := from.Block(), to.Block()
	fi, ti := -1, -1
	for i, x := range fb.Instrs {
		if x == from {
			fi = i
		}
	}
	for i, x := range tb.Instrs {
		if x == to {
			ti = i
		}
	}
	if fb == tb && fi < ti {
		return true
	}
	seen := map[*ssa.BasicBlock]bool{}
	var walk func(b *ssa.BasicBlock) bool
	walk = func(b *ssa.BasicBlock) bool {
		for _, s := range b.Succs {
			if s.Dominates(b) && s.Dominates(tb) && blockReaches(tb, s) {
				continue // back edge of a loop the store stands in: that is the next pass
			}
			if s == tb {
				return true
			}
			if !seen[s] {
				seen[s] = true
				if walk(s) {
					return true
				}
			}
		}
		return false
	}
	return walk(fb)
}

func blockReaches(a, b *ssa.BasicBlock) bool {
	seen := map[*ssa.BasicBlock]bool{}
	var walk func(x *ssa.BasicBlock) bool
	walk = func(x *ssa.BasicBlock) bool {
		for _, s := range x.Succs {
			if s == b {
				return true
			}
			if !seen[s] {
				seen[s] = true
				if walk(s) {
					return true
				}
			}
		}
		return false
	}
	return walk(a)
}

func lateIdentitySites(p *Prog, pkgs map[string]bool, fields map[string]bool) []lateIdentity {
	emit := p.Fn("(*cisco.State).addChange")
	if emit == nil {
		return nil
	}
	cg := p.CG()
	emits := map[*ssa.Function]bool{}
	known := map[*ssa.Function]bool{}
	doesEmit := func(f *ssa.Function) bool {
		if known[f] {
			return emits[f]
		}
		known[f] = true
		emits[f] = f == emit || reachFrom(cg, []*ssa.Function{f}, nil)[emit]
		return emits[f]
	}
	var out []lateIdentity
	for _, fn := range allModFuncs(p) {
		if !pkgs[pkgOfFunc(fn)] || fn.Synthetic != "" {
			continue
		}
		var stores []*ssa.Store
		for _, b := range fn.Blocks {
			for _, in := range b.Instrs {
				if st, ok := in.(*ssa.Store); ok {
					if fa, ok := st.Addr.(*ssa.FieldAddr); ok && fields[fieldName(fa)] {
						stores = append(stores, st)
					}
				}
			}
		}
		if len(stores) == 0 {
			continue
		}
		var emitters []ssa.Instruction
		for _, cs := range callsOf(fn) {
			if cs.Defer {
				continue
			}
			for _, cal := range calleesOfSite(p, cs) {
				if isModFunc(cal) && doesEmit(cal) {
					emitters = append(emitters, cs.In)
					break
				}
			}
		}
		for _, st := range stores {
			for _, e := range emitters {
				if forwardReachNoBackEdge(e, st) {
					out = append(out, lateIdentity{fn, st, fieldName(st.Addr.(*ssa.FieldAddr)), e})
					break
				}
			}
		}
	}
	return out
}

func ruleIdentityFirst(p *Prog, r *Report, rule, prop string, floor int) {
	r.rule(rule, "Identity before emission (Cisco planner): a command is printed from its fields name and seq at the moment of printing, and sub-commands are printed under their parent's line. A store into cmd.name / cmd.seq that can be reached, without going round a loop, from a call of the same function that emits commands is audited (tables/idfirst_audit.tsv) or reported: what was emitted before the store carries the old identity (the target's sequence number instead of the device's).")
	want := map[string]string{}
	for _, row := range readTable("idfirst_audit.tsv", 4) {
		if propListed(row[2], prop) {
			want[row[0]+"|"+row[1]] = row[3]
		}
	}
	sites := lateIdentitySites(p, map[string]bool{"cisco": true}, map[string]bool{"cisco.cmd.name": true, "cisco.cmd.seq": true})
	seen := map[string]bool{}
	var keys []string
	pos := map[string]string{}
	after := map[string]string{}
	for _, s := range sites {
		k := fnDisplay(s.Fn) + "|" + s.Field
		if !seen[k] {
			seen[k] = true
			keys = append(keys, k)
			pos[k] = p.ipos(s.Store)
			after[k] = p.ipos(s.After)
		}
	}
	sort.Strings(keys)
	for _, k := range keys {
		why, ok := want[k]
		r.add(rule, "late-identity|"+k, pos[k], fmt.Sprintf("store into %s after an emitting call (%s) is audited (%s)", strings.SplitN(k, "|", 2)[1], after[k], why), ok,
			"commands emitted at "+after[k]+" in the same pass are printed with the identity the object had before this store")
	}
	// the stores that come first are the evidence
	n := 0
	for _, fn := range allModFuncs(p) {
		if pkgOfFunc(fn) != "cisco" || fn.Synthetic != "" {
			continue
		}
		for _, b := range fn.Blocks {
			for _, in := range b.Instrs {
				if st, ok := in.(*ssa.Store); ok {
					if fa, ok := st.Addr.(*ssa.FieldAddr); ok {
						switch fieldName(fa) {
						case "cisco.cmd.name", "cisco.cmd.seq":
							n++
						}
					}
				}
			}
		}
	}
	r.floor(rule, "stores into cmd.name / cmd.seq examined", n, floor)
}

func init() {
	dumpers["idfirst"] = func(p *Prog, m *Model) {
		for _, s := range lateIdentitySites(p, map[string]bool{"cisco": true}, map[string]bool{"cisco.cmd.name": true, "cisco.cmd.seq": true}) {
			fmt.Printf("%s\t%s\tPROPS\tREASON\t# store %s after %s\n", fnDisplay(s.Fn), s.Field, p.ipos(s.Store), p.ipos(s.After))
		}
	}
}
