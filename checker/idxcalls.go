package main

// R20.9: index arguments of library functions that panic on a negative index.
//
// slices.Insert / Delete / Replace panic when an index is out of range; the compiler's
// bounds-check list (R20.2) sees only index and slice expressions of the module itself.
// An index argument that comes from a counter which is decremented (a backwards search)
// can be -1 unless every decrement happens under a test that the counter is positive,
// or the value is clamped / tested against 0 before the call.

import (
	"fmt"
	"go/token"

	"golang.org/x/tools/go/ssa"
)

// cmpZero: cond is `v OP 0` (or `0 OP v`) for the given value; returns the edge (0 true, 1
// false) on which v >= 0 holds, or -1.
func nonNegEdge(cond ssa.Value, v ssa.Value) int {
	bo, ok := cond.(*ssa.BinOp)
	if !ok {
		return -1
	}
	x, y, op := bo.X, bo.Y, bo.Op
	if k, isC := constInt(x); isC && y == v {
		// k OP v  ->  v OP' k
		x, y = y, x
		switch op {
		case token.LSS:
			op = token.GTR
		case token.LEQ:
			op = token.GEQ
		case token.GTR:
			op = token.LSS
		case token.GEQ:
			op = token.LEQ
		}
		_ = k
	}
	if x != v {
		return -1
	}
	k, isC := constInt(y)
	if !isC {
		return -1
	}
	switch {
	case op == token.GEQ && k >= 0, op == token.GTR && k >= -1, op == token.EQL && k >= 0:
		return 0
	case op == token.LSS && k <= 0, op == token.LEQ && k <= -1:
		return 1
	}
	return -1
}

// positiveEdgeOf: the edge on which v >= c holds (c > 0), for `v > 0`, `v >= 1`, ...
func atLeastEdge(cond ssa.Value, v ssa.Value, c int64) int {
	bo, ok := cond.(*ssa.BinOp)
	if !ok || bo.X != v {
		return -1
	}
	k, isC := constInt(bo.Y)
	if !isC {
		return -1
	}
	switch {
	case bo.Op == token.GTR && k >= c-1, bo.Op == token.GEQ && k >= c:
		return 0
	case bo.Op == token.LEQ && k >= c-1, bo.Op == token.LSS && k >= c:
		return 1
	}
	return -1
}

// provedNonNegative: v cannot be negative where `use` executes.
func provedNonNegative(fn *ssa.Function, v ssa.Value, use *ssa.BasicBlock, depth int, seen map[ssa.Value]bool) bool {
	if depth > 10 {
		return false
	}
	if k, ok := constInt(v); ok {
		return k >= 0
	}
	if seen[v] {
		return true // a cycle through a phi: judged by its other edges
	}
	seen[v] = true
	// tested against 0 on every way to the use
	for _, d := range fn.Blocks {
		i := ifOf(d)
		if i == nil {
			continue
		}
		if k := nonNegEdge(i.Cond, v); k >= 0 && edgeDominates(d, k, use) {
			return true
		}
	}
	switch x := v.(type) {
	case *ssa.Call:
		if b, ok := x.Common().Value.(*ssa.Builtin); ok && (b.Name() == "len" || b.Name() == "cap") {
			return true
		}
		if f := x.Common().StaticCallee(); f != nil {
			switch shortName(f) {
			case "strings.Count", "bytes.Count", "utf8.RuneCountInString":
				return true
			}
		}
	case *ssa.Convert:
		return provedNonNegative(fn, x.X, use, depth+1, seen)
	case *ssa.BinOp:
		switch x.Op {
		case token.ADD, token.MUL:
			return provedNonNegative(fn, x.X, use, depth+1, seen) && provedNonNegative(fn, x.Y, use, depth+1, seen)
		case token.SUB:
			c, isC := constInt(x.Y)
			if !isC || c < 0 {
				return false
			}
			// the decrement happens only where the counter is at least c
			for _, d := range fn.Blocks {
				i := ifOf(d)
				if i == nil {
					continue
				}
				if k := atLeastEdge(i.Cond, x.X, c); k >= 0 && edgeDominates(d, k, x.Block()) {
					return true
				}
			}
			return false
		}
	case *ssa.Phi:
		for k, e := range x.Edges {
			pred := x.Block().Preds[k]
			if provedNonNegative(fn, e, pred, depth+1, seen) {
				continue
			}
			// clamp: this edge comes straight from a test of e against 0
			ok := false
			if i := ifOf(pred); i != nil {
				if ne := nonNegEdge(i.Cond, e); ne >= 0 && pred.Succs[ne] == x.Block() {
					ok = true
				}
			}
			if !ok {
				return false
			}
		}
		return true
	}
	return false
}

func ruleIndexCalls(p *Prog, r *Report) {
	r.rule("R20.9", "Index arguments of library functions that panic on a negative index (slices.Insert, slices.Delete, slices.Replace) cannot be negative at the call: constants, len/cap, sums of such, counters whose every decrement stands under a test that the counter is large enough (`for i > 0 { ... i-- }`), values tested against 0 on every way to the call, or a clamp (`if i < 0 { i = 0 }`). The compiler's bounds-check list (R20.2) does not see inside library functions; a backwards search that ends at -1 and feeds slices.Insert crashes with `slice bounds out of range [-1:]`.")
	n := 0
	for _, fn := range allModFuncs(p) {
		for _, cs := range callsOf(fn) {
			if cs.Static == nil {
				continue
			}
			var idx []int
			name := rawShortName(cs.Static)
			if o := cs.Static.Origin(); o != nil {
				name = rawShortName(o)
			}
			switch name {
			case "slices.Insert":
				idx = []int{1}
			case "slices.Delete", "slices.Replace":
				idx = []int{1, 2}
			default:
				continue
			}
			args := cs.In.Common().Args
			for _, k := range idx {
				if k >= len(args) {
					continue
				}
				n++
				ok := provedNonNegative(fn, args[k], cs.In.Block(), 0, map[ssa.Value]bool{})
				r.add("R20.9", fmt.Sprintf("index-arg|%s|%s|%d", fnDisplay(fn), name, k), p.ipos(cs.In), fmt.Sprintf("argument %d of %s in %s cannot be negative", k, name, fnDisplay(fn)), ok,
					"the index can be negative at this call (a counter that is decremented without a test that keeps it at 0, no clamp): the library function panics with `slice bounds out of range`")
			}
		}
	}
	r.floor("R20.9", "index arguments of slices.Insert / Delete / Replace", n, 1)
}

// ruleMustCalls (R20.10): library functions that panic instead of returning an error.
func ruleMustOnConstants(p *Prog, r *Report) {
	r.rule("R20.10", "Library functions named Must* (regexp.MustCompile, netip.MustParsePrefix, template.Must, ...) panic where their sibling returns an error. In production code they are called with constant arguments only (a wrong constant fails in every run and every test; a pattern of constants and regexp.QuoteMeta results always compiles; a parameter counts when every caller passes such a value), never with text that comes from a configuration file, the device or the command line: such a panic is not an errlog abort, the process ends with a stack trace and exit status 2.")
	n := 0
	for _, fn := range allModFuncs(p) {
		for _, cs := range callsOf(fn) {
			f := cs.Static
			if f == nil || isModFunc(f) || f.Pkg == nil {
				continue
			}
			g := f
			if o := f.Origin(); o != nil {
				g = o
			}
			if len(g.Name()) < 5 || g.Name()[:4] != "Must" {
				continue
			}
			n++
			bad := ""
			var okArg func(a ssa.Value, in *ssa.Function, d int) bool
			okArg = func(a ssa.Value, in *ssa.Function, d int) bool {
				if _, ok := constString(a); ok {
					return true
				}
				if quotedPattern(a, 0) {
					return true // constants and regexp.QuoteMeta results: always compiles
				}
				par, isP := a.(*ssa.Parameter)
				if !isP || d > 2 {
					return false
				}
				// handed through: every caller passes such a value
				idx := -1
				for i, q := range in.Params {
					if q == par {
						idx = i
					}
				}
				callers := callersOf(p.CG(), in)
				if idx < 0 || len(callers) == 0 {
					return false
				}
				for _, e := range callers {
					if e.Site == nil || idx >= len(e.Site.Common().Args) || !okArg(e.Site.Common().Args[idx], e.Caller.Func, d+1) {
						return false
					}
				}
				return true
			}
			for _, a := range cs.In.Common().Args {
				if isStringType(a.Type()) && !okArg(a, fn, 0) {
					bad = descValue(a, 0)
				}
			}
			r.add("R20.10", fmt.Sprintf("must-call|%s|%s", fnDisplay(fn), rawShortName(g)), p.ipos(cs.In), rawShortName(g)+" in "+fnDisplay(fn)+" is called with constants", bad == "",
				"the argument "+bad+" is computed: input that the function rejects ends the process with a panic")
		}
	}
	r.floor("R20.10", "calls of library Must* functions", n, 5)
}
