package main

// Loading of /repo/go: type-checked syntax for all packages reachable from the
// four cmd mains, go/ssa with instantiated generics, VTA call graph.

import (
	"strconv"
	"crypto/sha1"
	"fmt"
	"go/ast"
	"go/token"
	"go/types"
	"io"
	"os"
	"path/filepath"
	"sort"
	"strings"

	"golang.org/x/tools/go/callgraph"
	"golang.org/x/tools/go/callgraph/cha"
	"golang.org/x/tools/go/callgraph/vta"
	"golang.org/x/tools/go/packages"
	"golang.org/x/tools/go/ssa"
	"golang.org/x/tools/go/ssa/ssautil"
)

const modPath = "github.com/hknutzen/Netspoc-Approve/go"

type Prog struct {
	RepoDir string // /repo
	GoDir   string // /repo/go
	Fset    *token.FileSet
	All     []*packages.Package          // every loaded package (deps included)
	Mod     map[string]*packages.Package // module packages by short path ("pkg/device" -> "device", "cmd/drc")
	SSA     *ssa.Program
	SSAPkg  map[string]*ssa.Package // by short path
	Funcs   map[string]*ssa.Function
	// every function of module packages incl. anonymous ones, methods.
	ModFuncs []*ssa.Function
	cg       *callgraph.Graph
	chaCG    *callgraph.Graph
	Refined  []string // log of parameter-call refinements
	// Via: for a function f passed as argument to a module function H that calls
	// its parameter: the call instructions inside H that invoke f.
	Via map[*ssa.Function][]ssa.CallInstruction
	// ParamCallees: for a call of a function-typed parameter inside H, the
	// functions the callers pass (edges that the refinement moved to the callers)
	ParamCallees map[ssa.CallInstruction][]*ssa.Function
}

func shortPath(p string) string {
	p = strings.TrimPrefix(p, modPath+"/pkg/")
	p = strings.TrimPrefix(p, modPath+"/")
	return p
}

// shortName gives the go/ssa name of a function with the module prefix removed:
// "(*device.state).approve", "device.ApproveOrCompare$1", "cmd/drc.main".
// renamedFn: functions of /repo that were renamed since the audit, with the name they are
// audited under (tables, anchors in the checker).  Filled by matchRenamedFunctions.
var renamedFn = map[*ssa.Function]string{}

func rawShortName(fn *ssa.Function) string {
	s := fn.String()
	s = strings.ReplaceAll(s, modPath+"/pkg/", "")
	s = strings.ReplaceAll(s, modPath+"/", "")
	return s
}

func shortName(fn *ssa.Function) string {
	if len(renamedFn) > 0 {
		if s, ok := renamedFn[fn]; ok {
			return s
		}
		root := fn
		for root.Parent() != nil {
			root = root.Parent()
		}
		if s, ok := renamedFn[root]; ok && root != fn {
			return s + strings.TrimPrefix(rawShortName(fn), rawShortName(root))
		}
	}
	return rawShortName(fn)
}

// fnFingerprint: a digest of the body of a top-level function (and its closures) that does
// not contain the function's own name: instruction kinds, callees, constants, field names.
func fnFingerprint(fn *ssa.Function) string {
	h := sha1.New()
	self := rawShortName(fn)
	var visit func(f *ssa.Function)
	visit = func(f *ssa.Function) {
		fmt.Fprintf(h, "F%d/%d;", len(f.Params), len(f.Blocks))
		for _, b := range f.Blocks {
			fmt.Fprintf(h, "B%d>%d;", b.Index, len(b.Succs))
			for _, in := range b.Instrs {
				fmt.Fprintf(h, "%T,", in)
				switch x := in.(type) {
				case ssa.CallInstruction:
					if c := x.Common().StaticCallee(); c != nil {
						root := c
						for root.Parent() != nil {
							root = root.Parent()
						}
						if n := rawShortName(root); n != self {
							io.WriteString(h, rawShortName(c))
						}
					} else if x.Common().IsInvoke() {
						io.WriteString(h, x.Common().Method.Name())
					}
				case *ssa.FieldAddr:
					fmt.Fprintf(h, "f%d", x.Field)
				case *ssa.Field:
					fmt.Fprintf(h, "f%d", x.Field)
				}
				for _, op := range in.Operands(nil) {
					if op == nil || *op == nil {
						continue
					}
					if c, ok := (*op).(*ssa.Const); ok && c.Value != nil {
						io.WriteString(h, c.Value.ExactString())
					}
				}
				io.WriteString(h, ";")
			}
		}
		for _, a := range f.AnonFuncs {
			visit(a)
		}
	}
	visit(fn)
	return fmt.Sprintf("%x", h.Sum(nil))[:20]
}

// matchRenamedFunctions: a name of tables/fn_fingerprints.tsv that no function carries any
// more is given to the one function of the same package with that fingerprint whose own
// name is not in the table (a pure rename).  Anything else stays unmatched, and the rules
// that look for the audited name report it as missing.
// auditedFnNames: the top-level functions of the audited tree (names of tables/fn_fingerprints.tsv).
var auditedFnNames map[string]bool

func matchRenamedFunctions(p *Prog) {
	renamedFn = map[*ssa.Function]string{}
	renamedRaw = map[string]string{}
	fn := filepath.Join(verifDir(), "tables", "fn_fingerprints.tsv")
	data, err := os.ReadFile(fn)
	if err != nil {
		return
	}
	want := map[string]string{}
	auditedFnNames = map[string]bool{}
	for _, line := range strings.Split(string(data), "\n") {
		f := strings.Split(line, "\t")
		if len(f) == 2 && !strings.HasPrefix(line, "#") {
			want[f[0]] = f[1]
			auditedFnNames[f[0]] = true
		}
	}
	cur := map[string]*ssa.Function{}
	for _, f := range p.ModFuncs {
		if f.Parent() == nil {
			cur[rawShortName(f)] = f
		}
	}
	var missing []string
	for n := range want {
		if cur[n] == nil {
			missing = append(missing, n)
		}
	}
	if len(missing) == 0 {
		return
	}
	sort.Strings(missing)
	byFP := map[string][]*ssa.Function{}
	for n, f := range cur {
		if _, known := want[n]; known || len(f.Blocks) == 0 {
			continue
		}
		key := pkgOfFunc(f) + "|" + fnFingerprint(f)
		byFP[key] = append(byFP[key], f)
	}
	claimed := map[*ssa.Function]bool{}
	for _, n := range missing {
		pk := n
		pk = strings.TrimLeft(pk, "(*")
		if i := strings.IndexAny(pk, ".)"); i >= 0 {
			pk = pk[:i]
		}
		c := byFP[pk+"|"+want[n]]
		if len(c) == 1 && !claimed[c[0]] {
			claimed[c[0]] = true
			renamedFn[c[0]] = n
			renamedRaw[rawShortName(c[0])] = n
		}
	}
	if len(renamedFn) > 0 {
		// rebuild the name index under the audited names
		p.Funcs = map[string]*ssa.Function{}
		for _, f := range p.ModFuncs {
			p.Funcs[shortName(f)] = f
		}
		sort.Slice(p.ModFuncs, func(i, j int) bool { return shortName(p.ModFuncs[i]) < shortName(p.ModFuncs[j]) })
	}
}

func isModPkgPath(p string) bool {
	return p == modPath || strings.HasPrefix(p, modPath+"/")
}

// production packages: everything of the module except test helpers.
func isProdPkgPath(p string) bool {
	if !isModPkgPath(p) {
		return false
	}
	return !strings.HasPrefix(p, modPath+"/test")
}

func repoDir() string {
	if d := os.Getenv("VERIF_REPO"); d != "" {
		return d
	}
	return "/repo"
}

func loadProg(needSSA bool) (*Prog, error) {
	p := &Prog{RepoDir: repoDir()}
	p.GoDir = filepath.Join(p.RepoDir, "go")
	p.Fset = token.NewFileSet()
	env := []string{}
	for _, e := range os.Environ() {
		if strings.HasPrefix(e, "GOWORK=") || strings.HasPrefix(e, "GOFLAGS=") {
			continue
		}
		env = append(env, e)
	}
	env = append(env, "GOWORK=off", "GOFLAGS=", "GOPROXY=off", "GOSUMDB=off", "GOTOOLCHAIN=local")
	mode := packages.LoadAllSyntax
	cfg := &packages.Config{
		Mode:  mode,
		Dir:   p.GoDir,
		Fset:  p.Fset,
		Env:   env,
		Tests: false,
	}
	pkgs, err := packages.Load(cfg, "./pkg/...", "./cmd/...")
	if err != nil {
		return nil, fmt.Errorf("packages.Load: %v", err)
	}
	if len(pkgs) == 0 {
		return nil, fmt.Errorf("no packages loaded from %s", p.GoDir)
	}
	nerr := 0
	packages.Visit(pkgs, nil, func(pk *packages.Package) {
		p.All = append(p.All, pk)
		for _, e := range pk.Errors {
			fmt.Fprintf(os.Stderr, "load error: %s: %v\n", pk.PkgPath, e)
			nerr++
		}
	})
	if nerr > 0 {
		return nil, fmt.Errorf("%d load/type errors", nerr)
	}
	p.Mod = map[string]*packages.Package{}
	for _, pk := range p.All {
		if isProdPkgPath(pk.PkgPath) {
			p.Mod[shortPath(pk.PkgPath)] = pk
		}
	}
	if len(p.Mod) < 21 {
		return nil, fmt.Errorf("only %d production packages loaded, expected >= 21", len(p.Mod))
	}
	if !needSSA {
		return p, nil
	}
	prog, _ := ssautil.AllPackages(pkgs, ssa.InstantiateGenerics)
	prog.Build()
	p.SSA = prog
	p.SSAPkg = map[string]*ssa.Package{}
	p.Funcs = map[string]*ssa.Function{}
	for _, sp := range prog.AllPackages() {
		if sp.Pkg == nil || !isProdPkgPath(sp.Pkg.Path()) {
			continue
		}
		p.SSAPkg[shortPath(sp.Pkg.Path())] = sp
	}
	all := ssautil.AllFunctions(prog)
	// methods of every module type, also of a type nothing uses yet (AllFunctions only has
	// the methods of types that reach an interface)
	for _, sp := range p.SSAPkg {
		for _, mem := range sp.Members {
			tm, ok := mem.(*ssa.Type)
			if !ok || types.IsInterface(tm.Type()) {
				continue
			}
			named, ok := tm.Type().(*types.Named)
			if !ok || named.TypeParams() != nil {
				continue
			}
			for _, T := range []types.Type{named, types.NewPointer(named)} {
				ms := prog.MethodSets.MethodSet(T)
				for i := 0; i < ms.Len(); i++ {
					if f := prog.MethodValue(ms.At(i)); f != nil {
						all[f] = true
					}
				}
			}
		}
	}
	for fn := range all {
		if fn.Pkg == nil || fn.Pkg.Pkg == nil || !isProdPkgPath(fn.Pkg.Pkg.Path()) {
			// instantiated generics of other packages, wrappers: pkg may be nil
			continue
		}
		if fn.Synthetic != "" && !strings.HasPrefix(fn.Synthetic, "package initializer") {
			// keep synthetic wrappers out of the named index but they stay in the call graph
			continue
		}
		p.ModFuncs = append(p.ModFuncs, fn)
		p.Funcs[shortName(fn)] = fn
	}
	sort.Slice(p.ModFuncs, func(i, j int) bool { return shortName(p.ModFuncs[i]) < shortName(p.ModFuncs[j]) })
	matchRenamedFunctions(p)
	matchRenamedFields(p)
	return p, nil
}

// CG returns the VTA call graph (seeded with CHA), built lazily.
func (p *Prog) CG() *callgraph.Graph {
	if p.cg == nil {
		p.chaCG = cha.CallGraph(p.SSA)
		p.cg = vta.CallGraph(ssautil.AllFunctions(p.SSA), p.chaCG)
		p.Via = map[*ssa.Function][]ssa.CallInstruction{}
		p.ParamCallees = map[ssa.CallInstruction][]*ssa.Function{}
		p.Refined = refineParamCalls(p.cg, p.Via, p.ParamCallees)
	}
	return p.cg
}

// refineParamCalls makes calls of function-typed parameters context sensitive
// by one level: in a module function H that calls its own parameter f (e.g.
// errlog.HandleAbort(f), httpdevice.TryReachableHTTPLogin(.., login),
// panos.processVsysPairs(.., f)), VTA gives H -> every function ever passed.
// If every caller of H passes a statically known function (closure literal or
// named function) for f, the edges H -> * of that call site are replaced by
// direct edges caller -> passed function, attached to the caller's call site.
// Otherwise the VTA edges are kept (sound fallback).
func refineParamCalls(cg *callgraph.Graph, via map[*ssa.Function][]ssa.CallInstruction, pc map[ssa.CallInstruction][]*ssa.Function) []string {
	var log []string
	type job struct {
		h    *callgraph.Node
		site ssa.CallInstruction
		idx  int
	}
	var jobs []job
	for fn, n := range cg.Nodes {
		if fn == nil || !isModFunc(fn) || fn.Parent() != nil {
			continue
		}
		for _, b := range fn.Blocks {
			for _, in := range b.Instrs {
				ci, ok := in.(ssa.CallInstruction)
				if !ok || ci.Common().IsInvoke() {
					continue
				}
				par, ok := ci.Common().Value.(*ssa.Parameter)
				if !ok {
					continue
				}
				for i, q := range fn.Params {
					if q == par {
						jobs = append(jobs, job{n, ci, i})
					}
				}
			}
		}
	}
	sort.Slice(jobs, func(i, j int) bool { return shortName(jobs[i].h.Func) < shortName(jobs[j].h.Func) })
	for _, j := range jobs {
		type add struct {
			caller *callgraph.Node
			site   ssa.CallInstruction
			fn     *ssa.Function
		}
		var adds []add
		ok := len(j.h.In) > 0
		for _, e := range j.h.In {
			if e.Site == nil || e.Site.Common().IsInvoke() || e.Site.Common().StaticCallee() != j.h.Func {
				ok = false
				break
			}
			arg := e.Site.Common().Args[j.idx]
			var fns []*ssa.Function
			for _, rt := range valueRoots(arg) {
				switch x := rt.(type) {
				case *ssa.MakeClosure:
					fns = append(fns, x.Fn.(*ssa.Function))
				case *ssa.Function:
					fns = append(fns, x)
				default:
					ok = false
				}
			}
			if !ok {
				break
			}
			for _, f := range fns {
				adds = append(adds, add{e.Caller, e.Site, f})
			}
		}
		if !ok {
			continue
		}
		// remove H -> * edges of this site
		var keep []*callgraph.Edge
		for _, e := range j.h.Out {
			if e.Site == j.site {
				// unlink from callee's In
				var in2 []*callgraph.Edge
				for _, x := range e.Callee.In {
					if x != e {
						in2 = append(in2, x)
					}
				}
				e.Callee.In = in2
				continue
			}
			keep = append(keep, e)
		}
		j.h.Out = keep
		for _, a := range adds {
			callgraph.AddEdge(a.caller, a.site, cg.CreateNode(a.fn))
			via[a.fn] = append(via[a.fn], j.site)
			pc[j.site] = append(pc[j.site], a.fn)
		}
		log = append(log, fmt.Sprintf("%s: parameter call resolved per caller (%d caller edges)", shortName(j.h.Func), len(adds)))
	}
	return log
}

// Fn looks a function up by its short go/ssa name; nil if absent.
func (p *Prog) Fn(name string) *ssa.Function { return p.Funcs[name] }

func (p *Prog) pos(pos token.Pos) string {
	if !pos.IsValid() {
		return "-"
	}
	ps := p.Fset.Position(pos)
	f := ps.Filename
	if rel, err := filepath.Rel(p.RepoDir, f); err == nil && !strings.HasPrefix(rel, "..") {
		f = rel
	}
	return fmt.Sprintf("%s:%d", f, ps.Line)
}

// instrPos gives the best position for an SSA instruction.
func (p *Prog) ipos(in ssa.Instruction) string {
	pos := in.Pos()
	if !pos.IsValid() {
		if v, ok := in.(ssa.Value); ok {
			pos = v.Pos()
		}
	}
	if !pos.IsValid() && in.Parent() != nil {
		pos = in.Parent().Pos()
	}
	return p.pos(pos)
}

// prodFiles iterates over the syntax of all production packages, sorted.
func (p *Prog) prodPkgs() []*packages.Package {
	var l []*packages.Package
	for _, pk := range p.Mod {
		l = append(l, pk)
	}
	sort.Slice(l, func(i, j int) bool { return l[i].PkgPath < l[j].PkgPath })
	return l
}

// enclosingFuncName returns "pkg.Func" / "pkg.(*T).M" for the declaration that
// encloses pos in file f, plus closure nesting "$lit".
func enclosingDecl(f *ast.File, pos token.Pos) *ast.FuncDecl {
	for _, d := range f.Decls {
		if fd, ok := d.(*ast.FuncDecl); ok && fd.Pos() <= pos && pos <= fd.End() {
			return fd
		}
	}
	return nil
}

func declName(pk *packages.Package, fd *ast.FuncDecl) string {
	if fd == nil {
		return shortPath(pk.PkgPath) + ".<init>"
	}
	obj, _ := pk.TypesInfo.Defs[fd.Name].(*types.Func)
	if obj == nil {
		return shortPath(pk.PkgPath) + "." + fd.Name.Name
	}
	return objFuncName(obj)
}

// objFuncName formats a *types.Func like go/ssa does, with short paths.
func objFuncName(obj *types.Func) string {
	n := objFuncNameRaw(obj)
	if a, ok := renamedRaw[n]; ok {
		return a
	}
	return n
}

// renamedRaw: current name -> audited name of the renamed functions (see matchRenamedFunctions).
var renamedRaw = map[string]string{}

func objFuncNameRaw(obj *types.Func) string {
	sig := obj.Type().(*types.Signature)
	pkg := ""
	if obj.Pkg() != nil {
		pkg = shortPath(obj.Pkg().Path())
	}
	if recv := sig.Recv(); recv != nil {
		t := recv.Type()
		ptr := false
		if pt, ok := t.(*types.Pointer); ok {
			ptr = true
			t = pt.Elem()
		}
		name := "?"
		if nt, ok := t.(*types.Named); ok {
			name = nt.Obj().Name()
			if nt.Obj().Pkg() != nil {
				pkg = shortPath(nt.Obj().Pkg().Path())
			}
		} else if _, ok := t.Underlying().(*types.Interface); ok {
			name = types.TypeString(t, func(p *types.Package) string { return shortPath(p.Path()) })
			return "(" + name + ")." + obj.Name()
		}
		if ptr {
			return "(*" + pkg + "." + name + ")." + obj.Name()
		}
		return "(" + pkg + "." + name + ")." + obj.Name()
	}
	return pkg + "." + obj.Name()
}

// fieldAlias: struct fields of /repo that were renamed since the audit, with the name they are
// audited under.  Filled by matchRenamedFields from tables/struct_fields.tsv.
var fieldAlias = map[string]string{} // by source position of the declaration (file:line:col): the same field in every variant of its package

var fieldAliasFset *token.FileSet

func fldName(v *types.Var) string {
	if len(fieldAlias) > 0 && v.IsField() && fieldAliasFset != nil {
		if a, ok := fieldAlias[fieldAliasFset.Position(v.Pos()).String()]; ok {
			return a
		}
	}
	return v.Name()
}

// structFieldRows: "pkg.Type<TAB>index<TAB>name<TAB>type" for every field of every named struct
// type of the module's production packages.
func structFieldRows(p *Prog) []string {
	var out []string
	for _, pk := range p.prodPkgs() {
		if pk.Types == nil || !isProdPkgPath(pk.PkgPath) {
			continue
		}
		sc := pk.Types.Scope()
		for _, n := range sc.Names() {
			tn, ok := sc.Lookup(n).(*types.TypeName)
			if !ok {
				continue
			}
			st, ok := tn.Type().Underlying().(*types.Struct)
			if !ok {
				continue
			}
			for i := 0; i < st.NumFields(); i++ {
				out = append(out, fmt.Sprintf("%s.%s\t%d\t%s\t%s", shortPath(pk.PkgPath), n, i, st.Field(i).Name(), typeShort(st.Field(i).Type())))
			}
		}
	}
	sort.Strings(out)
	// a package with in-package tests is loaded in two variants: one row per field
	var uniq []string
	for i, l := range out {
		if i == 0 || l != out[i-1] {
			uniq = append(uniq, l)
		}
	}
	return uniq
}

// matchRenamedFields: a struct type whose recorded fields and current fields agree in number and,
// position by position, in type, but differ in some names, had those fields renamed: the checks
// go on using the audited names.  Any other change of the struct is not matched.
func matchRenamedFields(p *Prog) {
	fieldAlias = map[string]string{}
	fieldAliasFset = p.Fset
	data, err := os.ReadFile(filepath.Join(verifDir(), "tables", "struct_fields.tsv"))
	if err != nil {
		return
	}
	type rec struct{ name, typ string }
	want := map[string][]rec{}
	for _, line := range strings.Split(string(data), "\n") {
		f := strings.Split(line, "\t")
		if len(f) != 4 || strings.HasPrefix(line, "#") {
			continue
		}
		idx, err := strconv.Atoi(f[1])
		if err != nil || idx < 0 || idx > 1000 {
			continue
		}
		for len(want[f[0]]) <= idx {
			want[f[0]] = append(want[f[0]], rec{})
		}
		want[f[0]][idx] = rec{f[2], f[3]}
	}
	for _, pk := range p.prodPkgs() {
		if pk.Types == nil || !isProdPkgPath(pk.PkgPath) {
			continue
		}
		sc := pk.Types.Scope()
		for _, n := range sc.Names() {
			tn, ok := sc.Lookup(n).(*types.TypeName)
			if !ok {
				continue
			}
			st, ok := tn.Type().Underlying().(*types.Struct)
			if !ok {
				continue
			}
			w := want[shortPath(pk.PkgPath)+"."+n]
			if len(w) != st.NumFields() {
				continue
			}
			same := true
			var renamed []int
			for i := 0; i < st.NumFields(); i++ {
				if typeShort(st.Field(i).Type()) != w[i].typ {
					same = false
				}
				if st.Field(i).Name() != w[i].name {
					renamed = append(renamed, i)
				}
			}
			if !same || len(renamed) == 0 {
				continue
			}
			// the old names must not be in use for other fields of the struct now
			cur := map[string]bool{}
			for i := 0; i < st.NumFields(); i++ {
				cur[st.Field(i).Name()] = true
			}
			for _, i := range renamed {
				if !cur[w[i].name] {
					fieldAlias[p.Fset.Position(st.Field(i).Pos()).String()] = w[i].name
				}
			}
		}
	}
}
