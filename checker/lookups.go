package main

import (
	"fmt"
	"go/token"
	"sort"
	"strings"

	"golang.org/x/tools/go/ssa"
)

// R-LK: which maps a planner function consults (lookupsOf in memo.go).
func ruleLookupsAudited(p *Prog, r *Report, rule, prop string, floor int) {
	r.rule(rule, "Which set a name is looked up in: the name generators (fresh names must not clash with what the device has), the finders of reusable device objects and the PAN-OS / NSX planner functions look keys up in exactly the audited maps (tables/lookup_audit.tsv: device side or target side, which kind of object). Lookups made in helpers the audited tree does not have count for the calling function. A rule name tested against the device's groups, or a clash test that looks at the target side, hands out names that are taken.")
	want := map[string]map[string]bool{}
	for _, row := range readTable("lookup_audit.tsv", 4) {
		if !propListed(row[2], prop) {
			continue
		}
		if want[row[0]] == nil {
			want[row[0]] = map[string]bool{}
		}
		want[row[0]][row[1]] = true
	}
	byName := fnDisplayIndex(p)
	var names []string
	for n := range want {
		names = append(names, n)
	}
	sort.Strings(names)
	for _, n := range names {
		fn := byName[n]
		if fn == nil {
			r.fail(rule, "lookups|"+n, "", "function "+n+" not found", "the audited function no longer exists under this name: re-audit")
			continue
		}
		got := lookupsOf(p, fn, 0, map[*ssa.Function]bool{})
		diff := ""
		var gl []string
		for d := range got {
			gl = append(gl, d)
		}
		sort.Strings(gl)
		for _, d := range gl {
			if !want[n][d] {
				diff += "\n   new: " + d
			}
		}
		var wl []string
		for d := range want[n] {
			wl = append(wl, d)
		}
		sort.Strings(wl)
		for _, d := range wl {
			if !got[d] {
				diff += "\n   gone: " + d
			}
		}
		r.add(rule, "lookups|"+n, p.pos(fn.Pos()), fmt.Sprintf("%s looks keys up in the %d audited map(s)", n, len(want[n])), diff == "",
			"the maps consulted changed"+diff)
	}
	r.floor(rule, "functions with audited lookups", len(names), floor)
}

// R18.9: in panos.processVsysPairs the callback is called for the vsys pairs first and
// for the vsys that exist only on the second side (first argument nil) afterwards.
// The merge callback creates the missing vsys in the first configuration; a pairing
// loop that runs after that walks the new vsys too and merges it a second time.
func rulePairsBeforeCreation(p *Prog, r *Report, rule string) {
	r.rule(rule, "PAN-OS vsys pairing: in processVsysPairs every call of the callback with a nil first argument (a vsys that exists only on the second side; the merge callback creates it in the first configuration) comes after the loop over the first configuration's vsys — no call with a nil first argument can be followed by a call with a vsys of the first configuration. Otherwise the vsys just created is walked as well and merged twice (rules doubled, [APPEND] marks lost).")
	fn := p.Fn("panos.processVsysPairs")
	if fn == nil {
		r.fail(rule, "anchor|panos.processVsysPairs", "", "not found", "")
		return
	}
	var creating, pairing []ssa.Instruction
	for _, cs := range callsOf(fn) {
		par, ok := cs.In.Common().Value.(*ssa.Parameter)
		if !ok || len(cs.In.Common().Args) < 1 {
			continue
		}
		_ = par
		if c, ok := cs.In.Common().Args[0].(*ssa.Const); ok && c.IsNil() {
			creating = append(creating, cs.In)
		} else {
			pairing = append(pairing, cs.In)
		}
	}
	ok := len(creating) > 0 && len(pairing) > 0
	bad := ""
	for _, c := range creating {
		for _, q := range pairing {
			if ireach(c, q) {
				ok = false
				bad = p.ipos(c) + " -> " + p.ipos(q)
			}
		}
	}
	r.add(rule, "pairs-before-creation|panos.processVsysPairs", p.pos(fn.Pos()), fmt.Sprintf("%d pairing call(s) of the callback, then %d creating call(s)", len(pairing), len(creating)), ok,
		"a creating call of the callback can be followed by a pairing call ("+bad+"): the vsys it creates is paired and merged again")
}

// R09.12: one error variable is not written by several goroutines.
// `go fetch(a); go fetch(b)` with `err = …` inside fetch: whichever goroutine finishes last
// decides what the caller sees; a failure reported first is overwritten by a later nil.
func ruleSharedErrorInGoroutines(p *Prog, r *Report, rule string) {
	ruleSharedStateInGoroutines(p, r, rule, true)
}

// ruleSharedStateInGoroutines: errorsOnly = false looks at every variable the goroutines share.
func ruleSharedStateInGoroutines(p *Prog, r *Report, rule string, errorsOnly bool) {
	if !errorsOnly {
		r.rule(rule, "Results are not lost between goroutines: no function started as a goroutine more than once (two `go` statements, or one inside a loop) stores into a variable it shares with its siblings (captured, global, pointer parameter) unless it takes a lock (sync.Mutex / RWMutex) somewhere. Unsynchronised appends to one slice overwrite each other: a device that was found to need approve drops out of the list.")
	} else {
		r.rule(rule, "A failure is not overwritten: no function started as a goroutine more than once (two `go` statements, or one inside a loop) stores into an error variable it shares with its siblings (a captured variable or a pointer parameter). With a shared variable the goroutine that finishes last decides: a request that failed first is followed by a nil from the one that succeeded, and the run goes on with an empty list.")
	}
	n := 0
	starts := map[*ssa.Function][]ssa.Instruction{}
	for _, fn := range allModFuncs(p) {
		for _, b := range fn.Blocks {
			for _, in := range b.Instrs {
				g, ok := in.(*ssa.Go)
				if !ok {
					continue
				}
				n++
				for _, cal := range calleesOfSite(p, &callSite{In: g, Fn: fn, Static: g.Common().StaticCallee()}) {
					starts[cal] = append(starts[cal], g)
				}
			}
		}
	}
	for cal, gl := range starts {
		multi := len(gl) > 1
		for _, g := range gl {
			b := g.Block()
			if blockReaches(b, b) {
				multi = true // inside a loop
			}
			if g.Parent().Parent() != nil {
				multi = true // inside a closure (a callback such as a directory walk): entered many times
			}
		}
		if !multi {
			continue
		}
		for _, f := range treeOf(cal) {
			for _, b := range f.Blocks {
				for _, in := range b.Instrs {
					st, ok := in.(*ssa.Store)
					if !ok || (errorsOnly && !isErrorType(st.Val.Type())) {
						continue
					}
					if !errorsOnly && takesLock(cal) {
						continue
					}
					root := cellRootOf(st.Addr)
					shared := false
					switch x := root.(type) {
					case *ssa.Alloc:
						shared = !inTree(cal, x.Parent())
					case *ssa.FreeVar, *ssa.Parameter, *ssa.Global:
						shared = true
					}
					if shared {
						what, effect := "error variable", "a later success overwrites an earlier failure"
						if !errorsOnly {
							what, effect = "variable", "unsynchronised writes overwrite each other and results are lost"
						}
						r.add(rule, "shared-state|"+fnDisplay(cal), p.ipos(st), what+" shared by goroutines is written by "+fnDisplay(cal), false,
							fmt.Sprintf("%s runs as a goroutine (started at %s, possibly many at a time) and stores into a %s that all of them share: %s", fnDisplay(cal), p.ipos(gl[0]), what, effect))
					}
				}
			}
		}
	}
	r.add(rule, "go-statements-examined", "", fmt.Sprintf("%d go statement(s) in the module examined", n), true, "")
}

// R-FOLD: where letter case is folded.
func foldSites(p *Prog) map[string]int {
	out := map[string]int{}
	for _, fn := range allModFuncs(p) {
		if fn.Synthetic != "" {
			continue
		}
		for _, cs := range callsOf(fn) {
			if cs.Static == nil {
				continue
			}
			switch rawShortName(cs.Static) {
			case "strings.EqualFold", "strings.ToLower", "strings.ToUpper", "bytes.EqualFold", "bytes.ToLower", "bytes.ToUpper", "strings.ToTitle":
				out[fnDisplay(fn)+"\t"+rawShortName(cs.Static)]++
			}
		}
	}
	return out
}

func ruleCaseFolding(p *Prog, r *Report, rule, prop string, pkgs map[string]bool) {
	r.rule(rule, "Letter case is folded only where that was audited (tables/fold_audit.tsv: the iptables normaliser, the enable prompt, the vsys marker, one Cisco keyword): names of chains, interfaces, objects and log prefixes are case-sensitive on the devices, so a comparison that ignores case (strings.EqualFold, ToLower / ToUpper on an operand) reports two different configurations as equal.")
	want := map[string]int{}
	why := map[string]string{}
	for _, row := range readTable("fold_audit.tsv", 4) {
		n := 1
		fmt.Sscanf(row[2], "%d", &n)
		want[row[0]+"\t"+row[1]] = n
		why[row[0]+"\t"+row[1]] = row[3]
	}
	got := foldSites(p)
	var keys []string
	for k := range got {
		keys = append(keys, k)
	}
	sort.Strings(keys)
	n := 0
	for _, k := range keys {
		fnName, _, _ := strings.Cut(k, "\t")
		f := fnDisplayIndex(p)[fnName]
		if f == nil || !pkgs[pkgOfFunc(f)] {
			continue
		}
		n++
		r.add(rule, "fold|"+strings.ReplaceAll(k, "\t", "|"), p.pos(f.Pos()), fmt.Sprintf("%d call(s) of %s (%s)", got[k], strings.ReplaceAll(k, "\t", " -> "), why[k]), got[k] <= want[k],
			fmt.Sprintf("letter case is folded at a place that was not audited (%d call(s), %d audited)", got[k], want[k]))
	}
	r.add(rule, "fold-sites-examined", "", fmt.Sprintf("%d function/callee pairs that fold case examined for %s", n, prop), true, "")
}

func init() {
	dumpers["foldrows"] = func(p *Prog, m *Model) {
		g := foldSites(p)
		var keys []string
		for k := range g {
			keys = append(keys, k)
		}
		sort.Strings(keys)
		for _, k := range keys {
			fmt.Printf("%s\t%d\tREASON\n", k, g[k])
		}
	}
}

// takesLock: the function (with its closures) calls Lock on a sync.Mutex / RWMutex.
func takesLock(f *ssa.Function) bool {
	for _, g := range treeOf(f) {
		for _, cs := range callsOf(g) {
			if cs.Static != nil {
				switch rawShortName(cs.Static) {
				case "(*sync.Mutex).Lock", "(*sync.RWMutex).Lock":
					return true
				}
			}
		}
	}
	return false
}

// R09.13: on Linux the startup routing file is written after everything else.
func ruleLinuxStartupRoutingLast(p *Prog, r *Report, rule string) {
	r.rule(rule, "Linux: the start-up routing configuration is copied to the device (writeStartupRouting) only after every other command of the run was accepted: in (*linux.State).ApplyCommands no call that can send to the device is reachable after the call of writeStartupRouting. A failure in the iptables phase aborts the run; with the routing file already written the device would come up with routes of a run that was reported as failed.")
	fn := p.Fn("(*linux.State).ApplyCommands")
	save := p.Fn("(*linux.State).writeStartupRouting")
	if fn == nil || save == nil {
		r.fail(rule, "anchor|(*linux.State).ApplyCommands / writeStartupRouting", "", "not found", "")
		return
	}
	cg := p.CG()
	var saves []*callSite
	for _, cs := range callsOf(fn) {
		for _, cal := range calleesOfSite(p, cs) {
			if cal == save {
				saves = append(saves, cs)
			}
		}
	}
	for i, sv := range saves {
		bad := ""
		for _, cs := range callsOf(fn) {
			if cs.In == sv.In || !ireach(sv.In, cs.In) {
				continue
			}
			isSave := false
			for _, cal := range calleesOfSite(p, cs) {
				if cal == save {
					isSave = true
				}
			}
			if !isSave && reachesPrimitive(p, cg, fn, cs) {
				bad = p.ipos(cs.In)
			}
		}
		_, plain := sv.In.(*ssa.Call)
		r.add(rule, fmt.Sprintf("startup-routing-last|%d", i+1), p.ipos(sv.In), "writeStartupRouting is a plain call with nothing sent after it", plain && bad == "",
			"something is sent to the device after the routing file was written ("+bad+"): a failure there leaves the saved routes of a failed run")
	}
	r.floor(rule, "calls of writeStartupRouting in ApplyCommands", len(saves), 1)
}

// R09.14: a failed request is not repeated.
func ruleNoRetryOnFailure(p *Prog, r *Report, rule string, pkgs map[string]bool) {
	r.rule(rule, "A failed request ends the run: in the HTTP device packages no request ((*http.Client).Get / Do / PostForm / Post) is sent on the failure edge of an earlier request's error (`if err != nil { … Get(…) }`). The device may have executed the first one: a change command sent twice, or a commit whose repetition answers `no changes to commit`, makes the run report OK without knowing what happened.")
	isReq := func(cs *callSite) bool {
		switch cs.calleeName() {
		case "(*net/http.Client).Get", "(*net/http.Client).Do", "(*net/http.Client).PostForm", "(*net/http.Client).Post":
			return true
		}
		return false
	}
	n := 0
	for _, fn := range allModFuncs(p) {
		if !pkgs[pkgOfFunc(fn)] || fn.Synthetic != "" {
			continue
		}
		var reqs []*callSite
		for _, cs := range callsOf(fn) {
			if isReq(cs) {
				reqs = append(reqs, cs)
			}
		}
		for _, rq := range reqs {
			n++
			// the error result
			var errv ssa.Value
			if v := rq.In.Value(); v != nil && v.Referrers() != nil {
				for _, ref := range *v.Referrers() {
					if ex, ok := ref.(*ssa.Extract); ok && isErrorType(ex.Type()) {
						errv = ex
					}
				}
			}
			bad := ""
			if errv != nil {
				for _, b := range fn.Blocks {
					i := ifOf(b)
					if i == nil {
						continue
					}
					bo, ok := i.Cond.(*ssa.BinOp)
					if !ok || (bo.Op != token.NEQ && bo.Op != token.EQL) {
						continue
					}
					if bo.X != errv && bo.Y != errv {
						continue
					}
					failEdge := 0
					if bo.Op == token.EQL {
						failEdge = 1
					}
					for _, r2 := range reqs {
						if edgeDominates(b, failEdge, r2.In.Block()) {
							bad = p.ipos(r2.In)
						}
					}
				}
			}
			r.add(rule, fmt.Sprintf("no-retry|%s|%d", fnDisplay(fn), n), p.ipos(rq.In), "no request is sent on the failure edge of this request in "+fnDisplay(fn), bad == "",
				"a request is sent again after this one failed ("+bad+"): the device may have executed the first")
		}
	}
	r.floor(rule, "HTTP requests examined", n, 3)
}
