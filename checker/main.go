package main

import (
	"flag"
	"fmt"
	"os"
	"runtime/debug"
	"sort"
	"strings"
)

type propCheck struct {
	level   string
	needSSA bool
	run     func(p *Prog, r *Report)
}

var registry = map[string]*propCheck{}

func register(id, level string, needSSA bool, run func(p *Prog, r *Report)) {
	registry[id] = &propCheck{level: level, needSSA: needSSA, run: run}
}

func main() {
	prop := flag.String("property", "", "property id (C03 ...), comma separated, or 'all'")
	tier := flag.String("tier", "quick", "quick|thorough")
	list := flag.Bool("list", false, "list property ids with a check")
	dump := flag.String("dump", "", "debug dumps: prims")
	flag.Parse()
	if *dump != "" {
		p, err := loadProg(true)
		if err != nil {
			fmt.Println("error:", err)
			os.Exit(2)
		}
		doDump(p, *dump)
		return
	}
	if *list {
		var ids []string
		for id := range registry {
			ids = append(ids, id)
		}
		sort.Strings(ids)
		fmt.Println(strings.Join(ids, " "))
		return
	}
	if t := os.Getenv("VERIF_TIER"); t != "" && *tier == "" {
		*tier = t
	}
	if *tier != "quick" && *tier != "thorough" {
		fmt.Println("error: bad tier", *tier)
		os.Exit(2)
	}
	var ids []string
	if *prop == "all" {
		for id := range registry {
			ids = append(ids, id)
		}
		sort.Strings(ids)
	} else {
		ids = strings.Split(*prop, ",")
	}
	for _, id := range ids {
		if registry[id] == nil {
			fmt.Printf("error: no check for property %q\n", id)
			os.Exit(2)
		}
	}
	p, err := loadProg(true)
	if err != nil {
		// A tree that does not load or type-check cannot be decided: fail.
		fmt.Println("error:", err)
		for _, id := range ids {
			fmt.Printf("VIOLATION property=%s replay=/dev/null\n", id)
		}
		os.Exit(1)
	}
	exit := 0
	for _, id := range ids {
		c := registry[id]
		r := newReport(id, *tier, c.level)
		func() {
			defer func() {
				if e := recover(); e != nil {
					// checker panic = undecided = failure
					r.fail("internal", "checker-panic", "", fmt.Sprint(e), string(debug.Stack()))
				}
			}()
			c.run(p, r)
		}()
		if code := r.finish(); code > exit {
			exit = code
		}
	}
	os.Exit(exit)
}
