package main

// R-MC: maps.Copy overwrites.
//
// maps.Copy(dst, src) replaces the value of every key both maps have.  Where the values
// are lists (commands by interface, objects by name) joining two maps that way drops the
// list of the first map for every common key.  Every call of maps.Copy / maps.Insert in
// production code is audited (tables/maps_copy.tsv).

import (
	"fmt"

	"golang.org/x/tools/go/ssa"
)

func ruleMapsCopy(p *Prog, r *Report, rule string) {
	r.rule(rule, "maps.Copy(dst, src) / maps.Insert overwrite the entries of keys both maps have. Every call in production code stands in an audited function (tables/maps_copy.tsv, with the reason why overwriting is harmless there -- e.g. only the key set of the result is used); a new call is reported: two maps of lists joined with maps.Copy lose the first list of every common key (the access-group of an interface that also has a crypto map).")
	want := map[string]string{}
	for _, row := range readTable("maps_copy.tsv", 2) {
		want[row[0]] = row[1]
	}
	n := 0
	seen := map[string]bool{}
	for _, fn := range allModFuncs(p) {
		for _, cs := range callsOf(fn) {
			f := cs.Static
			if f == nil {
				continue
			}
			if o := f.Origin(); o != nil {
				f = o
			}
			name := rawShortName(f)
			if name != "maps.Copy" && name != "maps.Insert" {
				continue
			}
			n++
			k := fnDisplay(fn)
			if root := rootOf(fn); root != fn {
				k = fnDisplay(root) // a closure is judged with the function it stands in
			}
			if seen[k] {
				continue
			}
			seen[k] = true
			why, ok := want[k]
			r.add(rule, "maps-copy|"+k, p.ipos(cs.In), fmt.Sprintf("%s in %s is audited (%s)", name, k, why), ok,
				"entries of keys that both maps have are overwritten: audit that nothing of the first map is needed for those keys, or merge the values")
		}
	}
	r.floor(rule, "maps.Copy / maps.Insert calls", n, 2)
}

// ruleElemStoreDiscipline (R-ES): element-wise rewriting of lists.
func ruleElemStoreDiscipline(p *Prog, r *Report, rule string, pkgs map[string]bool) {
	r.rule(rule, "Stores into the elements of a slice (`l[i] = x`: a filter that keeps some elements, a list whose members are rewritten in place) in the parser, merger and planner packages stand in audited functions (tables/elemstore_audit.tsv, or rows of tables/guards.tsv whose conditions R-G compares). A new place that rewrites the members of a compared list (an address group whose `/32` is stripped) changes what is equal to what.")
	ok := map[string]string{}
	for _, row := range readTable("elemstore_audit.tsv", 2) {
		ok[row[0]] = row[1]
	}
	for _, row := range readTable("guards.tsv", 5) {
		if len(row[1]) > 10 && row[1][:10] == "elemstore:" {
			ok[row[0]] = "guard row"
		}
	}
	n := 0
	seen := map[string]bool{}
	for _, fn := range allModFuncs(p) {
		if !pkgs[pkgOfFunc(fn)] || fn.Synthetic != "" || isNewHelper(rootOf(fn)) {
			continue
		}
		for _, gs := range guardSitesOf(p, fn) {
			if len(gs.Name) < 10 || gs.Name[:10] != "elemstore:" {
				continue
			}
			n++
			k := fnDisplay(fn)
			if seen[k] {
				continue
			}
			seen[k] = true
			why, aud := ok[k]
			r.add(rule, "elemstore-audited|"+k, p.ipos(gs.In), "the element stores of "+k+" are audited ("+why+")", aud,
				"elements of a list are rewritten at a place that was never audited")
		}
	}
	r.floor(rule, "element stores", n, 1)
}

// ruleWalkVisitsAll (R13.18): the directory walk of missing-approve skips nothing.
func ruleWalkVisitsAll(p *Prog, r *Report) {
	r.rule("R13.18", "missing-approve visits every file of current/code: no function of package cmd/missing-approve uses fs.SkipDir / fs.SkipAll (filepath.SkipDir / SkipAll). Returned from the callback for a file, SkipDir makes WalkDir drop the remaining entries of that directory: the devices behind it are never checked and never listed.")
	n, bad := 0, ""
	for _, fn := range allModFuncs(p) {
		if pkgOfFunc(fn) != "cmd/missing-approve" {
			continue
		}
		n++
		for _, b := range fn.Blocks {
			for _, in := range b.Instrs {
				for _, op := range in.Operands(nil) {
					if g, ok := (*op).(*ssa.Global); ok && (g.Name() == "SkipDir" || g.Name() == "SkipAll") {
						bad = p.ipos(in)
					}
				}
			}
		}
	}
	r.add("R13.18", "walk-visits-all|cmd/missing-approve", bad, fmt.Sprintf("%d functions of cmd/missing-approve, none uses SkipDir / SkipAll", n), bad == "" && n > 0,
		"the walk over the devices of the current policy can skip entries")
}
