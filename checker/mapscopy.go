package main

// R-MC: maps.Copy overwrites.
//
// maps.Copy(dst, src) replaces the value of every key both maps have.  Where the values
// are lists (commands by interface, objects by name) joining two maps that way drops the
// list of the first map for every common key.  Every call of maps.Copy / maps.Insert in
// production code is audited (tables/maps_copy.tsv).

import (
	"fmt"
)

func ruleMapsCopy(p *Prog, r *Report, rule string) {
	r.rule(rule, "maps.Copy(dst, src) / maps.Insert overwrite the entries of keys both maps have. Every call in production code stands in an audited function (tables/maps_copy.tsv, with the reason why overwriting is harmless there -- e.g. only the key set of the result is used); a new call is reported: two maps of lists joined with maps.Copy lose the first list of every common key (the access-group of an interface that also has a crypto map).")
	want := map[string]string{}
	for _, row := range readTable("maps_copy.tsv", 2) {
		want[row[0]] = row[1]
	}
	n := 0
	seen := map[string]bool{}
	for _, fn := range allModFuncs(p) {
		for _, cs := range callsOf(fn) {
			f := cs.Static
			if f == nil {
				continue
			}
			if o := f.Origin(); o != nil {
				f = o
			}
			name := rawShortName(f)
			if name != "maps.Copy" && name != "maps.Insert" {
				continue
			}
			n++
			k := fnDisplay(fn)
			if root := rootOf(fn); root != fn {
				k = fnDisplay(root) // a closure is judged with the function it stands in
			}
			if seen[k] {
				continue
			}
			seen[k] = true
			why, ok := want[k]
			r.add(rule, "maps-copy|"+k, p.ipos(cs.In), fmt.Sprintf("%s in %s is audited (%s)", name, k, why), ok,
				"entries of keys that both maps have are overwritten: audit that nothing of the first map is needed for those keys, or merge the values")
		}
	}
	r.floor(rule, "maps.Copy / maps.Insert calls", n, 2)
}
