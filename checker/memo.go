package main

// R-MEMO: lazily filled struct fields.
//
// `if s.f == zero { s.f = compute(...) }` (also `if !s.done { ...; s.done = true }`)
// makes s.f a cache: the value computed at the first use is handed out at every
// later use, whatever the inputs are by then.  That is right only when the
// inputs cannot change during the life of s.  Every such site is audited in
// tables/memo_audit.tsv with the reason the inputs are fixed; a new one is
// reported.

import (
	"fmt"
	"go/token"
	"go/types"
	"sort"

	"golang.org/x/tools/go/ssa"
)

type memoSite struct {
	Fn    *ssa.Function
	Field string // Type.field
	In    ssa.Instruction
}

// fieldOfLoad: v is a load of (or the length of) struct field; returns struct type and index.
func fieldOfLoad(v ssa.Value) (ssa.Value, int, bool) {
	for {
		switch x := v.(type) {
		case *ssa.UnOp:
			if x.Op == token.MUL {
				if fa, ok := x.X.(*ssa.FieldAddr); ok {
					return fa.X, fa.Field, true
				}
				return nil, 0, false
			}
			if x.Op == token.NOT {
				v = x.X
				continue
			}
			return nil, 0, false
		case *ssa.Field:
			return x.X, x.Field, true
		case *ssa.Call:
			if isLenCall(x) {
				v = x.Common().Args[0]
				continue
			}
			return nil, 0, false
		default:
			return nil, 0, false
		}
	}
}

// sameBase: the two values denote the same struct (the same SSA value, or loads of
// the same cell / the same field chain).
func sameBase(a, b ssa.Value) bool {
	if a == b {
		return true
	}
	if fa, ok := a.(*ssa.FieldAddr); ok {
		if fb, ok := b.(*ssa.FieldAddr); ok {
			return fa.Field == fb.Field && sameBase(fa.X, fb.X)
		}
		return false
	}
	ua, ok1 := a.(*ssa.UnOp)
	ub, ok2 := b.(*ssa.UnOp)
	if ok1 && ok2 && ua.Op == token.MUL && ub.Op == token.MUL {
		if ua.X == ub.X {
			return true
		}
		fa, ok1 := ua.X.(*ssa.FieldAddr)
		fb, ok2 := ub.X.(*ssa.FieldAddr)
		return ok1 && ok2 && fa.Field == fb.Field && sameBase(fa.X, fb.X)
	}
	return false
}

func derefT(t types.Type) types.Type {
	if p, ok := t.Underlying().(*types.Pointer); ok {
		return p.Elem()
	}
	return t
}

// condTestsField: the condition compares field (T,f) with a constant or is the
// (negated) bool field itself.
func condTestsField(cond ssa.Value, base ssa.Value, f int) bool {
	c, _ := stripNot(cond)
	same := func(v ssa.Value) bool {
		bb, ff, ok := fieldOfLoad(v)
		return ok && ff == f && sameBase(bb, base)
	}
	if bo, ok := c.(*ssa.BinOp); ok {
		switch bo.Op {
		case token.EQL, token.NEQ, token.LSS, token.GTR, token.LEQ, token.GEQ:
			_, xc := bo.X.(*ssa.Const)
			_, yc := bo.Y.(*ssa.Const)
			return (yc && same(bo.X)) || (xc && same(bo.Y))
		}
		return false
	}
	return same(c)
}

func memoSitesOf(fn *ssa.Function) []memoSite {
	var out []memoSite
	for _, b := range fn.Blocks {
		for _, in := range b.Instrs {
			st, ok := in.(*ssa.Store)
			if !ok {
				continue
			}
			fa, ok := st.Addr.(*ssa.FieldAddr)
			if !ok {
				continue
			}
			t := derefT(fa.X.Type())
			stt, ok := t.Underlying().(*types.Struct)
			if !ok {
				continue
			}
			// a struct built in this function (composite literal) is not shared state
			if al, isAl := fa.X.(*ssa.Alloc); isAl && !al.Heap {
				continue
			}
			hit := false
			for _, cb := range fn.Blocks {
				i := ifOf(cb)
				if i == nil || isLoopCond(cb) {
					continue
				}
				for k := range cb.Succs {
					if edgeDominates(cb, k, b) && condTestsField(i.Cond, fa.X, fa.Field) {
						hit = true
					}
				}
			}
			if hit {
				out = append(out, memoSite{fn, typeDesc(t) + "." + fldName(stt.Field(fa.Field)), in})
			}
		}
	}
	return out
}

func ruleMemo(p *Prog, r *Report, rule, prop string, pkgs map[string]bool, floor int) {
	r.rule(rule, "Lazily filled fields: a store into a struct field under a test of that same field (`if s.f == \"\" { s.f = ... }`, `if !s.done { ...; s.done = true }`) makes the field a cache that outlives the inputs it was computed from. Every such site is audited (tables/memo_audit.tsv) with the reason its inputs are fixed for the life of the struct; an unaudited one is reported.")
	rows := readTable("memo_audit.tsv", 4)
	type key struct{ fn, field string }
	want := map[key]string{}
	for _, row := range rows {
		if propListed(row[2], prop) {
			want[key{row[0], row[1]}] = row[3]
		}
	}
	got := map[key]string{}
	for _, fn := range allModFuncs(p) {
		if !pkgs[pkgOfFunc(fn)] || fn.Synthetic != "" {
			continue
		}
		for _, s := range memoSitesOf(fn) {
			k := key{fnDisplay(fn), s.Field}
			if got[k] == "" {
				got[k] = p.ipos(s.In)
			}
		}
	}
	if floor > 0 {
		r.floor(rule, "lazily filled fields", len(got), floor)
	}
	var keys []key
	for k := range want {
		keys = append(keys, k)
	}
	for k := range got {
		if _, ok := want[k]; !ok {
			keys = append(keys, k)
		}
	}
	sort.Slice(keys, func(i, j int) bool { return keys[i].fn+"|"+keys[i].field < keys[j].fn+"|"+keys[j].field })
	for _, k := range keys {
		reason, audited := want[k]
		if _, present := got[k]; !present {
			// an audited site that is gone leaves nothing to decide
			continue
		}
		r.add(rule, "memo|"+k.fn+"|"+k.field, got[k], fmt.Sprintf("field %s is filled lazily in %s (%s)", k.field, k.fn, reason), audited,
			"a field filled at first use and handed out afterwards keeps the value of the first use; when its inputs change (next policy, next vsys, next device object) later commands are built from stale state (not in tables/memo_audit.tsv)")
	}
}

// R-REUSE: a slice buffer that is emptied with x[:0] keeps its backing array.
// When an earlier filling of the same variable was stored into a field, an
// element, a map or a global (directly or as the base of an append), the next
// filling overwrites what was stored there.
type reuseSite struct {
	In     ssa.Instruction // the x[:0]
	Escape ssa.Instruction // where the earlier content went
}

func isZeroConst(v ssa.Value) bool {
	c, ok := v.(*ssa.Const)
	if !ok || c.Value == nil {
		return false
	}
	return c.Value.ExactString() == "0"
}

func isAppendCall(v ssa.Value) (*ssa.Call, bool) {
	c, ok := v.(*ssa.Call)
	if !ok {
		return nil, false
	}
	b, ok := c.Common().Value.(*ssa.Builtin)
	return c, ok && b.Name() == "append" && len(c.Common().Args) > 0
}

func reuseSitesOf(fn *ssa.Function) []reuseSite {
	var out []reuseSite
	for _, b := range fn.Blocks {
		for _, in := range b.Instrs {
			sl, ok := in.(*ssa.Slice)
			if !ok || sl.High == nil || !isZeroConst(sl.High) {
				continue
			}
			if _, isSlice := sl.X.Type().Underlying().(*types.Slice); !isSlice {
				continue
			}
			// the values that share the variable's backing array
			class := map[ssa.Value]bool{}
			cells := map[ssa.Value]bool{}
			var work []ssa.Value
			push := func(v ssa.Value) {
				if v != nil && !class[v] {
					if _, isC := v.(*ssa.Const); isC {
						return
					}
					class[v] = true
					work = append(work, v)
				}
			}
			push(sl)
			push(sl.X)
			for len(work) > 0 {
				v := work[len(work)-1]
				work = work[:len(work)-1]
				switch x := v.(type) {
				case *ssa.Phi:
					for _, e := range x.Edges {
						push(e)
					}
				case *ssa.Slice:
					push(x.X)
				case *ssa.UnOp:
					if x.Op == token.MUL {
						if _, isF := x.X.(*ssa.FieldAddr); !isF {
							if _, isI := x.X.(*ssa.IndexAddr); !isI {
								cells[x.X] = true
							}
						}
					}
				case *ssa.Call:
					if c, ok := isAppendCall(x); ok {
						push(c.Common().Args[0])
					}
				}
				if refs := v.Referrers(); refs != nil {
					for _, r := range *refs {
						switch y := r.(type) {
						case *ssa.Phi:
							push(y)
						case *ssa.Slice:
							if y.X == v {
								push(y)
							}
						case *ssa.Call:
							if c, ok := isAppendCall(y); ok && c.Common().Args[0] == v {
								push(y)
							}
						case *ssa.Store:
							if y.Val == v {
								switch y.Addr.(type) {
								case *ssa.Alloc, *ssa.FreeVar:
									cells[y.Addr] = true
								}
							}
						}
					}
				}
				// loads of the cells found so far
				for cell := range cells {
					if refs := cell.Referrers(); refs != nil {
						for _, r := range *refs {
							if u, ok := r.(*ssa.UnOp); ok && u.Op == token.MUL && u.X == cell && u.Parent() == fn {
								push(u)
							}
						}
					}
				}
			}
			var esc ssa.Instruction
			for v := range class {
				refs := v.Referrers()
				if refs == nil {
					continue
				}
				for _, r := range *refs {
					switch y := r.(type) {
					case *ssa.Store:
						if y.Val != v || cells[y.Addr] {
							continue
						}
						switch y.Addr.(type) {
						case *ssa.FieldAddr, *ssa.IndexAddr, *ssa.Global:
							esc = y
						}
					case *ssa.MapUpdate:
						if y.Value == v {
							esc = y
						}
					case *ssa.Return:
						esc = y
					case *ssa.Send:
						esc = y
					}
				}
			}
			if esc != nil {
				out = append(out, reuseSite{sl, esc})
			}
		}
	}
	return out
}

func ruleBufferReuse(p *Prog, r *Report, rule string, pkgs map[string]bool) {
	r.rule(rule, "No reuse of a handed-out buffer: a slice variable emptied with `x[:0]` keeps its backing array; when a filling of that variable is stored into a field, element, map or global or returned (directly or as the base of an append), the next filling overwrites the stored data. No such site exists on the audited tree; any is reported.")
	n := 0
	for _, fn := range allModFuncs(p) {
		if !pkgs[pkgOfFunc(fn)] || fn.Synthetic != "" {
			continue
		}
		n++
		for _, s := range reuseSitesOf(fn) {
			r.add(rule, "reuse|"+fnDisplay(fn), p.ipos(s.In), "buffer emptied with [:0] in "+fnDisplay(fn), false,
				"the emptied buffer's earlier content was stored at "+p.ipos(s.Escape)+" and shares its backing array: the next filling overwrites it (rules / commands of one item replace those of an earlier one)")
		}
	}
	r.add(rule, "reuse|scanned", "", fmt.Sprintf("%d functions scanned for reused buffers", n), n > 0, "no function was analysed")
}
