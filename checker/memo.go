package main

// R-MEMO: lazily filled struct fields.
//
// `if s.f == zero { s.f = compute(...) }` (also `if !s.done { ...; s.done = true }`)
// makes s.f a cache: the value computed at the first use is handed out at every
// later use, whatever the inputs are by then.  That is right only when the
// inputs cannot change during the life of s.  Every such site is audited in
// tables/memo_audit.tsv with the reason the inputs are fixed; a new one is
// reported.

import (
	"fmt"
	"go/token"
	"go/types"
	"sort"
	"strings"

	"golang.org/x/tools/go/ssa"
)

type memoSite struct {
	Fn    *ssa.Function
	Field string // Type.field
	In    ssa.Instruction
}

// fieldOfLoad: v is a load of (or the length of) struct field; returns struct type and index.
func fieldOfLoad(v ssa.Value) (ssa.Value, int, bool) {
	for {
		switch x := v.(type) {
		case *ssa.UnOp:
			if x.Op == token.MUL {
				if fa, ok := x.X.(*ssa.FieldAddr); ok {
					return fa.X, fa.Field, true
				}
				return nil, 0, false
			}
			if x.Op == token.NOT {
				v = x.X
				continue
			}
			return nil, 0, false
		case *ssa.Field:
			return x.X, x.Field, true
		case *ssa.Call:
			if isLenCall(x) {
				v = x.Common().Args[0]
				continue
			}
			return nil, 0, false
		default:
			return nil, 0, false
		}
	}
}

// sameBase: the two values denote the same struct (the same SSA value, or loads of
// the same cell / the same field chain).
func sameBase(a, b ssa.Value) bool {
	if a == b {
		return true
	}
	if fa, ok := a.(*ssa.FieldAddr); ok {
		if fb, ok := b.(*ssa.FieldAddr); ok {
			return fa.Field == fb.Field && sameBase(fa.X, fb.X)
		}
		return false
	}
	ua, ok1 := a.(*ssa.UnOp)
	ub, ok2 := b.(*ssa.UnOp)
	if ok1 && ok2 && ua.Op == token.MUL && ub.Op == token.MUL {
		if ua.X == ub.X {
			return true
		}
		fa, ok1 := ua.X.(*ssa.FieldAddr)
		fb, ok2 := ub.X.(*ssa.FieldAddr)
		return ok1 && ok2 && fa.Field == fb.Field && sameBase(fa.X, fb.X)
	}
	return false
}

func derefT(t types.Type) types.Type {
	if p, ok := t.Underlying().(*types.Pointer); ok {
		return p.Elem()
	}
	return t
}

// condTestsField: the condition compares field (T,f) with a constant or is the
// (negated) bool field itself.
func condTestsField(cond ssa.Value, base ssa.Value, f int) bool {
	c, _ := stripNot(cond)
	same := func(v ssa.Value) bool {
		bb, ff, ok := fieldOfLoad(v)
		return ok && ff == f && sameBase(bb, base)
	}
	if bo, ok := c.(*ssa.BinOp); ok {
		switch bo.Op {
		case token.EQL, token.NEQ, token.LSS, token.GTR, token.LEQ, token.GEQ:
			_, xc := bo.X.(*ssa.Const)
			_, yc := bo.Y.(*ssa.Const)
			return (yc && same(bo.X)) || (xc && same(bo.Y))
		}
		return false
	}
	return same(c)
}

func memoSitesOf(fn *ssa.Function) []memoSite {
	var out []memoSite
	for _, b := range fn.Blocks {
		for _, in := range b.Instrs {
			st, ok := in.(*ssa.Store)
			if !ok {
				continue
			}
			fa, ok := st.Addr.(*ssa.FieldAddr)
			if !ok {
				continue
			}
			t := derefT(fa.X.Type())
			stt, ok := t.Underlying().(*types.Struct)
			if !ok {
				continue
			}
			// a struct built in this function (composite literal) is not shared state
			if al, isAl := fa.X.(*ssa.Alloc); isAl && !al.Heap {
				continue
			}
			hit := false
			for _, cb := range fn.Blocks {
				i := ifOf(cb)
				if i == nil || isLoopCond(cb) {
					continue
				}
				for k := range cb.Succs {
					if edgeDominates(cb, k, b) && condTestsField(i.Cond, fa.X, fa.Field) {
						hit = true
					}
				}
			}
			// a value that depends on nothing but constants (a compiled constant pattern, an empty
			// map) is the same at every use: nothing can go stale
			if hit && !constantInit(st.Val, 0) {
				out = append(out, memoSite{fn, typeDesc(t) + "." + fldName(stt.Field(fa.Field)), in})
			}
		}
	}
	return out
}

func ruleMemo(p *Prog, r *Report, rule, prop string, pkgs map[string]bool, floor int) {
	r.rule(rule, "Lazily filled fields: a store into a struct field under a test of that same field (`if s.f == \"\" { s.f = ... }`, `if !s.done { ...; s.done = true }`) makes the field a cache that outlives the inputs it was computed from. Every such site is audited (tables/memo_audit.tsv) with the reason its inputs are fixed for the life of the struct; an unaudited one is reported.")
	rows := readTable("memo_audit.tsv", 4)
	type key struct{ fn, field string }
	want := map[key]string{}
	// an audited site is audited for every property that runs the rule
	for _, row := range rows {
		want[key{row[0], row[1]}] = row[3]
	}
	_ = prop
	got := map[key]string{}
	for _, fn := range allModFuncs(p) {
		if !pkgs[pkgOfFunc(fn)] || fn.Synthetic != "" {
			continue
		}
		for _, s := range memoSitesOf(fn) {
			k := key{fnDisplay(fn), s.Field}
			if got[k] == "" {
				got[k] = p.ipos(s.In)
			}
		}
	}
	if floor > 0 {
		r.floor(rule, "lazily filled fields", len(got), floor)
	}
	var keys []key
	for k := range want {
		keys = append(keys, k)
	}
	for k := range got {
		if _, ok := want[k]; !ok {
			keys = append(keys, k)
		}
	}
	sort.Slice(keys, func(i, j int) bool { return keys[i].fn+"|"+keys[i].field < keys[j].fn+"|"+keys[j].field })
	for _, k := range keys {
		reason, audited := want[k]
		if _, present := got[k]; !present {
			// an audited site that is gone leaves nothing to decide
			continue
		}
		r.add(rule, "memo|"+k.fn+"|"+k.field, got[k], fmt.Sprintf("field %s is filled lazily in %s (%s)", k.field, k.fn, reason), audited,
			"a field filled at first use and handed out afterwards keeps the value of the first use; when its inputs change (next policy, next vsys, next device object) later commands are built from stale state (not in tables/memo_audit.tsv)")
	}
}

// R-REUSE: a slice buffer that is emptied with x[:0] keeps its backing array.
// When an earlier filling of the same variable was stored into a field, an
// element, a map or a global (directly or as the base of an append), the next
// filling overwrites what was stored there.
type reuseSite struct {
	In     ssa.Instruction // the x[:0]
	Escape ssa.Instruction // where the earlier content went
}

func isZeroConst(v ssa.Value) bool {
	c, ok := v.(*ssa.Const)
	if !ok || c.Value == nil {
		return false
	}
	return c.Value.ExactString() == "0"
}

func isAppendCall(v ssa.Value) (*ssa.Call, bool) {
	c, ok := v.(*ssa.Call)
	if !ok {
		return nil, false
	}
	b, ok := c.Common().Value.(*ssa.Builtin)
	return c, ok && b.Name() == "append" && len(c.Common().Args) > 0
}

func reuseSitesOf(fn *ssa.Function) []reuseSite {
	var out []reuseSite
	for _, b := range fn.Blocks {
		for _, in := range b.Instrs {
			sl, ok := in.(*ssa.Slice)
			if !ok || sl.High == nil || !isZeroConst(sl.High) {
				continue
			}
			if _, isSlice := sl.X.Type().Underlying().(*types.Slice); !isSlice {
				continue
			}
			// the values that share the variable's backing array
			class := map[ssa.Value]bool{}
			cells := map[ssa.Value]bool{}
			var work []ssa.Value
			push := func(v ssa.Value) {
				if v != nil && !class[v] {
					if _, isC := v.(*ssa.Const); isC {
						return
					}
					class[v] = true
					work = append(work, v)
				}
			}
			push(sl)
			push(sl.X)
			for len(work) > 0 {
				v := work[len(work)-1]
				work = work[:len(work)-1]
				switch x := v.(type) {
				case *ssa.Phi:
					for _, e := range x.Edges {
						push(e)
					}
				case *ssa.Slice:
					push(x.X)
				case *ssa.UnOp:
					if x.Op == token.MUL {
						if _, isF := x.X.(*ssa.FieldAddr); !isF {
							if _, isI := x.X.(*ssa.IndexAddr); !isI {
								cells[x.X] = true
							}
						}
					}
				case *ssa.Call:
					if c, ok := isAppendCall(x); ok {
						push(c.Common().Args[0])
					}
				}
				if refs := v.Referrers(); refs != nil {
					for _, r := range *refs {
						switch y := r.(type) {
						case *ssa.Phi:
							push(y)
						case *ssa.Slice:
							if y.X == v {
								push(y)
							}
						case *ssa.Call:
							if c, ok := isAppendCall(y); ok && c.Common().Args[0] == v {
								push(y)
							}
						case *ssa.Store:
							if y.Val == v {
								switch y.Addr.(type) {
								case *ssa.Alloc, *ssa.FreeVar:
									cells[y.Addr] = true
								}
							}
						}
					}
				}
				// loads of the cells found so far
				for cell := range cells {
					if refs := cell.Referrers(); refs != nil {
						for _, r := range *refs {
							if u, ok := r.(*ssa.UnOp); ok && u.Op == token.MUL && u.X == cell && u.Parent() == fn {
								push(u)
							}
						}
					}
				}
			}
			var esc ssa.Instruction
			for v := range class {
				refs := v.Referrers()
				if refs == nil {
					continue
				}
				for _, r := range *refs {
					switch y := r.(type) {
					case *ssa.Store:
						if y.Val != v || cells[y.Addr] {
							continue
						}
						switch y.Addr.(type) {
						case *ssa.FieldAddr, *ssa.IndexAddr, *ssa.Global:
							esc = y
						}
					case *ssa.MapUpdate:
						if y.Value == v {
							esc = y
						}
					case *ssa.Return:
						esc = y
					case *ssa.Send:
						esc = y
					}
				}
			}
			if esc != nil {
				out = append(out, reuseSite{sl, esc})
			}
		}
	}
	return out
}

func ruleBufferReuse(p *Prog, r *Report, rule string, pkgs map[string]bool) {
	r.rule(rule, "No reuse of a handed-out buffer: a text buffer (strings.Builder, bytes.Buffer) is not emptied by a function that does not own it (declared outside and captured, a field, a parameter), and a slice variable emptied with `x[:0]` keeps its backing array; when a filling of that variable is stored into a field, element, map or global or returned (directly or as the base of an append), the next filling overwrites the stored data. No such site exists on the audited tree; any is reported.")
	n := 0
	for _, fn := range allModFuncs(p) {
		if !pkgs[pkgOfFunc(fn)] || fn.Synthetic != "" {
			continue
		}
		n++
		// the same with a text buffer: Reset on a builder that lives longer than this invocation
		for _, b := range fn.Blocks {
			for _, in := range b.Instrs {
				c, ok := in.(*ssa.Call)
				if !ok {
					continue
				}
				f := c.Common().StaticCallee()
				if f == nil || len(c.Common().Args) == 0 {
					continue
				}
				switch rawShortName(f) {
				case "(*strings.Builder).Reset", "(*bytes.Buffer).Reset", "(*bytes.Buffer).Truncate":
				default:
					continue
				}
				root := cellRootOf(c.Common().Args[0])
				if al, ok := root.(*ssa.Alloc); ok && al.Parent() == fn {
					continue
				}
				r.add(rule, "reuse-buffer|"+fnDisplay(fn), p.ipos(in), "text buffer emptied in "+fnDisplay(fn), false,
					"the buffer is declared outside this function (captured, a field or a parameter) and emptied inside it: when the function is entered again before the collected text was used (recursion, the next list of the same rule) what was collected is thrown away")
			}
		}
		for _, s := range reuseSitesOf(fn) {
			r.add(rule, "reuse|"+fnDisplay(fn), p.ipos(s.In), "buffer emptied with [:0] in "+fnDisplay(fn), false,
				"the emptied buffer's earlier content was stored at "+p.ipos(s.Escape)+" and shares its backing array: the next filling overwrites it (rules / commands of one item replace those of an earlier one)")
		}
	}
	r.add(rule, "reuse|scanned", "", fmt.Sprintf("%d functions scanned for reused buffers", n), n > 0, "no function was analysed")
}

// ---- R-X: conditional exits of functions that work by effect ----

type exitSite struct {
	Fn  *ssa.Function
	In  ssa.Instruction
	Sig string
}

// exitSitesOf: the returns of a function without results that lie under a condition
// (loop conditions excluded): the paths on which the function leaves early.
func exitSitesOf(fn *ssa.Function) []exitSite {
	if fn.Signature.Results().Len() != 0 || len(fn.Blocks) == 0 {
		return nil
	}
	var out []exitSite
	for _, b := range fn.Blocks {
		if len(b.Instrs) == 0 {
			continue
		}
		ret, ok := b.Instrs[len(b.Instrs)-1].(*ssa.Return)
		if !ok {
			continue
		}
		gs := guardSet(ret)
		og := orGuardSet(ret)
		if len(gs) == 0 && og == "" {
			continue
		}
		// the function's last return, reached by falling out of a trailing `if`, is not an
		// early exit: it has no statement of its own
		if ret.Pos() == token.NoPos {
			continue
		}
		out = append(out, exitSite{fn, ret, strings.Join(gs, " && ") + " ## " + og})
	}
	return out
}

func rootOf(fn *ssa.Function) *ssa.Function {
	for fn.Parent() != nil {
		fn = fn.Parent()
	}
	return fn
}

func ruleExitsAudited(p *Prog, r *Report, rule, prop string, pkgs map[string]bool, floor int) {
	r.rule(rule, "Early exits of functions that work by effect: in the planner, merger and session packages a function without results (also a closure) does its work by emitting commands, setting marks and rewriting lists; a `return` under a condition skips that work. Every such return is audited with its controlling conditions (tables/exits_audit.tsv, compared as multisets per function); a new early return is reported when it tests something the audited function does not test anywhere (tables/fn_conditions.tsv, regenerated with the fingerprints): `if c { body }` written as `if !c { return }; body` adds a return but no decision -- as long as the test does not stand in a loop and everything behind the return stood under that test before (tables/fn_cond_sites.tsv). In the same packages every early end of a loop (`break`, jump to the end of an enclosing loop; functions with results included) is audited with its controlling conditions (tables/breaks_audit.tsv): it skips the remaining passes.")
	want := map[string][]string{}
	why := map[string]string{}
	for _, row := range readTable("exits_audit.tsv", 4) {
		if propListed(row[2], prop) {
			want[row[0]] = append(want[row[0]], row[1])
			why[row[0]] = row[3]
		}
	}
	// every audited exit of a function counts for the comparison, whatever property its row lists
	all := map[string][]string{}
	for _, row := range readTable("exits_audit.tsv", 4) {
		all[row[0]] = append(all[row[0]], row[1])
		if why[row[0]] == "" {
			why[row[0]] = row[3]
		}
	}
	n := 0
	conds := auditedConditions()
	respelled := 0
	for _, fn := range allModFuncs(p) {
		if !pkgs[pkgOfFunc(fn)] || fn.Synthetic != "" {
			continue
		}
		sites := exitSitesOf(fn)
		name := fnDisplay(fn)
		if len(sites) == 0 && len(want[name]) == 0 {
			continue
		}
		var got []string
		pos := p.pos(fn.Pos())
		for _, s := range sites {
			got = append(got, s.Sig)
			pos = p.ipos(s.In)
		}
		w := append([]string{}, all[name]...)
		sort.Strings(got)
		sort.Strings(w)
		// new or changed exits are reported; an audited exit that is gone skips nothing
		extra := ""
		left := map[string]int{}
		for _, x := range w {
			left[x]++
		}
		for _, x := range got {
			if left[x] > 0 {
				left[x]--
			} else if exitIsRespelling(x, conds[name]) {
				// ... and everything behind the new return stood under that test before
				var ret ssa.Instruction
				for _, st := range sites {
					if st.Sig == x {
						ret = st.In
					}
				}
				if miss := skippedByExit(p, fn, ret); len(miss) > 0 {
					extra += "\n   unaudited: " + x + "\n     tests only what the function tested before, but the return now skips work that did not depend on that test: " + strings.Join(miss, "; ")
				} else {
					respelled++
				}
			} else if conds[name] == nil && auditedFnNames != nil && !auditedFnNames[shortName(rootOf(fn))] {
				// a function the audited tree does not have: nothing to compare with
				respelled++
			} else {
				extra += "\n   unaudited: " + x
			}
		}
		n += len(got)
		r.add(rule, "exits|"+name, pos, fmt.Sprintf("%d early return(s) of %s are the audited ones (%s)", len(got), name, why[name]), extra == "",
			"the function leaves early under conditions that were not audited: the commands, marks or rewrites behind the return are skipped"+extra)
	}
	if respelled > 0 {
		r.note(rule+": %d early return(s) test only what the audited function tests already (a respelling) or belong to a new function", respelled)
	}
	r.floor(rule, "early returns of effect functions", n, floor)
	ruleBreaksAudited(p, r, rule, prop, pkgs)
}

// fnConditions: the tests a function makes (both polarities, loop conditions excluded),
// in the normalised spelling of the guard sets.
func fnConditions(fn *ssa.Function) []string {
	set := map[string]bool{}
	for _, b := range fn.Blocks {
		i := ifOf(b)
		if i == nil || isLoopCond(b) {
			continue
		}
		set[descCond(i.Cond, true)] = true
		set[descCond(i.Cond, false)] = true
	}
	var out []string
	for c := range set {
		out = append(out, c)
	}
	sort.Strings(out)
	return out
}

// auditedConditions: tables/fn_conditions.tsv (regenerated with the fingerprints): per function
// of the audited tree the tests it makes.
func auditedConditions() map[string]map[string]bool {
	out := map[string]map[string]bool{}
	for _, row := range readTable("fn_conditions.tsv", 2) {
		if out[row[0]] == nil {
			out[row[0]] = map[string]bool{}
		}
		out[row[0]][row[1]] = true
	}
	return out
}

// exitIsRespelling: every condition of the exit is a test the audited function already made
// (`if c { body }` written as `if !c { return }; body` adds a return but no decision).
func exitIsRespelling(sig string, known map[string]bool) bool {
	if known == nil {
		return false
	}
	a, b, _ := strings.Cut(sig, " ## ")
	for _, c := range strings.Split(a, " && ") {
		if c != "" && !known[c] {
			return false
		}
	}
	if b != "" && b != "*" {
		for _, c := range strings.Split(b, " || ") {
			if c != "" && !known[c] {
				return false
			}
		}
	}
	return true
}

// ---- R-LK: which maps a planner function consults ----

// lookupsOf: descriptions of the maps fn looks keys up in (m[k], v, ok := m[k]), including
// the lookups of functions it calls that the audited tree does not have (new helpers).
func lookupsOf(p *Prog, fn *ssa.Function, depth int, seen map[*ssa.Function]bool) map[string]bool {
	out := map[string]bool{}
	if fn == nil || seen[fn] || depth > 2 {
		return out
	}
	seen[fn] = true
	for _, b := range fn.Blocks {
		for _, in := range b.Instrs {
			switch x := in.(type) {
			case *ssa.Lookup:
				if _, isMap := x.X.Type().Underlying().(*types.Map); isMap {
					out[lookupMapDesc(x.X)] = true
				}
			case ssa.CallInstruction:
				f := x.Common().StaticCallee()
				if f != nil && isModFunc(f) && f.Parent() == nil && auditedFnNames != nil && !auditedFnNames[shortName(f)] {
					for d := range lookupsOf(p, f, depth+1, seen) {
						out[d] = true
					}
				}
			}
		}
	}
	return out
}

// lookupMapDesc: a map that is a field (or an element of one) is described by its field path
// (device or target side, kind of object); a parameter by its type; anything built locally
// (a make, the result of a helper) by its type only: how a local set is built is not what the
// lookup decides.
func lookupMapDesc(v ssa.Value) string {
	switch x := v.(type) {
	case *ssa.UnOp:
		if x.Op == token.MUL {
			if _, ok := x.X.(*ssa.FieldAddr); ok {
				return descValue(v, 1)
			}
		}
	case *ssa.Lookup:
		// an element of a map of maps: lookup[prefix]
		if d := lookupMapDesc(x.X); !strings.HasPrefix(d, "local:") {
			return d + "[" + descValue(x.Index, 2) + "]"
		}
	case *ssa.Parameter:
		return descValue(v, 1)
	}
	return "local:" + typeDesc(v.Type())
}

// constantInit: a call whose arguments are all constants (or such calls), or a fresh empty
// map / slice / channel.  Plain constants are not meant: `s.done = true` is a once-flag.
func constantInit(v ssa.Value, d int) bool {
	if d > 3 {
		return false
	}
	switch x := v.(type) {
	case *ssa.MakeMap, *ssa.MakeSlice, *ssa.MakeChan:
		return true
	case *ssa.Call:
		if x.Common().IsInvoke() {
			return false
		}
		for _, a := range x.Common().Args {
			if _, ok := a.(*ssa.Const); ok {
				continue
			}
			if !constantInit(a, d+1) {
				return false
			}
		}
		return true
	case *ssa.MakeInterface:
		return constantInit(x.X, d+1)
	case *ssa.ChangeType:
		return constantInit(x.X, d+1)
	}
	return false
}
