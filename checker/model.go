package main

// E1: program model shared by the rules — entry points, implementations of
// device.RealDevice, regions of the call graph.

import (
	"fmt"
	"go/types"
	"sort"

	"golang.org/x/tools/go/callgraph"
	"golang.org/x/tools/go/ssa"
)

type Model struct {
	p       *Prog
	Iface   *types.Named // device.RealDevice
	Impls   []types.Type // pointer types implementing it, sorted by name
	Entries []*ssa.Function
	// method name -> concrete functions (possibly synthetic wrappers) per impl
	Methods map[string][]*ssa.Function
	// regions
	PreApply  map[*ssa.Function]bool // reachable from entries with edges into T.ApplyCommands cut
	ApplyOnly map[*ssa.Function]bool // reachable only through T.ApplyCommands
	All       map[*ssa.Function]bool // reachable from entries
}

var entryNames = []string{"drc.Main", "doapprove.Main", "cmd/missing-approve.Main", "cmd/get-netspoc-approve-conf.Main"}

func (p *Prog) model() (*Model, error) {
	m := &Model{p: p, Methods: map[string][]*ssa.Function{}}
	dev := p.Mod["device"]
	if dev == nil {
		return nil, fmt.Errorf("package device not found")
	}
	obj := dev.Types.Scope().Lookup("RealDevice")
	if obj == nil {
		return nil, fmt.Errorf("device.RealDevice not found")
	}
	m.Iface = obj.Type().(*types.Named)
	iface := m.Iface.Underlying().(*types.Interface)
	// all named types of production packages whose pointer implements the interface
	for _, pk := range p.prodPkgs() {
		sc := pk.Types.Scope()
		for _, n := range sc.Names() {
			tn, ok := sc.Lookup(n).(*types.TypeName)
			if !ok || tn.IsAlias() {
				continue
			}
			if _, isI := tn.Type().Underlying().(*types.Interface); isI {
				continue
			}
			pt := types.NewPointer(tn.Type())
			if embedsType(tn.Type(), m.Iface) {
				continue // the dispatching wrapper (device.state), not an implementation
			}
			if types.Implements(pt, iface) {
				m.Impls = append(m.Impls, pt)
			}
		}
	}
	sort.Slice(m.Impls, func(i, j int) bool { return typeShort(m.Impls[i]) < typeShort(m.Impls[j]) })
	for i := 0; i < iface.NumMethods(); i++ {
		name := iface.Method(i).Name()
		for _, t := range m.Impls {
			sel := p.SSA.MethodSets.MethodSet(t).Lookup(iface.Method(i).Pkg(), name)
			if sel == nil {
				return nil, fmt.Errorf("%s has no method %s", typeShort(t), name)
			}
			fn := p.SSA.MethodValue(sel)
			if fn == nil {
				return nil, fmt.Errorf("no SSA for %s.%s", typeShort(t), name)
			}
			m.Methods[name] = append(m.Methods[name], fn)
		}
	}
	for _, n := range entryNames {
		f := p.Fn(n)
		if f == nil {
			return nil, fmt.Errorf("entry point %s not found", n)
		}
		m.Entries = append(m.Entries, f)
	}
	cg := p.CG()
	apply := map[*ssa.Function]bool{}
	for _, f := range m.Methods["ApplyCommands"] {
		apply[f] = true
	}
	m.All = reachFrom(cg, m.Entries, nil)
	m.PreApply = reachFrom(cg, m.Entries, func(e *callgraph.Edge) bool { return apply[e.Callee.Func] })
	m.ApplyOnly = map[*ssa.Function]bool{}
	for f := range m.All {
		if !m.PreApply[f] {
			m.ApplyOnly[f] = true
		}
	}
	return m, nil
}

// implMethod returns the concrete method fn of impl type t (by short type
// string, e.g. "*asa.State"), following a synthetic promotion wrapper to the
// promoted method so that rules look at real code.
func (m *Model) implMethod(t types.Type, name string) *ssa.Function {
	sel := m.p.SSA.MethodSets.MethodSet(t).Lookup(m.Iface.Obj().Pkg(), name)
	if sel == nil {
		return nil
	}
	fn := m.p.SSA.MethodValue(sel)
	return unwrap(fn)
}

// unwrap follows synthetic wrappers (promoted methods) to the declared method.
func unwrap(fn *ssa.Function) *ssa.Function {
	for i := 0; fn != nil && fn.Synthetic != "" && i < 5; i++ {
		var next *ssa.Function
		for _, c := range callsOf(fn) {
			if c.Static != nil {
				next = c.Static
			}
		}
		if next == nil {
			return fn
		}
		fn = next
	}
	return fn
}

func embedsType(t types.Type, emb types.Type) bool {
	st, ok := t.Underlying().(*types.Struct)
	if !ok {
		return false
	}
	for i := 0; i < st.NumFields(); i++ {
		f := st.Field(i)
		if f.Embedded() && types.Identical(f.Type(), emb) {
			return true
		}
	}
	return false
}
