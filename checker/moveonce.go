package main

// R-MV: a looked-up device line is consumed by the move.
//
// The ACL planners of package cisco pair a line to be added with a line to be deleted
// through a map keyed by the printed text (log attribute stripped).  The pair is realised
// as a move by a closure that deletes the device line and shifts all recorded positions.
// Identical lines can occur several times (remarks), so a second added line finds the
// same entry again; moving the device line a second time shifts positions once more (ASA:
// the second line lands one line too early; IOS: nil dereference).  At every call that
// hands a value looked up in such a map to a closure of the planner, the entry is used up:
// it is deleted from the map on every way on from the call, or the call is controlled by
// a test of a field of the looked-up value that the closure overwrites.

import (
	"fmt"
	"go/token"
	"go/types"

	"golang.org/x/tools/go/ssa"
)

type moveSite struct {
	Fn     *ssa.Function
	Call   ssa.CallInstruction
	Lookup *ssa.Lookup
	Arg    ssa.Value
	Callee *ssa.Function
}

func lookupOf(v ssa.Value) *ssa.Lookup {
	switch x := v.(type) {
	case *ssa.Lookup:
		if _, ok := x.X.Type().Underlying().(*types.Map); ok {
			return x
		}
	case *ssa.Extract:
		if l, ok := x.Tuple.(*ssa.Lookup); ok && x.Index == 0 {
			return lookupOf(l)
		}
	}
	return nil
}

func sameCell(a, b ssa.Value) bool {
	if a == b {
		return true
	}
	ua, ok1 := a.(*ssa.UnOp)
	ub, ok2 := b.(*ssa.UnOp)
	return ok1 && ok2 && ua.Op == token.MUL && ub.Op == token.MUL && ua.X == ub.X
}

func moveSites(p *Prog, fn *ssa.Function) []moveSite {
	var out []moveSite
	for _, cs := range callsOf(fn) {
		if cs.Defer || cs.Go {
			continue
		}
		for _, a := range cs.In.Common().Args {
			l := lookupOf(a)
			if l == nil {
				continue
			}
			if _, isPtr := a.Type().Underlying().(*types.Pointer); !isPtr {
				continue
			}
			for _, cal := range calleesOfSite(p, cs) {
				if cal.Parent() == fn {
					out = append(out, moveSite{fn, cs.In, l, a, cal})
					break
				}
			}
			break
		}
	}
	return out
}

// consumedByDelete: no way on from the call reaches the end of the function or the
// call's own block again without a delete on the map of the lookup.
func consumedByDelete(s moveSite) bool {
	isDel := func(in ssa.Instruction) bool {
		c, ok := in.(*ssa.Call)
		if !ok {
			return false
		}
		b, ok := c.Common().Value.(*ssa.Builtin)
		return ok && b.Name() == "delete" && sameCell(c.Common().Args[0], s.Lookup.X)
	}
	blk := s.Call.Block()
	idx := instrIndex(s.Call)
	for _, in := range blk.Instrs[idx+1:] {
		if isDel(in) {
			return true
		}
	}
	seen := map[*ssa.BasicBlock]bool{}
	var escapes func(b *ssa.BasicBlock) bool
	escapes = func(b *ssa.BasicBlock) bool {
		if b == blk {
			return true // next pass of the loop
		}
		if seen[b] {
			return false
		}
		seen[b] = true
		for _, in := range b.Instrs {
			if isDel(in) {
				return false
			}
		}
		if len(b.Succs) == 0 {
			return true
		}
		for _, n := range b.Succs {
			if escapes(n) {
				return true
			}
		}
		return false
	}
	if len(blk.Succs) == 0 {
		return false
	}
	for _, n := range blk.Succs {
		if escapes(n) {
			return false
		}
	}
	return true
}

// consumedByField: the call is controlled by a test of a field of the looked-up value,
// and the closure stores into that field of its parameter.
func consumedByField(s moveSite) (string, bool) {
	tested := map[string]bool{}
	for b := s.Call.Block(); b != nil; b = b.Idom() {
		d := b.Idom()
		if d == nil {
			break
		}
		i := ifOf(d)
		if i == nil {
			continue
		}
		for v := range valueDeps(i.Cond) {
			if fa, ok := v.(*ssa.FieldAddr); ok && fa.X == s.Arg {
				tested[fieldName(fa)] = true
			}
		}
	}
	if len(tested) == 0 {
		return "", false
	}
	argIdx := -1
	for i, a := range s.Call.Common().Args {
		if a == s.Arg {
			argIdx = i
		}
	}
	if argIdx < 0 || argIdx >= len(s.Callee.Params) {
		return "", false
	}
	par := s.Callee.Params[argIdx]
	// the store may stand in a deferred closure of the callee (the parameter is captured then)
	fns := append([]*ssa.Function{s.Callee}, s.Callee.AnonFuncs...)
	for _, f := range fns {
		for _, b := range f.Blocks {
			for _, in := range b.Instrs {
				if st, ok := in.(*ssa.Store); ok {
					if fa, ok := st.Addr.(*ssa.FieldAddr); ok && tested[fieldName(fa)] && types.Identical(fa.X.Type(), par.Type()) {
						return fieldName(fa), true
					}
				}
			}
		}
	}
	return "", false
}

func ruleMoveOnce(p *Prog, r *Report, rule string, fns []string) {
	r.rule(rule, "A device line is moved at most once: at every call in the ACL planners that hands a value looked up in a map (the lines to be deleted, by printed text) to a closure of the planner, the entry is used up -- deleted from the map on every way on from the call, or the call is controlled by a test of a field of the looked-up value that the closure overwrites. Identical lines (remarks) occur several times; a second move of the same device line shifts all recorded positions once more. (Pins the defects repaired by bf094f1 and 5b8d45d.)")
	n := 0
	for _, name := range fns {
		fn := p.Fn(name)
		if fn == nil {
			r.fail(rule, "anchor|"+name, "", "function not found", "")
			continue
		}
		for i, s := range moveSites(p, fn) {
			n++
			how := "entry deleted from the map after the call"
			ok := consumedByDelete(s)
			if !ok {
				var f string
				f, ok = consumedByField(s)
				how = "call controlled by a test of " + f + ", which the closure overwrites"
			}
			r.add(rule, fmt.Sprintf("consumed|%s|%d", name, i+1), p.ipos(s.Call), "looked-up line handed to "+fnDisplay(s.Callee)+": "+how, ok,
				"the map entry stays usable after the move: a second line with the same text moves the same device line again")
		}
	}
	r.floor(rule, "calls handing a looked-up line to a closure of the planner", n, len(fns))
}
