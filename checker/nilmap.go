package main

// R20.7: no write into a nil map.  `m[k] = v` panics when m is nil.  A map may be nil
// when it is the zero value of a struct field that not every constructor fills, the
// element of a map of maps that was never stored, the result of a function that
// returns nil on some path, or a variable that is assigned only under a condition.

import (
	"fmt"
	"strings"
	"os"
	"go/token"
	"go/types"
	"sort"

	"golang.org/x/tools/go/ssa"
)

type nilMapCtx struct {
	p         *Prog
	fieldInit map[*types.Var]int // 1 always initialised, 2 not
	fnRet     map[*ssa.Function]int
	busy      map[ssa.Value]bool
}

// mayBeNilMap: "" when v cannot be a nil map (or nothing is known: parameters, globals,
// library results are trusted), otherwise the reason.
func (c *nilMapCtx) mayBeNilMap(v ssa.Value, use ssa.Instruction, depth int) string {
	if depth > 6 || c.busy[v] {
		return ""
	}
	c.busy[v] = true
	defer delete(c.busy, v)
	if use != nil && nilGuarded(v, use) {
		return ""
	}
	switch x := v.(type) {
	case *ssa.MakeMap:
		return ""
	case *ssa.Const:
		if x.Value == nil {
			return "nil"
		}
	case *ssa.Phi:
		for i, e := range x.Edges {
			// judged where the edge leaves its block: `m := l[k]; if m == nil { m = make(..) }`
			var at ssa.Instruction
			pr := x.Block().Preds[i]
			if len(pr.Instrs) > 0 {
				at = pr.Instrs[len(pr.Instrs)-1]
			}
			// the edge itself is the non-nil side of a test of this value
			if iff := ifOf(pr); iff != nil {
				if tv, nonNilWhenTrue, ok := nilTest(iff.Cond); ok && tv == e {
					succ := 1
					if nonNilWhenTrue {
						succ = 0
					}
					if pr.Succs[succ] == x.Block() && pr.Succs[1-succ] != x.Block() {
						continue
					}
				}
			}
			if r := c.mayBeNilMap(e, at, depth+1); r != "" {
				// an edge that carries the old value beside a fresh map: `if m == nil { m = make }`
				return r
			}
		}
	case *ssa.Lookup:
		if _, ok := x.X.Type().Underlying().(*types.Map); ok {
			return "element of the map of maps " + descValue(x.X, 2) + " (missing key)"
		}
	case *ssa.Extract:
		if lk, ok := x.Tuple.(*ssa.Lookup); ok && x.Index == 0 {
			return "element of the map of maps " + descValue(lk.X, 2) + " (missing key)"
		}
		if call, ok := x.Tuple.(*ssa.Call); ok {
			if f := call.Common().StaticCallee(); f != nil && isModFunc(f) {
				return c.resultMayBeNil(f, x.Index, depth)
			}
		}
	case *ssa.Call:
		if f := x.Common().StaticCallee(); f != nil && isModFunc(f) {
			return c.resultMayBeNil(f, 0, depth)
		}
	case *ssa.UnOp:
		if x.Op != token.MUL {
			return ""
		}
		switch a := x.X.(type) {
		case *ssa.FieldAddr:
			if c.fieldSetBefore(a, x) {
				return ""
			}
			if fv := fieldVarOf(a); fv != nil && fv.Pkg() != nil && isModPkgPath(fv.Pkg().Path()) {
				if !c.fieldAlwaysInit(fv, a) {
					return "field " + fieldName(a) + " is not filled by every constructor of its struct"
				}
			}
		case *ssa.Alloc:
			for _, st := range cellStores(a) {
				if r := c.mayBeNilMap(st.Val, nil, depth+1); r != "" {
					return r
				}
			}
			// declared without a value and assigned only on some paths
			if len(cellStores(a)) == 0 {
				return "variable never assigned"
			}
		}
	case *ssa.ChangeType:
		return c.mayBeNilMap(x.X, use, depth+1)
	}
	return ""
}

func (c *nilMapCtx) resultMayBeNil(f *ssa.Function, idx int, depth int) string {
	key := f
	if st, ok := c.fnRet[key]; ok && idx == 0 {
		if st == 1 {
			return ""
		}
		return "result of " + shortName(f) + " (nil on some path)"
	}
	res := ""
	for _, b := range f.Blocks {
		for _, in := range b.Instrs {
			if rt, ok := in.(*ssa.Return); ok && idx < len(rt.Results) {
				if r := c.mayBeNilMap(rt.Results[idx], rt, depth+1); r != "" {
					res = "result of " + shortName(f) + " (" + r + ")"
				}
			}
		}
	}
	if idx == 0 {
		if res == "" {
			c.fnRet[key] = 1
		} else {
			c.fnRet[key] = 2
		}
	}
	return res
}

// fieldAlwaysInit: every place of the module that creates a value of the field's struct type
// stores a non-nil map into the field on every path to the function's returns.
func (c *nilMapCtx) fieldAlwaysInit(fv *types.Var, site *ssa.FieldAddr) bool {
	if st, ok := c.fieldInit[fv]; ok {
		return st == 1
	}
	c.fieldInit[fv] = 1 // optimistic for recursion
	structT := site.X.Type()
	if pt, ok := structT.Underlying().(*types.Pointer); ok {
		structT = pt.Elem()
	}
	allocs := 0
	ok := true
	for _, fn := range allModFuncs(c.p) {
		for _, b := range fn.Blocks {
			for _, in := range b.Instrs {
				al, isA := in.(*ssa.Alloc)
				if !isA {
					continue
				}
				at := al.Type().Underlying().(*types.Pointer).Elem()
				if !types.Identical(at, structT) {
					continue
				}
				allocs++
				// stores into this field of this alloc
				good := false
				if al.Referrers() != nil {
					for _, ref := range *al.Referrers() {
						fa, isF := ref.(*ssa.FieldAddr)
						if !isF || fa.Field != site.Field || fa.Referrers() == nil {
							continue
						}
						for _, r2 := range *fa.Referrers() {
							st, isS := r2.(*ssa.Store)
							if !isS || st.Addr != fa {
								continue
							}
							if c.mayBeNilMap(st.Val, nil, 1) != "" {
								continue
							}
							// on every path to a return
							dom := true
							reach := reachableFrom(al.Block())
							for _, rb := range fn.Blocks {
								if n := len(rb.Instrs); n > 0 && reach[rb] {
									if _, isR := rb.Instrs[n-1].(*ssa.Return); isR && !st.Block().Dominates(rb) {
										dom = false
									}
								}
							}
							if dom {
								good = true
							}
						}
					}
				}
				if !good {
					ok = false
					if os.Getenv("NILMAP_DEBUG") != "" {
						fmt.Fprintf(os.Stderr, "field %s: alloc in %s at %s does not fill it\n", fv.Name(), shortName(fn), c.p.ipos(al))
					}
				}
			}
		}
	}
	if allocs == 0 {
		ok = false // only ever decoded or zero-valued
	}
	if ok {
		c.fieldInit[fv] = 1
	} else {
		c.fieldInit[fv] = 2
	}
	return ok
}

type nilMapUse struct {
	Fn  *ssa.Function
	In  ssa.Instruction
	Why string
}

func nilMapWrites(p *Prog) ([]nilMapUse, int) {
	c := &nilMapCtx{p: p, fieldInit: map[*types.Var]int{}, fnRet: map[*ssa.Function]int{}, busy: map[ssa.Value]bool{}}
	var out []nilMapUse
	n := 0
	for _, fn := range allModFuncs(p) {
		if fn.Synthetic != "" || !fileInputPkgs[pkgOfFunc(fn)] {
			continue
		}
		for _, b := range fn.Blocks {
			for _, in := range b.Instrs {
				mu, ok := in.(*ssa.MapUpdate)
				if !ok {
					continue
				}
				if _, isMap := mu.Map.Type().Underlying().(*types.Map); !isMap {
					continue
				}
				n++
				if why := c.mayBeNilMap(mu.Map, mu, 0); why != "" {
					out = append(out, nilMapUse{fn, in, why})
				}
			}
		}
	}
	return out, n
}

func ruleNilMapWrites(p *Prog, r *Report) {
	r.rule("R20.7", "No write into a nil map in the file-input packages: the map operand of every `m[k] = v` is a fresh map, a field that every constructor of its struct fills with a non-nil map on every path to its returns, the result of a function that returns a non-nil map on every path, or is tested against nil before the write. Elements of maps of maps and anything else that may be nil are residuals, compared as a multiset (function, reason) with tables/nilmap_audit.tsv. Parameters, globals and library results are trusted.")
	type key struct{ fn, why string }
	res, n := nilMapWrites(p)
	counts := map[key]int{}
	pos := map[key]string{}
	for _, u := range res {
		k := key{fnDisplay(u.Fn), u.Why}
		counts[k]++
		if pos[k] == "" {
			pos[k] = p.ipos(u.In)
		}
	}
	audit := map[key][]string{}
	for _, row := range readTable("nilmap_audit.tsv", 5) {
		audit[key{row[0], row[1]}] = row
	}
	var keys []key
	for k := range counts {
		keys = append(keys, k)
	}
	sort.Slice(keys, func(i, j int) bool { return keys[i].fn+keys[i].why < keys[j].fn+keys[j].why })
	for _, k := range keys {
		okey := "nilmap|" + k.fn + "|" + k.why
		row, ok := audit[k]
		if !ok {
			r.fail("R20.7", okey, pos[k], fmt.Sprintf("%d write(s) into a map that may be nil in %s: %s", counts[k], k.fn, k.why), "assignment to entry in nil map: the program panics on input that takes this path")
			continue
		}
		var audited int
		fmt.Sscan(row[2], &audited)
		if counts[k] > audited {
			r.fail("R20.7", okey, pos[k], fmt.Sprintf("%d writes, only %d audited", counts[k], audited), "a new write into a map that may be nil")
			continue
		}
		r.ok("R20.7", okey, pos[k], fmt.Sprintf("%d× %s in %s — %s: %s", counts[k], k.why, k.fn, row[3], row[4]))
	}
	// invariant I7 (inner maps of the Cisco lookup exist before commands are merged into them)
	if fn := p.Fn("(*cisco.Config).MergeSpoc"); fn != nil {
		var mk *ssa.MapUpdate
		for _, b := range fn.Blocks {
			for _, in := range b.Instrs {
				if mu, ok := in.(*ssa.MapUpdate); ok {
					if _, isMake := mu.Value.(*ssa.MakeMap); isMake {
						mk = mu
					}
				}
			}
		}
		okI7, detail := false, "no store of a fresh inner map in (*cisco.Config).MergeSpoc"
		if mk != nil {
			// the loop that creates the inner maps ranges over the merged-in lookup and is finished before mergeCmds is called
			var hdr *ssa.BasicBlock
			for h, body := range loopsOf(fn) {
				if body[mk.Block()] && (hdr == nil || len(body) < len(loopsOf(fn)[hdr])) {
					hdr = h
				}
			}
			detail = "the inner maps are not created in a loop of their own in front of the merge"
			if hdr != nil {
				body := loopsOf(fn)[hdr]
				overB := false
				for _, in := range hdr.Instrs {
					if nx, ok := in.(*ssa.Next); ok {
						if rg, ok := nx.Iter.(*ssa.Range); ok {
							s := sideOfValue(p, rg.X)
							overB = s == "param-derived"
						}
					}
				}
				calls := 0
				after := true
				for _, cs := range callsOf(fn) {
					if cs.calleeName() == "cisco.mergeCmds" {
						calls++
						if body[cs.In.Block()] || !hdr.Dominates(cs.In.Block()) {
							after = false
						}
					}
				}
				// the test that guards the store must be a nil test of the same element (no other condition)
				gs := guardSetWithin(mk, body)
				onlyNil := len(gs) == 1 && (strings.HasPrefix(gs[0], "nil == ") || strings.HasSuffix(gs[0], " == nil"))
				okI7 = overB && calls > 0 && after && onlyNil
				detail = fmt.Sprintf("range over the merged-in config's lookup: %v; mergeCmds called only after that loop: %v; store guarded by the nil test of the element only: %v %q", overB, after && calls > 0, onlyNil, gs)
			}
		}
		r.add("R20.7", "invariant-I7|(*cisco.Config).MergeSpoc", p.pos(fn.Pos()), "MergeSpoc creates the inner map for every prefix of the merged-in configuration before any command is merged (invariant I7 of tables/nilmap_audit.tsv)", okI7, detail)
	} else {
		r.fail("R20.7", "invariant-I7|(*cisco.Config).MergeSpoc", "", "function not found", "")
	}
	r.add("R20.7", "nilmap|examined", "", fmt.Sprintf("%d map writes examined, %d residuals in %d groups", n, len(res), len(keys)), n >= 60, "fewer map writes than confirmed by hand")
}

func init() {
	dumpers["nilmaprows"] = func(p *Prog, m *Model) {
		res, n := nilMapWrites(p)
		type key struct{ fn, why string }
		counts := map[key]int{}
		pos := map[key]string{}
		for _, u := range res {
			k := key{fnDisplay(u.Fn), u.Why}
			counts[k]++
			pos[k] = p.ipos(u.In)
		}
		for k, c := range counts {
			fmt.Printf("%s\t%s\t%d\tCLASS\tREASON\t# %s\n", k.fn, k.why, c, pos[k])
		}
		fmt.Println("# map writes", n)
	}
}

func reachableFrom(b *ssa.BasicBlock) map[*ssa.BasicBlock]bool {
	seen := map[*ssa.BasicBlock]bool{}
	var walk func(x *ssa.BasicBlock)
	walk = func(x *ssa.BasicBlock) {
		if seen[x] {
			return
		}
		seen[x] = true
		for _, s := range x.Succs {
			walk(s)
		}
	}
	walk(b)
	return seen
}

// fieldSetBefore: in the same function the same field of the same object was given a non-nil map
// before this load: by a store that dominates it, or by `if x.f == nil { x.f = make(..) }` in front of it.
func (c *nilMapCtx) fieldSetBefore(fa *ssa.FieldAddr, load *ssa.UnOp) bool {
	fn := load.Parent()
	sameField := func(o *ssa.FieldAddr) bool {
		return o.Field == fa.Field && (o.X == fa.X || sameLoad(o.X, fa.X))
	}
	var stores []*ssa.Store
	for _, b := range fn.Blocks {
		for _, in := range b.Instrs {
			if st, ok := in.(*ssa.Store); ok {
				if o, ok := st.Addr.(*ssa.FieldAddr); ok && sameField(o) && c.mayBeNilMap(st.Val, nil, 3) == "" {
					stores = append(stores, st)
				}
			}
		}
	}
	for _, st := range stores {
		if st.Block() != load.Block() && st.Block().Dominates(load.Block()) {
			return true
		}
		if st.Block() == load.Block() {
			for _, in := range st.Block().Instrs {
				if in == ssa.Instruction(st) {
					return true
				}
				if in == ssa.Instruction(load) {
					break
				}
			}
		}
		// the store sits on the nil side of a test of the same field that dominates the load
		for _, b := range fn.Blocks {
			iff := ifOf(b)
			if iff == nil || !b.Dominates(load.Block()) {
				continue
			}
			tv, nonNilWhenTrue, ok := nilTest(iff.Cond)
			if !ok {
				continue
			}
			tl, ok := tv.(*ssa.UnOp)
			if !ok {
				continue
			}
			tf, ok := tl.X.(*ssa.FieldAddr)
			if !ok || !sameField(tf) {
				continue
			}
			nilSucc := 0
			if nonNilWhenTrue {
				nilSucc = 1
			}
			if edgeDominatesNA(b, nilSucc, st.Block()) {
				return true
			}
		}
	}
	return false
}

// sideOfValue: "param-derived" when v is read from an object that derives from a parameter other
// than the receiver (the merged-in configuration), through field loads and type assertions.
func sideOfValue(p *Prog, v ssa.Value) string {
	for i := 0; i < 8; i++ {
		switch x := v.(type) {
		case *ssa.UnOp:
			v = x.X
		case *ssa.FieldAddr:
			v = x.X
		case *ssa.TypeAssert:
			v = x.X
		case *ssa.Extract:
			v = x.Tuple
		case *ssa.Parameter:
			fn := x.Parent()
			if fn.Signature.Recv() != nil && len(fn.Params) > 0 && fn.Params[0] == x {
				return "receiver"
			}
			return "param-derived"
		default:
			return "other"
		}
	}
	return "other"
}

// ruleGoroutineAborts: R20.8.  errlog.Abort ends the run by a panic that drc / do-approve recover
// in errlog.HandleAbort on the main goroutine.  The same abort on another goroutine is not
// recovered by anybody: the process dies with a stack trace and exit status 2.
func ruleGoroutineAborts(p *Prog, r *Report) {
	r.rule("R20.8", "An abort is raised only where it is recovered: no `go` statement in production code starts a function from which errlog.Abort or a panic is reachable (VTA call graph) unless that function itself defers errlog.HandleAbort / a recover. (Parsing a file in a background goroutine turns every `ERROR>>>` diagnostic of the parser into a Go crash.) The tree has no goroutine today.")
	cg := p.CG()
	n := 0
	for _, fn := range allModFuncs(p) {
		for _, b := range fn.Blocks {
			for _, in := range b.Instrs {
				g, ok := in.(*ssa.Go)
				if !ok {
					continue
				}
				n++
				var roots []*ssa.Function
				cs := &callSite{In: g, Fn: fn, Static: g.Common().StaticCallee()}
				roots = append(roots, calleesOfSite(p, cs)...)
				if mc, ok := g.Common().Value.(*ssa.MakeClosure); ok {
					if f, ok := mc.Fn.(*ssa.Function); ok {
						roots = append(roots, f)
					}
				}
				bad := ""
				for _, root := range roots {
					// recovered in the goroutine itself?
					recovered := false
					for _, cs2 := range callsOf(root) {
						if _, isDefer := cs2.In.(*ssa.Defer); isDefer {
							n2 := cs2.calleeName()
							if n2 == "errlog.HandleAbort" || strings.Contains(n2, "recover") {
								recovered = true
							}
							for _, c2 := range calleesOfSite(p, cs2) {
								for _, cs3 := range callsOf(c2) {
									if bi, ok := cs3.In.Common().Value.(*ssa.Builtin); ok && bi.Name() == "recover" {
										recovered = true
									}
								}
							}
						}
					}
					if recovered {
						continue
					}
					seen := map[*ssa.Function]bool{}
					var walk func(f *ssa.Function) string
					walk = func(f *ssa.Function) string {
						if seen[f] {
							return ""
						}
						seen[f] = true
						for _, bb := range f.Blocks {
							for _, x := range bb.Instrs {
								if _, isP := x.(*ssa.Panic); isP {
									return "panic in " + shortName(f)
								}
							}
						}
						if nd := cg.Nodes[f]; nd != nil {
							for _, e := range nd.Out {
								c := e.Callee.Func
								if shortName(c) == "errlog.Abort" {
									return "errlog.Abort called from " + shortName(f)
								}
								if isModFunc(c) {
									if w := walk(c); w != "" {
										return w
									}
								}
							}
						}
						return ""
					}
					if w := walk(root); w != "" {
						bad = w
					}
				}
				r.add("R20.8", "goroutine-abort|"+fnDisplay(fn), p.ipos(g), "the goroutine started in "+fnDisplay(fn)+" cannot abort, or recovers its aborts", bad == "",
					"an abort on this goroutine is not recovered by HandleAbort: the program crashes with a stack trace ("+bad+")")
			}
		}
	}
	r.note("R20.8: %d go statements examined", n)
	r.ok("R20.8", "goroutines-examined", "", fmt.Sprintf("%d `go` statements in production code", n))
}
