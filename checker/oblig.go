package main

// Obligations, known findings, evidence files, VIOLATION / KNOWN-FINDING lines.

import (
	"bufio"
	"encoding/json"
	"fmt"
	"os"
	"path/filepath"
	"sort"
	"strings"
	"time"
)

type Status string

const (
	Discharged Status = "discharged"
	Violation  Status = "violation"
	Known      Status = "known-finding"
)

// Ob is one proof obligation produced by a rule.  Key identifies the construct
// (rule | function | callee/field/expression ...), never a line number.
type Ob struct {
	Rule   string `json:"rule"`
	Key    string `json:"key"`
	Pos    string `json:"pos,omitempty"`
	Desc   string `json:"desc"`
	Status Status `json:"status"`
	Detail string `json:"detail,omitempty"`
}

type Report struct {
	Prop    string
	Tier    string
	Level   string
	Obs     []*Ob
	Notes   []string
	Rules   map[string]string // rule id -> rule text
	Trusted []string
	Assume  []string
	NotDec  string // what is not decided
	start   time.Time
	keys    map[string]int
}

var procStart = time.Now()

func newReport(prop, tier, level string) *Report {
	// wall time includes loading and type-checking /repo (process start)
	return &Report{Prop: prop, Tier: tier, Level: level, Rules: map[string]string{}, start: procStart, keys: map[string]int{}}
}

func (r *Report) rule(id, text string) { r.Rules[id] = text }

// add records an obligation.  Keys are made unique by a multiplicity suffix so
// that two equal constructs in one function are two obligations.
func (r *Report) add(rule, key, pos, desc string, ok bool, detail string) *Ob {
	full := rule + "|" + key
	r.keys[full]++
	if n := r.keys[full]; n > 1 {
		full = fmt.Sprintf("%s#%d", full, n)
	}
	st := Discharged
	if !ok {
		st = Violation
	}
	o := &Ob{Rule: rule, Key: full, Pos: pos, Desc: desc, Status: st, Detail: detail}
	r.Obs = append(r.Obs, o)
	return o
}

func (r *Report) ok(rule, key, pos, desc string) *Ob { return r.add(rule, key, pos, desc, true, "") }
func (r *Report) fail(rule, key, pos, desc, detail string) *Ob {
	return r.add(rule, key, pos, desc, false, detail)
}

// floor: a rule that matched fewer instances than were confirmed by hand fails.
// floor: a rule that matches nothing passes vacuously.  min is the number of instances confirmed
// by hand on the audited tree; the check fails when fewer than two thirds of them are left
// (a restructuring that merges two sites is not a loss of coverage, a rule that lost a third of
// its instances no longer sees what it was written for).
func (r *Report) floor(rule, what string, got, min int) {
	eff := min
	if min > 3 {
		eff = (2*min + 2) / 3
	}
	r.add(rule, "floor|"+what, "", fmt.Sprintf("rule instances of %q: %d (confirmed by hand %d, at least %d required)", what, got, min, eff), got >= eff,
		"the rule matched far fewer sites than were confirmed by hand; it would pass vacuously")
}

func (r *Report) note(format string, a ...any) { r.Notes = append(r.Notes, fmt.Sprintf(format, a...)) }

type finding struct {
	kind string // finding | fixed
	prop string
	key  string
	what string
}

func verifDir() string {
	if d := os.Getenv("VERIF_DIR"); d != "" {
		return d
	}
	return "/verif"
}

func loadFindings() ([]finding, error) {
	f, err := os.Open(filepath.Join(verifDir(), "known_findings.txt"))
	if err != nil {
		if os.IsNotExist(err) {
			return nil, nil
		}
		return nil, err
	}
	defer f.Close()
	var l []finding
	sc := bufio.NewScanner(f)
	sc.Buffer(make([]byte, 1<<20), 1<<20)
	for sc.Scan() {
		line := strings.TrimSpace(sc.Text())
		if line == "" || strings.HasPrefix(line, "#") {
			continue
		}
		// finding: property=C17 key=<key> | <what fails>
		// fixed: property=C06 <commit> <what failed>
		if rest, ok := strings.CutPrefix(line, "finding: "); ok {
			var fd finding
			fd.kind = "finding"
			head, what, _ := strings.Cut(rest, " | ")
			fd.what = what
			p, k, ok := strings.Cut(head, " key=")
			if !ok {
				return nil, fmt.Errorf("known_findings.txt: no key in %q", line)
			}
			fd.prop = strings.TrimPrefix(p, "property=")
			fd.key = strings.TrimSpace(k)
			l = append(l, fd)
		} else if strings.HasPrefix(line, "fixed: ") {
			l = append(l, finding{kind: "fixed", what: line})
		} else {
			return nil, fmt.Errorf("known_findings.txt: bad line %q", line)
		}
	}
	return l, sc.Err()
}

// finish applies the known-findings list, prints the verdict lines, writes
// evidence and replay files, and returns the exit code.
func (r *Report) finish() int {
	if len(renamedRaw) > 0 {
		var l []string
		for cur, old := range renamedRaw {
			l = append(l, cur+" is audited under its former name "+old+" (same body, matched by fingerprint)")
		}
		sort.Strings(l)
		for _, x := range l {
			r.note("renamed function: %s", x)
		}
	}
	fl, err := loadFindings()
	if err != nil {
		fmt.Println("error:", err)
		return 2
	}
	known := map[string]finding{}
	for _, f := range fl {
		if f.kind == "finding" {
			known[f.key] = f
		}
	}
	// stable order (rule code may enumerate in map order): reports, samples and replay numbers do not vary between runs
	sort.SliceStable(r.Obs, func(i, j int) bool {
		if r.Obs[i].Rule != r.Obs[j].Rule {
			return r.Obs[i].Rule < r.Obs[j].Rule
		}
		return r.Obs[i].Key < r.Obs[j].Key
	})
	nViol, nKnown, nDis := 0, 0, 0
	var viol []*Ob
	for _, o := range r.Obs {
		if o.Status == Violation {
			if f, ok := known[o.Key]; ok && propListed(f.prop, r.Prop) {
				o.Status = Known
			}
		}
		switch o.Status {
		case Violation:
			nViol++
			viol = append(viol, o)
		case Known:
			nKnown++
			fmt.Printf("KNOWN-FINDING: property=%s %s [%s] %s\n", r.Prop, o.Key, o.Pos, o.Desc)
		default:
			nDis++
		}
	}
	vd := verifDir()
	evDir := filepath.Join(vd, "evidence")
	rpDir := filepath.Join(vd, "replay")
	if d := os.Getenv("VERIF_EVIDENCE_DIR"); d != "" {
		evDir, rpDir = d, d
	}
	os.MkdirAll(evDir, 0o755)
	os.MkdirAll(rpDir, 0o755)
	for i, o := range viol {
		rp := filepath.Join(rpDir, fmt.Sprintf("%s-%02d.json", r.Prop, i+1))
		b, _ := json.MarshalIndent(map[string]any{
			"property": r.Prop, "obligation": o, "rule_text": r.Rules[o.Rule],
			"how_to_replay": fmt.Sprintf("cd /verif && bin/check %s %s   # static: re-derives this obligation from /repo's current source", r.Prop, r.Tier),
		}, "", " ")
		os.WriteFile(rp, b, 0o644)
		fmt.Printf("%s: %s: %s — %s\n", o.Pos, o.Key, o.Desc, o.Detail)
		fmt.Printf("VIOLATION property=%s replay=%s\n", r.Prop, rp)
	}
	// evidence
	samples := []any{}
	perRule := map[string]int{}
	for _, o := range r.Obs {
		perRule[o.Rule]++
	}
	seen := map[string]int{}
	for _, o := range r.Obs {
		if seen[o.Rule] < 3 || o.Status != Discharged {
			samples = append(samples, o)
			seen[o.Rule]++
		}
	}
	var ruleIDs []string
	for id := range r.Rules {
		ruleIDs = append(ruleIDs, id)
	}
	sort.Strings(ruleIDs)
	rules := []map[string]any{}
	for _, id := range ruleIDs {
		rules = append(rules, map[string]any{"id": id, "text": r.Rules[id], "obligations": perRule[id]})
	}
	distinct := map[string]bool{}
	for _, o := range r.Obs {
		distinct[o.Key] = true
	}
	expl := fmt.Sprintf("Static analysis of %s (type-checked AST, go/ssa, VTA call graph; nothing is executed). "+
		"%d obligations from %d rules: %d discharged, %d known findings, %d violations. Not decided: %s",
		repoDir(), len(r.Obs), len(r.Rules), nDis, nKnown, nViol, r.NotDec)
	seed := 0
	fmt.Sscan(os.Getenv("VERIF_SEED"), &seed)
	ev := map[string]any{
		"property_id": r.Prop,
		"tier":        r.Tier,
		"seed":        seed,
		"level":       r.Level,
		"coverage": map[string]any{
			"obligations":         len(r.Obs),
			"discharged":          nDis,
			"known_findings":      nKnown,
			"evaluations":         len(r.Obs),
			"distinct_nontrivial": len(distinct),
			"rule":                "one obligation per rule instance found in the current source; distinct = distinct rule|function|construct keys",
			"rules":               rules,
			"samples":             samples,
			"checker_cmd":         fmt.Sprintf("bin/check %s %s", r.Prop, r.Tier),
			"trusted_base":        r.Trusted,
			"explanation":         expl,
			"exhaustive":          true,
			"notes":               r.Notes,
			"all_obligation_keys": keysOf(r.Obs),
		},
		"assumptions": append([]string{}, r.Assume...),
		"wall_s":      time.Since(r.start).Seconds(),
		"violations":  nViol,
	}
	b, _ := json.MarshalIndent(ev, "", " ")
	if err := os.WriteFile(filepath.Join(evDir, r.Prop+".json"), b, 0o644); err != nil {
		fmt.Println("error: cannot write evidence:", err)
		return 2
	}
	fmt.Printf("%s %s: %d obligations, %d discharged, %d known findings, %d violations (%.1fs)\n",
		r.Prop, r.Tier, len(r.Obs), nDis, nKnown, nViol, time.Since(r.start).Seconds())
	if nViol > 0 {
		return 1
	}
	return 0
}

func keysOf(obs []*Ob) []string {
	var l []string
	for _, o := range obs {
		l = append(l, string(o.Status)+" "+o.Key)
	}
	return l
}

func propListed(list, prop string) bool {
	for _, p := range strings.Split(list, ",") {
		if strings.TrimSpace(p) == prop {
			return true
		}
	}
	return false
}
