package main

// R16.7: how files are opened for writing.
//
// A session log that is opened without O_TRUNC keeps what an earlier run wrote: do-approve
// reads the log back to classify the run, so the recorded result then depends on the
// previous run.  The history file, in turn, must be appended to.  The flag argument of
// every os.OpenFile is a constant and is the audited one (tables/openfile_flags.tsv).

import (
	"fmt"
	"os"
	"sort"
	"strings"
)

func flagNames(v int64) string {
	var l []string
	switch v & 3 {
	case int64(os.O_RDONLY):
		l = append(l, "O_RDONLY")
	case int64(os.O_WRONLY):
		l = append(l, "O_WRONLY")
	case int64(os.O_RDWR):
		l = append(l, "O_RDWR")
	}
	for _, f := range []struct {
		n string
		v int
	}{{"O_APPEND", os.O_APPEND}, {"O_CREATE", os.O_CREATE}, {"O_EXCL", os.O_EXCL}, {"O_SYNC", os.O_SYNC}, {"O_TRUNC", os.O_TRUNC}} {
		if v&int64(f.v) != 0 {
			l = append(l, f.n)
		}
	}
	sort.Strings(l)
	return strings.Join(l, "|")
}

func ruleOpenFlags(p *Prog, r *Report, rule string) {
	r.rule(rule, "Files are opened the audited way: the flag argument of every os.OpenFile in production code is a constant and equals the audited one for the function (tables/openfile_flags.tsv): the session log files are created truncated (a log that keeps the lines of an earlier run is read back by do-approve and decides the recorded result), the history is appended to, the lock file is opened without truncation. os.Create (always truncating) needs no row.")
	want := map[string]string{}
	why := map[string]string{}
	for _, row := range readTable("openfile_flags.tsv", 3) {
		want[row[0]] = row[1]
		why[row[0]] = row[2]
	}
	n := 0
	for _, fn := range allModFuncs(p) {
		for _, cs := range callsOf(fn) {
			if cs.calleeName() != "os.OpenFile" {
				continue
			}
			n++
			name := fnDisplay(fn)
			k, isC := constInt(cs.In.Common().Args[1])
			got := "<not a constant>"
			if isC {
				got = flagNames(k)
			}
			r.add(rule, "open-flags|"+name, p.ipos(cs.In), fmt.Sprintf("os.OpenFile in %s uses %s (%s)", name, got, why[name]), isC && want[name] == got,
				fmt.Sprintf("audited flags: %q, now: %q -- a log opened without O_TRUNC carries the lines of earlier runs into this one; a history opened with O_TRUNC loses them", want[name], got))
		}
	}
	r.floor(rule, "os.OpenFile calls", n, 3)
}
