package main

// R15.13: how often a function reads from the device.
//
// The dialogue with the device is a strict alternation: one command, one answer ending in a
// prompt.  A read (GExpect.Expect / ExpectBatch) that stands in a loop takes several
// answers; with commands that were sent together (the two halves of a joined change) it
// swallows the echo and prompt of the next command, whose own check then waits in vain.
// Whether each read of package console stands in a loop is audited.

import (
	"fmt"
	"sort"
	"strings"

	"golang.org/x/tools/go/ssa"
)

type readSite struct {
	Fn     *ssa.Function
	In     ssa.Instruction
	Callee string
	InLoop bool
	Pure   bool // the callee reads without sending anything first
}

func deviceReadSites(p *Prog) []readSite {
	var out []readSite
	// the functions of package console that read from the device (reach GExpect.Expect*)
	readers := map[*ssa.Function]bool{}
	for changed := true; changed; {
		changed = false
		for _, fn := range allModFuncs(p) {
			if readers[fn] || pkgOfFunc(fn) != "console" {
				continue
			}
			for _, cs := range callsOf(fn) {
				hit := strings.HasPrefix(cs.calleeName(), "(*github.com/tailscale/goexpect.GExpect).Expect")
				for _, cal := range calleesOfSite(p, cs) {
					if readers[cal] {
						hit = true
					}
				}
				if hit {
					readers[fn] = true
					changed = true
					break
				}
			}
		}
	}
	// ... and those that send (reach GExpect.Send)
	senders := map[*ssa.Function]bool{}
	for changed := true; changed; {
		changed = false
		for _, fn := range allModFuncs(p) {
			if senders[fn] || pkgOfFunc(fn) != "console" {
				continue
			}
			for _, cs := range callsOf(fn) {
				hit := strings.HasPrefix(cs.calleeName(), "(*github.com/tailscale/goexpect.GExpect).Send")
				for _, cal := range calleesOfSite(p, cs) {
					if senders[cal] {
						hit = true
					}
				}
				if hit {
					senders[fn] = true
					changed = true
					break
				}
			}
		}
	}
	for _, fn := range allModFuncs(p) {
		if fn.Synthetic != "" {
			continue
		}
		for _, cs := range callsOf(fn) {
			name := cs.calleeName()
			pure := true
			if strings.HasPrefix(name, "(*github.com/tailscale/goexpect.GExpect).Expect") {
				name = strings.TrimPrefix(name, "(*github.com/tailscale/goexpect.GExpect).")
			} else {
				hit := false
				for _, cal := range calleesOfSite(p, cs) {
					if readers[cal] {
						hit = true
						name = shortName(cal)
						pure = !senders[cal]
					}
				}
				if !hit {
					continue
				}
			}
			b := cs.In.Block()
			out = append(out, readSite{fn, cs.In, name, blockReaches(b, b), pure})
		}
	}
	sort.Slice(out, func(i, j int) bool {
		if fnDisplay(out[i].Fn) != fnDisplay(out[j].Fn) {
			return fnDisplay(out[i].Fn) < fnDisplay(out[j].Fn)
		}
		return out[i].Callee < out[j].Callee
	})
	return out
}

func ruleDeviceReadsAudited(p *Prog, r *Report, rule string) {
	r.rule(rule, "The dialogue is one command, one answer: for every call of GExpect.Expect / ExpectBatch and of the functions of package console that reach them (waitPrompt, GetOutput, IssueCmd, TryPrompt, ...) the call stands outside every loop, except the audited ones (tables/read_loops.tsv: function, callee, yes, reason). A read that newly stands in a loop takes further answers that belong to commands already sent (the second half of a joined change): their own check then times out, the run ends as failed without saving although the device accepted everything. Reads that do not send a command first (GetOutput behind a Send of the caller, WaitLogin, the polls TryPrompt / WaitShort) are allowed at the audited call sites only (tables/pure_reads.tsv): a drain in front of a command swallows an error message of the previous command.")
	want := map[string]string{}
	why := map[string]string{}
	for _, row := range readTable("read_loops.tsv", 4) {
		want[row[0]+"|"+row[1]] = row[2]
		why[row[0]+"|"+row[1]] = row[3]
	}
	n := 0
	seen := map[string]bool{}
	for _, s := range deviceReadSites(p) {
		k := fnDisplay(s.Fn) + "|" + s.Callee
		n++
		loop := "no"
		if s.InLoop {
			loop = "yes"
		}
		if seen[k+loop] {
			continue
		}
		seen[k+loop] = true
		w := want[k]
		ok := !s.InLoop || w == "yes"
		r.add(rule, "read|"+k+"|loop="+loop, p.ipos(s.In), fmt.Sprintf("%s in %s: in a loop: %s (audited loops: %q %s)", s.Callee, fnDisplay(s.Fn), loop, w, why[k]), ok,
			"this read of the device's output stands in a loop that was not audited: it can consume the answers to commands that were sent together with the current one")
	}
	// reads that are not the answer to a command sent by the same call (polls, drains)
	allowed := map[string]string{}
	for _, row := range readTable("pure_reads.tsv", 3) {
		allowed[row[0]+"|"+row[1]] = row[2]
		// which of the reading functions an audited place uses (WaitShort, GetOutput) is a spelling
		if allowed[row[0]] == "" {
			allowed[row[0]] = row[2]
		}
	}
	np := 0
	seenP := map[string]bool{}
	for _, s := range deviceReadSites(p) {
		if !s.Pure || pkgOfFunc(s.Fn) == "console" {
			continue
		}
		k := fnDisplay(s.Fn) + "|" + s.Callee
		np++
		if seenP[k] {
			continue
		}
		seenP[k] = true
		why, ok := allowed[k]
		if !ok {
			why, ok = allowed[fnDisplay(s.Fn)]
		}
		r.add(rule, "pure-read|"+k, p.ipos(s.In), fmt.Sprintf("%s reads device output without sending a command first; audited: %q", fnDisplay(s.Fn), why), ok,
			"a read that is not the answer to a command of its own takes whatever the device has printed meanwhile -- an error message that belongs to the previous command is logged and dropped instead of failing the echo check of the next command")
	}
	r.floor(rule, "reads without a command of their own, outside package console", np, 5)
	r.floor(rule, "reads of device output", n, 40)
}

func init() {
	dumpers["readloops"] = func(p *Prog, m *Model) {
		for _, s := range deviceReadSites(p) {
			loop := "no"
			if s.InLoop {
				loop = "yes"
			}
			fmt.Printf("%s\t%s\t%s\tREASON\t# %s\n", fnDisplay(s.Fn), s.Callee, loop, p.ipos(s.In))
		}
	}
}
