package main

// R-RX: the constant regular expressions of the module.
//
// A pattern decides what counts as the same ACL line (the log attribute stripped
// before lines are paired), which ids are Netspoc's, what a banner or a prompt is,
// what is masked before logging.  Each constant pattern handed to regexp.MustCompile /
// Compile / MatchString is audited with the package it stands in
// (tables/regexp_consts.tsv).  Patterns are compared after regexp/syntax parsing and
// simplification, so \d and [0-9], or a non-capturing for a capturing group that is not
// used, do not differ by spelling alone where the parser equates them.

import (
	"fmt"
	"regexp/syntax"
	"sort"
	"strings"

	"golang.org/x/tools/go/ssa"
)

type rxSite struct {
	Fn      string
	Pattern string
	In      ssa.Instruction
}

func rxNormal(pat string) string {
	re, err := syntax.Parse(pat, syntax.Perl)
	if err != nil {
		return "unparsable:" + pat
	}
	return re.Simplify().String()
}

func rxSites(p *Prog) []rxSite {
	var out []rxSite
	for _, fn := range p.ModFuncs {
		if len(fn.Blocks) == 0 || !isModFunc(fn) {
			continue
		}
		// keyed by package: whether a pattern is compiled where it is used or once at package
		// level is a matter of style
		name := pkgOfFunc(fn)
		if fn.Synthetic != "" && (fn.Name() != "init" || fn.Pkg == nil) {
			continue
		}
		for _, b := range fn.Blocks {
			for _, in := range b.Instrs {
				c, ok := in.(*ssa.Call)
				if !ok {
					continue
				}
				f := c.Common().StaticCallee()
				if f == nil {
					continue
				}
				switch rawShortName(f) {
				case "regexp.MustCompile", "regexp.Compile", "regexp.MatchString", "regexp.Match", "regexp.MustCompilePOSIX", "regexp.CompilePOSIX":
				default:
					continue
				}
				if s, ok := constString(c.Common().Args[0]); ok {
					out = append(out, rxSite{name, rxNormal(s), c})
				}
			}
		}
	}
	sort.Slice(out, func(i, j int) bool {
		if out[i].Fn != out[j].Fn {
			return out[i].Fn < out[j].Fn
		}
		return out[i].Pattern < out[j].Pattern
	})
	return out
}

func ruleRegexpConsts(p *Prog, r *Report, rule, prop string, floor int) {
	r.rule(rule, "Constant regular expressions: every constant pattern compiled or matched in the packages listed for this property in tables/regexp_consts.tsv is the audited one (compared after regexp/syntax parsing and simplification; per package, wherever in the package it is compiled), and no further constant pattern appears in those packages. The patterns decide which ACL lines are the same line up to the log attribute, which names are Netspoc's, what is a banner, what is masked before it is logged.")
	want := map[string][]string{}
	why := map[string]string{}
	for _, row := range readTable("regexp_consts.tsv", 4) {
		if propListed(row[2], prop) {
			want[row[0]] = append(want[row[0]], row[1])
			why[row[0]] = row[3]
		}
	}
	got := map[string][]string{}
	pos := map[string]string{}
	for _, s := range rxSites(p) {
		if _, ok := want[s.Fn]; ok {
			got[s.Fn] = append(got[s.Fn], s.Pattern)
			pos[s.Fn] = p.ipos(s.In)
		}
	}
	var names []string
	for n := range want {
		names = append(names, n)
	}
	sort.Strings(names)
	for _, n := range names {
		g, w := append([]string{}, got[n]...), append([]string{}, want[n]...)
		sort.Strings(g)
		sort.Strings(w)
		ok := strings.Join(g, "\x00") == strings.Join(w, "\x00")
		if !ok && len(g) == len(w) {
			// same patterns up to spelling: pair off equal texts, then patterns with the same language
			ok = rxMatchUp(g, w)
		}
		r.add(rule, "patterns|"+n, pos[n], fmt.Sprintf("package %s works with the %d audited pattern(s)", n, len(w)), ok,
			fmt.Sprintf("the constant patterns changed.\n   audited: %q\n   now:     %q", w, g))
	}
	r.floor(rule, "packages with audited patterns for "+prop, len(names), floor)
}

func init() {
	dumpers["rxconsts"] = func(p *Prog, m *Model) {
		for _, s := range rxSites(p) {
			fmt.Printf("%s\t%s\tPROPS\tREASON\t# %s\n", s.Fn, s.Pattern, p.ipos(s.In))
		}
	}
}

// rxMatchUp: the two lists can be paired so that each pair is the same text or the same
// language of whole strings (and agrees on the number of capture groups).
func rxMatchUp(g, w []string) bool {
	left := append([]string{}, w...)
	var rest []string
	for _, x := range g {
		found := false
		for i, y := range left {
			if x == y {
				left = append(left[:i], left[i+1:]...)
				found = true
				break
			}
		}
		if !found {
			rest = append(rest, x)
		}
	}
	for _, x := range rest {
		found := false
		for i, y := range left {
			if strings.Count(x, "(")-strings.Count(x, "(?") != strings.Count(y, "(")-strings.Count(y, "(?") {
				continue
			}
			// the same whole strings, and found in the same texts when searched for
			if same, ok := rxSameLanguage(x, y); ok && same && rxSameSearch(x, y) {
				left = append(left[:i], left[i+1:]...)
				found = true
				break
			}
		}
		if !found {
			return false
		}
	}
	return len(left) == 0
}

func rxSameSearch(x, y string) bool {
	wrap := func(p string) string { return "(?s:.*)(?:" + p + ")(?s:.*)" }
	same, ok := rxSameLanguage(wrap(x), wrap(y))
	return ok && same
}
