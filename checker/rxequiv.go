package main

// Equivalence of two regular expressions as languages of whole strings.
// Both are compiled with regexp/syntax; the two programs are run in lockstep over a
// partition of the runes (all range boundaries of both programs) from every reachable
// pair of thread sets.  Empty-width assertions (^ $ \A \z \b \B) are evaluated with the
// previous and the next rune of the path.  Two patterns with the same language accept
// the same lines; where a match is cut out of a longer string the extent can still
// differ by preference (a|ab against ab|a), which this does not look at.

import (
	"os"
	"regexp/syntax"
	"sort"
	"strconv"
	"strings"
)

const rxEOT = rune(-1)

func rxProg(pat string) (*syntax.Prog, error) {
	re, err := syntax.Parse(pat, syntax.Perl)
	if err != nil {
		return nil, err
	}
	return syntax.Compile(re.Simplify())
}

// closure: program counters reachable without consuming a rune, under the empty-width flags.
func rxClosure(p *syntax.Prog, set []uint32, flags syntax.EmptyOp) ([]uint32, bool) {
	seen := map[uint32]bool{}
	var out []uint32
	matched := false
	var visit func(pc uint32)
	visit = func(pc uint32) {
		if seen[pc] {
			return
		}
		seen[pc] = true
		in := &p.Inst[pc]
		switch in.Op {
		case syntax.InstAlt, syntax.InstAltMatch:
			visit(in.Out)
			visit(in.Arg)
		case syntax.InstCapture, syntax.InstNop:
			visit(in.Out)
		case syntax.InstEmptyWidth:
			if syntax.EmptyOp(in.Arg)&^flags == 0 {
				visit(in.Out)
			}
		case syntax.InstMatch:
			matched = true
		case syntax.InstFail:
		default:
			out = append(out, pc)
		}
	}
	for _, pc := range set {
		visit(pc)
	}
	sort.Slice(out, func(i, j int) bool { return out[i] < out[j] })
	return out, matched
}

func rxStep(p *syntax.Prog, set []uint32, r rune) []uint32 {
	var out []uint32
	seen := map[uint32]bool{}
	for _, pc := range set {
		in := &p.Inst[pc]
		if in.MatchRune(r) && !seen[in.Out] {
			seen[in.Out] = true
			out = append(out, in.Out)
		}
	}
	sort.Slice(out, func(i, j int) bool { return out[i] < out[j] })
	return out
}

func rxBoundaries(p *syntax.Prog, b map[rune]bool) {
	for i := range p.Inst {
		in := &p.Inst[i]
		switch in.Op {
		case syntax.InstRune, syntax.InstRune1:
			for k := 0; k+1 < len(in.Rune); k += 2 {
				b[in.Rune[k]] = true
				b[in.Rune[k+1]+1] = true
			}
			if len(in.Rune) == 1 {
				b[in.Rune[0]] = true
				b[in.Rune[0]+1] = true
			}
			if syntax.Flags(in.Arg)&syntax.FoldCase != 0 {
				// case folding: be fine-grained over the letters
				for c := 'A'; c <= 'Z'+1; c++ {
					b[c] = true
				}
				for c := 'a'; c <= 'z'+1; c++ {
					b[c] = true
				}
			}
		case syntax.InstRuneAnyNotNL:
			b['\n'] = true
			b['\n'+1] = true
		}
	}
}

func rxKey(a, b []uint32, prev rune) string {
	var sb strings.Builder
	for _, x := range a {
		sb.WriteString(strconv.Itoa(int(x)))
		sb.WriteByte(',')
	}
	sb.WriteByte('|')
	for _, x := range b {
		sb.WriteString(strconv.Itoa(int(x)))
		sb.WriteByte(',')
	}
	sb.WriteByte('|')
	sb.WriteString(strconv.Itoa(int(prev)))
	return sb.String()
}

// rxSameLanguage: the two patterns match exactly the same whole strings.
// ok is false when a pattern does not compile or the search space is too large.
func rxSameLanguage(pa, pb string) (same bool, ok bool) {
	A, err := rxProg(pa)
	if err != nil {
		return false, false
	}
	B, err := rxProg(pb)
	if err != nil {
		return false, false
	}
	bs := map[rune]bool{0: true, '\n': true, '\n' + 1: true, '0': true, '9' + 1: true, 'A': true, 'Z' + 1: true, '_': true, '_' + 1: true, 'a': true, 'z' + 1: true, 0x110000: true}
	rxBoundaries(A, bs)
	rxBoundaries(B, bs)
	var cuts []rune
	for r := range bs {
		if r >= 0 && r <= 0x110000 {
			cuts = append(cuts, r)
		}
	}
	sort.Slice(cuts, func(i, j int) bool { return cuts[i] < cuts[j] })
	var reps []rune // one rune per class
	for i := 0; i+1 < len(cuts); i++ {
		reps = append(reps, cuts[i])
	}
	type st struct {
		a, b []uint32
		prev rune
	}
	start := st{[]uint32{uint32(A.Start)}, []uint32{uint32(B.Start)}, rxEOT}
	seen := map[string]bool{rxKey(start.a, start.b, start.prev): true}
	work := []st{start}
	for len(work) > 0 {
		if len(seen) > 200000 {
			return false, false
		}
		s := work[len(work)-1]
		work = work[:len(work)-1]
		// end of text here?
		fl := syntax.EmptyOpContext(s.prev, rxEOT)
		_, ma := rxClosure(A, s.a, fl)
		_, mb := rxClosure(B, s.b, fl)
		if ma != mb {
			return false, true
		}
		for _, c := range reps {
			fl := syntax.EmptyOpContext(s.prev, c)
			ca, _ := rxClosure(A, s.a, fl)
			cb, _ := rxClosure(B, s.b, fl)
			na, nb := rxStep(A, ca, c), rxStep(B, cb, c)
			if len(na) == 0 && len(nb) == 0 {
				continue
			}
			// the previous rune matters only through its class (word / newline): keep the representative
			k := rxKey(na, nb, c)
			if !seen[k] {
				seen[k] = true
				work = append(work, st{na, nb, c})
			}
		}
	}
	return true, true
}

func init() {
	dumpers["rxeq"] = func(p *Prog, m *Model) {
		// PAIRS="a<TAB>b;c<TAB>d"
		for _, pr := range strings.Split(osGetenv("PAIRS"), ";;") {
			a, b, _ := strings.Cut(pr, "\t")
			same, ok := rxSameLanguage(a, b)
			println(a, " ~ ", b, " => same:", same, "ok:", ok, "search:", rxSameSearch(a, b))
		}
	}
}

func osGetenv(k string) string { return os.Getenv(k) }
