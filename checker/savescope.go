package main

// R10.5: what the save covers does not depend on what this run changed.
//
// A run that is cut off leaves edits behind that the next run no longer computes as
// changes (PAN-OS: they are in the candidate configuration that action=get reads; Cisco:
// they are in the running configuration).  They reach the saved / committed
// configuration only if the save of the later run covers them as well: the text of the
// save command is a constant up to audited parts (the login user of the partial commit).

import (
	"fmt"
	"sort"
	"strings"

	"golang.org/x/tools/go/ssa"
)

type savePattern struct {
	Fn  *ssa.Function
	Pat string
	In  ssa.Instruction
}

func savePatterns(p *Prog, m *Model) []savePattern {
	cg := p.CG()
	var out []savePattern
	seen := map[string]bool{}
	for _, fn := range applyRegionFuncs(p, m) {
		for _, cs := range callsOf(fn) {
			for _, a := range cs.In.Common().Args {
				if !isStringType(a.Type()) {
					continue
				}
				if _, isPar := a.(*ssa.Parameter); isPar {
					continue
				}
				ctx := &provCtx{p: p, cg: cg, seen: map[ssa.Value]bool{}}
				pats := ctx.eval(a)
				isSave := false
				for _, pt := range pats {
					pt = pt.norm()
					if len(pt) > 0 && pt[0].Kind == "const" && (pt[0].S == "write memory" || strings.HasPrefix(pt[0].S, "type=commit")) {
						isSave = true
					}
				}
				if !isSave {
					continue
				}
				for _, pt := range pats {
					s := pt.norm().String()
					k := pkgOfFunc(fn) + "|" + s
					if !seen[k] {
						seen[k] = true
						out = append(out, savePattern{fn, s, cs.In})
					}
				}
			}
		}
	}
	sort.Slice(out, func(i, j int) bool {
		if fnDisplay(out[i].Fn) != fnDisplay(out[j].Fn) {
			return fnDisplay(out[i].Fn) < fnDisplay(out[j].Fn)
		}
		return out[i].Pat < out[j].Pat
	})
	return out
}

func ruleSaveScope(p *Prog, m *Model, r *Report, rule string) {
	r.rule(rule, "What the save covers does not depend on what this run changed: every text that reaches a save site (console command 'write memory'; PAN-OS query beginning 'type=commit') is one of the audited templates of tables/save_cmds.tsv -- constants and the login user of the partial commit. Edits that a cut-off run left behind are no longer computed as changes by the next run (they are read back from the candidate / running configuration); they become permanent only if the save of the later run is not narrowed to the objects, rules or virtual systems that this run touched.")
	want := map[string]string{}
	for _, row := range readTable("save_cmds.tsv", 3) {
		want[row[0]+"|"+row[1]] = row[2]
	}
	got := savePatterns(p, m)
	for _, s := range got {
		k := pkgOfFunc(s.Fn) + "|" + s.Pat
		why, ok := want[k]
		r.add(rule, "save-text|"+k, p.ipos(s.In), fmt.Sprintf("save command %s in %s; audited: %q", s.Pat, fnDisplay(s.Fn), why), ok,
			"the text of the save depends on something that was not audited; if it names what this run changed, edits left by an earlier cut-off run are never saved")
	}
	r.floor(rule, "save command templates", len(got), 2)
}

func init() {
	dumpers["savecmds"] = func(p *Prog, m *Model) {
		for _, s := range savePatterns(p, m) {
			fmt.Printf("%s\t%s\tREASON\t# %s\n", pkgOfFunc(s.Fn), s.Pat, p.ipos(s.In))
		}
	}
}
