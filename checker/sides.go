package main

// R-SIDE: which side of a device/target pair the parts of an emitted command
// come from.  The planners work on pair structs (fields a = device, b = target).
// A command that changes an object in place addresses the DEVICE object (its id,
// its path) and carries the TARGET's content; a transfer addresses and carries
// the target.  For every command-building operation (fmt.Sprintf, a string
// concatenation, json/xml Marshal) that works with a value of either side, the
// side of every operand, in order, is compared with tables/sides_audit.tsv.

import (
	"fmt"
	"go/token"
	"go/types"
	"sort"
	"strings"

	"golang.org/x/tools/go/ssa"
)

type sideSet map[string]bool

func (s sideSet) add(o sideSet) {
	for k := range o {
		s[k] = true
	}
}

func (s sideSet) String() string {
	if len(s) == 0 {
		return "-"
	}
	var l []string
	for k := range s {
		// an unresolved parameter says nothing beside a known side
		if k == "p" && (s["a"] || s["b"]) {
			continue
		}
		l = append(l, k)
	}
	sort.Strings(l)
	return strings.Join(l, "+")
}

type sideCtx struct {
	p    *Prog
	busy map[ssa.Value]bool
	// parameters of a builder helper that is looked at from one of its call sites
	bind map[*ssa.Parameter]ssa.Value
}

// isPairStruct: a struct with fields a and b of the same type.
func pairFieldSide(fa interface {
	Pos() token.Pos
}, st *types.Struct, idx int) string {
	if st == nil || idx >= st.NumFields() {
		return ""
	}
	f := st.Field(idx)
	if fldName(f) != "a" && fldName(f) != "b" {
		return ""
	}
	var ta, tb types.Type
	for i := 0; i < st.NumFields(); i++ {
		switch fldName(st.Field(i)) {
		case "a":
			ta = st.Field(i).Type()
		case "b":
			tb = st.Field(i).Type()
		}
	}
	if ta == nil || tb == nil || !types.Identical(ta, tb) {
		return ""
	}
	return fldName(f)
}

func sideStructOf(t types.Type) *types.Struct {
	if p, ok := t.Underlying().(*types.Pointer); ok {
		t = p.Elem()
	}
	st, _ := t.Underlying().(*types.Struct)
	return st
}

// isLocalStruct: a struct type declared inside a function (or anonymous): all its
// values are built in that function, so its fields can be followed one by one.
func isLocalStruct(t types.Type) bool {
	if p, ok := t.Underlying().(*types.Pointer); ok {
		t = p.Elem()
	}
	if _, ok := t.Underlying().(*types.Struct); !ok {
		return false
	}
	n, ok := t.(*types.Named)
	if !ok {
		return true
	}
	return n.Obj().Pkg() != nil && n.Obj().Parent() != n.Obj().Pkg().Scope()
}

func (c *sideCtx) localFieldStores(fn *ssa.Function, t types.Type, field int, d int) sideSet {
	out := sideSet{}
	if p, ok := t.Underlying().(*types.Pointer); ok {
		t = p.Elem()
	}
	for fn.Parent() != nil {
		fn = fn.Parent()
	}
	var visit func(f *ssa.Function)
	visit = func(f *ssa.Function) {
		for _, b := range f.Blocks {
			for _, in := range b.Instrs {
				st, ok := in.(*ssa.Store)
				if !ok {
					continue
				}
				fa, ok := st.Addr.(*ssa.FieldAddr)
				if !ok || fa.Field != field {
					continue
				}
				bt := fa.X.Type()
				if p, ok := bt.Underlying().(*types.Pointer); ok {
					bt = p.Elem()
				}
				if types.Identical(bt, t) {
					out.add(c.sides(st.Val, d))
				}
			}
		}
		for _, a := range f.AnonFuncs {
			visit(a)
		}
	}
	visit(fn)
	return out
}

func (c *sideCtx) sides(v ssa.Value, depth int) sideSet {
	out := sideSet{}
	if v == nil || depth > 14 || c.busy[v] {
		return out
	}
	c.busy[v] = true
	defer delete(c.busy, v)
	d := depth + 1
	switch x := v.(type) {
	case *ssa.Const, *ssa.Global, *ssa.Function, *ssa.Builtin, *ssa.MakeClosure:
	case *ssa.Parameter:
		if bv, ok := c.bind[x]; ok {
			out.add(c.sides(bv, d))
			break
		}
		fn := x.Parent()
		idx := -1
		for i, p := range fn.Params {
			if p == x {
				idx = i
			}
		}
		resolved := false
		if par := fn.Parent(); par != nil {
			// a closure: the arguments at its call sites in the enclosing functions
			for _, host := range append([]*ssa.Function{par}, par.AnonFuncs...) {
				for _, cs := range callsOf(host) {
					for _, cal := range calleesOfSite(c.p, cs) {
						if cal == fn && idx < len(cs.In.Common().Args) {
							out.add(c.sides(cs.In.Common().Args[idx], d))
							resolved = true
						}
					}
				}
			}
		}
		if !resolved || len(out) == 0 {
			out["p"] = true
		}
	case *ssa.FreeVar:
		fn := x.Parent()
		idx := -1
		for i, fv := range fn.FreeVars {
			if fv == x {
				idx = i
			}
		}
		if par := fn.Parent(); par != nil {
			for _, b := range par.Blocks {
				for _, in := range b.Instrs {
					if mc, ok := in.(*ssa.MakeClosure); ok && mc.Fn == fn && idx < len(mc.Bindings) {
						out.add(c.sides(mc.Bindings[idx], d))
					}
				}
			}
		}
	case *ssa.Alloc:
		for _, st := range cellStores(x) {
			out.add(c.sides(st.Val, d))
		}
		// a composite literal: what is stored into its fields and elements
		if refs := x.Referrers(); refs != nil {
			for _, ref := range *refs {
				var addr ssa.Value
				switch a := ref.(type) {
				case *ssa.FieldAddr:
					addr = a
				case *ssa.IndexAddr:
					addr = a
				}
				if addr == nil || addr.Referrers() == nil {
					continue
				}
				for _, r2 := range *addr.Referrers() {
					if st, ok := r2.(*ssa.Store); ok && st.Addr == addr {
						out.add(c.sides(st.Val, d))
					}
				}
			}
		}
	case *ssa.FieldAddr:
		if s := pairFieldSide(x, sideStructOf(x.X.Type()), x.Field); s != "" {
			out[s] = true
		} else if isLocalStruct(x.X.Type()) {
			out.add(c.localFieldStores(x.Parent(), x.X.Type(), x.Field, d))
		} else {
			out.add(c.sides(x.X, d))
		}
	case *ssa.Field:
		if s := pairFieldSide(x, sideStructOf(x.X.Type()), x.Field); s != "" {
			out[s] = true
		} else if isLocalStruct(x.X.Type()) {
			out.add(c.localFieldStores(x.Parent(), x.X.Type(), x.Field, d))
		} else {
			out.add(c.sides(x.X, d))
		}
	case *ssa.UnOp:
		out.add(c.sides(x.X, d))
	case *ssa.IndexAddr:
		out.add(c.sides(x.X, d))
	case *ssa.Index:
		out.add(c.sides(x.X, d))
	case *ssa.Lookup:
		out.add(c.sides(x.X, d))
	case *ssa.Slice:
		out.add(c.sides(x.X, d))
	case *ssa.Extract:
		out.add(c.sides(x.Tuple, d))
	case *ssa.Next:
		out.add(c.sides(x.Iter, d))
	case *ssa.Range:
		out.add(c.sides(x.X, d))
	case *ssa.Phi:
		for _, e := range x.Edges {
			out.add(c.sides(e, d))
		}
	case *ssa.BinOp:
		out.add(c.sides(x.X, d))
		out.add(c.sides(x.Y, d))
	case *ssa.MakeInterface:
		out.add(c.sides(x.X, d))
	case *ssa.ChangeType:
		out.add(c.sides(x.X, d))
	case *ssa.ChangeInterface:
		out.add(c.sides(x.X, d))
	case *ssa.Convert:
		out.add(c.sides(x.X, d))
	case *ssa.TypeAssert:
		out.add(c.sides(x.X, d))
	case *ssa.Call:
		if f := x.Common().StaticCallee(); f != nil && rawShortName(f) == "(*strings.Builder).String" && len(x.Common().Args) == 1 {
			for _, w := range builderWrites(x.Common().Args[0]) {
				out.add(c.sides(w, d))
			}
			break
		}
		for _, a := range x.Common().Args {
			out.add(c.sides(a, d))
			if el, ok := sliceLitElems(a); ok {
				for _, e := range el {
					out.add(c.sides(e, d))
				}
			}
		}
		if x.Common().IsInvoke() {
			out.add(c.sides(x.Common().Value, d))
		} else if _, isFn := x.Common().Value.(*ssa.Function); !isFn {
			if _, isB := x.Common().Value.(*ssa.Builtin); !isB {
				out.add(c.sides(x.Common().Value, d))
			}
		}
	}
	return out
}

type sideSite struct {
	Fn   *ssa.Function
	Name string
	In   ssa.Instruction
	Sig  string
}

// concatLeaves: operands of a chain of string additions, left to right.
func concatLeaves(v ssa.Value, out *[]ssa.Value) {
	if bo, ok := v.(*ssa.BinOp); ok && bo.Op == token.ADD && isStringType(bo.Type()) {
		concatLeaves(bo.X, out)
		concatLeaves(bo.Y, out)
		return
	}
	*out = append(*out, v)
}

var sideEmitters = map[string]bool{
	"fmt.Sprintf": true, "encoding/json.Marshal": true, "encoding/xml.Marshal": true, "encoding/xml.MarshalIndent": true,
	"encoding/json.MarshalIndent": true,
}

// isBuildOp: a fmt.Sprintf call or the root of a string concatenation; returns its operands.
func buildOpsOf(v ssa.Value) ([]ssa.Value, bool) {
	switch x := v.(type) {
	case *ssa.Call:
		f := x.Common().StaticCallee()
		if f == nil || shortName(f) != "fmt.Sprintf" {
			return nil, false
		}
		var ops []ssa.Value
		for _, a := range x.Common().Args {
			if el, ok := sliceLitElems(a); ok {
				ops = append(ops, el...)
			} else {
				ops = append(ops, a)
			}
		}
		return ops, true
	case *ssa.BinOp:
		if x.Op != token.ADD || !isStringType(x.Type()) {
			return nil, false
		}
		var ops []ssa.Value
		concatLeaves(x, &ops)
		return ops, true
	}
	return nil, false
}

// builderHelper: a top-level module function with one string result where every
// return hands out a string built right there (Sprintf / concatenation).  Such a
// function is a spelled-out command template: its build operations are judged at
// its call sites, with the arguments in place of the parameters, so that moving
// a Sprintf into a helper does not change what is compared.
func builderHelper(fn *ssa.Function) []ssa.Value {
	if fn == nil || fn.Parent() != nil || fn.Synthetic != "" || len(fn.Blocks) == 0 {
		return nil
	}
	res := fn.Signature.Results()
	if res.Len() != 1 || !isStringType(res.At(0).Type()) {
		return nil
	}
	var builds []ssa.Value
	seen := map[ssa.Value]bool{}
	var visit func(v ssa.Value) bool
	visit = func(v ssa.Value) bool {
		if seen[v] {
			return true
		}
		seen[v] = true
		if ph, ok := v.(*ssa.Phi); ok {
			for _, e := range ph.Edges {
				if !visit(e) {
					return false
				}
			}
			return true
		}
		if _, ok := v.(*ssa.Const); ok {
			return true
		}
		if _, ok := buildOpsOf(v); ok {
			builds = append(builds, v)
			return true
		}
		return false
	}
	for _, b := range fn.Blocks {
		if len(b.Instrs) == 0 {
			continue
		}
		if ret, ok := b.Instrs[len(b.Instrs)-1].(*ssa.Return); ok {
			if len(ret.Results) != 1 || !visit(ret.Results[0]) {
				return nil
			}
		}
	}
	return builds
}

// usedAsBuildOperand: the value is an operand of a concatenation or an argument of
// a variadic call (Sprintf) in its own function.
func usedAsBuildOperand(v ssa.Value) bool {
	refs := v.Referrers()
	if refs == nil {
		return false
	}
	for _, r := range *refs {
		switch x := r.(type) {
		case *ssa.BinOp:
			if x.Op == token.ADD && isStringType(x.Type()) {
				return true
			}
		case *ssa.MakeInterface:
			if x.Referrers() != nil {
				for _, r2 := range *x.Referrers() {
					if st, ok := r2.(*ssa.Store); ok {
						if _, ok := st.Addr.(*ssa.IndexAddr); ok {
							return true
						}
					}
				}
			}
		}
	}
	return false
}

func sideSitesOf(p *Prog, fn *ssa.Function) []sideSite {
	c := &sideCtx{p: p, busy: map[ssa.Value]bool{}, bind: map[*ssa.Parameter]ssa.Value{}}
	var out []sideSite
	ownBuilds := map[ssa.Value]bool{}
	for _, v := range builderHelper(fn) {
		ownBuilds[v] = true
	}
	emit := func(name string, in ssa.Instruction, ops []ssa.Value) {
		var parts []string
		any := false
		for _, o := range ops {
			if _, isC := o.(*ssa.Const); isC {
				continue
			}
			s := c.sides(o, 0)
			if s["a"] || s["b"] {
				any = true
			}
			parts = append(parts, s.String())
		}
		if any {
			out = append(out, sideSite{fn, name, in, strings.Join(parts, " , ")})
		}
	}
	for _, b := range fn.Blocks {
		for _, in := range b.Instrs {
			switch x := in.(type) {
			case *ssa.Call:
				f := x.Common().StaticCallee()
				if f != nil && rawShortName(f) == "(*strings.Builder).WriteString" && len(x.Common().Args) == 2 {
					// `b.WriteString(piece)` is `s += piece`: what was collected so far, and the piece
					sofar := sideSet{}
					for _, w := range builderWrites(x.Common().Args[0]) {
						sofar.add(c.sides(w, 0))
					}
					piece := c.sides(x.Common().Args[1], 0)
					if sofar["a"] || sofar["b"] || piece["a"] || piece["b"] {
						out = append(out, sideSite{fn, "build", x, sofar.String() + " , " + piece.String()})
					}
					continue
				}
				if f != nil && pkgOfFunc(f) == pkgOfFunc(fn) {
					if hb := builderHelper(f); len(hb) > 0 && len(f.Params) == len(x.Common().Args) {
						if usedAsBuildOperand(x) {
							// part of a larger string built here: judged as an operand of that one
							continue
						}
						for i, pa := range f.Params {
							c.bind[pa] = x.Common().Args[i]
						}
						for _, bv := range hb {
							ops, _ := buildOpsOf(bv)
							emit("build", x, ops)
						}
						for _, pa := range f.Params {
							delete(c.bind, pa)
						}
						continue
					}
				}
				if f == nil || !sideEmitters[shortName(f)] || ownBuilds[x] {
					continue
				}
				var ops []ssa.Value
				for _, a := range x.Common().Args {
					if el, ok := sliceLitElems(a); ok {
						ops = append(ops, el...)
					} else {
						ops = append(ops, a)
					}
				}
				name := "call:" + shortName(f)
				if shortName(f) == "fmt.Sprintf" {
					name = "build" // the same thing as a concatenation: one spelling
				}
				emit(name, x, ops)
			case *ssa.BinOp:
				if x.Op != token.ADD || !isStringType(x.Type()) {
					continue
				}
				// only the root of a chain
				root := true
				for _, r := range *x.Referrers() {
					if bo, ok := r.(*ssa.BinOp); ok && bo.Op == token.ADD && isStringType(bo.Type()) {
						root = false
					}
				}
				if !root || ownBuilds[x] {
					continue
				}
				var ops []ssa.Value
				concatLeaves(x, &ops)
				emit("build", x, ops)
			}
		}
	}
	return out
}

func ruleSides(p *Prog, r *Report, rule, prop string, pkgs map[string]bool, floor int) {
	r.rule(rule, "Side discipline of command building: in the planner packages every fmt.Sprintf, string concatenation and json/xml Marshal that works with a value of the device side (field a of a pair struct) or the target side (field b) takes each operand from the audited side (tables/sides_audit.tsv; operands in order, sides traced through locals, closures, lookups and helper calls). A command that edits a device object in place must address the device object (its id / path on the device) and carry the target's content; taking the address from the target side changes or creates a different object.")
	rows := readTable("sides_audit.tsv", 5)
	type key struct{ fn, site string }
	want := map[key][]string{}
	reason := map[key]string{}
	for _, row := range rows {
		if !propListed(row[3], prop) {
			continue
		}
		k := key{row[0], row[1]}
		want[k] = append(want[k], row[2])
		reason[k] = row[4]
	}
	got := map[key][]string{}
	pos := map[key]string{}
	n := 0
	for _, fn := range allModFuncs(p) {
		if !pkgs[pkgOfFunc(fn)] || fn.Synthetic != "" {
			continue
		}
		for _, s := range sideSitesOf(p, fn) {
			k := key{fnDisplay(fn), s.Name}
			got[k] = append(got[k], s.Sig)
			if pos[k] == "" {
				pos[k] = p.ipos(s.In)
			}
			n++
		}
	}
	var keys []key
	seen := map[key]bool{}
	for k := range want {
		keys = append(keys, k)
		seen[k] = true
	}
	for k := range got {
		if !seen[k] {
			keys = append(keys, k)
		}
	}
	sort.Slice(keys, func(i, j int) bool { return keys[i].fn+"|"+keys[i].site < keys[j].fn+"|"+keys[j].site })
	for _, k := range keys {
		g, w := append([]string{}, got[k]...), append([]string{}, want[k]...)
		sort.Strings(g)
		sort.Strings(w)
		ok := len(g) == len(w)
		if ok {
			for i := range g {
				if g[i] != w[i] {
					ok = false
				}
			}
		}
		what := reason[k]
		if what == "" {
			what = "not audited"
		}
		r.add(rule, "sides|"+k.fn+"|"+k.site, pos[k], fmt.Sprintf("%d `%s` operation(s) in %s take their operands from the audited sides (%s)", len(w), k.site, k.fn, what), ok,
			fmt.Sprintf("the sides the command parts come from changed (a = device, b = target, pN = parameter).\n   audited: %q\n   now:     %q", w, g))
	}
	r.floor(rule, "command-building operations that work with a device-side or target-side value", n, floor)
}
