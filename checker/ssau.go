package main

// go/ssa helpers shared by the rules: call enumeration, dominance on
// instructions, edge regions, block reachability, call-graph reachability.

import (
	"go/constant"
	"go/token"
	"go/types"
	"sort"
	"strings"

	"golang.org/x/tools/go/callgraph"
	"golang.org/x/tools/go/ssa"
)

// a call site inside a function
type callSite struct {
	In     ssa.CallInstruction
	Fn     *ssa.Function // enclosing
	Static *ssa.Function // statically resolved callee (incl. closures), or nil
	Method *types.Func   // interface method for invoke-mode calls, or nil
	Defer  bool
	Go     bool
}

func (c *callSite) calleeName() string {
	if c.Static != nil {
		return shortName(c.Static)
	}
	if c.Method != nil {
		return objFuncName(c.Method)
	}
	if b, ok := c.In.Common().Value.(*ssa.Builtin); ok {
		return "builtin." + b.Name()
	}
	return "<dynamic>"
}

func callsOf(fn *ssa.Function) []*callSite {
	var l []*callSite
	for _, b := range fn.Blocks {
		for _, in := range b.Instrs {
			ci, ok := in.(ssa.CallInstruction)
			if !ok {
				continue
			}
			cs := &callSite{In: ci, Fn: fn}
			com := ci.Common()
			if com.IsInvoke() {
				cs.Method = com.Method
			} else {
				cs.Static = com.StaticCallee()
			}
			switch in.(type) {
			case *ssa.Defer:
				cs.Defer = true
			case *ssa.Go:
				cs.Go = true
			}
			l = append(l, cs)
		}
	}
	return l
}

// callsTo returns the call sites in fn whose callee name (short go/ssa form)
// equals name.
func callsTo(fn *ssa.Function, name string) []*callSite {
	var l []*callSite
	for _, c := range callsOf(fn) {
		if c.calleeName() == name {
			l = append(l, c)
		} else if isNewHelper(c.Static) && forwardsTo(c.Static, name) {
			// a helper the audited tree does not have that only forwards its parameters, in
			// order, to the function looked for: the call of the helper is the call
			l = append(l, c)
		}
	}
	return l
}

// forwardsTo: fn is `func h(a, b, c) T { return name(a, b, c, <constants>) }`.
func forwardsTo(fn *ssa.Function, name string) bool {
	inner := wrapperInner(fn)
	if inner == nil || inner.Common().StaticCallee() == nil || shortName(inner.Common().StaticCallee()) != name {
		return false
	}
	args := inner.Common().Args
	if len(args) < len(fn.Params) {
		return false
	}
	for i, a := range args {
		if i < len(fn.Params) {
			if a != ssa.Value(fn.Params[i]) {
				return false
			}
		} else if _, isC := a.(*ssa.Const); !isC {
			return false
		}
	}
	return true
}

func instrIndex(in ssa.Instruction) int {
	for i, x := range in.Block().Instrs {
		if x == in {
			return i
		}
	}
	return -1
}

// idom: instruction a dominates instruction b (same function).
func idom(a, b ssa.Instruction) bool {
	if a.Block() == b.Block() {
		return instrIndex(a) <= instrIndex(b)
	}
	return a.Block().Dominates(b.Block())
}

// blockReach: set of blocks reachable from b by one or more edges
// (b itself only if it lies on a cycle).
func blockReach(b *ssa.BasicBlock) map[*ssa.BasicBlock]bool {
	seen := map[*ssa.BasicBlock]bool{}
	var walk func(x *ssa.BasicBlock)
	walk = func(x *ssa.BasicBlock) {
		for _, s := range x.Succs {
			if !seen[s] {
				seen[s] = true
				walk(s)
			}
		}
	}
	walk(b)
	return seen
}

// ireach: instruction b can execute after instruction a (a path a -> b exists).
func ireach(a, b ssa.Instruction) bool {
	if a.Block() == b.Block() && instrIndex(a) < instrIndex(b) {
		return true
	}
	return blockReach(a.Block())[b.Block()]
}

// before: a dominates b and a is not reachable from b ("a strictly before b,
// once").
func before(a, b ssa.Instruction) bool {
	return a != b && idom(a, b) && !ireach(b, a)
}

// edgeDominates: the CFG edge from -> from.Succs[k] dominates block x, i.e.
// every path from entry to x uses that edge.
func edgeDominates(from *ssa.BasicBlock, k int, x *ssa.BasicBlock) bool {
	s := from.Succs[k]
	if !s.Dominates(x) {
		return false
	}
	// all other predecessors of s must be dominated by s (back edges)
	for _, p := range s.Preds {
		if p == from {
			continue
		}
		if !s.Dominates(p) {
			return false
		}
	}
	// and from must not reach s via the other successor only: if both succs are
	// the same block the edge says nothing
	if len(from.Succs) == 2 && from.Succs[0] == from.Succs[1] {
		return false
	}
	return true
}

// ifOf returns the *ssa.If terminating block b, or nil.
func ifOf(b *ssa.BasicBlock) *ssa.If {
	if len(b.Instrs) == 0 {
		return nil
	}
	i, _ := b.Instrs[len(b.Instrs)-1].(*ssa.If)
	return i
}

// condEdges finds all If instructions in fn whose condition is (after
// stripping negations) value-equal to a comparison matched by match, and
// returns for each the successor index taken when the matched condition is
// TRUE.
type condEdge struct {
	If       *ssa.If
	TrueSucc int // index into Block().Succs taken when cond holds
}

// stripNot follows UnOp ! chains; neg tells whether an odd number was removed.
func stripNot(v ssa.Value) (ssa.Value, bool) {
	neg := false
	for {
		u, ok := v.(*ssa.UnOp)
		if !ok || u.Op != token.NOT {
			return v, neg
		}
		v = u.X
		neg = !neg
	}
}

func isNilConst(v ssa.Value) bool {
	c, ok := v.(*ssa.Const)
	return ok && c.Value == nil
}

// nilTest: if cond is `x != nil` or `x == nil` (possibly negated) returns x and
// whether cond being true means x is non-nil.
func nilTest(cond ssa.Value) (x ssa.Value, nonNilWhenTrue bool, ok bool) {
	c, neg := stripNot(cond)
	b, isB := c.(*ssa.BinOp)
	if !isB || (b.Op != token.NEQ && b.Op != token.EQL) {
		return nil, false, false
	}
	var v ssa.Value
	if isNilConst(b.Y) {
		v = b.X
	} else if isNilConst(b.X) {
		v = b.Y
	} else {
		return nil, false, false
	}
	nn := b.Op == token.NEQ
	if neg {
		nn = !nn
	}
	return v, nn, true
}

func constString(v ssa.Value) (string, bool) {
	c, ok := v.(*ssa.Const)
	if !ok || c.Value == nil || c.Value.Kind() != constant.String {
		return "", false
	}
	return constant.StringVal(c.Value), true
}

func constInt(v ssa.Value) (int64, bool) {
	c, ok := v.(*ssa.Const)
	if !ok || c.Value == nil || c.Value.Kind() != constant.Int {
		return 0, false
	}
	i, ok := constant.Int64Val(c.Value)
	return i, ok
}

func constBool(v ssa.Value) (bool, bool) {
	c, ok := v.(*ssa.Const)
	if !ok || c.Value == nil || c.Value.Kind() != constant.Bool {
		return false, false
	}
	return constant.BoolVal(c.Value), true
}

// ---- call graph reachability ----

type edgeCut func(e *callgraph.Edge) bool // true = do not follow

// reachFrom computes the set of functions reachable from roots in the call
// graph, not following edges for which cut returns true.
func reachFrom(cg *callgraph.Graph, roots []*ssa.Function, cut edgeCut) map[*ssa.Function]bool {
	seen := map[*ssa.Function]bool{}
	var stack []*ssa.Function
	for _, r := range roots {
		if r != nil && !seen[r] {
			seen[r] = true
			stack = append(stack, r)
		}
	}
	for len(stack) > 0 {
		f := stack[len(stack)-1]
		stack = stack[:len(stack)-1]
		n := cg.Nodes[f]
		if n == nil {
			continue
		}
		for _, e := range n.Out {
			if cut != nil && cut(e) {
				continue
			}
			c := e.Callee.Func
			if !seen[c] {
				seen[c] = true
				stack = append(stack, c)
			}
		}
	}
	return seen
}

// callPath finds one call path root -> target (for diagnostics).
func callPath(cg *callgraph.Graph, roots []*ssa.Function, target *ssa.Function, cut edgeCut) []string {
	prev := map[*ssa.Function]*callgraph.Edge{}
	seen := map[*ssa.Function]bool{}
	var queue []*ssa.Function
	for _, r := range roots {
		if r != nil {
			seen[r] = true
			queue = append(queue, r)
		}
	}
	for len(queue) > 0 {
		f := queue[0]
		queue = queue[1:]
		if f == target {
			var path []string
			for x := f; ; {
				path = append([]string{shortName(x)}, path...)
				e := prev[x]
				if e == nil {
					break
				}
				x = e.Caller.Func
			}
			return path
		}
		n := cg.Nodes[f]
		if n == nil {
			continue
		}
		for _, e := range n.Out {
			if cut != nil && cut(e) {
				continue
			}
			c := e.Callee.Func
			if !seen[c] {
				seen[c] = true
				prev[c] = e
				queue = append(queue, c)
			}
		}
	}
	return nil
}

func callersOf(cg *callgraph.Graph, fn *ssa.Function) []*callgraph.Edge {
	n := cg.Nodes[fn]
	if n == nil {
		return nil
	}
	l := append([]*callgraph.Edge{}, n.In...)
	sort.Slice(l, func(i, j int) bool {
		return shortName(l[i].Caller.Func) < shortName(l[j].Caller.Func)
	})
	return l
}

func sortedFuncNames(m map[*ssa.Function]bool) []string {
	var l []string
	for f := range m {
		l = append(l, shortName(f))
	}
	sort.Strings(l)
	return l
}

// isModFunc: function belongs to a production package of the module
// (closures included).
func isModFunc(fn *ssa.Function) bool {
	for fn.Parent() != nil {
		fn = fn.Parent()
	}
	if fn.Pkg != nil && fn.Pkg.Pkg != nil {
		return isProdPkgPath(fn.Pkg.Pkg.Path())
	}
	// methods of instantiated generics / wrappers
	if fn.Object() != nil && fn.Object().Pkg() != nil {
		return isProdPkgPath(fn.Object().Pkg().Path())
	}
	return false
}

func pkgOfFunc(fn *ssa.Function) string {
	for fn.Parent() != nil {
		fn = fn.Parent()
	}
	if fn.Pkg != nil && fn.Pkg.Pkg != nil {
		return shortPath(fn.Pkg.Pkg.Path())
	}
	if fn.Object() != nil && fn.Object().Pkg() != nil {
		return shortPath(fn.Object().Pkg().Path())
	}
	return ""
}

// returnsOf lists Return instructions of fn.
func returnsOf(fn *ssa.Function) []*ssa.Return {
	var l []*ssa.Return
	for _, b := range fn.Blocks {
		if len(b.Instrs) == 0 {
			continue
		}
		if r, ok := b.Instrs[len(b.Instrs)-1].(*ssa.Return); ok {
			l = append(l, r)
		}
	}
	return l
}

// noReturnCall: the call never returns normally (errlog.Abort; panic builtin).
func isAbortCall(in ssa.Instruction) bool {
	c, ok := in.(*ssa.Call)
	if !ok {
		return false
	}
	if f := c.Common().StaticCallee(); f != nil {
		return shortName(f) == "errlog.Abort"
	}
	return false
}

// blockAborts: block b contains a call of errlog.Abort or ends in panic, so
// control never continues normally past it.
func blockAborts(b *ssa.BasicBlock) bool {
	for _, in := range b.Instrs {
		if isAbortCall(in) {
			return true
		}
		if _, ok := in.(*ssa.Panic); ok {
			return true
		}
	}
	return false
}

func typeShort(t types.Type) string {
	return types.TypeString(t, func(p *types.Package) string { return shortPath(p.Path()) })
}

func hasPrefixAny(s string, l ...string) bool {
	for _, p := range l {
		if strings.HasPrefix(s, p) {
			return true
		}
	}
	return false
}
