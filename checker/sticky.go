package main

// Sticky loop state: a variable whose value flows from one iteration of a loop
// into the next (a phi at the loop header) and that is, on some path through
// the body, replaced by a value that does not derive from its previous value.
// Accumulators (append, x = x || c, x += n), consumers (x = x[1:]) and
// counters derive from the previous value on every path and are not sticky.
// A sticky variable is per-item state that survives the item: legitimate for
// "previous element" / "found so far" idioms, a defect when a per-item flag
// loses its reset (hoisted declaration).

import (
	"os"
	"fmt"
	"go/token"
	"go/types"
	"sort"
	"strings"

	"golang.org/x/tools/go/ssa"
)

type stickyVar struct {
	Fn    *ssa.Function
	Phi   *ssa.Phi
	Name  string   // source variable name (comment of the phi), informational
	Type  string   // type of the variable
	Fresh []string // normalised descriptions of the values that replace it
}

func (s *stickyVar) sig() string {
	return s.Type + " <- " + strings.Join(s.Fresh, " | ")
}

func stickyVarsOf(p *Prog, fn *ssa.Function) []*stickyVar {
	var out []*stickyVar
	for _, h := range fn.Blocks {
		body := naturalLoopBody(h)
		if body == nil {
			continue
		}
		for _, in := range h.Instrs {
			phi, ok := in.(*ssa.Phi)
			if !ok {
				break
			}
			// values arriving over back edges, flattened through phis inside the body
			var fresh []string
			seen := map[ssa.Value]bool{}
			// from: the block the value leaves to enter the phi web; the conditions tested inside
			// the loop that control that block say WHEN the state is replaced
			type arrival struct {
				v    ssa.Value
				from *ssa.BasicBlock
			}
			seenA := map[arrival]bool{}
			var flat func(v ssa.Value, from *ssa.BasicBlock)
			flat = func(v ssa.Value, from *ssa.BasicBlock) {
				if v == ssa.Value(phi) {
					return
				}
				if q, ok := v.(*ssa.Phi); ok && body[q.Block()] {
					if seen[v] {
						return
					}
					seen[v] = true
					for i, e := range q.Edges {
						flat(e, q.Block().Preds[i])
					}
					return
				}
				if seenA[arrival{v, from}] {
					return
				}
				seenA[arrival{v, from}] = true
				if derivesFromValue(v, phi, body, 0) {
					return
				}
				g := ""
				if n := len(from.Instrs); n > 0 {
					g = strings.Join(guardSetWithin(from.Instrs[n-1], body), " && ")
				}
				fresh = append(fresh, descValue(v, 0)+" ["+g+"]")
			}
			for i, pr := range h.Preds {
				if body[pr] {
					flat(phi.Edges[i], pr)
				}
			}
			if len(fresh) == 0 {
				continue
			}
			// read inside the loop?  (a use other than being merged into a phi)
			read := false
			seenR := map[ssa.Value]bool{}
			var uses func(v ssa.Value)
			uses = func(v ssa.Value) {
				if seenR[v] || v.Referrers() == nil {
					return
				}
				seenR[v] = true
				for _, ref := range *v.Referrers() {
					if !body[ref.Block()] {
						continue
					}
					switch q := ref.(type) {
					case *ssa.Phi:
						if q != phi {
							uses(q)
						}
					case *ssa.DebugRef:
					default:
						read = true
					}
				}
			}
			uses(phi)
			if !read {
				continue // pure output of the loop (found flag, last match): later items are not influenced
			}
			sort.Strings(fresh)
			fresh = uniqStrings(fresh)
			out = append(out, &stickyVar{fn, phi, phi.Comment, types.TypeString(phi.Type(), func(pk *types.Package) string { return shortPath(pk.Path()) }), fresh})
		}
	}
	return out
}

func uniqStrings(l []string) []string {
	var out []string
	for i, s := range l {
		if i == 0 || s != l[i-1] {
			out = append(out, s)
		}
	}
	return out
}

// derivesFromValue: v is computed from base (operands followed inside the loop
// body; calls count when an argument derives).
func derivesFromValue(v, base ssa.Value, body map[*ssa.BasicBlock]bool, d int) bool {
	if v == base {
		return true
	}
	if d > 8 {
		return false
	}
	in, ok := v.(ssa.Instruction)
	if !ok || !body[in.Block()] {
		return false
	}
	switch x := v.(type) {
	case *ssa.Phi:
		for _, e := range x.Edges {
			if derivesFromValue(e, base, body, d+1) {
				return true
			}
		}
		return false
	}
	for _, op := range in.Operands(nil) {
		if *op != nil && derivesFromValue(*op, base, body, d+1) {
			return true
		}
	}
	return false
}

func init() {
	dumpers["sticky"] = func(p *Prog, m *Model) {
		n := 0
		for _, fn := range allModFuncs(p) {
			if fn.Synthetic != "" {
				continue
			}
			for _, s := range stickyVarsOf(p, fn) {
				n++
				fmt.Printf("%s\t%s\t%s\t# %s %s\n", fnDisplay(fn), s.Name, s.sig(), p.pos(s.Phi.Pos()), "")
			}
		}
		fmt.Println("# total", n)
	}
}

// ruleStickyState: R-S.  pkgs: packages in scope for the calling property.
func ruleStickyState(p *Prog, r *Report, prop string, pkgs map[string]bool, floor int) {
	r.rule("R-S", "No unaudited state crosses loop iterations in the parsers and planners of this property's packages: a variable that lives across iterations of a loop (phi at the loop header), is on some path replaced by a value not derived from its previous value, and is read inside the loop body, must be an audited row of tables/sticky_audit.tsv (function, type, replacing values; compared as a multiset per function). Accumulators, consumers (x = x[1:]), counters and pure outputs of a loop (found flags) are not concerned. A per-item flag that loses its reset (declaration hoisted out of the loop) shows up as a new sticky variable; an audited variable that stops living across iterations (a sticky 'all lines so far' flag recomputed per line) is reported as lost.")
	want := map[string][]string{}
	why := map[string]string{}
	for _, row := range readTable("sticky_audit.tsv", 4) {
		want[row[0]] = append(want[row[0]], row[1])
		why[row[0]+"|"+row[1]] = row[3]
	}
	n := 0
	got := map[string][]string{}
	pos := map[string]string{}
	var fns []string
	for _, fn := range allModFuncs(p) {
		if fn.Synthetic != "" || !pkgs[pkgOfFunc(fn)] {
			continue
		}
		name := fnDisplay(fn)
		for _, s := range stickyVarsOf(p, fn) {
			if len(got[name]) == 0 {
				fns = append(fns, name)
			}
			got[name] = append(got[name], s.sig())
			pos[name+"|"+s.sig()] = p.pos(s.Phi.Pos())
		}
	}
	sort.Strings(fns)
	for _, name := range fns {
		w := append([]string{}, want[name]...)
		for _, sig := range got[name] {
			n++
			idx := -1
			for i, x := range w {
				if x == sig {
					idx = i
				}
			}
			if idx >= 0 {
				w = append(w[:idx], w[idx+1:]...)
				r.ok("R-S", "sticky|"+name+"|"+sig, pos[name+"|"+sig], "audited cross-iteration state: "+why[name+"|"+sig])
			} else {
				r.fail("R-S", "sticky|"+name+"|"+sig, pos[name+"|"+sig], "variable of type "+sig+" keeps its value from one loop iteration to the next and is read in the loop body",
					"unaudited state crosses iterations: a per-item flag without reset makes the treatment of an item depend on earlier items (not in tables/sticky_audit.tsv)")
			}
		}
	}
	// two-sided: audited cross-iteration state must still be there.  Each row is state the
	// algorithm needs (previous command, current table, "all lines so far have this action", ...):
	// making such a variable per-iteration silently changes the decisions that depend on it.
	byName := fnDisplayIndex(p)
	var wnames []string
	for name := range want {
		wnames = append(wnames, name)
	}
	sort.Strings(wnames)
	for _, name := range wnames {
		fn := byName[name]
		if fn == nil {
			// function of another property's packages or renamed: only complain when the package is in scope
			pk := name
			if i := strings.LastIndex(pk, "."); i >= 0 {
				pk = pk[:i]
			}
			pk = strings.Trim(pk, "(*)")
			if pkgs[pk] {
				r.fail("R-S", "sticky-kept|"+name, "", "audited function "+name+" not found", "re-audit: the function that holds audited loop state is gone or renamed")
			}
			continue
		}
		if !pkgs[pkgOfFunc(fn)] {
			continue
		}
		w := append([]string{}, want[name]...)
		g := append([]string{}, got[name]...)
		for _, sig := range w {
			idx := -1
			for i, x := range g {
				if x == sig {
					idx = i
				}
			}
			if idx >= 0 {
				g = append(g[:idx], g[idx+1:]...)
				continue
			}
			r.fail("R-S", "sticky-kept|"+name+"|"+sig, p.pos(fn.Pos()), "the audited loop state ("+why[name+"|"+sig]+") no longer lives across iterations",
				"a variable that has to remember earlier iterations was made per-iteration (or its update changed): decisions that depend on what came before are taken as if each item stood alone")
		}
	}
	r.floor("R-S", "sticky variables in scope of "+prop, n, floor)
}

// ruleCutsetMisuse: R-T.  strings.Trim/TrimLeft/TrimRight take a *set of
// characters*; a constant cutset of two or more characters that contains a
// letter or digit is a suffix/prefix mistaken for a set ("/32" strips every
// trailing '/', '3' and '2': 10.1.1.2 and 10.1.1.3 become equal).
func ruleCutsetMisuse(p *Prog, r *Report, pkgs map[string]bool) {
	r.rule("R-T", "Normalisers do not mistake a character set for a suffix: every call of strings/bytes Trim, TrimLeft, TrimRight in this property's packages has a constant cutset that is a single character or consists of white space / punctuation only; a multi-character cutset containing letters or digits (e.g. TrimRight(v, \"/32\")) removes more than the intended suffix and makes different values compare equal.")
	n := 0
	for _, fn := range allModFuncs(p) {
		if fn.Synthetic != "" || !pkgs[pkgOfFunc(fn)] {
			continue
		}
		for _, cs := range callsOf(fn) {
			name := cs.calleeName()
			switch name {
			case "strings.Trim", "strings.TrimLeft", "strings.TrimRight", "bytes.Trim", "bytes.TrimLeft", "bytes.TrimRight":
			default:
				continue
			}
			n++
			args := cs.In.Common().Args
			set, isC := constString(args[len(args)-1])
			ok := isC
			if isC && len([]rune(set)) > 1 {
				for _, ch := range set {
					if ch >= '0' && ch <= '9' || ch >= 'a' && ch <= 'z' || ch >= 'A' && ch <= 'Z' {
						ok = false
					}
				}
			}
			r.add("R-T", "cutset|"+fnDisplay(fn)+"|"+name+"|"+fmt.Sprintf("%q", set), p.ipos(cs.In), fmt.Sprintf("%s with cutset %q", name, set), ok,
				"the cutset is a set of characters, not a suffix/prefix: more is stripped than intended and distinct values become equal")
		}
	}
	r.note("R-T: %d Trim/TrimLeft/TrimRight calls in scope", n)
}

// ruleShortCircuitSkips: R-SC.  `f(a) || f(b)` (or `if !f(a) { f(b) }`) skips
// the second call whenever the first returns true.  When f has effects
// (writes captured or global state, marks, emits, consumes device output)
// the work for b silently does not happen.
func ruleShortCircuitSkips(p *Prog, r *Report, pkgs map[string]bool, sm *summarizer) {
	r.rule("R-SC", "No effectful call is skipped by short-circuit evaluation on the result of a sibling call: in this property's packages a call of a module function or closure that has effects (writes non-local state, emits, reads the device connection) is never controlled by a condition that is the result of another call site of the same callee in the same function (`f(a) || f(b)`, `f(a) && f(b)`, `if !f(a) { f(b) }`). Audited exceptions (deliberate fallbacks) are rows of tables/shortcircuit_audit.tsv.")
	ex := map[string]string{}
	for _, row := range readTable("shortcircuit_audit.tsv", 3) {
		ex[row[0]+"|"+row[1]] = row[2]
	}
	n := 0
	for _, fn := range allModFuncs(p) {
		if fn.Synthetic != "" || !pkgs[pkgOfFunc(fn)] {
			continue
		}
		calls := callsOf(fn)
		for _, bcs := range calls {
			g := bcs.Static
			if g == nil || !isModFunc(g) || bcs.Defer {
				continue
			}
			sum := sm.sums[g]
			effect := sum != nil && (len(sum.Writes) > 0 || len(sum.Emits) > 0)
			if !effect {
				for _, c2 := range callsOf(g) {
					if isConnRead(c2) {
						effect = true
					}
				}
			}
			if !effect {
				continue
			}
			n++
			for _, acs := range calls {
				if acs.In == bcs.In || acs.Static != g || acs.In.Value() == nil {
					continue
				}
				for _, ob := range fn.Blocks {
					i := ifOf(ob)
					if i == nil {
						continue
					}
					c, _ := stripNot(i.Cond)
					if c != acs.In.Value() {
						continue
					}
					for k := range ob.Succs {
						if edgeDominates(ob, k, bcs.In.Block()) {
							key := fnDisplay(fn) + "|" + fnDisplay(g)
							if why, ok := ex[key]; ok {
								r.ok("R-SC", "skipped-sibling|"+key, p.ipos(bcs.In), "audited fallback: "+why)
							} else {
								r.fail("R-SC", "skipped-sibling|"+key, p.ipos(bcs.In), "the call of "+fnDisplay(g)+" at "+p.ipos(bcs.In)+" runs only for one outcome of the sibling call at "+p.ipos(acs.In),
									"short-circuit evaluation skips an effectful call: its writes, emissions or reads of the device do not happen")
							}
						}
					}
				}
			}
		}
	}
	r.note("R-SC: %d call sites of effectful module functions examined", n)
}

// ruleStaleIndex: R-IDX.  An index map built from a list (M[key(e)] = e for
// the elements e of L) goes stale when L grows later in the same function and
// the new element is not entered into M: a second element with the same key
// is then not found.
func ruleStaleIndex(p *Prog, r *Report, pkgs map[string]bool) {
	r.rule("R-IDX", "Index maps stay in step with the list they index: when a function fills a map from the elements of a list in one loop (M[k] = element or true) and, in a later loop that looks keys up in M, appends to that same list, the appending block also enters the new element into M. (Otherwise a key that occurs twice in the merged-in input is treated as new both times: duplicate objects instead of one merged object.)")
	idxAudit := map[string]string{}
	for _, row := range readTable("index_audit.tsv", 3) {
		idxAudit[row[0]+"|"+row[1]] = row[2]
	}
	n := 0
	for _, fn := range allModFuncs(p) {
		if fn.Synthetic != "" || !pkgs[pkgOfFunc(fn)] {
			continue
		}
		type index struct {
			m    ssa.Value
			list string // description of the ranged list
			loop map[*ssa.BasicBlock]bool
		}
		var idx []index
		for _, h := range fn.Blocks {
			body := naturalLoopBody(h)
			if body == nil {
				continue
			}
			for _, b := range fn.Blocks {
				if !body[b] {
					continue
				}
				for _, in := range b.Instrs {
					mu, ok := in.(*ssa.MapUpdate)
					if !ok {
						continue
					}
					// the key derives from an element of a list ranged over by this loop
					for _, rt := range valueRoots(mu.Key) {
						var elem *ssa.UnOp
						switch x := rt.(type) {
						case *ssa.UnOp:
							if fa, ok := x.X.(*ssa.FieldAddr); ok {
								if e, ok := fa.X.(*ssa.UnOp); ok {
									elem = e
								}
							}
						}
						if elem == nil {
							continue
						}
						if ia, ok := elem.X.(*ssa.IndexAddr); ok && body[elem.Block()] {
							idx = append(idx, index{mu.Map, descValue(ia.X, 0), body})
						}
					}
				}
			}
		}
		for _, ix := range idx {
			for _, b := range fn.Blocks {
				if ix.loop[b] {
					continue
				}
				for _, in := range b.Instrs {
					c, ok := in.(*ssa.Call)
					if !ok {
						continue
					}
					if bi, ok := c.Common().Value.(*ssa.Builtin); !ok || bi.Name() != "append" {
						continue
					}
					if descValue(c.Common().Args[0], 0) != ix.list {
						continue
					}
					// inside a loop that looks up M
					inLookupLoop := false
					for _, h := range fn.Blocks {
						body := naturalLoopBody(h)
						if body == nil || !body[b] {
							continue
						}
						for bb := range body {
							for _, in2 := range bb.Instrs {
								if lk, ok := in2.(*ssa.Lookup); ok && sameSlice(lk.X, ix.m) {
									inLookupLoop = true
								}
							}
						}
					}
					if !inLookupLoop {
						continue
					}
					n++
					updated := false
					for _, in2 := range b.Instrs {
						if mu, ok := in2.(*ssa.MapUpdate); ok && sameSlice(mu.Map, ix.m) {
							updated = true
						}
					}
					if why, ok := idxAudit[fnDisplay(fn)+"|"+ix.list]; ok && !updated {
						r.ok("R-IDX", "index-updated|"+fnDisplay(fn)+"|"+ix.list, p.ipos(c), "audited: "+why)
						continue
					}
					r.add("R-IDX", "index-updated|"+fnDisplay(fn)+"|"+ix.list, p.ipos(c), "the list grows and its index map is updated in the same block", updated,
						"the index map built from "+ix.list+" is not updated when the list grows: an element with the same key arriving later is not found")
				}
			}
		}
	}
	r.note("R-IDX: %d appends to indexed lists inside lookup loops", n)
}

// mustCallsOf: module callees (closures by the variable they are bound to) that are called on
// every path from the entry of fn to a normal return: some call of the callee lies in a block
// that dominates every returning block.
// isFailureReturn: the function's last result is an error and this return hands out a value
// that a dominating test has just found non-nil, or a freshly made error (fmt.Errorf / errors.New).
func isFailureReturn(rt *ssa.Return) bool {
	n := len(rt.Results)
	if n == 0 {
		return false
	}
	v := rt.Results[n-1]
	if !isErrorType(v.Type()) {
		return false
	}
	// a function with defers returns through a result cell: what was stored into it in this block
	if u, ok := v.(*ssa.UnOp); ok && u.Op == token.MUL {
		if al, ok := u.X.(*ssa.Alloc); ok {
			for _, in := range rt.Block().Instrs {
				if st, ok := in.(*ssa.Store); ok && st.Addr == ssa.Value(al) {
					v = st.Val
				}
			}
		}
	}
	if c, ok := v.(*ssa.Const); ok {
		return !c.IsNil()
	}
	if mi, ok := v.(*ssa.MakeInterface); ok {
		_ = mi
		return true
	}
	if call, ok := v.(*ssa.Call); ok {
		if f := call.Common().StaticCallee(); f != nil {
			switch rawShortName(f) {
			case "fmt.Errorf", "errors.New":
				return true
			}
		}
	}
	fn := rt.Parent()
	for _, b := range fn.Blocks {
		i := ifOf(b)
		if i == nil {
			continue
		}
		bo, ok := i.Cond.(*ssa.BinOp)
		if !ok || (bo.Op != token.NEQ && bo.Op != token.EQL) {
			continue
		}
		var other ssa.Value
		if bo.X == v {
			other = bo.Y
		} else if bo.Y == v {
			other = bo.X
		} else {
			continue
		}
		if c, ok := other.(*ssa.Const); !ok || !c.IsNil() {
			continue
		}
		k := 0 // edge on which v != nil
		if bo.Op == token.EQL {
			k = 1
		}
		if edgeDominates(b, k, rt.Block()) {
			return true
		}
	}
	return false
}

func isErrorType(t types.Type) bool {
	return types.TypeString(t, nil) == "error"
}

func mustCallsOf(p *Prog, fn *ssa.Function) []string {
	var rets []*ssa.BasicBlock
	for _, b := range fn.Blocks {
		if n := len(b.Instrs); n > 0 {
			if rt, ok := b.Instrs[n-1].(*ssa.Return); ok {
				// not the block that runs after a recovered panic, and not a return that hands
				// out the error it has just tested (`if err != nil { return err }`)
				if b == fn.Recover || isFailureReturn(rt) {
					continue
				}
				rets = append(rets, b)
			}
		}
	}
	set := map[string]bool{}
	for _, cs := range callsOf(fn) {
		if _, isDefer := cs.In.(*ssa.Defer); isDefer {
			continue
		}
		all := len(rets) > 0
		for _, rb := range rets {
			if !cs.In.Block().Dominates(rb) {
				all = false
			}
		}
		if !all {
			continue
		}
		for _, c := range calleesOfSite(p, cs) {
			if !isModFunc(c) {
				continue
			}
			n := shortName(c)
			if cn := closureName(c); cn != "" {
				n = cn
			}
			set[n] = true
		}
	}
	var out []string
	for k := range set {
		out = append(out, k)
	}
	sort.Strings(out)
	return out
}

func ruleMustCalls(p *Prog, r *Report, rule, prop string) {
	r.rule(rule, "The planner's phases run on every path: for each planner entry function of tables/phases.tsv every audited phase (a module function or a closure, by the variable it is bound to) is still called in a block that dominates every normal return of the function. An early return in front of a phase (`nothing changed so far, nothing to clean up`) skips the objects that only that phase handles.")
	n := 0
	for _, row := range readTable("phases.tsv", 4) {
		if !propListed(row[1], prop) {
			continue
		}
		n++
		fn := p.Funcs[row[0]]
		if fn == nil {
			r.fail(rule, "phases|"+row[0], "", "function "+row[0]+" not found", "re-audit: the planner entry function is gone or renamed")
			continue
		}
		have := map[string]bool{}
		for _, c := range mustCallsOf(p, fn) {
			have[c] = true
		}
		var missing []string
		for _, ph := range strings.Split(row[2], ",") {
			ph = strings.TrimSpace(ph)
			if ph != "" && !have[ph] {
				missing = append(missing, ph)
			}
		}
		r.add(rule, "phases|"+row[0], p.pos(fn.Pos()), fmt.Sprintf("every return of %s is behind its phases %s (%s)", row[0], row[2], row[3]), len(missing) == 0,
			fmt.Sprintf("not called on every path to a return any more: %v — what only these phases handle (clean-up of unused objects, transfers) is skipped on the new path", missing))
	}
	r.floor(rule, "planner entry functions for "+prop, n, 1)
}

func init() {
	dumpers["mustcalls"] = func(p *Prog, m *Model) {
		for _, n := range strings.Split(os.Getenv("FN"), ";") {
			if fn := p.Funcs[n]; fn != nil {
				fmt.Printf("%s\tPROPS\t%s\tREASON\n", n, strings.Join(mustCallsOf(p, fn), ","))
			} else {
				fmt.Println("not found:", n)
			}
		}
	}
}
