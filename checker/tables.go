package main

import (
	"bufio"
	"fmt"
	"os"
	"path/filepath"
	"strings"
)

// readTable reads /verif/tables/<name>: tab separated, '#' comments.  A missing
// or malformed table is a checker failure, never a silent pass.
func readTable(name string, minCols int) [][]string {
	fn := filepath.Join(verifDir(), "tables", name)
	f, err := os.Open(fn)
	if err != nil {
		panic(fmt.Sprintf("table %s: %v", name, err))
	}
	defer f.Close()
	var rows [][]string
	sc := bufio.NewScanner(f)
	sc.Buffer(make([]byte, 1<<20), 1<<20)
	n := 0
	for sc.Scan() {
		n++
		line := sc.Text()
		if strings.HasPrefix(line, "#") || strings.TrimSpace(line) == "" {
			continue
		}
		cols := strings.Split(line, "\t")
		if len(cols) < minCols {
			panic(fmt.Sprintf("table %s line %d: %d columns, need %d", name, n, len(cols), minCols))
		}
		rows = append(rows, cols)
	}
	return rows
}
