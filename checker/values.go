package main

// Value-origin helpers on go/ssa: look through closure cells, captured
// variables, phis and representation-changing conversions.

import (
	"go/token"

	"golang.org/x/tools/go/ssa"
)

// valueRoots returns the set of values v can originate from after looking
// through loads of local cells (incl. cells captured by closures), captured
// values, phis and conversions.  Roots are Parameters, Consts, Calls, Extracts,
// field loads, etc.
func valueRoots(v ssa.Value) []ssa.Value {
	seen := map[ssa.Value]bool{}
	var out []ssa.Value
	var walk func(v ssa.Value)
	walk = func(v ssa.Value) {
		if v == nil || seen[v] {
			return
		}
		seen[v] = true
		switch x := v.(type) {
		case *ssa.Phi:
			for _, e := range x.Edges {
				walk(e)
			}
			return
		case *ssa.ChangeType:
			walk(x.X)
			return
		case *ssa.Convert:
			walk(x.X)
			return
		case *ssa.MakeInterface:
			walk(x.X)
			return
		case *ssa.ChangeInterface:
			walk(x.X)
			return
		case *ssa.FreeVar:
			bs := freeVarBindings(x)
			if len(bs) > 0 {
				for _, b := range bs {
					walk(b)
				}
				return
			}
		case *ssa.UnOp:
			if x.Op == token.MUL {
				if vals, ok := cellValues(x.X); ok {
					for _, sv := range vals {
						walk(sv)
					}
					return
				}
			}
		}
		out = append(out, v)
	}
	walk(v)
	return out
}

// emptinessTest recognises the idioms that test whether a slice (or pointer)
// value is empty/nil:  x != nil, x == nil, len(x) != 0, len(x) > 0,
// len(x) == 0, len(x) >= 1, len(x) < 1, 0 < len(x) ...
// It returns the tested value and whether the condition being TRUE means
// "non-empty".
func emptinessTest(cond ssa.Value) (x ssa.Value, nonEmptyWhenTrue bool, ok bool) {
	if v, nn, ok := nilTest(cond); ok {
		return v, nn, true
	}
	c, neg := stripNot(cond)
	b, isB := c.(*ssa.BinOp)
	if !isB {
		return nil, false, false
	}
	lenOf := func(v ssa.Value) ssa.Value {
		if call, ok := v.(*ssa.Call); ok {
			if bi, ok := call.Common().Value.(*ssa.Builtin); ok && bi.Name() == "len" {
				return call.Common().Args[0]
			}
		}
		return nil
	}
	l, r := b.X, b.Y
	op := b.Op
	if lenOf(r) != nil { // constant on the left: mirror
		l, r = r, l
		switch op {
		case token.LSS:
			op = token.GTR
		case token.GTR:
			op = token.LSS
		case token.LEQ:
			op = token.GEQ
		case token.GEQ:
			op = token.LEQ
		}
	}
	arg := lenOf(l)
	if arg == nil {
		return nil, false, false
	}
	k, isC := constInt(r)
	if !isC {
		return nil, false, false
	}
	var nonEmpty bool
	switch {
	case op == token.NEQ && k == 0, op == token.GTR && k == 0, op == token.GEQ && k == 1:
		nonEmpty = true
	case op == token.EQL && k == 0, op == token.LSS && k == 1, op == token.LEQ && k == 0:
		nonEmpty = false
	default:
		return nil, false, false
	}
	if neg {
		nonEmpty = !nonEmpty
	}
	return arg, nonEmpty, true
}

// gatedBy: instruction in is executed only when cond-value matched by test is
// in the given state.  test is applied to every If condition of the function
// that dominates in; it returns (matches, succIndexThatMustBeTaken).
func gatedBy(in ssa.Instruction, test func(cond ssa.Value) (bool, int)) *ssa.If {
	fn := in.Parent()
	for _, b := range fn.Blocks {
		i := ifOf(b)
		if i == nil {
			continue
		}
		ok, succ := test(i.Cond)
		if !ok {
			continue
		}
		if edgeDominates(b, succ, in.Block()) {
			return i
		}
	}
	return nil
}

// cellValues: addr is a local cell (Alloc) or a captured cell (FreeVar bound to
// an Alloc, possibly through several closure levels).  Returns every value
// stored into the cell anywhere; ok=false if addr is not such a cell or has no
// stores.
func cellValues(addr ssa.Value) ([]ssa.Value, bool) {
	switch a := addr.(type) {
	case *ssa.Alloc:
		sts := cellStores(a)
		if len(sts) == 0 {
			return nil, false
		}
		var l []ssa.Value
		for _, st := range sts {
			l = append(l, st.Val)
		}
		return l, true
	case *ssa.FreeVar:
		var l []ssa.Value
		for _, b := range freeVarBindings(a) {
			if vs, ok := cellValues(b); ok {
				l = append(l, vs...)
			}
		}
		return l, len(l) > 0
	}
	return nil, false
}
