package approve_test

// Demonstration for the defect repaired by "fix: don't move ASA ACL line twice if identical
// remark lines occur multiple times".  In cisco.diffASAACLs every line to be added looks up a line
// to be deleted with the same text in delMap and, if found, is realised as a move (delete + add in
// one packet).  An ASA ACL may hold the same remark line several times.  A second added line with
// the text of an already moved line found the moved line again: delACL ran a second time for a
// line that is no longer at its recorded position, all positions behind it were shifted once more
// and the second line was inserted one line too early.
//
// The commands printed by "drc -q DEVICE NETSPOC" are executed on a model of an ASA ACL
// (`access-list N line K ...` inserts at K, `no access-list N line K ...` removes line K and
// requires the text to match, without `line` a command appends / removes by text).  Checked: the
// final ACL is the target's, line by line, and a second drc run prints nothing.
//
// Intended path: go/test/zz_fix_c01r_test.go ; run: go test -vet=off -count=1 -run TestFixC01ASARemark ./test/

import (
	"os"
	"path"
	"regexp"
	"strconv"
	"strings"
	"testing"

	"github.com/hknutzen/Netspoc-Approve/go/pkg/drc"
	"github.com/hknutzen/Netspoc-Approve/go/test/capture"
)

func fixC01rDrc(t *testing.T, device, netspoc string) string {
	t.Helper()
	dir := t.TempDir()
	prev, _ := os.Getwd()
	defer os.Chdir(prev)
	os.Chdir(dir)
	os.MkdirAll("code", 0755)
	os.WriteFile("device", []byte(device), 0644)
	os.WriteFile(path.Join("code", "router"), []byte(netspoc), 0644)
	os.WriteFile(path.Join("code", "router.info"),
		[]byte(`{"model":"ASA","name_list":["router"],"ip_list":["10.1.13.33"]}`), 0644)
	os.Args = []string{"drc", "-q", "device", path.Join("code", "router")}
	var stdout string
	var status int
	stderr := capture.Capture(&os.Stderr, func() {
		stdout = capture.Capture(&os.Stdout, func() {
			status = capture.CatchPanic(func() int { return drc.Main() })
		})
	})
	if status != 0 {
		t.Fatalf("drc failed with status %d: %s", status, stderr)
	}
	return stdout
}

var fixC01rLine = regexp.MustCompile(`^(no )?access-list (\S+) (?:line (\d+) )?(.*)$`)

// Executes the script on the lines of ACL `name`.
func fixC01rApply(t *testing.T, name string, acl []string, script string) []string {
	t.Helper()
	for _, packet := range strings.Split(strings.TrimSpace(script), "\n") {
		for _, cmd := range strings.Split(packet, `\N `) {
			cmd = strings.TrimSpace(cmd)
			if cmd == "" {
				continue
			}
			m := fixC01rLine.FindStringSubmatch(cmd)
			if m == nil || m[2] != name {
				t.Fatalf("unexpected command %q", cmd)
			}
			text := m[4]
			if m[1] != "" {
				// delete
				idx := -1
				if m[3] != "" {
					n, _ := strconv.Atoi(m[3])
					if n < 1 || n > len(acl) || acl[n-1] != text {
						t.Fatalf("%q: line %d of the device is %q", cmd, n, append(acl, "<none>")[min(n-1, len(acl))])
					}
					idx = n - 1
				} else {
					for i, l := range acl {
						if l == text {
							idx = i
							break
						}
					}
					if idx < 0 {
						t.Fatalf("%q: no such line on the device", cmd)
					}
				}
				acl = append(acl[:idx:idx], acl[idx+1:]...)
			} else {
				if !strings.HasPrefix(text, "remark ") {
					for _, l := range acl {
						if l == text {
							t.Fatalf("%q: line is already present", cmd)
						}
					}
				}
				idx := len(acl)
				if m[3] != "" {
					n, _ := strconv.Atoi(m[3])
					if n < 1 {
						t.Fatalf("%q: bad line number", cmd)
					}
					if n-1 < idx {
						idx = n - 1
					}
				}
				acl = append(acl[:idx:idx], append([]string{text}, acl[idx:]...)...)
			}
		}
	}
	return acl
}

func fixC01rConfig(lines []string) string {
	var sb strings.Builder
	for _, l := range lines {
		sb.WriteString("access-list inside_in " + l + "\n")
	}
	sb.WriteString("access-group inside_in in interface inside\n")
	return sb.String()
}

func TestFixC01ASARemark(t *testing.T) {
	p := func(n string) string { return "extended permit ip host 10.0.0." + n + " any4" }
	for _, sc := range []struct {
		title          string
		device, target []string
	}{
		{"remark moved down and duplicated",
			[]string{"remark R", p("1"), p("2"), p("3")},
			[]string{p("1"), "remark R", p("2"), "remark R", p("3")}},
		{"one remark becomes three",
			[]string{"remark R", p("1"), p("2"), p("3"), p("4")},
			[]string{p("1"), "remark R", p("2"), "remark R", p("3"), "remark R", p("4")}},
		{"two equal remarks both moved",
			[]string{"remark R", "remark R", p("1"), p("2"), p("3")},
			[]string{p("1"), "remark R", p("2"), "remark R", p("3")}},
		{"control: different remarks",
			[]string{"remark R", p("1"), p("2"), p("3")},
			[]string{p("1"), "remark R", p("2"), "remark S", p("3")}},
	} {
		t.Run(sc.title, func(t *testing.T) {
			device := fixC01rConfig(sc.device)
			target := fixC01rConfig(sc.target)
			script := fixC01rDrc(t, device, target)
			got := fixC01rApply(t, "inside_in", append([]string{}, sc.device...), script)
			if strings.Join(got, "\n") != strings.Join(sc.target, "\n") {
				t.Errorf("script\n%s\nleaves the device with\n  %s\nexpected\n  %s",
					script, strings.Join(got, "\n  "), strings.Join(sc.target, "\n  "))
			}
			if again := fixC01rDrc(t, fixC01rConfig(got), target); strings.TrimSpace(again) != "" {
				t.Errorf("second compare still prints changes:\n%s", again)
			}
		})
	}
}
