package approve_test

// Demonstration for the defect repaired by "fix: replace IOS ACL line with changed log attribute
// inside its block".  In cisco.diffIOSACLs a target line that equals a device line up to the
// attribute log / log-input is treated as a move of that line; when the new position lies in the
// same permit/deny block the move was dropped - and with it the change of the attribute.  drc
// printed no command, the device never reached the target (property C02).
//
// For each scenario the commands printed by "drc -q DEVICE NETSPOC" are executed on a small model
// of an IOS extended ACL (model taken from the demonstration of seeded change C14-j).  A line
// "cmd1\N cmd2" is one step (one packet).  Checked: after every step each probe packet on which
// old and new ACL agree keeps its verdict (C14), and at the end the texts of the lines on the
// device - including log / log-input - are those of the target (C02).
//
// Intended path: go/test/zz_fix_c02_test.go ; run: go test -vet=off -count=1 -run TestFixC02 ./test/

import (
	"fmt"
	"os"
	"path"
	"sort"
	"strconv"
	"strings"
	"testing"

	"github.com/hknutzen/Netspoc-Approve/go/pkg/drc"
	"github.com/hknutzen/Netspoc-Approve/go/test/capture"
)

type fixC02Rule struct {
	text     string
	permit   bool
	proto    string // ip, tcp, udp, icmp
	src, dst fixC02Net
	dport    int // -1: any
}

type fixC02Net struct{ addr, wild uint32 }

type fixC02Packet struct {
	proto    string // tcp, udp, icmp
	src, dst uint32
	dport    int
}

func fixC02IP(t *testing.T, s string) uint32 {
	var r uint32
	l := strings.Split(s, ".")
	if len(l) != 4 {
		t.Fatalf("bad IP %q", s)
	}
	for _, p := range l {
		n, err := strconv.Atoi(p)
		if err != nil {
			t.Fatalf("bad IP %q", s)
		}
		r = r<<8 | uint32(n)
	}
	return r
}

func fixC02IPStr(a uint32) string {
	return fmt.Sprintf("%d.%d.%d.%d", a>>24, a>>16&255, a>>8&255, a&255)
}

// permit|deny PROTO SRC DST [eq PORT] [log|log-input]
func fixC02ParseRule(t *testing.T, line string) *fixC02Rule {
	w := strings.Fields(line)
	r := &fixC02Rule{text: line, dport: -1}
	switch w[0] {
	case "permit":
		r.permit = true
	case "deny":
	default:
		t.Fatalf("unexpected ACL line %q", line)
	}
	r.proto = w[1]
	w = w[2:]
	net := func() fixC02Net {
		switch w[0] {
		case "any":
			w = w[1:]
			return fixC02Net{0, 0xffffffff}
		case "host":
			n := fixC02Net{fixC02IP(t, w[1]), 0}
			w = w[2:]
			return n
		}
		n := fixC02Net{fixC02IP(t, w[0]), fixC02IP(t, w[1])}
		w = w[2:]
		return n
	}
	r.src = net()
	r.dst = net()
	if len(w) >= 2 && w[0] == "eq" {
		r.dport, _ = strconv.Atoi(w[1])
		w = w[2:]
	}
	if len(w) == 1 && (w[0] == "log" || w[0] == "log-input") {
		w = nil
	}
	if len(w) != 0 {
		t.Fatalf("unsupported ACL line %q", line)
	}
	return r
}

func (n fixC02Net) match(a uint32) bool { return (a^n.addr)&^n.wild == 0 }

func (r *fixC02Rule) match(p fixC02Packet) bool {
	if r.proto != "ip" && r.proto != p.proto {
		return false
	}
	if r.dport != -1 && r.dport != p.dport {
		return false
	}
	return r.src.match(p.src) && r.dst.match(p.dst)
}

// ACL as stored on device: sequence number -> rule.
type fixC02ACL map[int]*fixC02Rule

func (a fixC02ACL) sorted() []int {
	l := make([]int, 0, len(a))
	for n := range a {
		l = append(l, n)
	}
	sort.Ints(l)
	return l
}

// First match; implicit deny at end; an ACL without any line permits all.
func (a fixC02ACL) permits(p fixC02Packet) bool {
	if len(a) == 0 {
		return true
	}
	for _, n := range a.sorted() {
		if r := a[n]; r.match(p) {
			return r.permit
		}
	}
	return false
}

func (a fixC02ACL) String() string {
	var sb strings.Builder
	for _, n := range a.sorted() {
		fmt.Fprintf(&sb, "   %6d %s\n", n, a[n].text)
	}
	return sb.String()
}

// Read lines of "ip access-list extended NAME" from config.
func fixC02ReadACL(t *testing.T, conf, name string) fixC02ACL {
	acl := make(fixC02ACL)
	in := false
	n := 10
	for _, line := range strings.Split(conf, "\n") {
		if line == "" || line[0] == '!' {
			continue
		}
		if line[0] != ' ' {
			in = line == "ip access-list extended "+name
			continue
		}
		if in {
			acl[n] = fixC02ParseRule(t, strings.TrimSpace(line))
			n += 10
		}
	}
	return acl
}

// Execute one command on the model.
func fixC02Exec(t *testing.T, acls map[string]fixC02ACL, mode *string, cmd string) {
	w := strings.Fields(cmd)
	switch {
	case strings.HasPrefix(cmd, "ip access-list resequence "):
		old := acls[w[3]]
		start, _ := strconv.Atoi(w[4])
		step, _ := strconv.Atoi(w[5])
		acl := make(fixC02ACL)
		for i, n := range old.sorted() {
			acl[start+i*step] = old[n]
		}
		acls[w[3]] = acl
		*mode = ""
	case strings.HasPrefix(cmd, "ip access-list extended "):
		*mode = w[3]
	case w[0] == "no":
		n, err := strconv.Atoi(w[1])
		if err != nil || *mode == "" {
			t.Fatalf("unexpected command %q", cmd)
		}
		if _, found := acls[*mode][n]; !found {
			t.Fatalf("%q: no such line in ACL %s", cmd, *mode)
		}
		delete(acls[*mode], n)
	default:
		n, err := strconv.Atoi(w[0])
		if err != nil || *mode == "" {
			t.Fatalf("unexpected command %q", cmd)
		}
		if _, found := acls[*mode][n]; found {
			t.Fatalf("%q: line already exists in ACL %s", cmd, *mode)
		}
		acls[*mode][n] = fixC02ParseRule(t, strings.Join(w[1:], " "))
	}
}

// Run "drc -q device code/router" and return printed commands.
func fixC02GetChanges(t *testing.T, device, netspoc string) []string {
	workDir := t.TempDir()
	prevDir, _ := os.Getwd()
	defer os.Chdir(prevDir)
	os.Chdir(workDir)
	os.Unsetenv("SIMULATE_ROUTER")
	os.Mkdir("code", 0755)
	write := func(name, data string) {
		if err := os.WriteFile(name, []byte(data), 0644); err != nil {
			t.Fatal(err)
		}
	}
	write("device", device)
	write(path.Join("code", "router"), netspoc)
	write(path.Join("code", "router.info"),
		`{"model":"IOS","name_list":["router"],"ip_list":["10.1.13.33"]}`)
	os.Args = []string{"drc", "-q", "device", path.Join("code", "router")}
	var status int
	var stdout string
	stderr := capture.Capture(&os.Stderr, func() {
		stdout = capture.Capture(&os.Stdout, func() {
			status = capture.CatchPanic(func() int { return drc.Main() })
		})
	})
	if status != 0 || stderr != "" {
		t.Fatalf("drc failed: status %d\n%s", status, stderr)
	}
	var result []string
	for _, l := range strings.Split(stdout, "\n") {
		if l != "" {
			result = append(result, l)
		}
	}
	return result
}

// Probe packets: all combinations of addresses, protocols and ports that
// occur in one of the two ACLs plus one value not mentioned anywhere.
func fixC02Packets(acls ...fixC02ACL) []fixC02Packet {
	addrs := map[uint32]bool{0xc0a8fefe: true} // 192.168.254.254
	ports := map[int]bool{9: true}
	for _, a := range acls {
		for _, r := range a {
			for _, n := range []fixC02Net{r.src, r.dst} {
				if n.wild != 0xffffffff {
					addrs[n.addr] = true
					addrs[n.addr|n.wild&0x55555555] = true
				}
			}
			if r.dport != -1 {
				ports[r.dport] = true
			}
		}
	}
	var l []fixC02Packet
	for _, proto := range []string{"tcp", "udp", "icmp"} {
		for s := range addrs {
			for d := range addrs {
				if proto == "icmp" {
					l = append(l, fixC02Packet{proto, s, d, -2})
					continue
				}
				for p := range ports {
					l = append(l, fixC02Packet{proto, s, d, p})
				}
			}
		}
	}
	return l
}

func fixC02CheckSteps(t *testing.T, device, netspoc string) {
	const name = "test"
	oldACL := fixC02ReadACL(t, device, name)
	newACL := fixC02ReadACL(t, netspoc, name)
	packets := fixC02Packets(oldACL, newACL)
	changes := fixC02GetChanges(t, device, netspoc)
	t.Logf("commands from drc:\n %s", strings.Join(changes, "\n "))

	acls := map[string]fixC02ACL{name: fixC02ReadACL(t, device, name)}
	mode := ""
	for i, step := range changes {
		// Both parts of a joined line are sent in one packet: one step.
		for _, cmd := range strings.Split(step, `\N `) {
			fixC02Exec(t, acls, &mode, cmd)
		}
		cur := acls[name]
		for _, p := range packets {
			o, n := oldACL.permits(p), newACL.permits(p)
			if o != n {
				continue
			}
			if got := cur.permits(p); got != o {
				verdict := map[bool]string{true: "permitted", false: "denied"}
				t.Errorf("after step %d (%q):\n"+
					"  %s %s -> %s port %d is %s by old and by new ACL, "+
					"but is %s now.\n  ACL on device now:\n%s",
					i+1, step, p.proto, fixC02IPStr(p.src), fixC02IPStr(p.dst), p.dport,
					verdict[o], verdict[got], cur)
				return
			}
		}
	}
	// The lines on the device are the target's lines, attribute log included.
	texts := func(a fixC02ACL) []string {
		var l []string
		for _, n := range a.sorted() {
			l = append(l, a[n].text)
		}
		sort.Strings(l)
		return l
	}
	if got, want := texts(acls[name]), texts(newACL); strings.Join(got, "\n") != strings.Join(want, "\n") {
		t.Errorf("device does not reach the target:\n device now:\n  %s\n target:\n  %s",
			strings.Join(got, "\n  "), strings.Join(want, "\n  "))
		return
	}
	// Finally the ACL on device must behave like the ACL from Netspoc.
	for _, p := range packets {
		if acls[name].permits(p) != newACL.permits(p) {
			t.Errorf("final ACL differs from Netspoc for %v:\n%s", p, acls[name])
			return
		}
	}
}

func TestFixC02IOSLogChange(t *testing.T) {
	intf := `
interface Ethernet1
 ip access-group test in
`
	acl := func(lines ...string) string {
		return "ip access-list extended test\n " +
			strings.Join(lines, "\n ") + "\n" + intf
	}
	type scenario struct {
		title           string
		device, netspoc string
	}
	l := []scenario{
		// Line with changed 'log' is moved to other block: joined move.
		{"move line with changed log to other block",
			acl(
				"permit tcp host 10.2.3.4 host 10.3.4.5",
				"deny ip host 10.1.2.3 host 10.1.1.1 log",
				"deny ip any any"),
			acl(
				"deny ip host 10.1.2.3 host 10.1.1.1",
				"permit ip any host 10.1.1.1",
				"permit tcp host 10.2.3.4 host 10.3.4.5",
				"deny ip any any"),
		},
		// Logging is switched on for the rule that permits the
		// management session of Netspoc. Nothing else changes.
		{"enable log at rule for device access",
			acl(
				"permit ip host 10.0.11.111 host 10.9.9.1",
				"permit tcp any host 10.1.1.1 eq 80",
				"deny ip any any"),
			acl(
				"permit ip host 10.0.11.111 host 10.9.9.1 log",
				"permit tcp any host 10.1.1.1 eq 80",
				"deny ip any any"),
		},
		// Logging is switched off at a deny rule that is followed by a
		// larger permit rule.
		{"disable log at deny rule before larger permit",
			acl(
				"deny ip host 10.1.2.3 host 10.1.1.1 log",
				"deny ip host 10.1.2.4 host 10.1.1.1",
				"permit ip any host 10.1.1.1",
				"deny ip any any"),
			acl(
				"deny ip host 10.1.2.3 host 10.1.1.1",
				"deny ip host 10.1.2.4 host 10.1.1.1",
				"permit ip any host 10.1.1.1",
				"deny ip any any"),
		},
	}
	for _, sc := range l {
		t.Run(sc.title, func(t *testing.T) {
			fixC02CheckSteps(t, sc.device, sc.netspoc)
		})
	}
}
