package approve_test

// Demonstration for the defect repaired by "fix: move IOS ACL line inside its block if lines with
// other action are inserted behind it".  In cisco.diffIOSACLs the move of a line to another place
// of its own permit/deny block is dropped, because order inside a block does not matter.  But when
// the same inserted range continues with a line of the other action, that line is inserted at the
// insert position - in front of the line whose move was dropped, if that line is located behind the
// insert position.  The device then has <new deny> <permit B> where Netspoc has <permit B> <new deny>:
// packets matched by both are denied for ever (C02), and when B is the rule that admits the
// management session the session is locked out (C14).
//
// The commands printed by "drc -q DEVICE NETSPOC" are executed on a small model of an IOS extended
// ACL (model taken from the demonstration of seeded change C14-j); a line "cmd1\N cmd2" is one step.
// Checked: after every step each probe packet on which old and new ACL agree keeps its verdict, and
// at the end the device filters like the target.
//
// Intended path: go/test/zz_fix_c02m_test.go ; run: go test -vet=off -count=1 -run TestFixC02IOSMove ./test/

import (
	"fmt"
	"os"
	"path"
	"sort"
	"strconv"
	"strings"
	"testing"

	"github.com/hknutzen/Netspoc-Approve/go/pkg/drc"
	"github.com/hknutzen/Netspoc-Approve/go/test/capture"
)

type fixC02mRule struct {
	text     string
	permit   bool
	proto    string // ip, tcp, udp, icmp
	src, dst fixC02mNet
	dport    int // -1: any
}

type fixC02mNet struct{ addr, wild uint32 }

type fixC02mPacket struct {
	proto    string // tcp, udp, icmp
	src, dst uint32
	dport    int
}

func fixC02mIP(t *testing.T, s string) uint32 {
	var r uint32
	l := strings.Split(s, ".")
	if len(l) != 4 {
		t.Fatalf("bad IP %q", s)
	}
	for _, p := range l {
		n, err := strconv.Atoi(p)
		if err != nil {
			t.Fatalf("bad IP %q", s)
		}
		r = r<<8 | uint32(n)
	}
	return r
}

func fixC02mIPStr(a uint32) string {
	return fmt.Sprintf("%d.%d.%d.%d", a>>24, a>>16&255, a>>8&255, a&255)
}

// permit|deny PROTO SRC DST [eq PORT] [log|log-input]
func fixC02mParseRule(t *testing.T, line string) *fixC02mRule {
	w := strings.Fields(line)
	r := &fixC02mRule{text: line, dport: -1}
	switch w[0] {
	case "permit":
		r.permit = true
	case "deny":
	default:
		t.Fatalf("unexpected ACL line %q", line)
	}
	r.proto = w[1]
	w = w[2:]
	net := func() fixC02mNet {
		switch w[0] {
		case "any":
			w = w[1:]
			return fixC02mNet{0, 0xffffffff}
		case "host":
			n := fixC02mNet{fixC02mIP(t, w[1]), 0}
			w = w[2:]
			return n
		}
		n := fixC02mNet{fixC02mIP(t, w[0]), fixC02mIP(t, w[1])}
		w = w[2:]
		return n
	}
	r.src = net()
	r.dst = net()
	if len(w) >= 2 && w[0] == "eq" {
		r.dport, _ = strconv.Atoi(w[1])
		w = w[2:]
	}
	if len(w) == 1 && (w[0] == "log" || w[0] == "log-input") {
		w = nil
	}
	if len(w) != 0 {
		t.Fatalf("unsupported ACL line %q", line)
	}
	return r
}

func (n fixC02mNet) match(a uint32) bool { return (a^n.addr)&^n.wild == 0 }

func (r *fixC02mRule) match(p fixC02mPacket) bool {
	if r.proto != "ip" && r.proto != p.proto {
		return false
	}
	if r.dport != -1 && r.dport != p.dport {
		return false
	}
	return r.src.match(p.src) && r.dst.match(p.dst)
}

// ACL as stored on device: sequence number -> rule.
type fixC02mACL map[int]*fixC02mRule

func (a fixC02mACL) sorted() []int {
	l := make([]int, 0, len(a))
	for n := range a {
		l = append(l, n)
	}
	sort.Ints(l)
	return l
}

// First match; implicit deny at end; an ACL without any line permits all.
func (a fixC02mACL) permits(p fixC02mPacket) bool {
	if len(a) == 0 {
		return true
	}
	for _, n := range a.sorted() {
		if r := a[n]; r.match(p) {
			return r.permit
		}
	}
	return false
}

func (a fixC02mACL) String() string {
	var sb strings.Builder
	for _, n := range a.sorted() {
		fmt.Fprintf(&sb, "   %6d %s\n", n, a[n].text)
	}
	return sb.String()
}

// Read lines of "ip access-list extended NAME" from config.
func fixC02mReadACL(t *testing.T, conf, name string) fixC02mACL {
	acl := make(fixC02mACL)
	in := false
	n := 10
	for _, line := range strings.Split(conf, "\n") {
		if line == "" || line[0] == '!' {
			continue
		}
		if line[0] != ' ' {
			in = line == "ip access-list extended "+name
			continue
		}
		if in {
			acl[n] = fixC02mParseRule(t, strings.TrimSpace(line))
			n += 10
		}
	}
	return acl
}

// Execute one command on the model.
func fixC02mExec(t *testing.T, acls map[string]fixC02mACL, mode *string, cmd string) {
	w := strings.Fields(cmd)
	switch {
	case strings.HasPrefix(cmd, "ip access-list resequence "):
		old := acls[w[3]]
		start, _ := strconv.Atoi(w[4])
		step, _ := strconv.Atoi(w[5])
		acl := make(fixC02mACL)
		for i, n := range old.sorted() {
			acl[start+i*step] = old[n]
		}
		acls[w[3]] = acl
		*mode = ""
	case strings.HasPrefix(cmd, "ip access-list extended "):
		*mode = w[3]
	case w[0] == "no":
		n, err := strconv.Atoi(w[1])
		if err != nil || *mode == "" {
			t.Fatalf("unexpected command %q", cmd)
		}
		if _, found := acls[*mode][n]; !found {
			t.Fatalf("%q: no such line in ACL %s", cmd, *mode)
		}
		delete(acls[*mode], n)
	default:
		n, err := strconv.Atoi(w[0])
		if err != nil || *mode == "" {
			t.Fatalf("unexpected command %q", cmd)
		}
		if _, found := acls[*mode][n]; found {
			t.Fatalf("%q: line already exists in ACL %s", cmd, *mode)
		}
		acls[*mode][n] = fixC02mParseRule(t, strings.Join(w[1:], " "))
	}
}

// Run "drc -q device code/router" and return printed commands.
func fixC02mGetChanges(t *testing.T, device, netspoc string) []string {
	workDir := t.TempDir()
	prevDir, _ := os.Getwd()
	defer os.Chdir(prevDir)
	os.Chdir(workDir)
	os.Unsetenv("SIMULATE_ROUTER")
	os.Mkdir("code", 0755)
	write := func(name, data string) {
		if err := os.WriteFile(name, []byte(data), 0644); err != nil {
			t.Fatal(err)
		}
	}
	write("device", device)
	write(path.Join("code", "router"), netspoc)
	write(path.Join("code", "router.info"),
		`{"model":"IOS","name_list":["router"],"ip_list":["10.1.13.33"]}`)
	os.Args = []string{"drc", "-q", "device", path.Join("code", "router")}
	var status int
	var stdout string
	stderr := capture.Capture(&os.Stderr, func() {
		stdout = capture.Capture(&os.Stdout, func() {
			status = capture.CatchPanic(func() int { return drc.Main() })
		})
	})
	if status != 0 || stderr != "" {
		t.Fatalf("drc failed: status %d\n%s", status, stderr)
	}
	var result []string
	for _, l := range strings.Split(stdout, "\n") {
		if l != "" {
			result = append(result, l)
		}
	}
	return result
}

// Probe packets: all combinations of addresses, protocols and ports that
// occur in one of the two ACLs plus one value not mentioned anywhere.
func fixC02mPackets(acls ...fixC02mACL) []fixC02mPacket {
	addrs := map[uint32]bool{0xc0a8fefe: true} // 192.168.254.254
	ports := map[int]bool{9: true}
	for _, a := range acls {
		for _, r := range a {
			for _, n := range []fixC02mNet{r.src, r.dst} {
				if n.wild != 0xffffffff {
					addrs[n.addr] = true
					addrs[n.addr|n.wild&0x55555555] = true
				}
			}
			if r.dport != -1 {
				ports[r.dport] = true
			}
		}
	}
	var l []fixC02mPacket
	for _, proto := range []string{"tcp", "udp", "icmp"} {
		for s := range addrs {
			for d := range addrs {
				if proto == "icmp" {
					l = append(l, fixC02mPacket{proto, s, d, -2})
					continue
				}
				for p := range ports {
					l = append(l, fixC02mPacket{proto, s, d, p})
				}
			}
		}
	}
	return l
}

func fixC02mCheckSteps(t *testing.T, device, netspoc string) {
	const name = "test"
	oldACL := fixC02mReadACL(t, device, name)
	newACL := fixC02mReadACL(t, netspoc, name)
	packets := fixC02mPackets(oldACL, newACL)
	changes := fixC02mGetChanges(t, device, netspoc)
	t.Logf("commands from drc:\n %s", strings.Join(changes, "\n "))

	acls := map[string]fixC02mACL{name: fixC02mReadACL(t, device, name)}
	mode := ""
	for i, step := range changes {
		// Both parts of a joined line are sent in one packet: one step.
		for _, cmd := range strings.Split(step, `\N `) {
			fixC02mExec(t, acls, &mode, cmd)
		}
		cur := acls[name]
		for _, p := range packets {
			o, n := oldACL.permits(p), newACL.permits(p)
			if o != n {
				continue
			}
			if got := cur.permits(p); got != o {
				verdict := map[bool]string{true: "permitted", false: "denied"}
				t.Errorf("after step %d (%q):\n"+
					"  %s %s -> %s port %d is %s by old and by new ACL, "+
					"but is %s now.\n  ACL on device now:\n%s",
					i+1, step, p.proto, fixC02mIPStr(p.src), fixC02mIPStr(p.dst), p.dport,
					verdict[o], verdict[got], cur)
				return
			}
		}
	}
	// Finally the ACL on device must behave like the ACL from Netspoc.
	for _, p := range packets {
		if acls[name].permits(p) != newACL.permits(p) {
			t.Errorf("final ACL differs from Netspoc for %v:\n%s", p, acls[name])
			return
		}
	}
}

func TestFixC02IOSMoveBeforeNewDeny(t *testing.T) {
	intf := `
interface Ethernet1
 ip access-group test in
`
	acl := func(lines ...string) string {
		return "ip access-list extended test\n " +
			strings.Join(lines, "\n ") + "\n" + intf
	}
	type scenario struct {
		title           string
		device, netspoc string
	}
	l := []scenario{
		// Insert position is the border in front of the permit block.
		{"moved permit and new deny in front of block",
			acl(
				"deny ip host 10.1.2.3 host 10.1.1.1",
				"permit tcp host 10.2.3.4 host 10.3.4.5",
				"permit udp host 10.2.3.4 host 10.3.4.5",
				"permit ip 10.0.11.0 0.0.0.255 host 10.9.9.1",
				"deny ip any any"),
			acl(
				"deny ip host 10.1.2.3 host 10.1.1.1",
				"permit ip 10.0.11.0 0.0.0.255 host 10.9.9.1",
				"deny ip host 10.0.11.7 host 10.9.9.1",
				"permit tcp host 10.2.3.4 host 10.3.4.5",
				"permit udp host 10.2.3.4 host 10.3.4.5",
				"deny ip any any"),
		},
		// Insert position is inside the permit block, block is split.
		{"moved permit and new deny inside of block",
			acl(
				"permit tcp host 10.2.3.4 host 10.3.4.5",
				"permit udp host 10.2.3.4 host 10.3.4.5",
				"permit tcp host 10.2.3.5 host 10.3.4.5",
				"permit ip 10.0.11.0 0.0.0.255 host 10.9.9.1",
				"deny ip any any"),
			acl(
				"permit tcp host 10.2.3.4 host 10.3.4.5",
				"permit ip 10.0.11.0 0.0.0.255 host 10.9.9.1",
				"deny ip host 10.0.11.7 host 10.9.9.1",
				"permit udp host 10.2.3.4 host 10.3.4.5",
				"permit tcp host 10.2.3.5 host 10.3.4.5",
				"deny ip any any"),
		},
		// Control, taken from testdata/ios_acl.t: lines located in front of
		// the insert position stay where they are.
		{"add permit line behind deny block",
			acl(
				"deny ip any host 3.3.3.3",
				"deny ip any host 2.2.2.2",
				"deny ip any host 1.1.1.1"),
			acl(
				"deny ip any host 1.1.1.1",
				"deny ip any host 2.2.2.2",
				"deny ip any host 3.3.3.3",
				"permit ip host 5.5.5.5 any"),
		},
	}
	for _, sc := range l {
		t.Run(sc.title, func(t *testing.T) {
			fixC02mCheckSteps(t, sc.device, sc.netspoc)
		})
	}
}
