package approve_test

// Demonstration for the defect repaired by "fix: delete-old-policies must not remove lock files".
// A run holds the lock of a device whose lock file was created more than keep_history days ago
// (the file is never written, its mtime is the day of its creation).  The daily cron job
// bin/delete-old-policies unlinks the file; the next run creates a new file, locks that one and
// proceeds although the first run is still in its session.
// Intended path: go/test/zz_fix_c12_test.go ; run: go test -vet=off -count=1 -run TestFixC12 ./test/

import (
	"fmt"
	"os"
	"os/exec"
	"path/filepath"
	"testing"
	"time"

	"github.com/hknutzen/Netspoc-Approve/go/pkg/device"
	"github.com/hknutzen/Netspoc-Approve/go/pkg/program"
)

func TestFixC12CronKeepsHeldLock(t *testing.T) {
	work := t.TempDir()
	binDir := filepath.Join(work, "bin")
	os.Mkdir(binDir, 0755)
	build := exec.Command("go", "build", "-o", filepath.Join(binDir, "get-netspoc-approve-conf"),
		"../cmd/get-netspoc-approve-conf")
	if out, err := build.CombinedOutput(); err != nil {
		t.Fatalf("build: %v\n%s", err, out)
	}
	for _, d := range []string{"lock", "status", "history", "policies"} {
		os.Mkdir(filepath.Join(work, d), 0755)
	}
	os.WriteFile(filepath.Join(work, ".netspoc-approve"),
		[]byte(fmt.Sprintf("basedir = %s\nkeep_history = 30\n", work)), 0644)
	lockFile := filepath.Join(work, "lock", "router")
	os.WriteFile(lockFile, nil, 0644)
	old := time.Now().Add(-400 * 24 * time.Hour)
	os.Chtimes(lockFile, old, old)

	cfg := &program.Config{BaseDir: work}
	holder, err := device.SetLock("router", cfg)
	if err != nil {
		t.Fatalf("first run could not take the lock: %v", err)
	}
	defer holder.Close()

	script, _ := filepath.Abs("../../bin/delete-old-policies")
	cron := exec.Command("sh", script)
	cron.Env = append(os.Environ(), "HOME="+work, "PATH="+binDir+":"+os.Getenv("PATH"))
	if out, err := cron.CombinedOutput(); err != nil {
		t.Fatalf("delete-old-policies: %v\n%s", err, out)
	}

	contender, err := device.SetLock("router", cfg)
	if contender != nil {
		defer contender.Close()
	}
	if err == nil {
		t.Fatalf("second run got the lock of 'router' while the first run still holds it " +
			"(delete-old-policies removed the held lock file)")
	}
}
