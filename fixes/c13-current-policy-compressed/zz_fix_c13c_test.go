package approve_test

// Demonstration for the defect repaired by "fix: compress-policies must not compress the
// current policy".  The daily cron job bin/compress-policies compresses the files of every
// policy directory that is `compress_at` days old, whether or not a newer policy exists.
// A policy that stays current that long had its code files turned into <device>.bz2:
// missing-approve walks the current policy and skips every name with a dot, so it listed no
// device at all -- also devices that were never approved -- and do-approve did not find the
// code file of any device.
//
// The age test of the script is `-daystart -ctime N`; a test cannot age a directory, so the
// demonstration sets compress_at = 0 (policies of today).  The selection is the same for
// every N.
//
// Intended path: go/test/zz_fix_c13c_test.go
// Run: cd go && go test -vet=off -count=1 -run TestFixC13CurrentPolicyStaysPlain ./test/

import (
	"fmt"
	"os"
	"os/exec"
	"path/filepath"
	"testing"
)

func TestFixC13CurrentPolicyStaysPlain(t *testing.T) {
	for _, tool := range []string{"bzip2", "find", "xargs", "sh"} {
		if _, err := exec.LookPath(tool); err != nil {
			t.Skipf("%s not available", tool)
		}
	}
	run := func(wd string, name string, args ...string) string {
		t.Helper()
		cmd := exec.Command(name, args...)
		cmd.Dir = wd
		out, err := cmd.CombinedOutput()
		if err != nil {
			t.Fatalf("%s %v: %v\n%s", name, args, err, out)
		}
		return string(out)
	}
	approveBin, _ := filepath.Abs("../../bin")
	goDir, _ := filepath.Abs("..")
	dir := t.TempDir()
	myBin := filepath.Join(dir, "my-bin")
	os.Mkdir(myBin, 0700)
	// The real programs of the project (built before HOME is changed, because of the Go caches).
	run(goDir, "go", "build", "-o", filepath.Join(myBin, "get-netspoc-approve-conf"), "./cmd/get-netspoc-approve-conf")
	run(goDir, "go", "build", "-o", filepath.Join(myBin, "missing-approve"), "./cmd/missing-approve")
	t.Setenv("HOME", dir)
	t.Setenv("PATH", fmt.Sprintf("%s:%s:%s", myBin, approveBin, os.Getenv("PATH")))

	for _, d := range []string{"policies", "history", "status", "lock"} {
		os.Mkdir(filepath.Join(dir, d), 0700)
	}
	os.WriteFile(filepath.Join(dir, ".netspoc-approve"), []byte(fmt.Sprintf(`
basedir = %s
netspoc_git = file:///nowhere
compress_at = 0
`, dir)), 0600)
	write := func(policy, file, data string) {
		p := filepath.Join(dir, "policies", policy, file)
		os.MkdirAll(filepath.Dir(p), 0755)
		if err := os.WriteFile(p, []byte(data), 0644); err != nil {
			t.Fatal(err)
		}
	}
	exists := func(p string) bool {
		_, err := os.Lstat(filepath.Join(dir, "policies", p))
		return err == nil
	}
	// An older policy and the current one; device "router" was never approved.
	write("p1", "code/router", "! old\n")
	write("p1", "compile.log", "log\n")
	write("p2", "code/router", "! new\n")
	write("p2", "code/ipv6/router", "! new v6\n")
	write("p2", "code/router.info", "{}\n")
	write("p2", "compile.log", "log\n")
	os.Symlink("p2", filepath.Join(dir, "policies/current"))

	// The nightly cron job.
	run(dir, "compress-policies")

	if !exists("p1/code/router.bz2") || exists("p1/code/router") {
		t.Errorf("older policy p1 was not compressed")
	}
	for _, f := range []string{"p2/code/router", "p2/code/ipv6/router", "p2/code/router.info"} {
		if !exists(f) {
			t.Errorf("file %s of the current policy is gone (compressed: %v)", f, exists(f+".bz2"))
		}
	}
	// The device was never approved: it must be listed.
	if out := run(dir, "missing-approve"); out != "router\n" {
		t.Errorf("missing-approve prints %q, expected \"router\\n\"", out)
	}
}
