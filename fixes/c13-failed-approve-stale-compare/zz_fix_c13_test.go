package main

// Demonstration for the defect repaired by the /repo commit
// "fix: failed approve invalidates an older compare result".
// Place this file in go/cmd/missing-approve/ and run
//   go test -vet=off -count=1 -run TestFixC13 ./cmd/missing-approve/
// It fails before the fix (missing-approve prints nothing) and passes after it.
//
// History: compare UPTODATE with p1; policy p2 has different code, approve OK;
// policy p3 has the code of p1 again, approve FAILED.  The device still carries
// p2's code, so missing-approve has to list it.

import (
	"fmt"
	"os"
	"path/filepath"
	"testing"

	"github.com/hknutzen/Netspoc-Approve/go/pkg/program"
	"github.com/hknutzen/Netspoc-Approve/go/pkg/status"
	"github.com/hknutzen/Netspoc-Approve/go/test/capture"
)

func TestFixC13FailedApproveAfterOlderCompare(t *testing.T) {
	work := t.TempDir()
	t.Setenv("HOME", work)
	if err := os.WriteFile(filepath.Join(work, ".netspoc-approve"),
		[]byte(fmt.Sprintln("basedir = ", work)), 0644); err != nil {
		t.Fatal(err)
	}
	code := map[string]string{"p1": "A\n", "p2": "B\n", "p3": "A\n"}
	for p, c := range code {
		dir := filepath.Join(work, "policies", p, "code")
		os.MkdirAll(dir, 0755)
		os.WriteFile(filepath.Join(dir, "router"), []byte(c), 0644)
	}
	os.MkdirAll(filepath.Join(work, "status"), 0755)
	cfg, err := program.LoadConfig()
	if err != nil {
		t.Fatal(err)
	}
	t.Setenv("TEST_TIME", "2024-Jan-01 10:00:00")
	status.SetCompare(cfg, "router", "p1", false) // UPTODATE p1
	t.Setenv("TEST_TIME", "2024-Jan-02 10:00:00")
	status.SetApprove(cfg, "router", "p2", false) // OK p2
	t.Setenv("TEST_TIME", "2024-Jan-03 10:00:00")
	status.SetApprove(cfg, "router", "p3", true) // FAILED p3
	os.Symlink("p3", filepath.Join(work, "policies", "current"))
	os.Args = []string{"missing-approve"}
	var rc int
	out := capture.Capture(&os.Stdout, func() { rc = Main() })
	if rc != 0 || out != "router\n" {
		t.Errorf("missing-approve printed %q (status %d), expected \"router\\n\": "+
			"the device carries the code of p2, the current policy p3 has other code", out, rc)
	}
}
