package approve_test

// Demonstration for property C15 (IOS reload guard survives banners and is
// re-armed on the one-minute warning).
//
// For every change command position k the simulated router prints the
// asynchronous "SHUTDOWN in 0:01:00" banner
//   - at the idle prompt, directly before the echo of command k
//     (banner, fresh prompt from 'logging synchronous', then echo), or
//   - inside the echo of command k, or
//   - directly behind the echo of command k.
// In every case the transcript must show that the reload was re-armed
// ("do reload in 2") after the banner and before "reload cancel",
// that all changes were sent, and that "write memory" comes last.

import (
	"fmt"
	"os"
	"path"
	"strings"
	"testing"

	"github.com/hknutzen/Netspoc-Approve/go/pkg/drc"
	"github.com/hknutzen/Netspoc-Approve/go/test/capture"
)

const demoStdScenario = `Enter Password:<!>
banner motd  managed by NetSPoC
router>
# sh run
ip route 10.1.1.0 255.255.255.0 10.1.2.3
# sh ver
Cisco IOS Software, C2900 Software (C2900-UNIVERSALK9-M), Version 15.1(4)M4,
# configure terminal
Enter configuration commands, one per line.  End with CNTL/Z.
# reload in 2

System configuration has been modified. Save? [yes/no]: <!>
Reload reason: Reload Command
Proceed with reload? [confirm]<!>
# reload cancel


***
*** --- SHUTDOWN ABORTED ---
***
# write memory
Building configuration...
  Compressed configuration from 106098 bytes to 30504 bytes[OK]
`

const demoBanner1 = "# \\BANNER1/\n\n\n\n\x07***\n*** --- SHUTDOWN in 0:01:00 ---\n***\n"
const demoBanner1Prompt = "# \\BANNER1_prompt/\n\n\n\n\n\n\x07***\n" +
	"*** --- SHUTDOWN in 0:01:00 ---\n***\n\nrouter#\n"

// the only change is a joined two-command line: "no <old route>\n<new route>"
var demoCmds = []string{
	"no ip route 10.1.1.0 255.255.255.0 10.1.2.3",
}

// Run "drc -q -L workDir code/router" against simulated router and
// return status, stderr and content of router.change.
func demoRun(t *testing.T, scenario, netspoc string) (int, string, string) {
	workDir := t.TempDir()
	prevDir, _ := os.Getwd()
	defer os.Chdir(prevDir)
	os.Chdir(workDir)

	os.Mkdir("code", 0755)
	os.WriteFile("code/router", []byte(netspoc), 0644)
	os.WriteFile("code/router.info", []byte(
		`{"model":"IOS","name_list":["router"],"ip_list":["10.1.13.33"]}`), 0644)
	os.WriteFile("scenario", []byte(scenario), 0644)
	os.Setenv("SIMULATE_ROUTER",
		prevDir+"/../testdata/simulate-cisco.pl router "+
			path.Join(workDir, "scenario"))
	defer os.Unsetenv("SIMULATE_ROUTER")
	os.Setenv("TEST_TIME", "2024-Sep-29 16:19:50")
	defer os.Unsetenv("TEST_TIME")
	os.WriteFile("credentials", []byte("* admin secret\n"), 0644)
	os.Mkdir("lock", 0755)
	os.Mkdir("status", 0755)
	os.Mkdir("history", 0755)
	os.WriteFile(".netspoc-approve", []byte(fmt.Sprintf(
		"basedir = %s\ncheckbanner = NetSPoC\nsystemuser = admin\ntimeout = 1\n",
		workDir)), 0644)
	os.Setenv("HOME", workDir)
	os.Args = []string{"drc", "-q", "-L", workDir, "code/router"}

	var status int
	stderr := capture.Capture(&os.Stderr, func() {
		capture.Capture(&os.Stdout, func() {
			status = capture.CatchPanic(func() int { return drc.Main() })
		})
	})
	data, _ := os.ReadFile(path.Join(workDir, "router.change"))
	return status, stderr, string(data)
}

func TestFixC15JoinedCommandRearm(t *testing.T) {
	os.Unsetenv("LANG")
	netspoc := "ip route 10.1.1.0 255.255.255.0 10.1.2.9\n"
	type form struct {
		name   string
		banner string
		garble func(cmd string) string
	}
	forms := []form{
		{"banner+prompt before echo", demoBanner1Prompt,
			func(c string) string { return `\BANNER1_prompt/` + c }},
		{"banner inside echo", demoBanner1,
			func(c string) string { return c[:2] + `\BANNER1/` + c[2:] }},
		{"banner behind echo", demoBanner1,
			func(c string) string { return c + `\BANNER1/` }},
	}
	for _, f := range forms {
		for k, c := range demoCmds {
			t.Run(fmt.Sprintf("%s/cmd%d", f.name, k), func(t *testing.T) {
				scenario := demoStdScenario + f.banner + "# " + f.garble(c) + "\n"
				status, stderr, tr := demoRun(t, scenario, netspoc)
				if status != 0 || stderr != "" {
					t.Fatalf("status %d, stderr:\n%s\ntranscript:\n%s",
						status, stderr, tr)
				}
				iWarn := strings.Index(tr, "SHUTDOWN in 0:01:00")
				iCancel := strings.Index(tr, "#reload cancel")
				iWrite := strings.Index(tr, "#write memory")
				if iWarn < 0 || iCancel < iWarn || iWrite < iCancel {
					t.Fatalf("bad transcript:\n%s", tr)
				}
				// All changes were sent under the reload guard.
				iFirst := strings.Index(tr, "#reload in 2")
				for _, c := range demoCmds {
					tail := c[len(c)-12:]
					i := strings.LastIndex(tr, tail)
					if i < iFirst || i > iCancel {
						t.Errorf("change %q not sent under guard", c)
					}
				}
				// One-minute warning must re-arm the reload.
				iArm := strings.Index(tr[iWarn:iCancel], "do reload in 2")
				if iArm < 0 {
					t.Errorf("one-minute warning seen, but reload was NOT "+
						"re-armed before 'reload cancel':\n%s", tr)
				}
			})
		}
	}
}
