package approve_test

// Demonstration for the defect repaired by "fix: send enable password only if device asks for it".
// cisco.LoginEnable took every answer to `enable` that does not end in `#` for a password prompt.
// An IOS device without enable password answers "% No password set" and stays at the `>` prompt;
// the login password was then sent as an ordinary command, echoed by the device like any command
// and written to the .login log.
// The simulated router does not echo what is typed at a password prompt (like a real device and
// unlike testdata/simulate-cisco.pl) and echoes everything typed at a command prompt.
// (Simulator and scan adapted from the demonstration of seeded change C17-h.)
//
// Intended path: go/test/zz_fix_c17_test.go ; run: go test -vet=off -count=1 -run TestFixC17 ./test/

import (
	"bytes"
	"fmt"
	"os"
	"os/exec"
	"path/filepath"
	"strings"
	"testing"
)

const fixC17Secret = "Pw7Zq9TokenXy"

// Simulated IOS device. Reads the password without echoing it,
// echoes all other input lines like a real router.
const fixC17Simulator = `#!/usr/bin/perl
use strict;
use warnings;
$| = 1;
print "Enter Password:";
my $pw = <STDIN>;
print "\r\nbanner motd managed by NetSPoC\r\nrouter>";
while (my $cmd = <STDIN>) {
    chomp $cmd;
    print "$cmd\r\n";
    last if $cmd eq 'exit';
    if ($cmd eq 'enable') {
        print "% No password set\r\n";
    }
    print "router>";
}
`

func fixC17BuildDrc(t *testing.T, dir string) string {
	bin := filepath.Join(dir, "drc")
	cmd := exec.Command("go", "build", "-o", bin, "../cmd/drc")
	if out, err := cmd.CombinedOutput(); err != nil {
		t.Fatalf("go build drc: %v\n%s", err, out)
	}
	return bin
}

func TestFixC17EnablePasswordNotSentAsCommand(t *testing.T) {
	binDir := t.TempDir()
	drcBin := fixC17BuildDrc(t, binDir)
	sim := filepath.Join(binDir, "sim.pl")
	if err := os.WriteFile(sim, []byte(fixC17Simulator), 0755); err != nil {
		t.Fatal(err)
	}

	for _, trace := range []string{""} {
		name := "ordinary run"
		if trace != "" {
			name = "NETSPOC_APPROVE_TRACE=" + trace
		}
		t.Run(name, func(t *testing.T) {
			workDir := t.TempDir()
			write := func(rel, content string) {
				p := filepath.Join(workDir, rel)
				os.MkdirAll(filepath.Dir(p), 0755)
				if err := os.WriteFile(p, []byte(content), 0644); err != nil {
					t.Fatal(err)
				}
			}
			write("credentials", "* admin "+fixC17Secret+"\n")
			write(".netspoc-approve", fmt.Sprintf(
				"basedir = %s\ncheckbanner = NetSPoC\nsystemuser = admin\ntimeout = 2\n",
				workDir))
			write("code/router", "")
			write("code/router.info",
				`{"model":"IOS","name_list":["router"],"ip_list":["10.1.13.33"]}`)
			logDir := filepath.Join(workDir, "log")

			cmd := exec.Command(drcBin, "-L", logDir, "code/router")
			cmd.Dir = workDir
			var env []string
			for _, e := range os.Environ() {
				if strings.HasPrefix(e, "NETSPOC_APPROVE_TRACE=") ||
					strings.HasPrefix(e, "SIMULATE_ROUTER=") ||
					strings.HasPrefix(e, "HOME=") {
					continue
				}
				env = append(env, e)
			}
			env = append(env, "HOME="+workDir, "SIMULATE_ROUTER=perl "+sim)
			if trace != "" {
				env = append(env, "NETSPOC_APPROVE_TRACE="+trace)
			}
			cmd.Env = env
			var stdout, stderr bytes.Buffer
			cmd.Stdout = &stdout
			cmd.Stderr = &stderr
			// Enable mode cannot be entered: the run has to fail with a diagnostic.
			if err := cmd.Run(); err == nil {
				t.Fatalf("drc succeeded although enable mode is not available")
			}
			if !strings.Contains(stdout.String()+stderr.String(), "Authentication for enable mode failed") {
				t.Fatalf("unexpected diagnostic:\n%s%s", stdout.String(), stderr.String())
			}
			// The session must really have taken place.
			login, err := os.ReadFile(filepath.Join(logDir, "router.login"))
			if err != nil || !bytes.Contains(login, []byte("% No password set")) {
				t.Fatalf("no proper login session: %v\n%s", err, login)
			}

			// Scan stdout, stderr and all files for the secret.
			check := func(where string, data []byte) {
				if i := bytes.Index(data, []byte(fixC17Secret)); i >= 0 {
					start := bytes.LastIndexByte(data[:i], '\n') + 1
					end := i + len(fixC17Secret)
					if j := bytes.IndexByte(data[end:], '\n'); j >= 0 {
						end += j
					} else {
						end = len(data)
					}
					t.Errorf("password found in %s: %s", where, data[start:end])
				}
			}
			check("stdout", stdout.Bytes())
			check("stderr", stderr.Bytes())
			filepath.Walk(workDir, func(p string, fi os.FileInfo, err error) error {
				if err != nil || fi.IsDir() {
					return nil
				}
				rel, _ := filepath.Rel(workDir, p)
				if rel == "credentials" {
					return nil
				}
				data, _ := os.ReadFile(p)
				check("file "+rel, data)
				return nil
			})
		})
	}
}
