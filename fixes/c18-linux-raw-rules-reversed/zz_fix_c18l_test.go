package approve_test

// Demonstration for the defect repaired by "fix: keep order of raw rules when merged into a
// Linux chain".  (*linux.config).MergeSpoc inserted the raw rules of a chain one by one: every rule
// without [APPEND] at index 0, so two or more of them came out in reversed order, and every
// [APPEND] rule in front of the trailing DROP lines as they stood at that moment, so an
// appended DROP rule followed by an appended non-DROP rule were swapped, and an [APPEND] rule
// could land inside the raw rules in front when those end in a DROP.  iptables is first match:
// a reversed order changes what is filtered.
//
// The target is printed by "drc -q EMPTY-DEVICE code/router" (the whole rule set is shown when
// the device has no table).  Checked: the rules of chain INPUT in the printed target are
// raw rules in their order, Netspoc rules, [APPEND] rules in their order, trailing DROP.
//
// Intended path: go/test/zz_fix_c18l_test.go ; run: go test -vet=off -count=1 -run TestFixC18LinuxRawOrder ./test/

import (
	"os"
	"path"
	"strings"
	"testing"

	"github.com/hknutzen/Netspoc-Approve/go/pkg/drc"
	"github.com/hknutzen/Netspoc-Approve/go/test/capture"
)

func fixC18lTarget(t *testing.T, netspoc, raw string) []string {
	t.Helper()
	dir := t.TempDir()
	prev, _ := os.Getwd()
	defer os.Chdir(prev)
	os.Chdir(dir)
	os.MkdirAll("code", 0755)
	os.WriteFile("device", nil, 0644)
	os.WriteFile(path.Join("code", "router"), []byte(netspoc), 0644)
	os.WriteFile(path.Join("code", "router.raw"), []byte(raw), 0644)
	os.WriteFile(path.Join("code", "router.info"),
		[]byte(`{"model":"Linux","name_list":["router"],"ip_list":["10.1.13.33"]}`), 0644)
	os.Args = []string{"drc", "-q", "device", path.Join("code", "router")}
	var stdout string
	var status int
	stderr := capture.Capture(&os.Stderr, func() {
		stdout = capture.Capture(&os.Stdout, func() {
			status = capture.CatchPanic(func() int { return drc.Main() })
		})
	})
	if status != 0 {
		t.Fatalf("drc failed with status %d: %s", status, stderr)
	}
	var rules []string
	for _, l := range strings.Split(stdout, "\n") {
		if strings.HasPrefix(l, "-A INPUT ") {
			rules = append(rules, strings.TrimPrefix(l, "-A INPUT "))
		}
	}
	return rules
}

func TestFixC18LinuxRawOrder(t *testing.T) {
	netspoc := `*filter
:INPUT DROP
-A INPUT -s 10.0.6.0/24 -j ACCEPT
-A INPUT -j DROP
`
	for _, sc := range []struct {
		title, raw string
		want      []string
	}{
		{"three raw rules in front",
			`*filter
:INPUT DROP
-A INPUT -s 10.9.9.9/32 -j ACCEPT
-A INPUT -s 10.9.9.0/24 -j DROP
-A INPUT -s 10.9.0.0/16 -j ACCEPT
`,
			[]string{"-s 10.9.9.9/32 -j ACCEPT", "-s 10.9.9.0/24 -j DROP", "-s 10.9.0.0/16 -j ACCEPT",
				"-s 10.0.6.0/24 -j ACCEPT", "-j DROP"}},
		{"appended DROP followed by appended ACCEPT",
			`*filter
:INPUT DROP
[APPEND]
-A INPUT -s 10.8.8.8/32 -j DROP
-A INPUT -s 10.8.8.0/24 -j ACCEPT
`,
			[]string{"-s 10.0.6.0/24 -j ACCEPT", "-s 10.8.8.8/32 -j DROP", "-s 10.8.8.0/24 -j ACCEPT", "-j DROP"}},
		{"raw rules in front end in DROP, Netspoc chain only drops",
			`*filter
:INPUT DROP
-A INPUT -s 10.9.9.9/32 -j ACCEPT
-A INPUT -s 10.9.9.0/24 -j DROP
[APPEND]
-A INPUT -s 10.8.8.8/32 -j ACCEPT
`,
			nil},
		{"control: one rule in front, one appended",
			`*filter
:INPUT DROP
-A INPUT -s 10.9.9.9/32 -j ACCEPT
[APPEND]
-A INPUT -s 10.8.8.8/32 -j ACCEPT
`,
			[]string{"-s 10.9.9.9/32 -j ACCEPT", "-s 10.0.6.0/24 -j ACCEPT", "-s 10.8.8.8/32 -j ACCEPT", "-j DROP"}},
	} {
		t.Run(sc.title, func(t *testing.T) {
			ns := netspoc
			want := sc.want
			if want == nil {
				ns = "*filter\n:INPUT DROP\n-A INPUT -j DROP\n"
				want = []string{"-s 10.9.9.9/32 -j ACCEPT", "-s 10.9.9.0/24 -j DROP", "-s 10.8.8.8/32 -j ACCEPT", "-j DROP"}
			}
			got := fixC18lTarget(t, ns, sc.raw)
			if strings.Join(got, "\n") != strings.Join(want, "\n") {
				t.Errorf("chain INPUT of the target is\n  %s\nexpected\n  %s", strings.Join(got, "\n  "), strings.Join(want, "\n  "))
			}
		})
	}
}
