package approve_test

// Demonstration for the defect repaired by "fix: object-group from raw may be referenced by
// multiple ACL lines from raw".  cisco.mergeRefs merges the object a raw command references and
// aborts with "Name clash" when an object of that name is already in the merged configuration.
// The second raw ACL line that uses the same raw object-group found the group merged by the
// first line and was taken for a clash: a raw file with `object-group g1` used in two ACL lines
// was rejected as a whole.
//
// Checked with "drc -q DEVICE code/router" (device: two interfaces, nothing else): status 0,
// the group is transferred once, every raw line once.  Controls: a raw group with the name of a
// group from Netspoc is still a clash, and a raw ACL bound twice is still an error.
//
// Intended path: go/test/zz_fix_c18g_test.go ; run: go test -vet=off -count=1 -run TestFixC18RawGroupShared ./test/

import (
	"os"
	"path"
	"strings"
	"testing"

	"github.com/hknutzen/Netspoc-Approve/go/pkg/drc"
	"github.com/hknutzen/Netspoc-Approve/go/test/capture"
)

func fixC18gDrc(t *testing.T, netspoc, raw string) (int, string, string) {
	t.Helper()
	dir := t.TempDir()
	prev, _ := os.Getwd()
	defer os.Chdir(prev)
	os.Chdir(dir)
	os.MkdirAll("code", 0755)
	os.WriteFile("device", []byte("interface Ethernet0/0\n nameif inside\ninterface Ethernet0/1\n nameif outside\n"), 0644)
	os.WriteFile(path.Join("code", "router"), []byte(netspoc), 0644)
	os.WriteFile(path.Join("code", "router.raw"), []byte(raw), 0644)
	os.WriteFile(path.Join("code", "router.info"),
		[]byte(`{"model":"ASA","name_list":["router"],"ip_list":["10.1.13.33"]}`), 0644)
	os.Args = []string{"drc", "-q", "device", path.Join("code", "router")}
	var stdout string
	var status int
	stderr := capture.Capture(&os.Stderr, func() {
		stdout = capture.Capture(&os.Stdout, func() {
			status = capture.CatchPanic(func() int { return drc.Main() })
		})
	})
	return status, stdout, stderr
}

func TestFixC18RawGroupShared(t *testing.T) {
	netspoc := "access-list inside_in extended permit ip host 10.0.0.1 any4\naccess-group inside_in in interface inside\n"
	group := "object-group network g1\n network-object host 1.1.1.1\n"
	t.Run("group used by two lines of a raw ACL", func(t *testing.T) {
		status, out, errs := fixC18gDrc(t, netspoc, group+
			"access-list inside_in extended permit tcp object-group g1 any4 eq 80\n"+
			"access-list inside_in extended permit tcp object-group g1 any4 eq 443\n"+
			"access-group inside_in in interface inside\n")
		if status != 0 {
			t.Fatalf("status %d: %s", status, errs)
		}
		if n := strings.Count(out, "object-group network g1"); n != 1 {
			t.Errorf("group transferred %d times:\n%s", n, out)
		}
		for _, port := range []string{"eq 80", "eq 443"} {
			if strings.Count(out, port) != 1 {
				t.Errorf("raw line with %q not exactly once:\n%s", port, out)
			}
		}
	})
	t.Run("group used twice in a line and by a second raw ACL", func(t *testing.T) {
		status, out, errs := fixC18gDrc(t, netspoc, group+
			"access-list inside_in extended permit tcp object-group g1 object-group g1 eq 443\n"+
			"access-list outside_in extended permit tcp object-group g1 any4 eq 22\n"+
			"access-group inside_in in interface inside\n"+
			"access-group outside_in in interface outside\n")
		if status != 0 {
			t.Fatalf("status %d: %s", status, errs)
		}
		if n := strings.Count(out, "object-group network g1"); n != 1 {
			t.Errorf("group transferred %d times:\n%s", n, out)
		}
		if strings.Count(out, "eq 443") != 1 || strings.Count(out, "eq 22") != 1 {
			t.Errorf("raw lines not exactly once:\n%s", out)
		}
	})
	t.Run("control: raw group with the name of a Netspoc group", func(t *testing.T) {
		ns := "object-group network g1\n network-object host 2.2.2.2\n" +
			"access-list inside_in extended permit ip object-group g1 any4\naccess-group inside_in in interface inside\n"
		status, _, errs := fixC18gDrc(t, ns, group+
			"access-list inside_in extended permit tcp object-group g1 any4 eq 80\n"+
			"access-group inside_in in interface inside\n")
		if status == 0 || !strings.Contains(errs, "Name clash for 'object-group g1' from raw") {
			t.Errorf("status %d, stderr %q", status, errs)
		}
	})
	t.Run("control: raw ACL bound twice", func(t *testing.T) {
		status, _, errs := fixC18gDrc(t, "", "access-list in_out extended permit ip any4 host 10.0.6.1\n"+
			"access-group in_out in interface inside\naccess-group in_out out interface inside\n")
		if status == 0 || !strings.Contains(errs, "Name clash for 'access-list in_out' from raw") {
			t.Errorf("status %d, stderr %q", status, errs)
		}
	})
}
