package approve_test

// Demonstration for property C19 (policy database): at most one
// newpolicy.sh works on the database at a time, also when the nightly
// cron job delete-old-policies runs while a compile is in progress.
//
// Intended path: go/test/zz_demo_test.go
// Run: cd go && go test -vet=off -count=1 -run TestFixC19PolicyLockSurvivesCron ./test/

import (
	"fmt"
	"os"
	"os/exec"
	"path/filepath"
	"strings"
	"syscall"
	"testing"
	"time"
)

func zfRun(t *testing.T, wd string, name string, args ...string) string {
	t.Helper()
	cmd := exec.Command(name, args...)
	cmd.Dir = wd
	out, err := cmd.CombinedOutput()
	if err != nil {
		t.Fatalf("%s %v: %v\n%s", name, args, err, out)
	}
	return string(out)
}

func zfWrite(t *testing.T, file, data string, mode os.FileMode) {
	t.Helper()
	if err := os.WriteFile(file, []byte(data), mode); err != nil {
		t.Fatal(err)
	}
}

func zfExists(p string) bool {
	_, err := os.Lstat(p)
	return err == nil
}

func zfWaitFor(t *testing.T, what string, cond func() bool) {
	t.Helper()
	for i := 0; i < 2000; i++ {
		if cond() {
			return
		}
		time.Sleep(10 * time.Millisecond)
	}
	t.Fatalf("timeout waiting for %s", what)
}

func TestFixC19PolicyLockSurvivesCron(t *testing.T) {
	for _, tool := range []string{"git", "flock", "bash", "find"} {
		if _, err := exec.LookPath(tool); err != nil {
			t.Skipf("%s not available", tool)
		}
	}
	approveBin, _ := filepath.Abs("../../bin")
	goDir, _ := filepath.Abs("..")
	dir := t.TempDir()
	myBin := filepath.Join(dir, "my-bin")
	os.Mkdir(myBin, 0700)
	// The real config reader of the project
	// (built before HOME is changed, because of the Go caches).
	zfRun(t, goDir, "go", "build", "-o",
		filepath.Join(myBin, "get-netspoc-approve-conf"),
		"./cmd/get-netspoc-approve-conf")

	t.Setenv("HOME", dir)
	t.Setenv("PATH",
		fmt.Sprintf("%s:%s:%s", myBin, approveBin, os.Getenv("PATH")))

	// Stand-in for the Netspoc compiler: "compiles" file 'topology'
	// into code/device, fails on BAD_SYNTAX, and records in file
	// 'violations' if two compilers are active at the same time.
	// While file do-wait is locked, it stays inside the compile.
	zfWrite(t, filepath.Join(myBin, "netspoc"), fmt.Sprintf(`#!/bin/bash
D=%s
mkdir $D/compiler-active 2>/dev/null || echo "two compilers active" >>$D/violations
flock $D/do-wait -c true
status=0
if grep -q BAD_SYNTAX $1/topology; then
   echo "Error: bad syntax" >&2; echo Aborted >&2; status=1
else
   mkdir -p $2 && cp $1/topology $2/device
fi
rmdir $D/compiler-active 2>/dev/null
exit $status
`, dir), 0700)
	zfWrite(t, filepath.Join(myBin, "mail"), fmt.Sprintf(`#!/bin/sh
{ echo mail "$@"; cat; echo --END--; } >> %s/mail
`, dir), 0700)

	// Netspoc repository and a working copy of some user.
	zfRun(t, dir, "git", "config", "--global", "user.name", "System User")
	zfRun(t, dir, "git", "config", "--global", "user.email", "")
	zfRun(t, dir, "git", "config", "--global", "init.defaultBranch", "master")
	zfRun(t, dir, "git", "config", "--global", "pull.rebase", "true")
	bare := filepath.Join(dir, "netspoc.git")
	work := filepath.Join(dir, "netspoc")
	zfRun(t, dir, "git", "init", "--quiet", "--bare", bare)
	zfRun(t, dir, "git", "clone", "--quiet", bare, work)
	zfRun(t, work, "git", "config", "--local", "user.name", "Test User")
	zfRun(t, work, "git", "config", "--local", "user.email", "user@example.com")
	commit := func(topology string) {
		zfRun(t, work, "git", "pull", "--quiet")
		zfWrite(t, filepath.Join(work, "topology"), topology, 0644)
		zfRun(t, work, "git", "add", "--all")
		zfRun(t, work, "git", "commit", "--quiet", "-m", "test")
		zfRun(t, work, "git", "push", "--quiet", "origin", "master")
	}
	zfWrite(t, filepath.Join(work, "topology"), "network:n1 = {}\n", 0644)
	zfRun(t, work, "git", "add", "--all")
	zfRun(t, work, "git", "commit", "--quiet", "-m", "initial")
	zfRun(t, work, "git", "push", "--quiet", "origin", "master")

	// Base directory of an installation that is older than 'keep_history'
	// (default 365 days): the lock file was created 400 days ago.
	for _, d := range []string{"policies", "history", "status", "lock"} {
		os.Mkdir(filepath.Join(dir, d), 0700)
	}
	zfWrite(t, filepath.Join(dir, ".netspoc-approve"), fmt.Sprintf(`
basedir = %s
netspoc_git = file://%s
admin_emails = admin1@example.com
`, dir, bare), 0600)
	lock := filepath.Join(dir, "policies/LOCK")
	zfWrite(t, lock, "", 0644)
	old := time.Now().Add(-400 * 24 * time.Hour)
	os.Chtimes(lock, old, old)
	zfWrite(t, filepath.Join(dir, "do-wait"), "", 0644)

	// Day-to-day use: a commit is processed.
	out := zfRun(t, dir, "newpolicy")
	if !strings.Contains(out, "Current policy is p1") {
		t.Fatalf("first run: %s", out)
	}

	// Nothing is committed for more than keep_history days:
	// the lock file keeps the time of the last processing.
	os.Chtimes(lock, old, old)

	// Next commit; the compile takes a while.
	commit("network:n1 = {} # changed\n")
	waitFH, _ := os.OpenFile(filepath.Join(dir, "do-wait"), os.O_RDONLY, 0)
	syscall.Flock(int(waitFH.Fd()), syscall.LOCK_EX)
	released := false
	release := func() {
		if !released {
			released = true
			waitFH.Close()
		}
	}
	defer release()
	jobA := exec.Command("newpolicy.sh")
	if err := jobA.Start(); err != nil {
		t.Fatal(err)
	}
	defer func() { release(); jobA.Wait() }()
	zfWaitFor(t, "first newpolicy.sh to reach the compiler", func() bool {
		return zfExists(filepath.Join(dir, "compiler-active"))
	})

	// Nightly cron job runs during the compile.
	zfRun(t, dir, "delete-old-policies")

	// Another commit arrives and newpolicy is invoked for it,
	// while the first invocation still holds the lock.
	commit("network:n1 = {} # changed twice\n")
	jobB := exec.Command("newpolicy.sh")
	if err := jobB.Start(); err != nil {
		t.Fatal(err)
	}
	doneB := make(chan error, 1)
	go func() { doneB <- jobB.Wait() }()
	var errB error
	finishedB := false
	zfWaitFor(t, "second newpolicy.sh", func() bool {
		select {
		case errB = <-doneB:
			finishedB = true
			return true
		default:
			return zfExists(filepath.Join(dir, "violations"))
		}
	})
	release()
	jobA.Wait()
	if !finishedB {
		errB = <-doneB
	}

	if !finishedB {
		t.Errorf("second newpolicy.sh did not stop at the lock, " +
			"it worked on the database while the first one was compiling")
	} else if ee, ok := errB.(*exec.ExitError); !ok || ee.ExitCode() != 1 {
		t.Errorf("second newpolicy.sh: expected exit status 1 "+
			"(already running), got %v", errB)
	}
	if data, err := os.ReadFile(filepath.Join(dir, "violations")); err == nil {
		t.Errorf("mutual exclusion violated: %s", data)
	}
	if !zfExists(lock) {
		t.Errorf("policies/LOCK was removed while it was held")
	}
	link, _ := os.Readlink(filepath.Join(dir, "policies/current"))
	if link != "p2" {
		t.Errorf("current -> %q, expected p2", link)
	}
	got, _ := os.ReadFile(filepath.Join(dir, "policies", link, "code/device"))
	if string(got) != "network:n1 = {} # changed\n" {
		t.Errorf("policy %s does not hold the revision compiled by the first invocation: %q", link, got)
	}
	entries, _ := filepath.Glob(filepath.Join(dir, "policies/*"))
	t.Logf("policies: %v", entries)
}
