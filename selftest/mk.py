#!/usr/bin/env python3
"""mk.py NAME PROPS EXPECT FILE OLD NEW [FILE OLD NEW ...] — creates selftest/mutants/NAME.patch
replacing the first occurrence of OLD by NEW in /repo/<FILE> (relative to HEAD)."""
import sys, subprocess, difflib, os
name, props, expect = sys.argv[1:4]
rest = sys.argv[4:]
out = "# property: %s\n" % props
for e in expect.split(";;"):
    if e: out += "# expect: %s\n" % e
for i in range(0, len(rest), 3):
    f, old, new = rest[i:i+3]
    src = subprocess.run(["git", "-C", "/repo", "show", "HEAD:" + f], capture_output=True, text=True, check=True).stdout
    if old not in src:
        sys.exit("OLD not found in " + f)
    dst = src.replace(old, new, 1)
    out += "".join(difflib.unified_diff(src.splitlines(True), dst.splitlines(True), "a/" + f, "b/" + f))
open(os.path.join(os.path.dirname(os.path.abspath(__file__)), "mutants", name + ".patch"), "w").write(out)
print("wrote", name)
